#!/usr/bin/env python3
"""Regenerates /verif/MANIFEST.json from the table below and validates it
against /root/.vp/MANIFEST.schema.json (when jsonschema is importable).
Claimed properties are those whose id appears in CLAIMED."""
import json, os, sys

ROOT = os.path.dirname(os.path.dirname(os.path.abspath(__file__)))

ENV = "GOFLAGS=-mod=mod GOPROXY=off GOSUMDB=off GOTOOLCHAIN=local PATH=/opt/veriftools/go1.26.8/bin:$PATH"

# id -> (technique, level text, design ref, level note)
CHECKS = {
 "C18": ("SSA must-pass-through and error-discipline analysis of main.go and tree.Compile (go/ssa) with flow-sensitive value tracking, flag-to-parameter wiring and destination value shapes by resolved objects; abstract evaluation of main by the Go-subset interpreter on modelled command lines with the flag package, the files, the front end and Compile as recording natives that fail on demand",
         "Decides a structural condition that is necessary and, for the error sources that exist in main.go, sufficient: every non-nil error on the input→parse→compile→output path reaches a non-zero exit on every CFG path; a nil error is only returned after printer.Fprint(out) succeeded; flags reach the parameter of the same meaning; the opened files are the grammar argument and -output or <grammar>.go. R-cli-semantics additionally evaluates main on 14 command lines x up to 8 injected failures (success, syntax error, generation failure, read failure, unopenable grammar, unopenable destination, no file writable, moving a file fails), following renames and removals: exit status 0 exactly when the text Compile wrote is at the requested destination when main ends and Compile returned nil; source, destination (create+truncate), tree.New arguments and Strict as the command line says. 'other': static path properties of the CLI source plus bounded evaluation on a model environment, not runs of the binary.",
         "DESIGN.md §4 C18",
         "Trusts go/ssa's CFG of main.go; assumes os.Exit(≠0)/log.Fatal/panic terminate with non-zero status and that bytes.Buffer writes cannot fail; does not cover OS behaviour after Fprint returned nil."),
 "C16": ("abstract evaluation of set/set.go's source by a Go-subset interpreter on every insertion history of bounded length over a small universe, made representative by a structural order-invariance rule on the typed syntax (code points are only compared, copied and stepped by one); path-sensitive nil-guard analysis of the two sentinel links and pointer-origin (freshness) analysis of every store, on go/ssa",
         "Decides, for every history of at most 3 insertions (pairs: at most 2 each) and — by order-invariance — for any code points with the same order/adjacency pattern, that Has, Len, String, Copy, Complement, Union, Intersects and Equal return what the set of integers gives and dereference no nil pointer; and, for sets of any size, that the sentinel links are never dereferenced unguarded and operands are never modified. Inverted ranges, Complement limits below the largest element, full-range intervals and small sets at the int32 limit (Len, Has, String; sized integers wrap in the interpreter) are part of the evaluation; a call that gives no result within 20000 statements is reported as non-termination. Not decided: longer histories (induction over the interval list); negative code points.",
         "DESIGN.md §4 C16",
         "Trusts go/ssa and the interpreter (interp.go); the enumeration is bounded in history length, not in the values."),
 "C09": ("interprocedural mod/ref (write/read set) disjointness of the fork-join closures over go/ssa with a field-based location abstraction; must-pass-through join check; global-store and nondeterminism-source search over the reachable call graph; evaluation of the emitter under five spellings of the program name (R-generator-line)",
         "Decides that the two analysis goroutines share no written location (sound under the over-approximating field-based abstraction), that the spawner joins before touching their results, that no package-level state is written at run time and that no source of run-to-run variation (map iteration, select, clock, randomness, environment, pointer formatting) is reachable from Compile, the builder API or main. These are the structural conditions that make generation a pure function; byte-identity itself is not observed.",
         "DESIGN.md §4 C09",
         "Trusts go/ssa and the library effect table (effects.go); assumes text/template, go/parser and go/printer are deterministic; object-insensitive: may over-report, cannot under-report for the stated obligations."),
 "C12": ("template instantiation under all 2^5 boolean valuations (text/template/parse walk) + go/ssa: interprocedural write sets of Init's closures vs must-assignment in reset; path simulation of the sentinel; AST bound check of token-buffer reads; unification of the U-typed variables, fields and parameters into flow classes (R-U-offsets); abstract evaluation (E5) of Init's closures by the Go-subset interpreter on scripted parses of a used versus a fresh instance",
         "Decides that every per-parse variable any closure can write is re-initialised by reset on every path from state-independent values, that the one exception (token buffer) is never read beyond tokenIndex, that reset re-derives buffer and sentinel from Buffer, that parse republishes the token buffer and Size only affects capacity, that no offset is narrowed, and that every stepped quantity of the offset type U belongs to the cursor's class (no derivation-sized counter is kept in U, so the result does not depend on U while the input fits it). Sufficient structural conditions for 'Reset+Parse = fresh parser'. In addition R-reuse-semantics evaluates Init/reset/parse/add on 11 input pairs (long then short, success and failure, a backtracked branch that wrote more tokens, the empty input; Size option absent/0/1/2/64) and compares every closure variable after Reset and verdict, published tokens, error token after Parse with a fresh instance and with the definition.",
         "DESIGN.md §4 C12",
         "Trusts text/template/parse, go/types, go/ssa and the instantiator's model data (names only); the emitted rule functions are represented by a synthetic rule function here and by E1/E2 output in C01/C08."),
 "C14": ("store/address-of search over go/ssa of every template instantiation and peg.peg.go; type-shape check of package-level variables",
         "Decides instance confinement: no generated function writes a package-level variable and the only package-level variables are reference-free value tables read by element load, so two parser instances share no mutable location (sufficient for race freedom and independence, user code excluded).",
         "DESIGN.md §4 C14",
         "Trusts go/ssa; Go closure semantics (fresh captured variables per Init call); user state/actions excluded by the property."),
 "C06": ("go/ssa rules on memoize/memoizedResult/add of every AST-enabled template instantiation and peg.peg.go: key provenance, value origin (fresh copy), ordered-effects check of the replay path, dominance by the strict furthest-token comparison and by the DisableMemoize test; abstract evaluation (E5) of memoize/memoizedResult/add by the Go-subset interpreter on scripted rule bodies: memo hit versus re-run",
         "Decides the structural conditions that make a memo hit equal to a re-run (key = (rule, begin); verdict and tokens stored faithfully; tokens copied; replay splices/advances/sets position in order; furthest-error token only moves strictly forward so replays cannot change it; memoisation can be switched off; table re-made by reset). With deterministic rules these are sufficient; the wrapper half is decided by E2. In addition R-memo-semantics evaluates the closures on 300+ scenarios (rule start, earlier tokens, five rule bodies incl. empty matches, four intervening branches that overwrite/extend the token buffer, success and failure) and compares position, tokenIndex, the live tokens and the furthest token after a memo hit with those after re-running the rule.",
         "DESIGN.md §4 C06",
         "Trusts go/ssa and the template instantiator; assumes no side-effecting predicates (excluded by the property)."),
 "C11": ("go/ssa rules on parse/add/memoizedResult/translatePositions/Error of every template instantiation and peg.peg.go (dominance of return-nil by the entry rule's success, dominance of maxToken stores by the strict-further and non-empty tests, cursor invariant of translatePositions decided with a ==/!= union-find over dominating branch facts, whole-buffer argument rule, no-string-indexing rule) plus abstract evaluation (E5) of the instantiated source of translatePositions and parseError.Error by the Go-subset interpreter on every short text over {newline, other, multi-byte, quote} and every token begin ≤ end ≤ len; evaluation of parse/reset/Error on histories of one parser (R-error-stable)",
         "Decides verdict mapping, the furthest-first-token rule, that both offsets of the error are translated, and — for every text up to the evaluated length, hence by order-invariance of the code (runes are only compared with newline, offsets with each other) for the patterns they represent — that the message carries the definitional 1-based line/column of both ends, quotes exactly the runes between them and is produced without a panic, empty input and end-of-input included; and that an error value kept while its parser goes on to a shorter, longer or empty input gives the same message afterwards (twelve histories). Bounded in text length.",
         "DESIGN.md §4 C11",
         "Trusts go/ssa, the fact engine in pathfacts.go, the template instantiator and the interpreter; assumes C13's in-bounds invariant."),
 "C05": ("abstract evaluation (E5) of the instantiated source of tokens.AST and node.Print by the Go-subset interpreter on the post-order token list of every derivation shape up to a node bound; go/ssa call-routing and value-shape rules on the printers of every AST-enabled template instantiation and peg.peg.go",
         "Decides, for every derivation shape of at most 5 (thorough 6) nodes — empty and non-empty leaves, gaps before/between/after children, equal parent/child spans — that AST() returns exactly the tree of non-empty tokens with children in input order and that the printer emits one line per node in pre-order with its rule's name and exactly the runes it spans (text with 2/3/4-byte runes); AST() only compares offsets, so the shapes stand for all offsets with the same order pattern. Plus: quoted text is a rune slice, every printer prints AST() with the parser's own Buffer, the adoption test over all orderings. Bounded in derivation size (no induction over arbitrarily deep or wide trees).",
         "DESIGN.md §4 C05",
         "Trusts go/ssa, the instantiator and the interpreter; assumes C03 (post-order token list)."),
 "C01": ("abstract interpretation of the emitter's source (E1) into operator templates on model trees with opaque children; instantiation of the runtime template (E3); disjunctive typestate dataflow on go/cfg of each emitted rule function compared with an independent PEG oracle (E2); the same comparison for grammars given as builder calls and taken through the whole of Compile (R-whole-semantics)",
         "Decides the inductive PEG contract of every operator template under default options: the set of (verdict, final position, order/position of child attempts) the emitted code can produce equals the oracle's, for every expression node type, 1–3 children, all may-fail/never-fail flavours and two-level compositions; plus soundness of the always-succeeds shortcut and agreement of rule constants with the rule table. By structural induction these per-operator facts are necessary and, for well-formed grammars, sufficient.",
         "DESIGN.md §4 C01",
         "Trusts the interpreter's subset (it refuses anything else), go/types, go/cfg, the oracle in spec.go; assumes link's output shape as modelled (cross-checked by evaluating link) and that Go executes the emitted text as Go."),
 "C03": ("same E1/E2/E3 pipeline, token-trace component: symbolic token trace at every exit and every child attempt vs the oracle's post-order trace; go/ssa rules on tokenIndex writers, add/tokens.Add wiring, Trim",
         "Decides that tokenIndex is saved and restored together with position at every backtrack point, own tokens are added after the children's with the entry snapshot as begin, nothing added inside failed alternatives/abandoned iterations/lookaheads survives, and the runtime records/overwrites/trims tokens as the emitted code assumes.",
         "DESIGN.md §4 C03",
         "Assumptions of C01; trusts go/ssa for the runtime half."),
 "C04": ("E1/E2 token-trace equality on models with actions and captures in failing branches, repetitions and lookaheads; evaluation of link's source for action numbering; AST/type rules on Execute of every instantiation",
         "Decides that each action occurrence yields exactly one zero-width token of its own rule, captures add their token after their children, such tokens never survive backtracking, action ids/names/code agree, and Execute replays the token list once in order binding text/begin/end from the capture token only.",
         "DESIGN.md §4 C04",
         "Assumptions of C01/C03; user action code is outside the property."),
 "C07": ("E1/E2 run with and without the AST on the same models: equality of the projected outcome sets (position skeleton), and equality with the oracle extended by inline action/capture events; type-check of the 16 -noast runtime instantiations",
         "Decides that the position/label skeleton of every operator template and of the rule wrapper is independent of the AST switch (plain and -inline), that under -noast an action's code runs exactly once where the token would be added and a capture assigns text from the entry snapshot to the current position, and that all -noast runtime configurations compile.",
         "DESIGN.md §4 C07",
         "Assumptions of C01; -switch combinations are judged by C02."),
 "C08": ("type-checking every operator-template instantiation (E1 text spliced behind the E3 runtime) under {AST,-noast}×{plain,-inline} incl. lexical-context representatives and a 300-rule model; dry/real label-parity observation; evaluation of the rule-type thresholds; SSA dedup rule on t.Imports; constant rule on the gofmt printer configuration (go/format, or the printer mode with number normalisation); whole-Compile evaluation (builder calls → first pass → link → analyses → -inline/-switch → template → emission) of hostile grammars, imports and command lines under the 8 option sets, type-checked",
         "Decides validity of the templates from which every output is assembled: all instantiations parse and type-check, labels marked in the dry pass equal those jumped to in the real pass, rule ids never need the type parameter, the rule constant type has exact thresholds, imports are de-duplicated, and the result is printed with gofmt's full configuration; grammars that spell comment ends and format verbs in literals, lay user code out over several lines, never read the input, import packages under their own name, or come from a command line with a line end, taken through the whole of Compile, type-check (R-whole-compile).",
         "DESIGN.md §4 C08",
         "Trusts go/parser, go/types, go/printer; excludes invalid user Go and reserved identifiers as the property does."),
 "C13": ("E2 guardedness flags (every position++ preceded on its path by a successful test excluding endSymbol) on the model suite under default/-noast/-inline; go/ssa dominance rules on matchDot/matchString; path simulation of reset's sentinel, backed by small-scope evaluation of Init/reset on inputs with NUL, astral runes and adjacent invalid bytes (R-buffer-semantics); evaluation of matchDot/matchString at every position incl. the end symbol; index-site and no-string-indexing rules",
         "Decides the inductive in-bounds invariant of position (sentinel re-established by reset and outside the rune range; advances only after a guarded test; otherwise snapshots; buffer indexed only at position/the literal cursor; offsets index runes). -switch configurations are judged by C02.",
         "DESIGN.md §4 C13",
         "Children keep the invariant (induction); termination/stack depth not decided."),
 "C02": ("abstract interpretation of optimizeAlternates (FIRST sets as mathematical sets) and of the emitter on model grammars; E2 typestate analysis of the code emitted for the rewritten tree compared with the PEG oracle evaluated on the unrewritten twin; the (must-consume, FIRST) answer the rewriting pass works with (the last one per node) compared with the PEG definition, recursive and mutually recursive rules included; outcomes compared per class of inputs (what each path learnt about the runes it tested); the same for -inline against the oracle with single-use rules replaced by their bodies",
         "Decides the soundness conditions of both optimisations: a switched choice produces exactly the verdicts, consumed prefixes, tokens and successful attempts of the ordered choice for every hop through which the skip-first-test flag travels (terminals and opaque children with declared FIRST sets), choices with nullable alternatives stay ordered, FIRST sets are never too small, labels agree between the dry and the real pass, inlined uses equal calls and never reach a nil entry. Necessary conditions which, with C01, are sufficient for well-formed grammars; no two parsers are run.",
         "DESIGN.md §4 C02",
         "Assumptions of C01; opaque children with a declared FIRST set fail outside it; set arithmetic is modelled mathematically (setmodel.go), not taken from package set."),
 "C15": ("abstract interpretation of the generator's front half and diagnostics (builder API, first pass, link, reachability count, left-recursion walk, emission loop) on model grammars with opaque sub-expressions, (the diagnostics being what the tree's error field holds when the evaluation of Compile ends) compared with a PEG oracle for undefined/unused/left-recursive rules on hand-written and seeded random grammars whose leaves include predicates, actions and empty literals; evaluation of the -strict tail for Strict x 0/1/2 warnings; path-fact rule on Compile's SSA for -strict",
         "Decides that the warnings the generator's source produces on a catalogue covering every operator on the left edge, nullable prefixes, indirect/unreachable cycles, stubs, unused chains and duplicate definitions are exactly the oracle's sets, that duplicates are diagnosed rather than crashing, and that Strict turns any warning into a returned error before anything is written. Exactness beyond the catalogue follows from the walkers being structural (one case per operator).",
         "DESIGN.md §4 C15",
         "Trusts the interpreter and the oracle in c15.go; the CLI half is C18; builder calls as in peg.peg (C10)."),
 "C10": ("differential evaluation of peg.peg as data (PEG semantics with actions on the successful derivation; recorded builder calls executed on the builder's source by the Go-subset interpreter) against an independent reader written from the documentation, on a construct corpus plus every short string over the token alphabet and on whole grammar files; builder stack-effect type system over peg.peg (least-fixpoint typing); string-level comparison of lexical rules over small alphabets; evaluation of the numeric decoders, the case-folding builders, Compile's import pass and the template's formatImport literal",
         "Decides that documented expression syntax (every construct, escape, quoting style, class form, operator, precedence combination, spacing/comment spelling; every string of at most 3/4 token characters) is accepted and built into the documented tree, that malformed text is rejected (expressions and whole files incl. trailing garbage), that imports keep alias and path, action text is brace-balanced, every rule of peg.peg has one net builder stack effect and never underflows. Bounded: corpus + enumerated lengths. Not decided: that peg.peg.go is the output for peg.peg (TestSame); behaviour of the built tree (C01).",
         "DESIGN.md §4 C10",
         "Trusts pegreader.go (the documented syntax; its choices for spellings the documentation leaves open are marked 'unspecified' and skipped), the PEG evaluator in c10c.go, the interpreter for the builder, C04 (actions replay in derivation order)."),
}

NOT_APPLICABLE = {
 "C17": "byte-identical output of a six-stage bootstrap run and agreement of regenerated front ends on all grammar texts are values of executions; the only structural part (peg.peg.go is the emitter's output for peg.peg) is what TestSame executes, and re-deriving it statically would re-implement peg rather than analyse it (DESIGN.md §4 C17)",
}

UNDER_CONSTRUCTION = "static check designed in DESIGN.md §4 but not built yet in this tree; not claimed until its rules exist"

def main():
    props = [json.loads(l)["id"] for l in open(os.path.join(ROOT, "properties.jsonl")) if l.strip()]
    checks, na = [], []
    for pid in props:
        if pid in CHECKS:
            tech, text, ref, note = CHECKS[pid]
            checks.append({
                "property_id": pid,
                "quick_cmd": f"./check {pid} --tier quick",
                "thorough_cmd": f"./check {pid} --tier thorough",
                "evidence_file": f"/verif/evidence/{pid}.json",
                "replay_cmd_template": f"./check {pid} --replay {{path}}",
                "engine": "pegsa",
                "level_claimed": {"category": "other", "text": text, "design_ref": ref},
                "level_note": note,
                "technique": tech,
            })
        elif pid in NOT_APPLICABLE:
            na.append({"property_id": pid, "reason": NOT_APPLICABLE[pid]})
        else:
            na.append({"property_id": pid, "reason": UNDER_CONSTRUCTION})
    m = {
        "version": 1,
        "setup_cmd": f"mkdir -p bin evidence && cd sa && env {ENV} go build -o ../bin/pegsa .",
        "hooks": {
            "guard": "verif",
            "enable": "none needed: pegsa reads /repo's sources (Go, peg.go.tmpl, *.peg) and never builds or runs peg; no hook code exists in /repo",
            "baseline_off_cmd": "cd /repo && go test -json -vet=off -count=1 -timeout 25m ./...",
            "source_commits": [],
            "add_only": True,
        },
        "engines": [{
            "name": "pegsa",
            "path": "sa/",
            "serves_properties": sorted(CHECKS),
            "kind_free_text": "repository-specific static analyser in Go (go/packages, go/types, go/ssa, go/cfg, text/template/parse): SSA/CFG rules on the hand-written code, instantiation of the runtime template under all boolean valuations, abstract interpretation of the emitter into operator templates and typestate dataflow over them, a .peg reader with a builder stack-effect type system",
        }],
        "checks": checks,
        "not_applicable": na,
        "notes": "All checks are static: they read /repo's current working tree on every run and never build or execute peg, a generated parser or the test suite. Violations are reported per obligation (rule|construct) with file:line; undecided obligations (anchor not found, construct not modelled) fail the check. known_findings.json lists recorded genuine defects and the fix: commits made in /repo.",
    }
    out = os.path.join(ROOT, "MANIFEST.json")
    json.dump(m, open(out, "w"), indent=1, ensure_ascii=False)
    open(out, "a").write("\n")
    try:
        import jsonschema
        jsonschema.validate(m, json.load(open("/root/.vp/MANIFEST.schema.json")))
        print("MANIFEST.json valid;", len(checks), "claimed,", len(na), "not claimed")
    except ImportError:
        print("MANIFEST.json written (jsonschema not importable: run with python3-vt to validate)")

if __name__ == "__main__":
    main()
