#!/usr/bin/env python3
"""Regression run over seeded/*: applies each seeded change to a scratch
worktree of /repo's HEAD (peg.peg.go regenerated), runs the checks named in
its meta.json and reports every seed that no check flags any more. Not a
registered command; nothing is written to /repo or to the evidence directory."""
import json, glob, os, subprocess, sys, tempfile, shutil
from concurrent.futures import ThreadPoolExecutor
ROOT = os.path.dirname(os.path.dirname(os.path.abspath(__file__)))
only = sys.argv[1:]

def run(seed):
    name = os.path.basename(seed)
    meta = json.load(open(os.path.join(seed, "meta.json")))
    d = tempfile.mkdtemp(prefix="seedrerun-")
    wt = os.path.join(d, "wt")
    try:
        subprocess.run(["git", "-C", "/repo", "worktree", "add", "-q", "--detach", wt, "HEAD"], check=True, capture_output=True)
        patch = os.path.join(seed, "patch.diff")
        r = subprocess.run(["git", "apply", "--exclude=peg.peg.go", patch], cwd=wt, capture_output=True, text=True)
        if r.returncode != 0:
            r = subprocess.run(["git", "apply", "--3way", "--exclude=peg.peg.go", patch], cwd=wt, capture_output=True, text=True)
            if r.returncode != 0:
                return name, "PATCH DOES NOT APPLY", []
        if subprocess.run(["go", "build", "-o", "peg.bin", "."], cwd=wt, capture_output=True).returncode != 0:
            return name, "BUILD FAILS", []
        ch = subprocess.run(["git", "diff", "--quiet", "HEAD", "--", "tree/peg.go", "tree/peg.go.tmpl", "peg.peg"], cwd=wt).returncode != 0
        if ch:
            for _ in range(2):
                if subprocess.run(["./peg.bin", "-inline", "-switch", "peg.peg"], cwd=wt, capture_output=True).returncode != 0:
                    return name, "REGENERATION FAILS", []
                subprocess.run(["go", "build", "-o", "peg.bin", "."], cwd=wt, capture_output=True)
        os.remove(os.path.join(wt, "peg.bin"))
        hits = []
        env = dict(os.environ, PEGSA_REPO=wt, PEGSA_EVIDENCE=os.path.join(d, "ev"))
        for cid in meta.get("checks_run", [meta["breaks_property"]]):
            r = subprocess.run([os.path.join(ROOT, "check"), cid], env=env, capture_output=True, text=True, errors="replace")
            if r.returncode != 0:
                rules = sorted({l.split()[1] for l in r.stdout.splitlines() if l.startswith("  FAIL") or l.startswith("  UNDEC")})
                hits.append(f"{cid}:{','.join(rules)}")
        return name, "", hits
    finally:
        subprocess.run(["git", "-C", "/repo", "worktree", "remove", "--force", wt], capture_output=True)
        shutil.rmtree(d, ignore_errors=True)

seeds = sorted(glob.glob(os.path.join(ROOT, "seeded", "*")))
seeds = [s for s in seeds if os.path.exists(os.path.join(s, "meta.json")) and (not only or any(o in s for o in only))]
seeds = [s for s in seeds if not json.load(open(os.path.join(s, "meta.json"))).get("obsolete")]
bad = 0
with ThreadPoolExecutor(max_workers=4) as ex:
    for name, err, hits in ex.map(run, seeds):
        meta = json.load(open(os.path.join(ROOT, "seeded", name, "meta.json")))
        expected_miss = meta["detection"].startswith("NOT caught") or meta["detection"].startswith("missed by design")
        if err:
            print(f"ERROR  {name}: {err}"); bad += 1
        elif hits:
            print(f"caught {name}: {' '.join(hits)}")
        elif expected_miss:
            print(f"miss   {name} (recorded as not caught)")
        else:
            print(f"LOST   {name}: no check flags it any more"); bad += 1
sys.exit(1 if bad else 0)
