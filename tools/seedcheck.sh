#!/bin/bash
# tools/seedcheck.sh <seed-dir> <demo-cmd> <property-id>...
# Confirms a seeded change in a scratch worktree of /repo's HEAD (applies
# patch.diff without peg.peg.go, regenerates peg.peg.go, runs the pinned tests,
# runs the demonstration with and without the change) and then runs the named
# checks against the changed tree. Nothing is written to /repo or to the real
# evidence directory. Removes the scratch worktree afterwards.
set -u
seed="$(cd "$1" && pwd)"; demo="$2"; shift 2
label="$(basename "$seed")"; name="${SEEDNAME:-seed${label##*-}}"   # demos refer to themselves as seed1/ seed2/
wt="/tmp/seedcheck-$$"
git -C /repo worktree add -q "$wt" HEAD || exit 2
trap 'git -C /repo worktree remove --force "$wt" >/dev/null 2>&1; rm -rf "$wt" /tmp/seedcheck-ev-$$' EXIT
mkdir -p "$wt/$name" && cp -r "$seed"/. "$wt/$name/"
cd "$wt"
echo "== demo WITHOUT the change"
( eval "$demo" ) >/tmp/seedcheck-ev-$$.clean 2>&1; rc_clean=$?
echo "   exit=$rc_clean"
echo "== applying patch (peg.peg.go excluded, regenerated below)"
git apply --exclude=peg.peg.go "$name/patch.diff" 2>/tmp/seedcheck-ev-$$.apply || git apply --3way --exclude=peg.peg.go "$name/patch.diff" || { cat /tmp/seedcheck-ev-$$.apply; echo "PATCH DOES NOT APPLY"; exit 3; }
go build -o "$wt/peg.bin" . || { echo "BUILD FAILS"; exit 4; }
if ! git diff --quiet HEAD -- tree/peg.go tree/peg.go.tmpl peg.peg; then
  ./peg.bin -inline -switch peg.peg && go build -o "$wt/peg.bin" . && ./peg.bin -inline -switch peg.peg || { echo "REGENERATION FAILS"; exit 5; }
fi
rm -f peg.bin
echo "== pinned tests WITH the change"
go test -count=1 . ./set 2>&1 | tail -3
echo "== demo WITH the change"
( eval "$demo" ) >/tmp/seedcheck-ev-$$.bad 2>&1; rc_bad=$?
echo "   exit=$rc_bad"; tail -5 /tmp/seedcheck-ev-$$.bad
echo "== checks against the changed tree"
for id in "$@"; do
  out=$(PEGSA_REPO="$wt" PEGSA_EVIDENCE=/tmp/seedcheck-ev-$$ /verif/check "$id" 2>&1); rc=$?
  echo "$out" | grep -E "FAIL|UNDEC" | cut -c1-220
  echo "   $id exit=$rc  $(echo "$out" | tail -1 | cut -c1-120)"
done
echo "SUMMARY seed=$label demo_clean=$rc_clean demo_changed=$rc_bad"
