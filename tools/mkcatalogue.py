#!/usr/bin/env python3
"""Rewrites DESIGN.md §9 (which checks catch which changes) from
selftest/variants.json and seeded/*/meta.json."""
import json, glob, os, re
ROOT = os.path.dirname(os.path.dirname(os.path.abspath(__file__)))
v = json.load(open(os.path.join(ROOT, "selftest/variants.json")))
out = []
out.append("## 9. Which checks catch which changes\n")
out.append("Two catalogues, both re-runnable. Neither is part of a registered command: a patch that no longer applies can never turn into an alarm.\n")
out.append("### 9.1 Self-test variants (`python3 selftest/run.py`)\n")
out.append("One-edit variants of `/repo` (applied to a scratch copy under `/tmp`, removed afterwards). A *breaking* variant must make the named check exit 1 with the expected rule in its output; an *equivalent* variant (a behaviour-preserving refactoring) must leave the named checks silent — these guard against the checker being a frozen-shape rule.\n")
out.append("| variant | kind | checks | expected rule(s) |\n|---|---|---|---|")
for x in v:
    kind = "equivalent (must stay silent)" if x.get("silent") else "breaking"
    out.append(f"| {x['name']} | {kind} | {x['property']} | {', '.join(x.get('expect', [])) or '—'} |")
out.append("")
out.append("### 9.2 Seeded changes written by independent sub-agents (`seeded/<id>/`)\n")
out.append("Each sub-agent was given only the text of one property and a scratch git worktree of `/repo` — nothing from `/verif` — and asked for two changes that break the property, still compile and pass the pinned suite, and need something specific to manifest, each with a demonstration. Every change was re-confirmed with `tools/seedcheck.sh` in a fresh scratch worktree of `/repo`'s HEAD (demo passes without the change; patch applied, `peg.peg.go` regenerated, pinned tests pass; demo fails with the change) before the checks were run against it. `seeded/<id>/` holds `patch.diff`, the demonstration, the author's `notes.md` and `meta.json`.\n")
out.append("| seed | property | change | needs | verdict of the checks |\n|---|---|---|---|---|")
for d in sorted(glob.glob(os.path.join(ROOT, "seeded/*/meta.json"))):
    m = json.load(open(d))
    name = os.path.basename(os.path.dirname(d))
    esc = lambda s: s.replace("|", "\\|")
    out.append(f"| {name} | {m['breaks_property']} | {esc(m['change'])} | {esc(m['needs_to_manifest'])} | {esc(m['detection'])} |")
out.append("")
text = "\n".join(out) + "\n"
p = os.path.join(ROOT, "DESIGN.md")
s = open(p).read()
marker = "\n---------------------------------------------------------------------------\n\n## 9. Which checks catch which changes"
i = s.find(marker)
if i >= 0:
    s = s[:i]
s = s.rstrip("\n") + "\n" + marker.replace("## 9. Which checks catch which changes", "") + text
open(p, "w").write(s)
print("DESIGN.md §9 rewritten:", len(v), "variants,", len(glob.glob(os.path.join(ROOT, 'seeded/*/meta.json'))), "seeds")
