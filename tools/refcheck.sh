#!/bin/bash
# tools/refcheck.sh <patch.diff> [ids…]
# Applies a behaviour-preserving refactoring to a scratch worktree of /repo's
# HEAD (peg.peg.go regenerated when the emitter, the template or peg.peg
# changed), runs the pinned tests, then every check (or the named ones)
# against the changed tree. Every check must stay silent: an alarm here is a
# false alarm of the machinery. Nothing is written to /repo or to the real
# evidence directory; the worktree is removed afterwards.
set -u
patch="$(cd "$(dirname "$1")" && pwd)/$(basename "$1")"; shift
ids=("$@"); [ ${#ids[@]} -eq 0 ] && ids=(C01 C02 C03 C04 C05 C06 C07 C08 C09 C10 C11 C12 C13 C14 C15 C16 C18)
wt="/tmp/refcheck-$$"
git -C /repo worktree add -q "$wt" HEAD || exit 2
trap 'git -C /repo worktree remove --force "$wt" >/dev/null 2>&1; rm -rf "$wt" /tmp/refcheck-ev-$$' EXIT
cd "$wt"
git apply --exclude=peg.peg.go "$patch" 2>/tmp/refcheck-ev-$$.apply || git apply --3way --exclude=peg.peg.go "$patch" || { cat /tmp/refcheck-ev-$$.apply; echo "PATCH DOES NOT APPLY"; exit 3; }
go build -o "$wt/peg.bin" . || { echo "BUILD FAILS"; exit 4; }
if ! git diff --quiet HEAD -- tree/peg.go tree/peg.go.tmpl peg.peg; then
  ./peg.bin -inline -switch peg.peg && go build -o "$wt/peg.bin" . && ./peg.bin -inline -switch peg.peg || { echo "REGENERATION FAILS"; exit 5; }
fi
rm -f peg.bin
t=$(go test -count=1 . ./set 2>&1 | tail -3)
echo "$t" | grep -q FAIL && { echo "PINNED TESTS FAIL"; echo "$t"; exit 6; }
alarms=0
for id in "${ids[@]}"; do
  out=$(PEGSA_REPO="$wt" PEGSA_EVIDENCE=/tmp/refcheck-ev-$$ /verif/check "$id" 2>&1); rc=$?
  if [ $rc -ne 0 ]; then
    alarms=$((alarms+1))
    echo "ALARM $id rc=$rc"
    echo "$out" | grep -E -A1 "^  (FAIL|UNDEC)" | cut -c1-400 | head -12
  fi
done
echo "SUMMARY patch=$(basename "$(dirname "$patch")") alarms=$alarms"
