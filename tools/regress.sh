#!/bin/bash
cd "$(dirname "$0")/.."; mkdir -p /tmp/sc
echo "== checks"; for i in C01 C02 C03 C04 C05 C06 C07 C08 C09 C10 C11 C12 C13 C14 C15 C16 C18; do ./check $i > /tmp/o.$i 2>&1; rc=$?; [ $rc -ne 0 ] && echo "$i rc=$rc $(tail -1 /tmp/o.$i | cut -c1-110)"; done
echo "== refactors"
ls -d refactors/*/ | grep -v "obsolete\|limit-" | while read d; do n=$(basename $d); echo $n; done > /tmp/reflist
cat /tmp/reflist | xargs -P 4 -I{} sh -c 'tools/refcheck.sh refactors/{}/patch.diff > /tmp/sc/ref-{}.out 2>&1'
for n in $(cat /tmp/reflist); do echo "$n: $(grep -E "ALARM|SUMMARY|PATCH|BUILD|REGEN|PINNED" /tmp/sc/ref-$n.out | tr '\n' ' ' | cut -c1-160)"; done
echo "== selftest"; python3 selftest/run.py 2>&1 | grep -v "^ok\|^quiet" | cut -c1-250 | head -30
echo "== seeds"; python3 tools/seedrerun.py 2>&1 | grep -v "^caught" | head
echo REGRESS-DONE
