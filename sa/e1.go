package main

// E1 continued: library models (natives), model trees with opaque children,
// and the driver that evaluates the emission region of (*Tree).Compile.

import (
	"fmt"
	"go/ast"
	"go/token"
	"go/types"
	"sort"
	"strconv"
	"strings"
)

func (it *Interp) goValue(v Value) any {
	switch x := v.(type) {
	case int64, string, bool:
		return x
	case *Obj:
		if x == nil {
			return "<nil>"
		}
		// Stringer?
		if named, ok := x.t.(*types.Named); ok {
			ms := types.NewMethodSet(types.NewPointer(named))
			if sel := ms.Lookup(it.pkg, "String"); sel != nil {
				if fd, ok := it.decls[sel.Obj().(*types.Func)]; ok {
					res := it.invoke(fd, &Closure{name: "String", typ: fd.Type, body: fd.Body, lit: fd, decl: fd, env: newEnv(nil), recv: x}, nil)
					if len(res) == 1 {
						return it.goValue(res[0])
					}
				}
			}
		}
		return "<struct>"
	case *Ext:
		return x.desc
	case Nil:
		return nil
	case *Unknown:
		panic(undecided{"an unknown value reaches the output text (" + x.why + ")"})
	}
	return fmt.Sprint(v)
}

func (it *Interp) sprintf(args []Value) string {
	format, ok := args[0].(string)
	if !ok {
		panic(undecided{"format string is not a constant"})
	}
	var gv []any
	for _, a := range args[1:] {
		gv = append(gv, it.goValue(a))
	}
	return fmt.Sprintf(format, gv...)
}

func installNatives(it *Interp) {
	n := it.natives
	n["fmt.Fprintf"] = func(it *Interp, args []Value) []Value {
		if p, ok := args[0].(*Ptr); ok {
			if e, ok := p.cell.v.(*Ext); ok && e.desc == "bytes.Buffer" {
				it.out.WriteString(it.sprintf(args[1:]))
				return []Value{int64(0), Nil{}}
			}
		}
		panic(undecided{"fmt.Fprintf to a writer other than the output buffer"})
	}
	isBuf := func(v Value) bool {
		if p, ok := v.(*Ptr); ok {
			v = p.cell.v
		}
		e, ok := v.(*Ext)
		return ok && e.desc == "bytes.Buffer"
	}
	n["(*bytes.Buffer).WriteString"] = func(it *Interp, args []Value) []Value {
		s, ok := args[1].(string)
		if !isBuf(args[0]) || !ok {
			panic(undecided{"WriteString on something other than the output buffer"})
		}
		it.out.WriteString(s)
		return []Value{int64(len(s)), Nil{}}
	}
	n["(*bytes.Buffer).WriteByte"] = func(it *Interp, args []Value) []Value {
		b, ok := args[1].(int64)
		if !isBuf(args[0]) || !ok {
			panic(undecided{"WriteByte on something other than the output buffer"})
		}
		it.out.WriteByte(byte(b))
		return []Value{Nil{}}
	}
	n["(*bytes.Buffer).WriteRune"] = func(it *Interp, args []Value) []Value {
		r, ok := args[1].(int64)
		if !isBuf(args[0]) || !ok {
			panic(undecided{"WriteRune on something other than the output buffer"})
		}
		it.out.WriteRune(rune(r))
		return []Value{int64(1), Nil{}}
	}
	// strings.Builder: one Go builder per opaque value
	builderOf := func(it *Interp, v Value) *strings.Builder {
		if p, ok := v.(*Ptr); ok {
			v = p.cell.v
		}
		e, ok := v.(*Ext)
		if !ok || e.desc != "strings.Builder" {
			panic(undecided{"strings.Builder method on " + describe(v)})
		}
		if it.builders == nil {
			it.builders = map[*Ext]*strings.Builder{}
		}
		b := it.builders[e]
		if b == nil {
			b = &strings.Builder{}
			it.builders[e] = b
		}
		return b
	}
	n["(*strings.Builder).WriteString"] = func(it *Interp, args []Value) []Value {
		s, _ := args[1].(string)
		builderOf(it, args[0]).WriteString(s)
		return []Value{int64(len(s)), Nil{}}
	}
	n["(*strings.Builder).WriteByte"] = func(it *Interp, args []Value) []Value {
		b, _ := args[1].(int64)
		builderOf(it, args[0]).WriteByte(byte(b))
		return []Value{Nil{}}
	}
	n["(*strings.Builder).WriteRune"] = func(it *Interp, args []Value) []Value {
		r, _ := args[1].(int64)
		builderOf(it, args[0]).WriteRune(rune(r))
		return []Value{int64(1), Nil{}}
	}
	n["(*strings.Builder).Len"] = func(it *Interp, args []Value) []Value {
		return []Value{int64(builderOf(it, args[0]).Len())}
	}
	n["(*strings.Builder).String"] = func(it *Interp, args []Value) []Value {
		return []Value{builderOf(it, args[0]).String()}
	}
	n["(*strings.Builder).Reset"] = func(it *Interp, args []Value) []Value {
		builderOf(it, args[0]).Reset()
		return nil
	}
	n["(*strings.Builder).Grow"] = func(it *Interp, args []Value) []Value { return nil }
	n["(error).Error"] = func(it *Interp, args []Value) []Value {
		if e, ok := args[0].(*Ext); ok {
			return []Value{strings.TrimPrefix(e.desc, "error: ")}
		}
		panic(undecided{"Error() of " + describe(args[0])})
	}
	n["fmt.Sprintf"] = func(it *Interp, args []Value) []Value { return []Value{it.sprintf(args)} }
	n["fmt.Errorf"] = func(it *Interp, args []Value) []Value {
		// %w wraps an error: the message is that of %v; error operands print their message
		a2 := append([]Value{}, args...)
		if f, ok := a2[0].(string); ok {
			a2[0] = strings.ReplaceAll(f, "%w", "%v")
		}
		for i := 1; i < len(a2); i++ {
			if e, ok := a2[i].(*Ext); ok && strings.HasPrefix(e.desc, "error: ") {
				a2[i] = strings.TrimPrefix(e.desc, "error: ")
			}
		}
		return []Value{&Ext{"error: " + it.sprintf(a2)}}
	}
	n["cmp.Compare"] = func(it *Interp, args []Value) []Value {
		switch a := args[0].(type) {
		case string:
			return []Value{int64(strings.Compare(a, args[1].(string)))}
		case int64:
			b := args[1].(int64)
			switch {
			case a < b:
				return []Value{int64(-1)}
			case a > b:
				return []Value{int64(1)}
			}
			return []Value{int64(0)}
		}
		panic(undecided{"cmp.Compare on " + describe(args[0])})
	}
	n["cmp.Or"] = func(it *Interp, args []Value) []Value {
		all := expandVariadic(args)
		for _, a := range all {
			switch x := a.(type) {
			case int64:
				if x != 0 {
					return []Value{a}
				}
			case string:
				if x != "" {
					return []Value{a}
				}
			case bool:
				if x {
					return []Value{a}
				}
			default:
				panic(undecided{"cmp.Or on " + describe(a)})
			}
		}
		if len(all) > 0 {
			return []Value{all[len(all)-1]}
		}
		panic(undecided{"cmp.Or without arguments"})
	}
	n["cmp.Less"] = func(it *Interp, args []Value) []Value {
		switch a := args[0].(type) {
		case string:
			return []Value{a < args[1].(string)}
		case int64:
			return []Value{a < args[1].(int64)}
		}
		panic(undecided{"cmp.Less on " + describe(args[0])})
	}
	n["strings.NewReplacer"] = func(it *Interp, args []Value) []Value {
		var pairs []string
		for _, a := range expandVariadic(args) {
			s, ok := a.(string)
			if !ok {
				panic(undecided{"strings.NewReplacer on " + describe(a)})
			}
			pairs = append(pairs, s)
		}
		if len(pairs)%2 != 0 {
			panic(goPanic{msg: "strings.NewReplacer: odd argument count"})
		}
		return []Value{&Ext{"replacer\x00" + strings.Join(pairs, "\x00")}}
	}
	n["(*strings.Replacer).Replace"] = func(it *Interp, args []Value) []Value {
		e, ok := args[0].(*Ext)
		s, ok2 := args[1].(string)
		if !ok || !ok2 || !strings.HasPrefix(e.desc, "replacer\x00") {
			panic(undecided{"(*strings.Replacer).Replace on " + describe(args[0])})
		}
		return []Value{strings.NewReplacer(strings.Split(e.desc, "\x00")[1:]...).Replace(s)}
	}
	n["errors.New"] = func(it *Interp, args []Value) []Value {
		m, _ := args[0].(string)
		return []Value{&Ext{"error: " + m}}
	}
	n["errors.Join"] = func(it *Interp, args []Value) []Value {
		// the non-nil errors, one message per line; nil when there is none
		var msgs []string
		for _, a := range expandVariadic(args) {
			if e, ok := a.(*Ext); ok && strings.HasPrefix(e.desc, "error: ") {
				msgs = append(msgs, strings.TrimPrefix(e.desc, "error: "))
			}
		}
		if len(msgs) == 0 {
			return []Value{Nil{}}
		}
		return []Value{&Ext{"error: " + strings.Join(msgs, "\n")}}
	}
	n["fmt.Fprintln"] = func(it *Interp, args []Value) []Value { return []Value{int64(0), Nil{}} }
	n["strconv.Quote"] = func(it *Interp, args []Value) []Value { return []Value{strconv.Quote(args[0].(string))} }
	n["slices.Collect"] = func(it *Interp, args []Value) []Value {
		out := &SliceV{elems: []Value{}}
		yield := &Native{"collect-yield", func(it *Interp, a []Value) []Value {
			out.elems = append(out.elems, a[0])
			return []Value{true}
		}}
		it.callValue(nil, args[0], []Value{yield})
		return []Value{out}
	}
	n["slices.Backward"] = func(it *Interp, args []Value) []Value {
		s, _ := args[0].(*SliceV)
		return []Value{&Native{"backward", func(it *Interp, a []Value) []Value {
			for i := lenOf(s) - 1; i >= 0; i-- {
				res := it.callValue(nil, a[0], []Value{int64(i), s.elems[i]})
				if b, ok := res[0].(bool); ok && !b {
					break
				}
			}
			return nil
		}}}
	}
	installSetNatives(it)
	n["slices.AppendSeq"] = func(it *Interp, args []Value) []Value {
		s, _ := args[0].(*SliceV)
		out := &SliceV{elems: []Value{}}
		if s != nil {
			out.elems = append(out.elems, s.elems...)
		}
		yield := &Native{"appendseq-yield", func(it *Interp, a []Value) []Value {
			out.elems = append(out.elems, a[0])
			return []Value{true}
		}}
		it.callValue(nil, args[1], []Value{yield})
		return []Value{out}
	}
	n["slices.Values"] = func(it *Interp, args []Value) []Value {
		s, _ := args[0].(*SliceV)
		return []Value{&Native{"values", func(it *Interp, a []Value) []Value {
			for i := 0; i < lenOf(s); i++ {
				res := it.callValue(nil, a[0], []Value{s.elems[i]})
				if len(res) == 1 {
					if b, ok := res[0].(bool); ok && !b {
						break
					}
				}
			}
			return nil
		}}}
	}
	n["slices.All"] = func(it *Interp, args []Value) []Value {
		s, _ := args[0].(*SliceV)
		return []Value{&Native{"all", func(it *Interp, a []Value) []Value {
			for i := 0; i < lenOf(s); i++ {
				res := it.callValue(nil, a[0], []Value{int64(i), s.elems[i]})
				if len(res) == 1 {
					if b, ok := res[0].(bool); ok && !b {
						break
					}
				}
			}
			return nil
		}}}
	}
	n["slices.Reverse"] = func(it *Interp, args []Value) []Value {
		if s, ok := args[0].(*SliceV); ok && s != nil {
			for i, j := 0, len(s.elems)-1; i < j; i, j = i+1, j-1 {
				s.elems[i], s.elems[j] = s.elems[j], s.elems[i]
			}
		}
		return nil
	}
	n["slices.Grow"] = func(it *Interp, args []Value) []Value {
		k, ok := args[1].(int64)
		if !ok || k < 0 {
			panic(undecided{"slices.Grow with " + describe(args[1])})
		}
		var elems []Value
		if s, ok := args[0].(*SliceV); ok && s != nil {
			elems = s.elems
		}
		out := make([]Value, len(elems), len(elems)+int(k))
		copy(out, elems)
		return []Value{&SliceV{elems: out}}
	}
	n["slices.Contains"] = func(it *Interp, args []Value) []Value {
		if s, ok := args[0].(*SliceV); ok && s != nil {
			for _, e := range s.elems {
				if it.elemEqual(e, args[1]) {
					return []Value{true}
				}
			}
		}
		return []Value{false}
	}
	n["slices.Index"] = func(it *Interp, args []Value) []Value {
		if s, ok := args[0].(*SliceV); ok && s != nil {
			for i, e := range s.elems {
				if it.elemEqual(e, args[1]) {
					return []Value{int64(i)}
				}
			}
		}
		return []Value{int64(-1)}
	}
	n["slices.IndexFunc"] = func(it *Interp, args []Value) []Value {
		if s, ok := args[0].(*SliceV); ok && s != nil {
			for i, e := range s.elems {
				res := it.callValue(nil, args[1], []Value{e})
				if b, ok := res[0].(bool); ok && b {
					return []Value{int64(i)}
				}
			}
		}
		return []Value{int64(-1)}
	}
	n["slices.Clone"] = func(it *Interp, args []Value) []Value {
		s, _ := args[0].(*SliceV)
		if s == nil {
			return []Value{Nil{}}
		}
		out := &SliceV{elems: []Value{}}
		for _, e := range s.elems {
			out.elems = append(out.elems, it.copyStruct(e))
		}
		return []Value{out}
	}
	n["slices.Concat"] = func(it *Interp, args []Value) []Value {
		out := &SliceV{elems: []Value{}}
		for _, a := range args {
			if s, ok := a.(*SliceV); ok && s != nil {
				out.elems = append(out.elems, s.elems...)
			}
		}
		return []Value{out}
	}
	n["slices.Sort"] = func(it *Interp, args []Value) []Value {
		if s, ok := args[0].(*SliceV); ok && s != nil {
			sort.SliceStable(s.elems, func(i, j int) bool {
				a, aok := s.elems[i].(string)
				b, bok := s.elems[j].(string)
				if aok && bok {
					return a < b
				}
				ai, _ := s.elems[i].(int64)
				bi, _ := s.elems[j].(int64)
				return ai < bi
			})
		}
		return nil
	}
	n["slices.SortFunc"] = func(it *Interp, args []Value) []Value {
		if s, ok := args[0].(*SliceV); ok && s != nil {
			sort.SliceStable(s.elems, func(i, j int) bool {
				res := it.callValue(nil, args[1], []Value{s.elems[i], s.elems[j]})
				c, _ := res[0].(int64)
				return c < 0
			})
		}
		return nil
	}
	n["slices.Compact"] = func(it *Interp, args []Value) []Value {
		s, ok := args[0].(*SliceV)
		if !ok || s == nil {
			return []Value{args[0]}
		}
		out := &SliceV{elems: []Value{}}
		for i, e := range s.elems {
			if i == 0 || !it.elemEqual(e, s.elems[i-1]) {
				out.elems = append(out.elems, e)
			}
		}
		return []Value{out}
	}
	minMax := func(name string, less func(a, b int64) bool) func(it *Interp, args []Value) []Value {
		return func(it *Interp, args []Value) []Value {
			s, _ := args[0].(*SliceV)
			if s == nil || len(s.elems) == 0 {
				it.panics(nil, "%s: empty list", name)
				panic(undecided{name + " of an empty list"})
			}
			best, ok := s.elems[0].(int64)
			if !ok {
				panic(undecided{name + " of non-integers"})
			}
			for _, e := range s.elems[1:] {
				x, ok := e.(int64)
				if !ok {
					panic(undecided{name + " of non-integers"})
				}
				if less(x, best) {
					best = x
				}
			}
			return []Value{best}
		}
	}
	n["slices.Min"] = minMax("slices.Min", func(a, b int64) bool { return a < b })
	n["slices.Max"] = minMax("slices.Max", func(a, b int64) bool { return a > b })
	n["slices.BinarySearch"] = func(it *Interp, args []Value) []Value {
		s, _ := args[0].(*SliceV)
		target, ok := args[1].(int64)
		if !ok {
			panic(undecided{"slices.BinarySearch for a non-integer"})
		}
		lo, hi := 0, lenOf(s)
		for lo < hi {
			mid := (lo + hi) / 2
			x, ok := s.elems[mid].(int64)
			if !ok {
				panic(undecided{"slices.BinarySearch in non-integers"})
			}
			if x < target {
				lo = mid + 1
			} else {
				hi = mid
			}
		}
		found := false
		if lo < lenOf(s) {
			if x, ok := s.elems[lo].(int64); ok && x == target {
				found = true
			}
		}
		return []Value{int64(lo), found}
	}
	n["sort.Search"] = func(it *Interp, args []Value) []Value {
		nn, ok := args[0].(int64)
		if !ok {
			panic(undecided{"sort.Search over a non-constant length"})
		}
		lo, hi := int64(0), nn
		for lo < hi {
			mid := (lo + hi) / 2
			res := it.callValue(nil, args[1], []Value{mid})
			if b, ok := res[0].(bool); ok && !b {
				lo = mid + 1
			} else {
				hi = mid
			}
		}
		return []Value{lo}
	}
	n["sort.SearchInts"] = func(it *Interp, args []Value) []Value {
		return n["slices.BinarySearch"](it, args)[:1]
	}
	n["slices.CompactFunc"] = func(it *Interp, args []Value) []Value {
		s, ok := args[0].(*SliceV)
		if !ok || s == nil {
			return []Value{args[0]}
		}
		out := &SliceV{elems: []Value{}}
		for i, e := range s.elems {
			if i > 0 {
				// like the library: compared with the last element kept
				res := it.callValue(nil, args[1], []Value{out.elems[len(out.elems)-1], e})
				if b, ok := res[0].(bool); ok && b {
					continue
				}
			}
			out.elems = append(out.elems, e)
		}
		return []Value{out}
	}
	n["slices.SortStableFunc"] = n["slices.SortFunc"]
	n["slices.DeleteFunc"] = func(it *Interp, args []Value) []Value {
		s, ok := args[0].(*SliceV)
		if !ok || s == nil {
			return []Value{args[0]}
		}
		out := &SliceV{elems: []Value{}}
		for _, e := range s.elems {
			res := it.callValue(nil, args[1], []Value{e})
			if b, ok := res[0].(bool); ok && b {
				continue
			}
			out.elems = append(out.elems, e)
		}
		// like the library, the operand is compacted in place: the kept elements move to the
		// front of the same array and the rest is zeroed — whoever else holds the slice sees that
		if len(out.elems) != len(s.elems) {
			var zero Value = Nil{}
			if len(s.elems) > 0 {
				zero = it.zeroLike(s.elems[0])
			}
			for i := range s.elems {
				if i < len(out.elems) {
					s.elems[i] = out.elems[i]
				} else {
					s.elems[i] = it.zeroLike(zero)
				}
			}
		}
		return []Value{out}
	}
	n["slices.ContainsFunc"] = func(it *Interp, args []Value) []Value {
		s, _ := args[0].(*SliceV)
		if s != nil {
			for _, e := range s.elems {
				res := it.callValue(nil, args[1], []Value{e})
				if b, ok := res[0].(bool); ok && b {
					return []Value{true}
				}
			}
		}
		return []Value{false}
	}
	n["(*sync.WaitGroup).Go"] = func(it *Interp, args []Value) []Value {
		it.callValue(nil, args[1], nil) // one legal schedule: run the task at once (race freedom is C09's subject)
		return nil
	}
	n["(*sync.WaitGroup).Wait"] = func(it *Interp, args []Value) []Value { return nil }
	n["(*sync.WaitGroup).Add"] = func(it *Interp, args []Value) []Value { return nil }
	n["(*sync.WaitGroup).Done"] = func(it *Interp, args []Value) []Value { return nil }
	n["text/template.New"] = func(it *Interp, args []Value) []Value { return []Value{&Ext{"template"}} }
	n["(*text/template.Template).Funcs"] = func(it *Interp, args []Value) []Value { return []Value{&Ext{"template"}} }
	n["(*text/template.Template).Parse"] = func(it *Interp, args []Value) []Value { return []Value{&Ext{"template"}, Nil{}} }
	n["(*text/template.Template).Execute"] = func(it *Interp, args []Value) []Value {
		// args: recv, writer, data. The data object's fields drive E3.
		t, ok := args[2].(*Obj)
		if !ok {
			panic(undecided{"template executed on something that is not the Tree"})
		}
		it.out.WriteString("\x00TEMPLATE\x00")
		it.templateData = t
		return []Value{Nil{}}
	}
}

// ---------------------------------------------------------------------------
// model trees

type opaqueInfo struct {
	idx       int
	mayFail   bool
	labelLast bool
	always    bool // what CheckAlwaysSucceeds reports for it
	uses      int
	first     *NSet // declared FIRST set (nil: unknown); only used by the -switch analysis
	consumes  bool  // must consume when it succeeds
}

type modelOpts struct {
	Inline, Switch, Ast bool
}

type model struct {
	it      *Interp
	opts    modelOpts
	tree    *Obj
	nodeT   types.Type
	treeT   types.Type
	typeVal map[string]int64
	opaque  map[*Obj]*opaqueInfo
	nOpaque int
	rules   []*Obj
	actions int
	hasPeg  bool

	pendingActionRules []pendingAction
	extraUsage         map[string]int64
	args               []string // the argument list handed to Compile (default: just the program name)
	twin               *model   // the same model before the -switch rewrite (callee contracts are read off it)
}

func (it *Interp) typeConst(name string) int64 {
	o := it.pkg.Scope().Lookup(name)
	k, ok := o.(*types.Const)
	if !ok {
		panic(undecided{"constant " + name + " not found in package tree"})
	}
	v, _ := constValue(types.TypeAndValue{Value: k.Val()})
	return v.(int64)
}

// newTree evaluates tree.New(inline, switch, noast): the model starts from
// whatever the constructor initialises (maps included).
func (it *Interp) newTree(opts modelOpts) *Obj {
	for fn, fd := range it.decls {
		if fn.Name() == "New" && fd.Recv == nil {
			res := it.invoke(nil, &Closure{name: "New", typ: fd.Type, body: fd.Body, lit: fd, decl: fd, env: newEnv(nil)}, []Value{opts.Inline, opts.Switch, !opts.Ast})
			if t, ok := res[0].(*Obj); ok {
				return t
			}
		}
	}
	panic(undecided{"tree.New not found or did not return a *Tree"})
}

func newModel(it *Interp, opts modelOpts) *model {
	m := &model{it: it, opts: opts, typeVal: map[string]int64{}, opaque: map[*Obj]*opaqueInfo{}}
	m.nodeT = it.pkg.Scope().Lookup("node").Type()
	m.treeT = it.pkg.Scope().Lookup("Tree").Type()
	t := it.newTree(opts)
	t.field("PackageName").v = "p"
	t.field("StructName").v = "P"
	t.field("EndSymbol").v = int64(0x110000)
	t.field("Generator").v = "peg"
	imps := &SliceV{elems: []Value{}}
	for _, i := range defaultImports(opts.Ast) {
		imps.elems = append(imps.elems, i)
	}
	t.field("Imports").v = imps
	t.field("RuleNames").v = &SliceV{elems: []Value{}}
	t.field("Actions").v = &SliceV{elems: []Value{}}
	m.tree = t
	return m
}

func (m *model) node(typ string, s string, kids ...*Obj) *Obj {
	n := m.it.newObj(m.nodeT)
	n.field("Type").v = m.it.typeConst(typ)
	n.field("string").v = s
	for _, k := range kids {
		m.pushBack(n, k)
	}
	return n
}

func (m *model) method(name string, recv *Obj) *Closure {
	named := recv.t.(*types.Named)
	ms := types.NewMethodSet(types.NewPointer(named))
	sel := ms.Lookup(m.it.pkg, name)
	if sel == nil {
		panic(undecided{"method " + name + " not found on " + named.Obj().Name()})
	}
	r := Value(recv)
	if len(sel.Index()) > 1 {
		r = m.it.fieldCell(nil, recv, sel.Index()[:len(sel.Index())-1]).v
	}
	fd := m.it.decls[sel.Obj().(*types.Func)]
	if fd == nil {
		panic(undecided{"declaration of " + name + " not found"})
	}
	return &Closure{name: name, typ: fd.Type, body: fd.Body, lit: fd, decl: fd, env: newEnv(nil), recv: r}
}

func (m *model) pushBack(parent, kid *Obj) {
	m.it.invoke(nil, m.method("PushBack", parent), []Value{kid})
}

func (m *model) copyNode(n *Obj) *Obj {
	res := m.it.invoke(nil, m.method("Copy", n), nil)
	return res[0].(*Obj)
}

func (m *model) char(c string) *Obj         { return m.node("TypeCharacter", c) }
func (m *model) str(s string) *Obj          { return m.node("TypeString", s) }
func (m *model) dot() *Obj                  { return m.node("TypeDot", ".") }
func (m *model) nilNode() *Obj              { return m.node("TypeNil", "<nil>") }
func (m *model) predicate(code string) *Obj { return m.node("TypePredicate", code) }
func (m *model) state(code string) *Obj     { return m.node("TypeStateChange", code) }
func (m *model) rng(lo, hi string) *Obj {
	return m.node("TypeRange", "", m.char(lo), m.char(hi))
}
func (m *model) seq(k ...*Obj) *Obj  { return m.node("TypeSequence", "", k...) }
func (m *model) alt(k ...*Obj) *Obj  { return m.node("TypeAlternate", "", k...) }
func (m *model) query(k *Obj) *Obj   { return m.node("TypeQuery", "", k) }
func (m *model) star(k *Obj) *Obj    { return m.node("TypeStar", "", k) }
func (m *model) plus(k *Obj) *Obj    { return m.node("TypePlus", "", k) }
func (m *model) peekFor(k *Obj) *Obj { return m.node("TypePeekFor", "", k) }
func (m *model) peekNot(k *Obj) *Obj { return m.node("TypePeekNot", "", k) }
func (m *model) name(s string) *Obj  { return m.node("TypeName", s) }
func (m *model) commentNode() *Obj   { return m.node("TypeComment", "c") }
func (m *model) commit() *Obj        { return m.node("TypeCommit", "") }

// oinfo finds the contract of an opaque node; copies made by the generator
// (node.Copy) keep the marker type, so lookup is by type value.
func (m *model) oinfo(n *Obj) *opaqueInfo {
	if n == nil {
		return nil
	}
	if oi, ok := m.opaque[n]; ok {
		return oi
	}
	t, _ := n.field("Type").v.(int64)
	if t >= 100 {
		for _, oi := range m.opaque {
			if int64(oi.idx) == t-100 {
				return oi
			}
		}
	}
	return nil
}

// opaqueChild is a hole: an arbitrary sub-expression known only by contract.
func (m *model) opaqueChild(mayFail, labelLast bool) *Obj {
	n := m.it.newObj(m.nodeT)
	n.field("Type").v = int64(100 + m.nOpaque)
	n.field("string").v = fmt.Sprintf("‹e%d›", m.nOpaque)
	m.opaque[n] = &opaqueInfo{idx: m.nOpaque, mayFail: mayFail, labelLast: labelLast, always: !mayFail}
	m.nOpaque++
	return n
}

// push: <e>; link appends a copy of the enclosing rule renamed PegText.
func (m *model) push(k *Obj) *Obj {
	n := m.node("TypePush", "", k)
	if !m.hasPeg {
		m.hasPeg = true
	}
	return n
}

// action: after link an action is a Name referring to rule ActionN whose body
// is ImplicitPush{Action copy, rule copy}.
func (m *model) action(code string) *Obj {
	id := m.actions
	m.actions++
	name := fmt.Sprintf("Action%d", id)
	cp := m.node("TypeAction", code)
	cp.field("id").v = int64(id)
	acts := m.tree.field("Actions").v.(*SliceV)
	acts.elems = append(acts.elems, cp)
	ref := m.node("TypeName", name)
	m.pendingActionRules = append(m.pendingActionRules, pendingAction{name, cp})
	return ref
}

type pendingAction struct {
	name string
	cp   *Obj
}

// addRule wraps expr the way the first pass does: Rule{ImplicitPush{expr, RuleCopy}}.
func (m *model) addRule(name string, expr *Obj, uses int) *Obj {
	id := int64(len(m.rules))
	rule := m.node("TypeRule", name)
	rule.field("id").v = id
	ip := m.node("TypeImplicitPush", "")
	m.pushBack(ip, expr)
	m.pushBack(rule, ip)
	m.pushBack(ip, m.copyNode(rule))
	m.register(rule, name, uses)
	return rule
}

func (m *model) register(rule *Obj, name string, uses int) {
	m.rules = append(m.rules, rule)
	m.pushBack(m.tree, rule)
	m.tree.field("Rules").v.(*MapV).m[name] = rule
	if uses > 0 {
		m.tree.field("rulesCount").v.(*MapV).m[name] = int64(uses)
	}
	rn := m.tree.field("RuleNames").v.(*SliceV)
	rn.elems = append(rn.elems, rule)
}

// stubRule: what link creates for an undefined name.
func (m *model) stubRule(name string, uses int) *Obj {
	rule := m.node("TypeRule", name)
	rule.field("id").v = int64(len(m.rules))
	ip := m.node("TypeImplicitPush", "")
	m.pushBack(rule, ip)
	m.pushBack(ip, m.nilNode())
	m.pushBack(ip, m.copyNode(rule))
	m.register(rule, name, uses)
	if c := m.tree.field("undefined"); c != nil {
		if mv, ok := c.v.(*MapV); ok && mv != nil {
			mv.m[name] = true // what link records for a name without a definition
		}
	}
	return rule
}

// finish appends what link appends: PegText and the action rules; fixes the
// Push nodes (second child = copy of the enclosing rule named PegText).
func (m *model) finish() {
	var fix func(n, rule *Obj)
	fix = func(n, rule *Obj) {
		if n == nil {
			return
		}
		if m.oinfo(n) != nil {
			return
		}
		if n.field("Type").v == m.it.typeConst("TypePush") && n.field("length").v.(int64) == 1 {
			cp := m.copyNode(rule)
			cp.field("string").v = "PegText"
			m.pushBack(n, cp)
		}
		for k, _ := n.field("front").v.(*Obj); k != nil; k, _ = k.field("next").v.(*Obj) {
			if k.field("Type").v == m.it.typeConst("TypeRule") {
				continue
			}
			fix(k, rule)
		}
	}
	for _, r := range append([]*Obj{}, m.rules...) {
		fix(r, r)
	}
	if m.hasPeg {
		rule := m.node("TypeRule", "PegText", m.nilNode())
		rule.field("id").v = int64(len(m.rules))
		m.register(rule, "PegText", 0)
	}
	for _, pa := range m.pendingActionRules {
		rule := m.node("TypeRule", pa.name)
		rule.field("id").v = int64(len(m.rules))
		ip := m.node("TypeImplicitPush", "")
		m.pushBack(rule, ip)
		m.pushBack(ip, pa.cp)
		m.pushBack(ip, m.copyNode(rule))
		m.register(rule, pa.name, 1)
	}
	m.tree.field("RulesCount").v = int64(len(m.rules) + 1)
}

// usage counts per node type (what the first goroutine computes): only >0 matters.
func (m *model) usage() *SliceV {
	last := m.it.typeConst("TypeLast")
	u := &SliceV{}
	for i := int64(0); i < last; i++ {
		u.elems = append(u.elems, int64(0))
	}
	seen := map[*Obj]bool{}
	var walk func(n *Obj)
	walk = func(n *Obj) {
		if n == nil || seen[n] {
			return
		}
		seen[n] = true
		t := n.field("Type").v.(int64)
		if t < last {
			u.elems[t] = u.elems[t].(int64) + 1
		}
		for k, _ := n.field("front").v.(*Obj); k != nil; k, _ = k.field("next").v.(*Obj) {
			if k.field("Type").v == m.it.typeConst("TypeRule") {
				continue
			}
			walk(k)
		}
	}
	for _, r := range m.rules {
		walk(r)
	}
	// link counts a <capture> and an action at their original node
	if m.hasPeg {
		u.elems[m.it.typeConst("TypePush")] = int64(1)
	}
	if m.extraUsage != nil {
		for k, v := range m.extraUsage {
			u.elems[m.it.typeConst(k)] = v
		}
	}
	return u
}

// ---------------------------------------------------------------------------
// the emission region of Compile

type region struct {
	fd         *ast.FuncDecl
	stmts      []ast.Stmt
	compileLit ast.Node // the recursive emitter: a closure of the region, or a method of the writer object
	printRule  *ast.FuncLit
	printVar   types.Object // _print
	jumpLit    ast.Node     // printJump: a closure of the region, or a method of the writer
	jumpVar    types.Object
	// when the emitter prints through an object with methods instead of a local print closure:
	// printVar is that object's variable, printMethod / jumpMethod its methods
	printMethod *ast.FuncDecl
	jumpMethod  *ast.FuncDecl
	objVar      types.Object // the local holding the emitter object when the jump helper / emitter are its methods
	compileVar  types.Object
	problems    []string
	full        []ast.Stmt // Compile from its first statement to the end of the emission region
	tail        []ast.Stmt // what follows the emission: -strict handling, formatting, writing
}

func findRegion(r *Repo) *region {
	fd, p := r.funcDecl("tree", "Tree.Compile")
	rg := &region{fd: fd}
	if fd == nil {
		rg.problems = append(rg.problems, "(*Tree).Compile not found")
		return rg
	}
	info := p.TypesInfo
	start, end := -1, -1
	// the output buffer: the first local of Compile whose type is, or embeds, bytes.Buffer
	holdsBuffer := func(t types.Type) bool {
		if types.TypeString(t, nil) == "bytes.Buffer" {
			return true
		}
		if st, ok := t.Underlying().(*types.Struct); ok {
			for i := 0; i < st.NumFields(); i++ {
				if types.TypeString(st.Field(i).Type(), nil) == "bytes.Buffer" {
					return true
				}
			}
		}
		return false
	}
	for i, st := range fd.Body.List {
		if start >= 0 {
			break
		}
		switch x := st.(type) {
		case *ast.DeclStmt:
			if gd, ok := x.Decl.(*ast.GenDecl); ok && gd.Tok == token.VAR {
				for _, sp := range gd.Specs {
					for _, id := range sp.(*ast.ValueSpec).Names {
						if o := info.Defs[id]; o != nil && holdsBuffer(o.Type()) {
							start = i
						}
					}
				}
			}
		case *ast.AssignStmt:
			if x.Tok == token.DEFINE {
				for _, l := range x.Lhs {
					if id, ok := l.(*ast.Ident); ok {
						if o := info.Defs[id]; o != nil && holdsBuffer(o.Type()) {
							start = i
						}
					}
				}
			}
		}
	}
	if start < 0 {
		rg.problems = append(rg.problems, "emission region: Compile declares no output buffer (a local that is or embeds a bytes.Buffer)")
		return rg
	}
	// the print helper: a local func(string, ...any) that writes formatted text to
	// the buffer — a function literal, or a method value whose method does
	writesBuffer := func(e ast.Expr) bool {
		switch x := e.(type) {
		case *ast.FuncLit:
			return callsFprintf(x.Body, info)
		case *ast.SelectorExpr:
			if sel := info.Selections[x]; sel != nil && sel.Kind() == types.MethodVal {
				if fn, ok := sel.Obj().(*types.Func); ok {
					for _, f := range p.Syntax {
						for _, d := range f.Decls {
							if md, ok := d.(*ast.FuncDecl); ok && md.Body != nil && info.Defs[md.Name] == types.Object(fn.Origin()) {
								return callsFprintf(md.Body, info)
							}
						}
					}
				}
			}
		}
		return false
	}
	var printObj types.Object
	for _, st := range fd.Body.List[start:] {
		as, ok := st.(*ast.AssignStmt)
		if !ok || len(as.Lhs) != len(as.Rhs) {
			continue
		}
		for k, l := range as.Lhs {
			id, _ := l.(*ast.Ident)
			if id == nil || printObj != nil {
				continue
			}
			o := info.Defs[id]
			if o == nil {
				o = info.Uses[id]
			}
			if o == nil {
				continue
			}
			if sig, ok := o.Type().Underlying().(*types.Signature); ok && sigString(sig) == "(string, ...any)" && writesBuffer(as.Rhs[k]) {
				printObj = o
			}
		}
	}
	// … or an object of a type of the package whose method func(string, ...any) writes formatted
	// text (a code writer): the local that holds it plays the print helper's part
	if printObj == nil {
		methodsOf := func(t types.Type) map[string]*ast.FuncDecl {
			out := map[string]*ast.FuncDecl{}
			if pt, ok := t.(*types.Pointer); ok {
				t = pt.Elem()
			}
			named, ok := t.(*types.Named)
			if !ok || named.Obj().Pkg() != p.Types {
				return out
			}
			for _, f := range p.Syntax {
				for _, d := range f.Decls {
					md, ok := d.(*ast.FuncDecl)
					if !ok || md.Recv == nil || md.Body == nil || len(md.Recv.List) != 1 {
						continue
					}
					if recvTypeName(md.Recv.List[0].Type) == named.Obj().Name() {
						out[md.Name.Name] = md
					}
				}
			}
			return out
		}
		for _, st := range fd.Body.List[start:] {
			as, ok := st.(*ast.AssignStmt)
			if !ok || printObj != nil {
				continue
			}
			for _, l := range as.Lhs {
				id, _ := l.(*ast.Ident)
				if id == nil || printObj != nil {
					continue
				}
				o := info.Defs[id]
				if o == nil {
					continue
				}
				ms := methodsOf(o.Type())
				var names []string
				for n := range ms {
					names = append(names, n)
				}
				sort.Strings(names)
				for _, n := range names {
					md := ms[n]
					if mo, ok := info.Defs[md.Name].(*types.Func); ok {
						sig := mo.Type().(*types.Signature)
						if sigString(sig) == "(string, ...any)" && callsFprintf(md.Body, info) && rg.printMethod == nil {
							printObj, rg.printMethod = o, md
						}
					}
				}
				if printObj != nil {
					for _, n := range names {
						md := ms[n]
						if mo, ok := info.Defs[md.Name].(*types.Func); ok && sigString(mo.Type().(*types.Signature)) == "(uint)" && rg.jumpMethod == nil {
							lit := &ast.FuncLit{Body: md.Body}
							if printsGoto(lit) {
								rg.jumpMethod = md
								rg.jumpLit = md
							}
						}
					}
				}
			}
		}
	}
	for i, st := range fd.Body.List {
		if i < start || printObj == nil {
			continue
		}
		uses := false
		ast.Inspect(st, func(n ast.Node) bool {
			if id, ok := n.(*ast.Ident); ok && info.Uses[id] == printObj {
				uses = true
			}
			return true
		})
		if uses {
			end = i + 1
		}
	}
	if end < 0 {
		rg.problems = append(rg.problems, "emission region: no statement uses a print helper that writes to the output buffer")
		return rg
	}
	rg.printVar = printObj
	rg.stmts = fd.Body.List[start:end]
	rg.full = fd.Body.List[:end]
	rg.tail = fd.Body.List[end:]
	// identify closures by role
	for _, st := range rg.stmts {
		as, ok := st.(*ast.AssignStmt)
		if !ok || len(as.Lhs) != 1 || len(as.Rhs) != 1 {
			continue
		}
		lit, ok := as.Rhs[0].(*ast.FuncLit)
		if !ok {
			continue
		}
		id, _ := as.Lhs[0].(*ast.Ident)
		if id == nil {
			continue
		}
		obj := info.Defs[id]
		if obj == nil {
			obj = info.Uses[id]
		}
		sig := info.Types[lit].Type.(*types.Signature)
		ps := sigString(sig)
		switch {
		case ps == "(*node, uint) bool":
			rg.compileLit, rg.compileVar = lit, obj
		case ps == "(*node)" && rg.printRule == nil:
			rg.printRule = lit
		case ps == "(uint)" && (printsGoto(lit) || assignsMapTrue(lit)) && rg.jumpLit == nil:
			// the jump helper by role: the func(uint) that prints a goto (and records, in whatever
			// bookkeeping the emitter uses, that the label is referred to)
			rg.jumpLit, rg.jumpVar = lit, obj
		}
	}
	if rg.compileLit == nil || rg.jumpLit == nil {
		// the emitter may be an object with methods: a local of the region whose type has a method
		// with the emitter's signature that the region calls through it (the other methods of that
		// signature are its cases); its func(uint) method that prints a goto is the jump helper
		methods := func(recvName string) map[types.Object]*ast.FuncDecl {
			out := map[types.Object]*ast.FuncDecl{}
			for _, f := range p.Syntax {
				for _, d := range f.Decls {
					md, ok := d.(*ast.FuncDecl)
					if !ok || md.Recv == nil || md.Body == nil || len(md.Recv.List) != 1 || recvTypeName(md.Recv.List[0].Type) != recvName {
						continue
					}
					if mo := info.Defs[md.Name]; mo != nil {
						out[mo] = md
					}
				}
			}
			return out
		}
		for _, st := range rg.stmts {
			ast.Inspect(st, func(n ast.Node) bool {
				se, ok := n.(*ast.SelectorExpr)
				if !ok {
					return true
				}
				id, ok := se.X.(*ast.Ident)
				if !ok {
					return true
				}
				vo, ok := info.Uses[id].(*types.Var)
				if !ok {
					return true
				}
				t := vo.Type()
				if pt, ok := t.(*types.Pointer); ok {
					t = pt.Elem()
				}
				named, ok := t.(*types.Named)
				if !ok || named.Obj().Pkg() != p.Types {
					return true
				}
				ms := methods(named.Obj().Name())
				md := ms[info.Uses[se.Sel]]
				if md == nil {
					return true
				}
				mo := info.Uses[se.Sel].(*types.Func)
				if rg.compileLit == nil && sigString(mo.Type().(*types.Signature)) == "(*node, uint) bool" {
					rg.compileLit, rg.objVar = md, vo
				}
				if rg.objVar == types.Object(vo) && rg.jumpLit == nil {
					var names []types.Object
					for o := range ms {
						names = append(names, o)
					}
					sort.Slice(names, func(i, j int) bool { return names[i].Name() < names[j].Name() })
					for _, o := range names {
						jd := ms[o]
						if sigString(o.Type().(*types.Signature)) == "(uint)" && printsGoto(&ast.FuncLit{Body: jd.Body}) {
							rg.jumpLit, rg.jumpMethod = jd, jd
							break
						}
					}
				}
				return true
			})
		}
	}
	if rg.compileLit == nil {
		rg.problems = append(rg.problems, "the recursive emitter closure func(*node, uint) bool was not found")
	}
	if rg.printVar == nil {
		rg.problems = append(rg.problems, "the print helper writing to the output buffer was not found")
	}
	if rg.jumpLit == nil {
		rg.problems = append(rg.problems, "the jump helper (marks a label as used) was not found")
	}
	if rg.printRule == nil {
		rg.problems = append(rg.problems, "the rule-comment printer func(*node) was not found")
	}
	return rg
}

// print / jump: the region's own print helper and jump helper, called the way the region calls them.
func (rg *region) print(it *Interp, env *Env, s string) {
	if rg.printMethod != nil {
		it.invoke(nil, &Closure{name: rg.printMethod.Name.Name, typ: rg.printMethod.Type, body: rg.printMethod.Body, lit: rg.printMethod, decl: rg.printMethod, env: newEnv(nil), recv: env.lookup(rg.printVar).v}, []Value{"%s", s})
		return
	}
	it.callValue(nil, env.lookup(rg.printVar).v, []Value{"%s", s})
}

func (rg *region) jump(it *Interp, env *Env, ko Value) {
	if rg.jumpMethod != nil {
		recvVar := rg.printVar
		if rg.objVar != nil {
			recvVar = rg.objVar
		}
		it.invoke(nil, &Closure{name: rg.jumpMethod.Name.Name, typ: rg.jumpMethod.Type, body: rg.jumpMethod.Body, lit: rg.jumpMethod, decl: rg.jumpMethod, env: newEnv(nil), recv: env.lookup(recvVar).v}, []Value{ko})
		return
	}
	it.callValue(nil, env.lookup(rg.jumpVar).v, []Value{ko})
}

func sigString(sig *types.Signature) string {
	var ps []string
	for i := 0; i < sig.Params().Len(); i++ {
		t := types.TypeString(sig.Params().At(i).Type(), func(*types.Package) string { return "" })
		if sig.Variadic() && i == sig.Params().Len()-1 {
			t = "..." + strings.TrimPrefix(t, "[]")
		}
		ps = append(ps, t)
	}
	s := "(" + strings.Join(ps, ", ") + ")"
	if sig.Results().Len() == 1 {
		s += " " + types.TypeString(sig.Results().At(0).Type(), func(*types.Package) string { return "" })
	}
	return s
}

// callsFprintf: the closure writes formatted text to the output buffer —
// fmt.Fprintf(&buffer, …), or a Write* method of a bytes.Buffer.
func callsFprintf(body ast.Node, info *types.Info) bool {
	found := false
	ast.Inspect(body, func(n ast.Node) bool {
		if ce, ok := n.(*ast.CallExpr); ok {
			if se, ok := ce.Fun.(*ast.SelectorExpr); ok {
				if f, ok := info.Uses[se.Sel].(*types.Func); ok {
					switch f.FullName() {
					case "fmt.Fprintf", "(*bytes.Buffer).WriteString", "(*bytes.Buffer).Write":
						found = true
					}
				}
			}
		}
		return true
	})
	return found
}

func printsGoto(lit *ast.FuncLit) bool {
	found := false
	ast.Inspect(lit.Body, func(n ast.Node) bool {
		if bl, ok := n.(*ast.BasicLit); ok && bl.Kind == token.STRING && strings.Contains(bl.Value, "goto ") {
			found = true
		}
		return true
	})
	return found
}

func assignsMapTrue(lit *ast.FuncLit) bool {
	found := false
	ast.Inspect(lit.Body, func(n ast.Node) bool {
		if as, ok := n.(*ast.AssignStmt); ok && len(as.Lhs) == 1 {
			if _, ok := as.Lhs[0].(*ast.IndexExpr); ok {
				if id, ok := as.Rhs[0].(*ast.Ident); ok && id.Name == "true" {
					found = true
				}
			}
		}
		return true
	})
	return found
}

// emission is the result of evaluating the region on one model.
type emission struct {
	Text      string   // rule table part (after the template marker)
	Head      string   // text before the template marker (should be empty)
	Tmpl      *Obj     // data object the template was executed on
	Warnings  []string // t.warn messages
	Contracts []string // violated emitter-side contracts (labelLast etc.)
	ChildUses map[int]int
	Flags     map[int][2]bool // opaque idx -> parentDetect, parentMultipleKey as left after the real pass
	Err       string
	JumpsDry  []int64 // labels marked used, in order, during the dry pass
	JumpsReal []int64 // … and during the real pass
}

func (m *model) run(rg *region) (em *emission) { return m.runStmts(rg, rg.stmts) }

// runFull evaluates Compile from its first statement (first pass, link, the two
// analysis tasks run one after the other, the -switch rewrite, emission).
func (m *model) runFull(rg *region) (em *emission) { return m.runStmts(rg, rg.full) }

func (m *model) runStmts(rg *region, stmts []ast.Stmt) (em *emission) {
	it := m.it
	em = &emission{ChildUses: map[int]int{}, Flags: map[int][2]bool{}}
	it.out = &strings.Builder{}
	it.templateData = nil
	it.steps = 0
	defer func() {
		if r := recover(); r != nil {
			if u, ok := r.(undecided); ok {
				em.Err = u.msg
				return
			}
			panic(r)
		}
	}()
	info := it.info
	env := newEnv(nil)
	// pre-bind what the region reads from earlier parts of Compile
	recvName := rg.fd.Recv.List[0].Names[0]
	env.define(info.Defs[recvName], m.tree)
	for _, fld := range rg.fd.Type.Params.List {
		for _, n := range fld.Names {
			var v Value = &Unknown{"parameter " + n.Name}
			// by type: the grammar's file name is the string, the argument list the []string
			switch types.TypeString(info.Defs[n].Type(), nil) {
			case "string":
				v = "model.peg"
			case "[]string":
				av := &SliceV{elems: []Value{}}
				args := m.args
				if args == nil {
					args = []string{"peg"}
				}
				for _, a := range args {
					av.elems = append(av.elems, a)
				}
				v = av
			}
			env.define(info.Defs[n], v)
		}
	}
	if rg.fd.Type.Results != nil {
		for _, fld := range rg.fd.Type.Results.List {
			for _, n := range fld.Names {
				env.define(info.Defs[n], Nil{})
			}
		}
	}
	// locals defined before the region that it reads: found by name `usage`
	ast.Inspect(rg.fd.Body, func(n ast.Node) bool {
		if as, ok := n.(*ast.AssignStmt); ok && as.Tok == token.DEFINE {
			for _, l := range as.Lhs {
				if id, ok := l.(*ast.Ident); ok && id.Name == "usage" {
					env.define(info.Defs[id], m.usage())
				}
			}
		}
		return true
	})
	// every other local of Compile that the statements read but do not declare
	// themselves starts at its zero value (e.g. a counter filled by the first pass)
	if len(stmts) > 0 {
		start := stmts[0].Pos()
		for _, st := range stmts {
			ast.Inspect(st, func(n ast.Node) bool {
				id, ok := n.(*ast.Ident)
				if !ok {
					return true
				}
				v, ok := info.Uses[id].(*types.Var)
				if !ok || v.IsField() || v.Pos() >= start || v.Pos() < rg.fd.Body.Pos() || env.lookup(v) != nil {
					return true
				}
				switch v.Type().Underlying().(type) {
				case *types.Basic:
					env.define(v, it.zero(v.Type()))
				default:
					env.define(v, &Unknown{"local " + v.Name() + " computed before the analysed region"})
				}
				return true
			})
		}
	}
	occurrence := map[int]int{}
	// hooks
	it.hooks = map[ast.Node]func(*Interp, *Closure, []Value) ([]Value, bool){}
	it.hooks[rg.compileLit] = func(it *Interp, cl *Closure, args []Value) ([]Value, bool) {
		n, _ := args[0].(*Obj)
		oi := m.oinfo(n)
		if oi == nil {
			return nil, false
		}
		ko := args[1]
		em.ChildUses[oi.idx]++
		occurrence[oi.idx]++
		pd := n.field("parentDetect").v.(bool)
		pm := n.field("parentMultipleKey").v.(bool)
		flag := ""
		if pd {
			flag = "_pd"
			if pm {
				flag = "_pdm"
			}
		}
		print := func(s string) { rg.print(it, env, s) }
		if oi.mayFail {
			print(fmt.Sprintf("\n   if !__c%d%s() {", oi.idx, flag))
			rg.jump(it, env, ko)
			print("}")
		} else {
			print(fmt.Sprintf("\n   __c%d%s()", oi.idx, flag))
		}
		if oi.labelLast {
			print(fmt.Sprintf("\n   goto lc%d_%d\n   lc%d_%d:\t", oi.idx, occurrence[oi.idx], oi.idx, occurrence[oi.idx]))
		}
		return []Value{oi.labelLast}, true
	}
	it.hooks[rg.printRule] = func(it *Interp, cl *Closure, args []Value) ([]Value, bool) {
		n, _ := args[0].(*Obj)
		if oi := m.oinfo(n); oi != nil {
			rg.print(it, env, fmt.Sprintf("e%d", oi.idx))
			return nil, true
		}
		return nil, false
	}
	// CheckAlwaysSucceeds on an opaque child
	if fd, _ := findDecl(it, "node", "checkAlwaysSucceedsRecursion"); fd != nil {
		it.hooks[fd] = func(it *Interp, cl *Closure, args []Value) ([]Value, bool) {
			if n, ok := cl.recv.(*Obj); ok {
				if oi := m.oinfo(n); oi != nil {
					return []Value{oi.always}, true
				}
			}
			return nil, false
		}
	}
	// link and the left-recursion walk on an opaque child
	if fd := findLinkDecl(it); fd != nil {
		it.hooks[fd] = func(it *Interp, cl *Closure, args []Value) ([]Value, bool) {
			// the node being linked is the first node among the arguments (the rule it belongs to comes after it)
			for _, a := range args {
				if n, ok := a.(*Obj); ok && n != nil && n.t == m.nodeT {
					if m.oinfo(n) != nil {
						return nil, true
					}
					break
				}
			}
			return nil, false
		}
	}
	for _, fd := range findRecursionWalkers(it) {
		it.hooks[fd] = func(it *Interp, cl *Closure, args []Value) ([]Value, bool) {
			for _, a := range args {
				if n, ok := a.(*Obj); ok && n != nil && n.t == m.nodeT {
					if oi := m.oinfo(n); oi != nil {
						return []Value{oi.consumes}, true
					}
					break
				}
			}
			return nil, false
		}
	}
	// diagnostics: what the tree has accumulated when the evaluated statements end (the
	// method that records a warning runs as written; a later reset of the accumulated
	// error loses what was recorded before it, exactly as in the generator)
	defer func() {
		if em == nil {
			return
		}
		// the diagnostics live in the tree's error-typed field(s): one error wrapping the others, or
		// a list of errors joined later
		var collect func(v Value)
		collect = func(v Value) {
			switch x := v.(type) {
			case *Ext:
				if strings.HasPrefix(x.desc, "error: ") {
					for _, w := range strings.Split(strings.TrimPrefix(x.desc, "error: "), "\n") {
						w = strings.TrimPrefix(w, "warning: ")
						if w != "" {
							em.Warnings = append(em.Warnings, "error: "+w)
						}
					}
				}
			case *SliceV:
				if x != nil {
					for _, e := range x.elems {
						collect(e)
					}
				}
			}
		}
		for i := 0; i < m.tree.st.NumFields(); i++ {
			ft := m.tree.st.Field(i).Type()
			if sl, ok := ft.Underlying().(*types.Slice); ok {
				ft = sl.Elem()
			}
			if !isErrorType(ft) {
				continue
			}
			collect(m.tree.fields[i].v)
		}
	}()
	// labelLast contract: whenever the emitter closure returns on a real node in
	// the real pass, its result must say whether the text it appended ends with a label.
	type frame struct{ start int }
	var stack []frame
	it.onCall = func(cl *Closure, args []Value) {
		if cl.lit == ast.Node(rg.compileLit) {
			stack = append(stack, frame{it.out.Len()})
		}
		if cl.lit == ast.Node(rg.jumpLit) && len(args) == 1 {
			if l, ok := args[0].(int64); ok {
				if it.templateData == nil {
					em.JumpsDry = append(em.JumpsDry, l)
				} else {
					em.JumpsReal = append(em.JumpsReal, l)
				}
			}
		}
	}
	it.onRet = func(cl *Closure, args []Value, res []Value) {
		if cl.lit != ast.Node(rg.compileLit) {
			return
		}
		fr := stack[len(stack)-1]
		stack = stack[:len(stack)-1]
		txt := it.out.String()[fr.start:]
		if it.templateData == nil { // dry pass prints nothing
			return
		}
		ends := endsWithLabel(txt)
		got, _ := res[0].(bool)
		n, _ := args[0].(*Obj)
		if n != nil && len(strings.TrimSpace(txt)) > 0 && ends != got {
			em.Contracts = append(em.Contracts, fmt.Sprintf("emitter returned labelLast=%v for a %s whose emitted text %s with a label: %q", got, m.typeName(n), map[bool]string{true: "ends", false: "does not end"}[ends], clip(tail(txt, 60), 80)))
		}
	}
	defer func() { it.onCall, it.onRet = nil, nil }()
	c := it.execBlock(stmts, env)
	if c == cReturn {
		em.Err = "the emission region returned early (template parse/execute error path taken)"
	}
	out := it.out.String()
	if i := strings.Index(out, "\x00TEMPLATE\x00"); i >= 0 {
		em.Head = out[:i]
		em.Text = out[i+len("\x00TEMPLATE\x00"):]
	} else {
		em.Err = "the template was never executed into the output buffer"
	}
	em.Tmpl = it.templateData
	for n, oi := range m.opaque {
		em.Flags[oi.idx] = [2]bool{n.field("parentDetect").v.(bool), n.field("parentMultipleKey").v.(bool)}
	}
	return em
}

func tail(s string, n int) string {
	if len(s) <= n {
		return s
	}
	return s[len(s)-n:]
}

func endsWithLabel(txt string) bool {
	t := strings.TrimRight(txt, " \t\n")
	if !strings.HasSuffix(t, ":") {
		return false
	}
	// last token like l12: or lc0_1:
	i := strings.LastIndexAny(t[:len(t)-1], " \t\n")
	tok := t[i+1 : len(t)-1]
	if len(tok) < 2 || tok[0] != 'l' {
		return false
	}
	return true
}

func (m *model) typeName(n *Obj) string {
	t := n.field("Type").v.(int64)
	if t >= 100 {
		return fmt.Sprintf("opaque child e%d", t-100)
	}
	sc := m.it.pkg.Scope()
	var names []string
	for _, nm := range sc.Names() {
		if k, ok := sc.Lookup(nm).(*types.Const); ok && strings.HasPrefix(nm, "Type") {
			if v, ok := constValue(types.TypeAndValue{Value: k.Val()}); ok && v == t {
				names = append(names, nm)
			}
		}
	}
	sort.Strings(names)
	if len(names) > 0 {
		return names[0]
	}
	return fmt.Sprint(t)
}

func findDecl(it *Interp, recv, name string) (*ast.FuncDecl, *types.Func) {
	for fn, fd := range it.decls {
		if fn.Name() != name {
			continue
		}
		if fd.Recv != nil && len(fd.Recv.List) == 1 && recvTypeName(fd.Recv.List[0].Type) == recv {
			return fd, fn
		}
	}
	return nil, nil
}

// tmplConfigFromTree reads the template data off the (interpreted) Tree object.
func (m *model) tmplConfigFromTree(t *Obj, boolVars []string) (tmplConfig, error) {
	cfg := tmplConfig{Bools: map[string]bool{}}
	for _, b := range boolVars {
		c := t.field(b)
		if c == nil {
			return cfg, fmt.Errorf("Tree has no field %s", b)
		}
		v, ok := c.v.(bool)
		if !ok {
			return cfg, fmt.Errorf("Tree.%s is not a concrete boolean in the model (%s)", b, describe(c.v))
		}
		cfg.Bools[b] = v
	}
	str := func(name string) string {
		s, _ := t.field(name).v.(string)
		return s
	}
	cfg.Package, cfg.Struct, cfg.StructVar, cfg.RuleType, cfg.Comments = str("PackageName"), str("StructName"), str("StructVariables"), str("PegRuleType"), str("Comments")
	if s, ok := t.field("RuleNames").v.(*SliceV); ok && s != nil {
		for _, e := range s.elems {
			cfg.RuleNames = append(cfg.RuleNames, e.(*Obj).field("string").v.(string))
		}
	}
	if c := t.field("Generator"); c != nil {
		cfg.Generator, _ = c.v.(string)
	}
	if c := t.field("RulesCount"); c != nil {
		if n, ok := c.v.(int64); ok {
			cfg.RulesCount = int(n)
		}
	}
	if s, ok := t.field("Actions").v.(*SliceV); ok && s != nil {
		for _, e := range s.elems {
			o := e.(*Obj)
			cfg.Actions = append(cfg.Actions, tmplAction{int(o.field("id").v.(int64)), o.field("string").v.(string)})
		}
	}
	if s, ok := t.field("Imports").v.(*SliceV); ok && s != nil {
		plain := true
		for _, e := range s.elems {
			str, ok := e.(string)
			if !ok {
				plain = false
				break
			}
			cfg.Imports = append(cfg.Imports, str)
		}
		if !plain {
			// imports kept as values of a type of their own: what the registered formatImport prints for each
			// (its agreement with path and alias is C10's R-import-alias), put back into the path=alias form
			specs, err := printedImports(theRepo, m.it, t)
			if err != nil {
				return cfg, fmt.Errorf("Tree.Imports: %v", err)
			}
			cfg.Imports = nil
			for _, sp := range specs {
				if sp[0] != "" {
					cfg.Imports = append(cfg.Imports, sp[1]+"="+sp[0])
				} else {
					cfg.Imports = append(cfg.Imports, sp[1])
				}
			}
		}
	}
	return cfg, nil
}

// labelParity: a label marked used in the dry pass but never jumped to in the
// real pass is printed without a goto ("declared and not used"); the converse
// leaves a goto without its label. Returns "" when the sets agree.
func (em *emission) labelParity() string {
	d, r := map[int64]bool{}, map[int64]bool{}
	for _, l := range em.JumpsDry {
		d[l] = true
	}
	for _, l := range em.JumpsReal {
		r[l] = true
	}
	var onlyD, onlyR []string
	for l := range d {
		if !r[l] {
			onlyD = append(onlyD, fmt.Sprintf("l%d", l))
		}
	}
	for l := range r {
		if !d[l] {
			onlyR = append(onlyR, fmt.Sprintf("l%d", l))
		}
	}
	sort.Strings(onlyD)
	sort.Strings(onlyR)
	var out []string
	if len(onlyD) > 0 {
		out = append(out, "marked used by the dry pass but never jumped to in the real pass (label printed without a goto): "+strings.Join(onlyD, ","))
	}
	if len(onlyR) > 0 {
		out = append(out, "jumped to in the real pass but not marked by the dry pass (goto without its label): "+strings.Join(onlyR, ","))
	}
	return strings.Join(out, "; ")
}


// findRecursionWalkers: the left-recursion walk by its role — the function
// with a node parameter and a boolean result that switches on the node's type
// (a terminal case among the cases) and belongs to the code that reports
// "possible infinite left recursion": the method of the tree, or the methods of
// a visitor type of its own.
func findRecursionWalkers(it *Interp) []*ast.FuncDecl {
	if fd, _ := findDecl(it, "Tree", "checkRecursion"); fd != nil {
		return []*ast.FuncDecl{fd}
	}
	recvOf := func(fd *ast.FuncDecl) string {
		if fd.Recv != nil && len(fd.Recv.List) == 1 {
			return recvTypeName(fd.Recv.List[0].Type)
		}
		return ""
	}
	family := ""
	for _, fd := range it.decls {
		if fd.Body == nil {
			continue
		}
		ast.Inspect(fd.Body, func(n ast.Node) bool {
			if bl, ok := n.(*ast.BasicLit); ok && bl.Kind == token.STRING && strings.Contains(bl.Value, "possible infinite left recursion") {
				family = recvOf(fd)
			}
			return true
		})
	}
	if family == "" || family == "Tree" || family == "node" {
		return nil
	}
	var out []*ast.FuncDecl
	for _, fd := range it.decls {
		if fd.Body == nil || recvOf(fd) != family || fd.Type.Results == nil || len(fd.Type.Results.List) != 1 {
			continue
		}
		if id, ok := fd.Type.Results.List[0].Type.(*ast.Ident); !ok || id.Name != "bool" {
			continue
		}
		terminalCase := false
		ast.Inspect(fd.Body, func(n ast.Node) bool {
			if cc, ok := n.(*ast.CaseClause); ok {
				for _, e := range cc.List {
					if id, ok := e.(*ast.Ident); ok && id.Name == "TypeDot" {
						terminalCase = true
					}
				}
			}
			return true
		})
		if terminalCase {
			out = append(out, fd)
		}
	}
	return out
}
