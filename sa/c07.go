package main

// C07 — -noast parsers accept the same language and feed captures to inline actions.

import (
	"fmt"
	"sort"
	"strings"
)

func projNoast(o outcome) string {
	// position skeleton + inline action / capture events; the token component is irrelevant without an AST
	var ev []string
	for _, e := range o.Hist {
		if strings.HasPrefix(e, "memo") {
			continue
		}
		ev = append(ev, e)
	}
	s := fmt.Sprintf("return %s at position %s after [%s]", o.Kind, o.Pos, strings.Join(stripToks(ev), " ; "))
	s = reLoop.ReplaceAllString(s, "loop")
	return rePD.ReplaceAllString(s, "$1")
}

// projSkeleton drops everything that legitimately differs between AST and no-AST code:
// tokens, memo events, action events (a rule call with AST, inline code without).
func projSkeleton(o outcome) string {
	if o.Kind == "memo" {
		return ""
	}
	var ev []string
	for _, e := range o.Hist {
		if strings.HasPrefix(e, "memo") || strings.HasPrefix(e, "text=") || strings.HasPrefix(e, "__act") || strings.HasPrefix(e, "ruleAction") {
			continue
		}
		ev = append(ev, e)
	}
	s := fmt.Sprintf("return %s at position %s after [%s]", o.Kind, o.Pos, strings.Join(stripToks(ev), " ; "))
	s = reLoop.ReplaceAllString(s, "loop")
	s = rePD.ReplaceAllString(s, "$1")
	// an action reference advances nothing: RAction0(P) == P
	for {
		i := strings.Index(s, "RAction")
		if i < 0 {
			break
		}
		j := strings.Index(s[i:], "(")
		if j < 0 {
			break
		}
		// remove "RActionN(" and the matching ")"
		open := i + j
		depth, k := 0, open
		for ; k < len(s); k++ {
			if s[k] == '(' {
				depth++
			} else if s[k] == ')' {
				depth--
				if depth == 0 {
					break
				}
			}
		}
		if k >= len(s) {
			break
		}
		s = s[:i] + s[open+1:k] + s[k+1:]
	}
	return s
}

func checkC07(c *Check) {
	c.Explain = "Decides: R-noast-skeleton — for every model of the suite (all operators and flavours, backtracking compositions with captures/actions) and for each of {plain, -inline}, the set of (verdict, final position, order and position of child attempts) the emitted rule function can produce under -noast equals the set it can produce with the AST, after projecting away tokens, memo events and action/capture events: the position/label skeleton of every operator template, the rule wrapper included, does not depend on the AST switch; R-noast-oracle — under -noast the emitted code equals the PEG oracle extended with inline events: an action's code runs exactly once at the point where the AST build adds its token (no add), and a <capture> assigns text = string(buffer[s:position]) with s the snapshot of the capture's entry position, after its child succeeded and before any following sibling; R-runtime-typecheck — all 16 -noast instantiations of the runtime template parse and type-check (text exists exactly when .HasPush and not .Ast). The -switch combinations are covered by C02's suite. Not decided: whether user actions make sense when run during backtracking (documented behaviour of -noast)."
	c.Assume = []string{"assumptions of C01", "inline action code does not touch parser state"}
	c.Trusted = []string{"interp.go, e2.go, spec.go", "go/types, go/cfg", "text/template/parse"}
	r := mustRepo(c)
	if r == nil {
		return
	}
	wholeSemantics(c, r, "R-whole-semantics", modelOpts{Ast: false})
	optSets := []modelOpts{{Ast: true}, {Ast: false}, {Ast: true, Inline: true}, {Ast: false, Inline: true}}
	specs := tokenSuite()
	if c.Tier == "thorough" {
		specs = append(specs, thoroughSpecs(c.Seed, 1200)...)
	}
	rs, probs := runSuite(r, specs, optSets)
	for _, p := range probs {
		c.Und("R-anchor", "tree.(*Tree).Compile/emission region", "", p)
	}
	if rs == nil {
		return
	}
	// oracle comparison for the no-AST runs
	var noast []*suiteResult
	for _, sr := range rs {
		if !sr.Opts.Ast {
			noast = append(noast, sr)
		}
	}
	reportSuite(c, "R-noast-oracle", noast, projNoast, "under -noast: verdict, position, child attempts, inline action runs and text assignments equal the oracle's", nil)
	// skeleton comparison AST vs no AST
	type key struct {
		name   string
		inline bool
	}
	idx := map[key][2]*suiteResult{}
	for _, sr := range rs {
		k := key{sr.Spec.Name, sr.Opts.Inline}
		e := idx[k]
		if sr.Opts.Ast {
			e[0] = sr
		} else {
			e[1] = sr
		}
		idx[k] = e
	}
	perOp := map[string][]string{}
	okOp := map[string]int{}
	var ops []string
	for k, pair := range idx {
		a, b := pair[0], pair[1]
		if a == nil || b == nil {
			continue
		}
		op := a.Spec.Op
		if _, seen := okOp[op]; !seen {
			ops = append(ops, op)
			okOp[op] = 0
		}
		if a.TV.Skipped != "" || b.TV.Skipped != "" {
			continue
		}
		if strings.HasPrefix(op, "random") && strings.Contains(strings.Join(append(append([]string{}, a.TV.Und...), b.TV.Und...), " "), "state explosion") {
			c.Note("random models left out (state explosion)", k.name)
			continue
		}
		if !(a.TV.EmitErr == "" && b.TV.EmitErr == "" && len(a.TV.TypeErrs) == 0 && len(b.TV.TypeErrs) == 0 && len(a.TV.Und) == 0 && len(b.TV.Und) == 0) {
			perOp[op] = append(perOp[op], k.name+": one side could not be analysed ("+a.TV.detail()+b.TV.detail()+")")
			continue
		}
		sa, sb := map[string]bool{}, map[string]bool{}
		for _, o := range a.TV.Got {
			if p := projSkeleton(o); p != "" {
				sa[p] = true
			}
		}
		for _, o := range b.TV.Got {
			if p := projSkeleton(o); p != "" {
				sb[p] = true
			}
		}
		var diff []string
		for p := range sa {
			if !sb[p] {
				diff = append(diff, "only with AST: "+p)
			}
		}
		for p := range sb {
			if !sa[p] {
				diff = append(diff, "only with -noast: "+p)
			}
		}
		sort.Strings(diff)
		if len(diff) > 0 {
			perOp[op] = append(perOp[op], fmt.Sprintf("%s [%s]: %s", k.name, map[bool]string{true: "-inline", false: "plain"}[k.inline], strings.Join(diff[:min(2, len(diff))], " | ")))
		} else {
			okOp[op]++
		}
	}
	sort.Strings(ops)
	for _, op := range ops {
		construct := "compile/case " + op
		if op == "composition" || op == "backtracking" {
			construct = "compile/" + op + " models"
		}
		if len(perOp[op]) > 0 {
			sort.Strings(perOp[op])
			c.Bad("R-noast-skeleton", construct, "", clip(strings.Join(perOp[op], " || "), 1500))
		} else {
			c.OK("R-noast-skeleton", construct, "", fmt.Sprintf("%d model pair(s): identical position skeleton with and without the AST", okOp[op]))
		}
	}
	c.Floor("R-noast-skeleton", len(idx), 100)
	// runtime configurations
	insts := runtimeInstances(c, r)
	n := 0
	for _, in := range insts {
		if in.repo == nil && in.canonOf == nil && !in.Cfg.Bools["Ast"] {
			n++
		}
	}
	c.Decide(n == 16, "R-runtime-typecheck", "all 16 -noast instantiations of the runtime template type-check", "tree/peg.go.tmpl", fmt.Sprintf("%d valuations with .Ast=false parse and type-check (no unused variable or import)", n), fmt.Sprintf("only %d of 16 -noast valuations type-check", n))
}
