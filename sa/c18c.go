package main

// C18 R-cli-semantics: main.go evaluated by the interpreter on a model of its
// environment — the flag package, the files it opens, the front end's
// Parse/Execute and (*Tree).Compile are natives that record what they are
// given and fail on demand — for a family of command lines × injected
// failures. Decided: exit status zero exactly when Compile was handed the
// requested destination and returned nil; the destination is -output, or
// <grammar>.go, or standard output; the grammar is the first argument or
// standard input; the option flags reach tree.New / Strict.

import (
	"fmt"
	"go/ast"
	"sort"
	"strings"
	"sync"
)

type exitSignal struct{ code int }

type cliScenario struct {
	argv                   []string
	failOpen               string // path whose opening fails ("" none)
	failWrite              bool   // every open for writing fails (the destination is unwritable)
	failRename             bool   // every rename fails
	failRead               bool
	failParse, failCompile bool
}

type cliTrace struct {
	exit        int
	opens       []string // "r:path" / "w:path"
	newArgs     string
	strict      string
	compileOut  string // what Compile was given as writer
	compiled    bool
	compileFile string
	readFrom    string
	und         string
	moves       []string // "old -> new" / "remove path", in order (the parser may be generated beside the destination and moved)
	renames     int
}

func runCLI(r *Repo, sc cliScenario) (tr cliTrace) {
	defer func() {
		if p := recover(); p != nil {
			switch x := p.(type) {
			case exitSignal:
				tr.exit = x.code
			case undecided:
				tr.und = x.msg
			case nilDeref:
				tr.und = "nil dereference at " + x.pos
			case goPanic:
				// a panic of main is a non-zero exit
				tr.exit = 2
			default:
				panic(p)
			}
		}
	}()
	it := newInterpFor(r, "")
	it.nilPanics = true
	it.extVars = map[string]Value{}
	argv := &SliceV{}
	for _, a := range sc.argv {
		argv.elems = append(argv.elems, a)
	}
	it.extVars["os.Args"] = argv
	stdin, stdout, stderr := &Ext{"os.Stdin"}, &Ext{"os.Stdout"}, &Ext{"os.Stderr"}
	it.extVars["os.Stdin"], it.extVars["os.Stdout"], it.extVars["os.Stderr"] = stdin, stdout, stderr
	// ---- flag ----
	type flagReg struct {
		cell *Cell
		kind string
	}
	type flagSet struct {
		flags      map[string]flagReg
		positional []string
	}
	newFS := func() *flagSet { return &flagSet{flags: map[string]flagReg{}} }
	deflt := newFS() // flag.CommandLine
	sets := map[*Ext]*flagSet{}
	parseArgs := func(fs *flagSet, a []string) {
		for len(a) > 0 {
			s := a[0]
			if s == "-" || !strings.HasPrefix(s, "-") {
				break
			}
			a = a[1:]
			if s == "--" {
				break
			}
			name := strings.TrimLeft(s, "-")
			val, hasVal := "", false
			if i := strings.Index(name, "="); i >= 0 {
				name, val, hasVal = name[:i], name[i+1:], true
			}
			f, ok := fs.flags[name]
			if !ok {
				panic(exitSignal{2}) // flag provided but not defined
			}
			switch f.kind {
			case "bool":
				f.cell.v = !hasVal || val == "true"
			default:
				if !hasVal {
					if len(a) == 0 {
						panic(exitSignal{2})
					}
					val, a = a[0], a[1:]
				}
				f.cell.v = val
			}
		}
		fs.positional = a
	}
	// the same operations on the default set (package functions) and on a FlagSet value (methods)
	type op func(fs *flagSet, args []Value) []Value
	reg := func(kind string) op {
		return func(fs *flagSet, args []Value) []Value {
			name, _ := args[0].(string)
			c := &Cell{args[1]}
			fs.flags[name] = flagReg{c, kind}
			return []Value{&Ptr{c}}
		}
	}
	regVar := func(kind string) op {
		return func(fs *flagSet, args []Value) []Value {
			p, ok := args[0].(*Ptr)
			if !ok {
				panic(undecided{"flag.*Var with a destination that is not the address of a variable"})
			}
			name, _ := args[1].(string)
			p.cell.v = args[2]
			fs.flags[name] = flagReg{p.cell, kind}
			return nil
		}
	}
	ops := map[string]op{
		"Bool": reg("bool"), "String": reg("string"), "Int": reg("int"),
		"BoolVar": regVar("bool"), "StringVar": regVar("string"), "IntVar": regVar("int"),
		"NArg": func(fs *flagSet, args []Value) []Value { return []Value{int64(len(fs.positional))} },
		"Arg": func(fs *flagSet, args []Value) []Value {
			i, _ := args[0].(int64)
			if int(i) < len(fs.positional) {
				return []Value{fs.positional[i]}
			}
			return []Value{""}
		},
		"Args": func(fs *flagSet, args []Value) []Value {
			s := &SliceV{elems: []Value{}}
			for _, p := range fs.positional {
				s.elems = append(s.elems, p)
			}
			return []Value{s}
		},
		"Parsed":        func(fs *flagSet, args []Value) []Value { return []Value{true} },
		"SetOutput":     func(fs *flagSet, args []Value) []Value { return nil },
		"Usage":         func(fs *flagSet, args []Value) []Value { return nil },
		"PrintDefaults": func(fs *flagSet, args []Value) []Value { return nil },
	}
	for name, f := range ops {
		f := f
		it.natives["flag."+name] = func(it *Interp, args []Value) []Value { return f(deflt, args) }
		it.natives["(*flag.FlagSet)."+name] = func(it *Interp, args []Value) []Value {
			e, _ := args[0].(*Ext)
			fs := sets[e]
			if fs == nil {
				panic(undecided{"method of a flag.FlagSet that flag.NewFlagSet did not create"})
			}
			return f(fs, args[1:])
		}
	}
	it.natives["flag.Parse"] = func(it *Interp, args []Value) []Value {
		parseArgs(deflt, sc.argv[1:])
		return nil
	}
	it.natives["flag.NewFlagSet"] = func(it *Interp, args []Value) []Value {
		e := &Ext{fmt.Sprintf("flag.FlagSet #%d (error handling %v)", len(sets)+1, args[1])}
		sets[e] = newFS()
		return []Value{e}
	}
	it.natives["(*flag.FlagSet).Parse"] = func(it *Interp, args []Value) []Value {
		e, _ := args[0].(*Ext)
		fs := sets[e]
		if fs == nil {
			panic(undecided{"Parse of a flag.FlagSet that flag.NewFlagSet did not create"})
		}
		var a []string
		if s, ok := args[1].(*SliceV); ok && s != nil {
			for _, x := range s.elems {
				str, _ := x.(string)
				a = append(a, str)
			}
		}
		parseArgs(fs, a) // a bad flag ends the process (ExitOnError) — ContinueOnError is not modelled
		if !strings.Contains(e.desc, "error handling 1") {
			panic(undecided{"a flag.FlagSet whose error handling is not flag.ExitOnError"})
		}
		return []Value{Nil{}}
	}
	// ---- files ----
	open := func(mode string) func(it *Interp, args []Value) []Value {
		return func(it *Interp, args []Value) []Value {
			name, _ := args[0].(string)
			if name == sc.failOpen || (sc.failWrite && strings.HasPrefix(mode, "w")) {
				tr.opens = append(tr.opens, mode+":"+name+" (fails)")
				return []Value{Nil{}, &Ext{"error: open " + name}}
			}
			tr.opens = append(tr.opens, mode+":"+name)
			return []Value{&Ext{"file " + mode + ":" + name}, Nil{}}
		}
	}
	it.natives["os.Open"] = open("r")
	it.natives["os.Create"] = open("w")
	it.natives["os.OpenFile"] = func(it *Interp, args []Value) []Value {
		fl, _ := args[1].(int64)
		mode := "r"
		if fl&0x3 != 0 {
			mode = "w"
			if fl&0x40 == 0 || fl&0x200 == 0 || fl&0x400 != 0 {
				mode = fmt.Sprintf("w(flags %#x: not create+truncate)", fl)
			}
		}
		return open(mode)(it, args)
	}
	it.natives["os.Rename"] = func(it *Interp, args []Value) []Value {
		from, _ := args[0].(string)
		to, _ := args[1].(string)
		tr.renames++
		if sc.failRename {
			tr.moves = append(tr.moves, "rename "+from+" -> "+to+" (fails)")
			return []Value{&Ext{"error: rename " + from + " " + to}}
		}
		tr.moves = append(tr.moves, "rename "+from+" -> "+to)
		return []Value{Nil{}}
	}
	it.natives["os.Remove"] = func(it *Interp, args []Value) []Value {
		name, _ := args[0].(string)
		tr.moves = append(tr.moves, "remove "+name)
		return []Value{Nil{}}
	}
	it.natives["(*os.File).Name"] = func(it *Interp, args []Value) []Value {
		if e, ok := args[0].(*Ext); ok {
			if i := strings.Index(e.desc, ":"); i >= 0 && strings.HasPrefix(e.desc, "file ") {
				return []Value{e.desc[i+1:]}
			}
		}
		panic(undecided{"Name of " + describe(args[0])})
	}
	it.natives["(*os.File).Close"] = func(it *Interp, args []Value) []Value { return []Value{Nil{}} }
	it.natives["(*os.File).Sync"] = func(it *Interp, args []Value) []Value { return []Value{Nil{}} }
	it.natives["io.NopCloser"] = func(it *Interp, args []Value) []Value { return []Value{args[0]} }
	it.natives["io.Copy"] = func(it *Interp, args []Value) []Value {
		tr.readFrom = describeStream(args[1])
		if sc.failRead {
			return []Value{int64(0), &Ext{"error: read"}}
		}
		text := "package p\ntype P Peg {}\nA <- .\n"
		for _, w := range []string{"(*strings.Builder).WriteString", "(*bytes.Buffer).WriteString"} {
			if f := it.natives[w]; f != nil {
				ok := true
				func() {
					defer func() {
						if recover() != nil {
							ok = false
						}
					}()
					f(it, []Value{args[0], text})
				}()
				if ok {
					return []Value{int64(len(text)), Nil{}}
				}
			}
		}
		panic(undecided{"io.Copy into " + describe(args[0])})
	}
	it.natives["io.ReadAll"] = func(it *Interp, args []Value) []Value {
		tr.readFrom = describeStream(args[0])
		if sc.failRead {
			return []Value{Nil{}, &Ext{"error: read"}}
		}
		text := &SliceV{}
		for _, b := range []byte("package p\ntype P Peg {}\nA <- .\n") {
			text.elems = append(text.elems, int64(b))
		}
		return []Value{text, Nil{}}
	}
	it.natives["os.ReadFile"] = func(it *Interp, args []Value) []Value {
		name, _ := args[0].(string)
		res := open("r")(it, args)
		if _, failed := res[0].(Nil); failed {
			return res
		}
		tr.readFrom = "file r:" + name
		text := &SliceV{}
		for _, b := range []byte("package p\ntype P Peg {}\nA <- .\n") {
			text.elems = append(text.elems, int64(b))
		}
		return []Value{text, Nil{}}
	}
	// ---- exits and messages ----
	exit := func(code int) func(it *Interp, args []Value) []Value {
		return func(it *Interp, args []Value) []Value { panic(exitSignal{code}) }
	}
	it.natives["log.Fatal"], it.natives["log.Fatalf"], it.natives["log.Fatalln"] = exit(1), exit(1), exit(1)
	it.natives["os.Exit"] = func(it *Interp, args []Value) []Value {
		c, _ := args[0].(int64)
		panic(exitSignal{int(c)})
	}
	quiet := func(it *Interp, args []Value) []Value { return []Value{int64(0), Nil{}} }
	for _, n := range []string{"fmt.Println", "fmt.Printf", "fmt.Print", "fmt.Fprintln", "fmt.Fprintf", "fmt.Fprint", "log.Println", "log.Printf", "log.Print"} {
		it.natives[n] = quiet
	}
	it.natives["log.SetFlags"] = func(it *Interp, args []Value) []Value { return nil }
	it.natives["errors.Join"] = func(it *Interp, args []Value) []Value {
		for _, a := range expandVariadic(args) {
			if _, isNil := a.(Nil); !isNil && a != nil {
				return []Value{a}
			}
		}
		return []Value{Nil{}}
	}
	// ---- the generator ----
	treePkg := r.pkg("tree")
	treeT := treePkg.Types.Scope().Lookup("Tree").Type()
	it.natives[modPath+"/tree.New"] = func(it *Interp, args []Value) []Value {
		tr.newArgs = fmt.Sprintf("inline=%v switch=%v noast=%v", args[0], args[1], args[2])
		return []Value{it.newObj(treeT)}
	}
	it.natives["(*"+modPath+"/tree.Tree).Compile"] = func(it *Interp, args []Value) []Value {
		tr.compiled = true
		if t, ok := args[0].(*Obj); ok && t.field("Strict") != nil {
			tr.strict = fmt.Sprint(t.field("Strict").v)
		}
		tr.compileFile, _ = args[1].(string)
		tr.compileOut = describeStream(args[3])
		if sc.failCompile {
			return []Value{&Ext{"error: compile"}}
		}
		return []Value{Nil{}}
	}
	// the front end's own methods: Init/Parse/Execute and the printers
	for fn, fd := range it.decls {
		if fd.Recv == nil {
			continue
		}
		switch fn.Name() {
		case "Init":
			it.hooks[fd] = func(it *Interp, cl *Closure, args []Value) ([]Value, bool) { return []Value{Nil{}}, true }
		case "Parse":
			it.hooks[fd] = func(it *Interp, cl *Closure, args []Value) ([]Value, bool) {
				if sc.failParse {
					return []Value{&Ext{"error: parse error"}}, true
				}
				return []Value{Nil{}}, true
			}
		case "Execute", "Print", "PrintSyntaxTree", "Reset":
			it.hooks[fd] = func(it *Interp, cl *Closure, args []Value) ([]Value, bool) { return nil, true }
		}
	}
	// package-level variables of main.go: evaluate their initialisers in source order
	mp := r.pkg("")
	for _, f := range mp.Syntax {
		if !strings.HasSuffix(r.Fset.Position(f.Pos()).Filename, "/main.go") {
			continue
		}
		for _, d := range f.Decls {
			gd, ok := d.(*ast.GenDecl)
			if !ok {
				continue
			}
			for _, sp := range gd.Specs {
				vs, ok := sp.(*ast.ValueSpec)
				if !ok {
					continue
				}
				for i, id := range vs.Names {
					obj := it.info.Defs[id]
					if obj == nil {
						continue
					}
					var v Value
					if i < len(vs.Values) {
						v = it.eval(vs.Values[i], newEnv(nil))
					} else {
						v = it.zeroVar(obj.Type())
					}
					it.globals[obj] = &Cell{v}
				}
			}
		}
	}
	var mainFd *ast.FuncDecl
	for fn, fd := range it.decls {
		if fn.Name() == "main" && fd.Recv == nil {
			mainFd = fd
		}
		if fn.Name() == "init" && fd.Recv == nil && strings.HasSuffix(r.Fset.Position(fd.Pos()).Filename, "/main.go") {
			it.invoke(nil, &Closure{name: "init", typ: fd.Type, body: fd.Body, lit: fd, decl: fd, env: newEnv(nil)}, nil)
		}
	}
	if mainFd == nil {
		tr.und = "func main not found"
		return
	}
	it.invoke(nil, &Closure{name: "main", typ: mainFd.Type, body: mainFd.Body, lit: mainFd, decl: mainFd, env: newEnv(nil)}, nil)
	return tr
}

func describeStream(v Value) string {
	switch x := v.(type) {
	case *Ext:
		return x.desc
	case *Obj:
		// a wrapper struct around a stream: describe what it holds
		for _, f := range x.fields {
			if e, ok := f.v.(*Ext); ok {
				return e.desc
			}
		}
	}
	return describe(v)
}

// finalLocation: where the text Compile wrote is when main ends.
func finalLocation(tr cliTrace) string {
	loc := tr.compileOut
	if !strings.HasPrefix(loc, "file w:") {
		return loc
	}
	p := strings.TrimPrefix(loc, "file w:")
	for _, mv := range tr.moves {
		switch {
		case strings.HasSuffix(mv, "(fails)"):
		case strings.HasPrefix(mv, "rename "):
			ft := strings.SplitN(strings.TrimPrefix(mv, "rename "), " -> ", 2)
			if len(ft) == 2 && ft[0] == p {
				p = ft[1]
			} else if len(ft) == 2 && ft[1] == p {
				return "(overwritten by " + ft[0] + ")"
			}
		case strings.HasPrefix(mv, "remove "):
			if strings.TrimPrefix(mv, "remove ") == p {
				return "(removed)"
			}
		}
	}
	return "file w:" + p
}

// cliVerdict caches the evaluation behind R-cli-semantics for the rules that yield to it.
type cliResult struct {
	bad []string
	und string
	n   int
}

var (
	cliOnce sync.Once
	cliRes  cliResult
)

func cliVerdict(r *Repo) cliResult {
	cliOnce.Do(func() { cliRes.bad, cliRes.und, cliRes.n = cliEvaluate(r) })
	return cliRes
}

func cliSemantics(c *Check, r *Repo) {
	construct := "main/exit status, destination, source and option wiring on modelled command lines"
	res := cliVerdict(r)
	if res.und != "" {
		c.Und("R-cli-semantics", construct, r.pos(r.pkg("").Syntax[0].Pos()), res.und)
		return
	}
	bad, n := res.bad, res.n
	c.Decide(len(bad) == 0 && n >= 60, "R-cli-semantics", construct, "",
		fmt.Sprintf("%d evaluations of main (14 command lines: default, nested and absolute grammar paths, -output file / = / -, standard input, each option flag and all of them × success, syntax error, generation failure, read failure, unopenable grammar, unopenable destination, no file writable, moving a file fails): exit status 0 exactly when the text Compile wrote is at the requested destination when main ends and Compile returned nil; grammar, destination, tree.New arguments and Strict as the command line says; create+truncate on the destination", n),
		strings.Join(bad, "; "))
}

func cliEvaluate(r *Repo) (bad []string, und string, n int) {
	type cmd struct {
		argv       []string
		dest       string // expected writer given to Compile
		src        string // expected reader
		wantNew    string
		wantStrict string
	}
	base := "inline=false switch=false noast=false"
	cmds := []cmd{
		{[]string{"peg", "g.peg"}, "file w:g.peg.go", "file r:g.peg", base, "false"},
		{[]string{"peg", "dir/sub/g.peg"}, "file w:dir/sub/g.peg.go", "file r:dir/sub/g.peg", base, "false"},
		{[]string{"peg", "/abs/g.peg"}, "file w:/abs/g.peg.go", "file r:/abs/g.peg", base, "false"},
		{[]string{"peg", "-output", "out.go", "g.peg"}, "file w:out.go", "file r:g.peg", base, "false"},
		{[]string{"peg", "-output=o/x.go", "d/g.peg"}, "file w:o/x.go", "file r:d/g.peg", base, "false"},
		{[]string{"peg", "-output", "-", "g.peg"}, "os.Stdout", "file r:g.peg", base, "false"},
		{[]string{"peg"}, "os.Stdout", "os.Stdin", base, "false"},
		{[]string{"peg", "-"}, "os.Stdout", "os.Stdin", base, "false"},
		{[]string{"peg", "-output", "out.go"}, "file w:out.go", "os.Stdin", base, "false"},
		{[]string{"peg", "-inline", "g.peg"}, "file w:g.peg.go", "file r:g.peg", "inline=true switch=false noast=false", "false"},
		{[]string{"peg", "-switch", "g.peg"}, "file w:g.peg.go", "file r:g.peg", "inline=false switch=true noast=false", "false"},
		{[]string{"peg", "-noast", "g.peg"}, "file w:g.peg.go", "file r:g.peg", "inline=false switch=false noast=true", "false"},
		{[]string{"peg", "-strict", "g.peg"}, "file w:g.peg.go", "file r:g.peg", base, "true"},
		{[]string{"peg", "-inline", "-switch", "-noast", "-strict", "-output", "x.go", "g.peg"}, "file w:x.go", "file r:g.peg", "inline=true switch=true noast=true", "true"},
	}
	for _, cm := range cmds {
		line := strings.Join(cm.argv, " ")
		grammar := ""
		if strings.HasPrefix(cm.src, "file r:") {
			grammar = strings.TrimPrefix(cm.src, "file r:")
		}
		destPath := ""
		if strings.HasPrefix(cm.dest, "file w:") {
			destPath = strings.TrimPrefix(cm.dest, "file w:")
		}
		scs := []struct {
			name string
			sc   cliScenario
			ok   bool
		}{
			{"everything succeeds", cliScenario{argv: cm.argv}, true},
			{"the grammar has a syntax error", cliScenario{argv: cm.argv, failParse: true}, false},
			{"generation fails (e.g. -strict with a warning)", cliScenario{argv: cm.argv, failCompile: true}, false},
			{"reading the grammar fails", cliScenario{argv: cm.argv, failRead: true}, false},
		}
		if grammar != "" {
			scs = append(scs, struct {
				name string
				sc   cliScenario
				ok   bool
			}{"the grammar file cannot be opened", cliScenario{argv: cm.argv, failOpen: grammar}, false})
		}
		if destPath != "" {
			scs = append(scs, struct {
				name string
				sc   cliScenario
				ok   bool
			}{"the destination cannot be opened", cliScenario{argv: cm.argv, failOpen: destPath}, false}, struct {
				name string
				sc   cliScenario
				ok   bool
			}{"no file can be opened for writing", cliScenario{argv: cm.argv, failWrite: true}, false}, struct {
				name string
				sc   cliScenario
				ok   bool
			}{"moving a file fails", cliScenario{argv: cm.argv, failRename: true}, false})
		}
		for _, s := range scs {
			tr := runCLI(r, s.sc)
			n++
			if tr.und != "" {
				return nil, "`" + line + "`: " + tr.und, n
			}
			where := "`" + line + "` when " + s.name
			if s.sc.failOpen == destPath && destPath != "" && tr.exit == 0 && finalLocation(tr) == cm.dest && !strings.Contains(strings.Join(tr.opens, " "), "(fails)") {
				// the destination itself is never opened (the parser is generated elsewhere and moved
				// there): the unwritable destination is the "no file can be opened" / "moving fails" case
				continue
			}
			if s.sc.failRename && tr.renames == 0 {
				// nothing is moved: this is the success case again
				if tr.exit != 0 {
					bad = append(bad, fmt.Sprintf("%s: exit status %d although nothing failed", where, tr.exit))
				}
				continue
			}
			if s.ok {
				if tr.exit != 0 {
					bad = append(bad, fmt.Sprintf("%s: exit status %d", where, tr.exit))
					continue
				}
				if !tr.compiled {
					bad = append(bad, where+": exit status 0 although the parser was never generated")
					continue
				}
				if final := finalLocation(tr); final != cm.dest {
					bad = append(bad, fmt.Sprintf("%s: the parser ends up in %s, requested: %s (files opened: %s; moved: %s)", where, final, cm.dest, strings.Join(tr.opens, ", "), strings.Join(tr.moves, ", ")))
				}
				if tr.readFrom != cm.src {
					bad = append(bad, fmt.Sprintf("%s: the grammar is read from %s, expected %s", where, tr.readFrom, cm.src))
				}
				if tr.newArgs != cm.wantNew {
					bad = append(bad, fmt.Sprintf("%s: tree.New is given %s, the flags say %s", where, tr.newArgs, cm.wantNew))
				}
				if tr.strict != cm.wantStrict {
					bad = append(bad, fmt.Sprintf("%s: Strict is %s when Compile runs, the flag says %s", where, tr.strict, cm.wantStrict))
				}
				for _, o := range tr.opens {
					if strings.HasPrefix(o, "w(") {
						bad = append(bad, where+": the destination is opened with "+o)
					}
				}
			} else if tr.exit == 0 {
				bad = append(bad, where+": exit status 0")
			}
			if s.sc.failParse || s.sc.failRead || (s.sc.failOpen != "" && s.sc.failOpen == grammar) {
				if tr.compiled {
					bad = append(bad, where+": the generator still runs")
				}
			}
		}
	}
	sort.Strings(bad)
	bad = uniq(bad)
	if len(bad) > 5 {
		bad = append(bad[:5], fmt.Sprintf("… %d more", len(bad)-5))
	}
	return bad, "", n
}
