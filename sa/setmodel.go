package main

// A mathematical model of package set (normalised interval lists) used when
// the interpreter evaluates optimizeAlternates: the arithmetic of the real
// set package is value-level and outside this analysis (C16 says so); what is
// analysed here is how the emitter *uses* FIRST sets.

import (
	"fmt"
	"sort"
)

type NSet struct{ iv [][2]rune }

func (s *NSet) norm() {
	sort.Slice(s.iv, func(i, j int) bool { return s.iv[i][0] < s.iv[j][0] })
	var out [][2]rune
	for _, x := range s.iv {
		if x[0] > x[1] {
			continue
		}
		if n := len(out); n > 0 && x[0] <= out[n-1][1]+1 {
			if x[1] > out[n-1][1] {
				out[n-1][1] = x[1]
			}
			continue
		}
		out = append(out, x)
	}
	s.iv = out
}

func (s *NSet) add(lo, hi rune) { s.iv = append(s.iv, [2]rune{lo, hi}); s.norm() }

func (s *NSet) has(r rune) bool {
	for _, x := range s.iv {
		if r >= x[0] && r <= x[1] {
			return true
		}
	}
	return false
}

func (s *NSet) len() int {
	n := 0
	for _, x := range s.iv {
		n += int(x[1]-x[0]) + 1
	}
	return n
}

func (s *NSet) copy() *NSet { return &NSet{append([][2]rune{}, s.iv...)} }

func (s *NSet) union(o *NSet) *NSet {
	c := s.copy()
	c.iv = append(c.iv, o.iv...)
	c.norm()
	return c
}

func (s *NSet) intersects(o *NSet) bool {
	for _, a := range s.iv {
		for _, b := range o.iv {
			if a[0] <= b[1] && b[0] <= a[1] {
				return true
			}
		}
	}
	return false
}

func (s *NSet) complement(limit rune) *NSet {
	c := &NSet{}
	pre := rune(0)
	for _, x := range s.iv {
		if x[0] > limit {
			break
		}
		if x[0] > pre {
			c.iv = append(c.iv, [2]rune{pre, x[0] - 1})
		}
		pre = x[1] + 1
	}
	if pre <= limit {
		c.iv = append(c.iv, [2]rune{pre, limit})
	}
	c.norm()
	return c
}

func (s *NSet) members() []rune {
	var out []rune
	for _, x := range s.iv {
		for r := x[0]; r <= x[1]; r++ {
			out = append(out, r)
		}
	}
	return out
}

func (s *NSet) subsetOf(o *NSet) bool {
	for _, x := range s.iv {
		// every interval of s must lie within one interval of o (o normalised)
		ok := false
		for _, y := range o.iv {
			if x[0] >= y[0] && x[1] <= y[1] {
				ok = true
			}
		}
		if !ok {
			return false
		}
	}
	return true
}

func installSetNatives(it *Interp) {
	pre := modPath + "/set."
	set := func(v Value) *NSet {
		s, ok := v.(*NSet)
		if !ok {
			panic(undecided{"set operation on " + describe(v)})
		}
		return s
	}
	r := func(v Value) rune {
		i, ok := v.(int64)
		if !ok {
			panic(undecided{"set operation with a non-concrete rune"})
		}
		return rune(i)
	}
	n := it.natives
	n[pre+"NewSet"] = func(it *Interp, a []Value) []Value { return []Value{&NSet{}} }
	m := "(*" + pre[:len(pre)-1] + ".Set)."
	n[m+"Add"] = func(it *Interp, a []Value) []Value { set(a[0]).add(r(a[1]), r(a[1])); return nil }
	n[m+"AddRange"] = func(it *Interp, a []Value) []Value { set(a[0]).add(r(a[1]), r(a[2])); return nil }
	n[m+"Has"] = func(it *Interp, a []Value) []Value { return []Value{set(a[0]).has(r(a[1]))} }
	n[m+"Len"] = func(it *Interp, a []Value) []Value { return []Value{int64(set(a[0]).len())} }
	n[m+"Copy"] = func(it *Interp, a []Value) []Value { return []Value{set(a[0]).copy()} }
	n[m+"Union"] = func(it *Interp, a []Value) []Value { return []Value{set(a[0]).union(set(a[1]))} }
	n[m+"Intersects"] = func(it *Interp, a []Value) []Value { return []Value{set(a[0]).intersects(set(a[1]))} }
	n[m+"Complement"] = func(it *Interp, a []Value) []Value { return []Value{set(a[0]).complement(r(a[1]))} }
	n[m+"Equal"] = func(it *Interp, a []Value) []Value {
		x, y := set(a[0]), set(a[1])
		return []Value{x.subsetOf(y) && y.subsetOf(x)}
	}
	n[m+"String"] = func(it *Interp, a []Value) []Value { return []Value{fmt.Sprint(set(a[0]).iv)} }
}
