package main

// C10, fourth part: R-syntax-differential. Expression texts in the documented
// .peg syntax are read twice — by the independent reader (pegreader.go) and by
// peg.peg itself, evaluated with the PEG semantics of c10c.go, whose recorded
// builder calls are then executed on the builder's source by the E1
// interpreter — and the two trees are compared in a normal form that ignores
// nesting of sequences/choices only. Also compared: which texts are rejected.

import (
	"fmt"
	"sort"
	"strconv"
	"strings"
	"unicode"
)

// ---- normal forms ----------------------------------------------------------

func nfSeq(parts []string) string {
	var flat []string
	for _, p := range parts {
		if strings.HasPrefix(p, "seq[") {
			flat = append(flat, splitTop(p[4:len(p)-1])...)
		} else {
			flat = append(flat, p)
		}
	}
	if len(flat) == 1 {
		return flat[0]
	}
	return "seq[" + strings.Join(flat, " ") + "]"
}

func nfAlt(parts []string) string {
	var flat []string
	for _, p := range parts {
		if strings.HasPrefix(p, "alt[") {
			flat = append(flat, splitTop(p[4:len(p)-1])...)
		} else {
			flat = append(flat, p)
		}
	}
	// neighbouring one-character terminals of a choice denote the union of their sets, whatever
	// their order and however the set is split into characters and ranges
	var merged []string
	for i := 0; i < len(flat); {
		j := i
		var iv [][2]rune
		for j < len(flat) {
			ivs, ok := nfIntervals(flat[j])
			if !ok {
				break
			}
			iv = append(iv, ivs...)
			j++
		}
		if j-i < 2 {
			merged = append(merged, flat[i])
			i++
			continue
		}
		sort.Slice(iv, func(a, b int) bool { return iv[a][0] < iv[b][0] })
		var out [][2]rune
		for _, x := range iv {
			if n := len(out); n > 0 && x[0] <= out[n-1][1]+1 {
				if x[1] > out[n-1][1] {
					out[n-1][1] = x[1]
				}
				continue
			}
			out = append(out, x)
		}
		switch len(out) {
		case 0:
			merged = append(merged, "set[]")
		case 1:
			merged = append(merged, nfRange(out[0][0], out[0][1]))
		default:
			var ps []string
			for _, x := range out {
				ps = append(ps, nfRange(x[0], x[1]))
			}
			merged = append(merged, "set["+strings.Join(ps, " ")+"]")
		}
		i = j
	}
	flat = merged
	if len(flat) == 1 {
		return flat[0]
	}
	return "alt[" + strings.Join(flat, " ") + "]"
}

// nfIntervals: the code points a char(…), range(…,…) or set[…] normal form denotes.
func nfIntervals(p string) ([][2]rune, bool) {
	if strings.HasPrefix(p, "set[") && strings.HasSuffix(p, "]") {
		var out [][2]rune
		for _, q := range splitTop(p[4 : len(p)-1]) {
			lo, hi, ok := nfTerm(q)
			if !ok {
				return nil, false
			}
			if lo <= hi {
				out = append(out, [2]rune{lo, hi})
			}
		}
		return out, true
	}
	lo, hi, ok := nfTerm(p)
	if !ok {
		return nil, false
	}
	if lo > hi {
		return nil, true
	}
	return [][2]rune{{lo, hi}}, true
}

// nfTerm reads a char(…) or range(…,…) normal form back.
func nfTerm(p string) (lo, hi rune, ok bool) {
	unq := func(q string) (rune, bool) {
		s, err := strconv.Unquote(q)
		if err != nil {
			return 0, false
		}
		rs := []rune(s)
		if len(rs) != 1 {
			return 0, false
		}
		return rs[0], true
	}
	switch {
	case strings.HasPrefix(p, "char(") && strings.HasSuffix(p, ")"):
		r, ok := unq(p[5 : len(p)-1])
		return r, r, ok
	case strings.HasPrefix(p, "range(") && strings.HasSuffix(p, ")"):
		body := p[6 : len(p)-1]
		// 'x','y' — the separating comma is the one after the first closing quote
		for i := 2; i < len(body)-1; i++ {
			if body[i] == ',' && body[i-1] == '\'' && body[i+1] == '\'' {
				a, ok1 := unq(body[:i])
				b, ok2 := unq(body[i+1:])
				if ok1 && ok2 {
					return a, b, true
				}
			}
		}
	}
	return 0, 0, false
}

// splitTop splits "a b[c d] e" at top-level spaces.
func splitTop(s string) []string {
	var out []string
	depth, st := 0, 0
	inq := false
	rs := []rune(s)
	for i := 0; i < len(rs); i++ {
		switch {
		case rs[i] == '"' && (i == 0 || rs[i-1] != '\\'):
			inq = !inq
		case inq:
		case rs[i] == '[' || rs[i] == '(':
			depth++
		case rs[i] == ']' || rs[i] == ')':
			depth--
		case rs[i] == ' ' && depth == 0:
			out = append(out, string(rs[st:i]))
			st = i + 1
		}
	}
	return append(out, string(rs[st:]))
}

func nfChar(r rune) string { return "char(" + strconv.QuoteRune(r) + ")" }

func nfRange(lo, hi rune) string {
	if lo == hi {
		return nfChar(lo)
	}
	return "range(" + strconv.QuoteRune(lo) + "," + strconv.QuoteRune(hi) + ")"
}

// readerNorm: the documented meaning of an expression.
func readerNorm(e *pexpr) string {
	kids := func() []string {
		var ks []string
		for _, k := range e.Kids {
			ks = append(ks, readerNorm(k))
		}
		return ks
	}
	switch e.Op {
	case "seq":
		return nfSeq(kids())
	case "alt":
		return nfAlt(kids())
	case "query", "star", "plus", "and", "not":
		return e.Op + "(" + readerNorm(e.Kids[0]) + ")"
	case "capture":
		return "push(" + readerNorm(e.Kids[0]) + ")"
	case "name":
		return "name(" + e.S + ")"
	case "dot":
		return "dot"
	case "nil":
		return "nil"
	case "action":
		return "action(" + strconv.Quote(e.S) + ")"
	case "pred":
		return "pred(" + strconv.Quote(e.S) + ")"
	case "state":
		return "state(" + strconv.Quote(e.S) + ")"
	case "lit":
		rs := []rune(e.S)
		if len(rs) == 0 {
			return "nil"
		}
		var ps []string
		for _, r := range rs {
			if e.Insens && unicode.IsLetter(r) && r < 128 {
				ps = append(ps, nfAlt([]string{nfChar(unicode.ToLower(r)), nfChar(unicode.ToUpper(r))}))
			} else {
				ps = append(ps, nfChar(r))
			}
		}
		return nfSeq(ps)
	case "class":
		if len(e.Ranges) == 0 {
			return "not(nil)" // the empty class matches nothing
		}
		var ps []string
		for _, rg := range e.Ranges {
			lo, hi := rg[0], rg[1]
			if e.Insens {
				if lo == hi {
					if unicode.IsLetter(lo) && lo < 128 {
						ps = append(ps, nfAlt([]string{nfChar(unicode.ToLower(lo)), nfChar(unicode.ToUpper(lo))}))
					} else {
						ps = append(ps, nfChar(lo))
					}
				} else {
					ps = append(ps, nfAlt([]string{nfRange(unicode.ToLower(lo), unicode.ToLower(hi)), nfRange(unicode.ToUpper(lo), unicode.ToUpper(hi))}))
				}
			} else {
				ps = append(ps, nfRange(lo, hi))
			}
		}
		body := nfAlt(ps)
		if e.Neg {
			return nfSeq([]string{"not(" + body + ")", "dot"})
		}
		return body
	}
	return "?" + e.Op
}

// builderNorm: the tree the builder made.
func builderNorm(m *model, n *Obj) string {
	if n == nil {
		return "<nil>"
	}
	ks := func() []string {
		var out []string
		for _, k := range m.kids(n) {
			out = append(out, builderNorm(m, k))
		}
		return out
	}
	one := func() string {
		k := m.kids(n)
		if len(k) != 1 {
			return fmt.Sprintf("<%d operands>", len(k))
		}
		return builderNorm(m, k[0])
	}
	str := m.strOf(n)
	switch m.typeOf(n) {
	case "TypeSequence":
		return nfSeq(ks())
	case "TypeAlternate":
		return nfAlt(ks())
	case "TypeQuery":
		return "query(" + one() + ")"
	case "TypeStar":
		return "star(" + one() + ")"
	case "TypePlus":
		return "plus(" + one() + ")"
	case "TypePeekFor":
		return "and(" + one() + ")"
	case "TypePeekNot":
		return "not(" + one() + ")"
	case "TypePush":
		return "push(" + one() + ")"
	case "TypeName":
		return "name(" + str + ")"
	case "TypeDot":
		return "dot"
	case "TypeNil":
		return "nil"
	case "TypeAction":
		return "action(" + strconv.Quote(str) + ")"
	case "TypePredicate":
		return "pred(" + strconv.Quote(str) + ")"
	case "TypeStateChange":
		return "state(" + strconv.Quote(str) + ")"
	case "TypeCharacter":
		rs := []rune(str)
		if len(rs) != 1 {
			return fmt.Sprintf("char<%q>", str)
		}
		return nfChar(rs[0])
	case "TypeRange":
		k := m.kids(n)
		if len(k) != 2 {
			return "range<?>"
		}
		lo, hi := []rune(m.strOf(k[0])), []rune(m.strOf(k[1]))
		if len(lo) != 1 || len(hi) != 1 {
			return "range<?>"
		}
		return nfRange(lo[0], hi[0])
	}
	return "?" + m.typeOf(n)
}

// pegBuild reads an expression text with peg.peg and the builder; ok=false when peg.peg rejects it.
func pegBuild(r *Repo, g *pgrammar, exprRule, text string) (norm string, ok bool, und string) {
	defer func() {
		if p := recover(); p != nil {
			if u, isU := p.(undecided); isU {
				und = u.msg
				return
			}
			und = fmt.Sprint(p)
		}
	}()
	end, accepted, tr, u := runRule(g, exprRule, text)
	if u != "" {
		return "", false, u
	}
	if !accepted || end != len([]rune(text)) {
		return "", false, ""
	}
	fm := newFrontModel(r)
	fm.call("AddRule", "R")
	for _, a := range tr {
		calls, u := concreteCalls(r, g, a.code, a.text)
		if u != "" {
			return "", false, u
		}
		for _, cs := range calls {
			var args []Value
			for _, x := range cs.Args {
				args = append(args, x)
			}
			fm.call(cs.Method, args...)
		}
	}
	fm.call("AddExpression")
	var rule *Obj
	for _, n := range fm.m.kids(fm.tree.field("node").v.(*Obj)) {
		if fm.m.typeOf(n) == "TypeRule" {
			rule = n
		}
	}
	if rule == nil {
		return "<no rule was built>", true, ""
	}
	ks := fm.m.kids(rule)
	if len(ks) != 1 {
		return fmt.Sprintf("<rule with %d expressions>", len(ks)), true, ""
	}
	return builderNorm(fm.m, ks[0]), true, ""
}

func readerBuild(text string) (norm string, ok bool, unspecified bool) {
	defer func() {
		if p := recover(); p != nil {
			if _, isSyn := p.(pegSyntaxError); isSyn {
				norm, ok = "", false
				return
			}
			if _, isU := p.(pegUnspecified); isU {
				unspecified = true
				return
			}
			panic(p)
		}
	}()
	p := &pegParser{src: []rune(text), file: "expr"}
	// an expression is entered behind "<- Spacing": no leading spacing of its own
	e := p.expression()
	if !p.eof() {
		return "", false, false
	}
	return readerNorm(e), true, false
}

// exprCorpus: expression texts covering the documented constructs.
func exprCorpus() []string {
	prim := []string{
		"a", "Ab_1", "'x'", "'ab'", "'aB1'", `"a"`, `"aB1"`, `"1"`, "''", `""`, "[a]", "[a-c]", "[ab-dz]", "[^a]", "[^a-c]", "[[a]]", "[[a-c]]", "[[A-C]]", "[[0-9]]", "[[0-F]]", "[[A-f]]", "[[_-z]]", "[[a-cA-C]]", "[[0-9a-fA-F]]", "[[!-a]]", "[[Z-a]]", "[[1]]", "[[_]]", "[a-cb-d]", "[abc]", "[a-a]", "[[^a]]", "[[^a-cx]]", "[]", "[[]]", "[^]", ".", "{x}", "{ f(x, {y}) }", "<a>", "< 'a' 'b' >", "( a )", "(a / b)", "(a b)",
		`'\n'`, `'\t'`, `'\\'`, `'\''`, `"\""`, `'\a\b\e\f\r\v'`, `[\]]`, `[\[\-]`, `[\\]`, `'\101'`, `'\7'`, `'\18'`, `'\0x41'`, `'\0x1F600'`, `'\0X41'`, `'\0x2190'`, `[\0x61-\0x63]`, `[\101-\103]`, `"\N"`, `'\400'`, `'-'`, `[-a]`, `[a-]`, `[a\-c]`, `'世'`, `[世-界]`, `"é"`,
	}
	var out []string
	add := func(s string) { out = append(out, s) }
	for _, p := range prim {
		add(p)
		for _, suf := range []string{"?", "*", "+"} {
			add(p + suf)
		}
	}
	small := []string{"a", "'x'", "[a-c]", ".", "(a / b)", "<a>", `"q"`, "[[x]]"}
	for _, p := range small {
		for _, pre := range []string{"&", "!"} {
			add(pre + p)
			add(pre + p + "*")
			add(pre + " " + p + "?")
		}
	}
	add("&{x}")
	add("!{x}")
	add("&{ a && b }")
	add("a &{x} b")
	for _, p := range small {
		for _, q := range small {
			add(p + " " + q)
			add(p + " / " + q)
			add(p + q)
		}
	}
	extra := []string{
		"a b c", "a / b / c", "a b / c d", "a / b c / d", "a /", "a b /", "a / b /", "", "a* b+ c?", "!a b", "&a* b", "!(a b) c", "a (b / c)* d", "((a))", "<a b>*", "<a / b> c", "a {x} b", "{x} a", "a\nb", "a # c\n b", "a // c\n b", "a\t/\tb", " a", "a ", "a #c\n", "a\r\nb", "a\rb", "a # c\r b", "a // c\r / b", "a #c\r",
		"a / 'b' \"c\" [d] [[e]] . {f} <g> (h)", "!'a' . / &[b] 'b' / [^c]+", "'a'?*", "a?+", "'' a", "[] a", "a / ''",
	}
	out = append(out, extra...)
	bad := []string{"(", ")", "(a", "a)", "'a", `"a`, "[a", "[[a]", "<a", "a>", "{a", "a}", "?", "*a", "a **(", "/", "/ a", "a // b", "&", "!", "a &", "'\\q'", "[\\q]", "'\\", "a <- b", "<-", "a ← b", "'\\8'", "'\\0x'", "'\\0xg'"}
	out = append(out, bad...)
	return out
}

func syntaxDifferential(c *Check, r *Repo, g *pgrammar) {
	rl := ruleCalling(g, "AddAlternate")
	if rl == nil {
		c.Bad("R-syntax-differential", "peg.peg/expression rule", "", "no rule calls AddAlternate")
		return
	}
	pos := fmt.Sprintf("peg.peg:%d", rl.Line)
	construct := "peg.peg/" + rl.Name + " builds the documented tree for documented syntax and rejects the rest"
	texts := exprCorpus()
	alpha := []rune{'a', '\'', '"', '[', ']', '^', '-', '(', ')', '/', '?', '*', '+', '&', '!', '.', '<', '>', '{', '}', '\\', ' ', '0', 'x'}
	maxLen := 3
	if c.Tier == "thorough" {
		maxLen = 4
	}
	texts = append(texts, allStrings(alpha, maxLen)...)
	type res struct{ bad, und string }
	out := make([]res, len(texts))
	parallelChunks(len(texts), func(lo, hi int) {
		for i := lo; i < hi; i++ {
			t := texts[i]
			want, wok, unspec := readerBuild(t)
			if unspec {
				continue
			}
			got, gok, und := pegBuild(r, g, rl.Name, t)
			if und != "" {
				out[i].und = und
				continue
			}
			switch {
			case wok && !gok:
				out[i].bad = fmt.Sprintf("%q is documented syntax (%s) but peg.peg rejects it", t, want)
			case !wok && gok:
				out[i].bad = fmt.Sprintf("%q is not an expression in the documented syntax but peg.peg accepts it as %s", t, got)
			case wok && gok && want != got:
				out[i].bad = fmt.Sprintf("%q denotes %s; peg.peg and the builder make %s", t, want, got)
			}
		}
	})
	var bad []string
	for _, o := range out {
		if o.und != "" {
			c.Und("R-syntax-differential", construct, pos, o.und)
			return
		}
		if o.bad != "" {
			bad = append(bad, o.bad)
		}
	}
	sort.Slice(bad, func(i, j int) bool {
		if len(bad[i]) != len(bad[j]) {
			return len(bad[i]) < len(bad[j])
		}
		return bad[i] < bad[j]
	})
	nb := len(bad)
	if len(bad) > 12 {
		bad = append(bad[:12], fmt.Sprintf("… %d more", nb-12))
	}
	c.Decide(nb == 0 && len(texts) > 1000, "R-syntax-differential", construct, pos,
		fmt.Sprintf("%d expression texts (a corpus of every documented construct, escape, quoting style, class form, operator and spacing/comment spelling, well-formed and malformed, plus every string of at most %d characters over %d token characters): the independent reader and peg.peg+builder accept the same texts and build the same tree up to nesting of sequences and choices", len(texts), maxLen, len(alpha)),
		strings.Join(bad, "; "))
}

// ---- whole grammar texts -----------------------------------------------------

func grammarCorpus() (good, bad []string) {
	head := "package p\n\ntype G Peg {\n n int\n}\n\n"
	good = []string{
		head + "A <- 'a' B\nB <- [b-c]*\n",
		head + "A ← 'a' B\nB ← .\n",
		head + "A <- 'a' B\nB ← .\n",
		head + "A<-'a'B\nB<-.\n",
		head + "A <- 'a' # tail comment\n  / B // another\nB <- .\n",
		head + "# comment before the first rule\nA <- 'a'\n\n// comment between rules\n\nB <- A\n# last line comment",
		head + "A <- 'a'\r\nB <- A\r\n",
		// a lone carriage return ends a line (and a comment) too
		head + "A <- 'a'\rB <- A\r",
		head + "A <- 'a' # one\r / 'b' // two\r / B\rB <- 'c'\r",
		"# header comment\n// second header comment\n\npackage p\ntype G Peg {}\nA <- .\n",
		"package p\nimport \"fmt\"\ntype G Peg {}\nA <- .\n",
		"package p\nimport f \"fmt\"\nimport \"os\"\ntype G Peg {}\nA <- .\n",
		"package p\nimport (\n \"fmt\"\n x \"a/b-c.d\"\n)\ntype G Peg {}\nA <- .\n",
		"package p\ntype G Peg { m map[string]struct{ a int } }\nA <- { p.m = map[string]struct{ a int }{} } .\n",
		head + "A <- ( 'a' / 'b' ) *\n",
		head + "A <-\nB <- A\n",
		head + "A <- 'a' /\nB <- A\n",
		head + "A <- <'a'+> { use(text) } !.\n",
		head + "A <- &{ ok() } 'a' / !{ no() } \"b\"\n",
		head + "A <- [[a-f]] [^\\n] '\\0x2190' \"\\\"\" '\\''\n",
		head + "A\n  <-\n  'a'\n",
		// braces in actions are counted as they stand: quotes do not hide them, and a quote character in a rune literal opens nothing
		head + "A <- 'a' { if text[0] == '\"' { n++ }; s += \"\" }\nB <- A\n",
		head + "A <- . { for _, c := range text { if c == '\"' { s += \"}{\" } } }\nB <- A { s = \"{}\" }\n",
		head + "A <- 'a' { s = \"a\\\"b\\\\\" } !.\n",
	}
	bad = []string{
		// a brace inside a string of the action counts: this action is not closed
		head + "A <- 'a' { f(\"{\") }\nB <- 'b'\n",
		head + "A <- 'a' { f(\"}\") }\nB <- 'b'\n",
		"",
		"package p\n",
		"package p\ntype G Peg {}\n",
		head + "A <- 'a'\n)\n",
		head + "A <- 'a'\nB <- 'b'\n)\n",
		head + "A <- 'a'\nB <- 'b'\n%%%\nC <- A\n",
		head + "A <- 'a'\nB <- 'b\n",
		head + "A <- 'a'\n}\n",
		head + "A <- 'a'\n%%%\n",
		head + "A <- 'a\n",
		head + "A <- [a\n",
		head + "A <- (a\n",
		head + "A <- a)\n",
		head + "A < - a\n",
		head + "<- a\n",
		"package p\ntype G Pig {}\nA <- .\n",
		"package p\nimport fmt\ntype G Peg {}\nA <- .\n",
		// keywords are words: what follows them without a break is not an alias or a name
		"package p\nimportx \"fmt\"\ntype G Peg {}\nA <- .\n",
		"package p\nimport_ \"embed\"\ntype G Peg {}\nA <- .\n",
		"package p\nimport2 \"fmt\"\ntype G Peg {}\nA <- .\n",
		"packagep\ntype G Peg {}\nA <- .\n",
		"package p\ntypeG Peg {}\nA <- .\n",
		"package p\ntype G PegX {}\nA <- .\n",
		"package p\ntype G Peg {\nA <- .\n",
		"package\ntype G Peg {}\nA <- .\n",
		head + "A <- 'a' ?? \n 1\n",
	}
	return
}

func grammarDifferential(c *Check, r *Repo, g *pgrammar) {
	if len(g.Rules) == 0 {
		return
	}
	start := g.Rules[0]
	pos := fmt.Sprintf("peg.peg:%d", start.Line)
	construct := "peg.peg/" + start.Name + " reads whole grammar files as documented"
	good, bad := grammarCorpus()
	var fails []string
	und := ""
	n := 0
	read := func(text string) (summary string, ok bool) {
		defer func() {
			if p := recover(); p != nil {
				if u, isU := p.(undecided); isU {
					und = u.msg
					return
				}
				und = fmt.Sprint(p)
			}
		}()
		end, accepted, tr, u := runRule(g, start.Name, text)
		if u != "" {
			und = u
			return "", false
		}
		// Parse() succeeds when the start rule matches a prefix: nothing but the
		// grammar itself demands that the whole file is consumed
		_ = end
		if !accepted {
			return "", false
		}
		fm := newFrontModel(r)
		var imports []string
		pkg, typ := "", ""
		alias := ""
		for _, a := range tr {
			calls, u := concreteCalls(r, g, a.code, a.text)
			if u != "" {
				und = u
				return "", false
			}
			for _, cs := range calls {
				var args []Value
				for _, x := range cs.Args {
					args = append(args, x)
				}
				switch cs.Method {
				case "AddPackage":
					pkg = a.text
				case "AddPeg":
					typ = a.text
				case "AddImportAlias":
					alias = a.text + " "
				case "AddImport":
					imports = append(imports, alias+a.text)
					alias = ""
				}
				fm.call(cs.Method, args...)
			}
		}
		var rules []string
		for _, nd := range fm.m.kids(fm.tree.field("node").v.(*Obj)) {
			if fm.m.typeOf(nd) == "TypeRule" {
				ks := fm.m.kids(nd)
				body := "<no expression>"
				if len(ks) == 1 {
					body = builderNorm(fm.m, ks[0])
				}
				rules = append(rules, fm.m.strOf(nd)+" <- "+body)
			}
		}
		return fmt.Sprintf("package %s; imports [%s]; type %s; rules {%s}", pkg, strings.Join(imports, ", "), typ, strings.Join(rules, " | ")), true
	}
	for _, text := range good {
		n++
		rg, err := parsePeg("corpus", text)
		if err != nil {
			fails = append(fails, fmt.Sprintf("checker corpus text %q is not read by the independent reader: %v", text, err))
			continue
		}
		var rules []string
		for _, rl := range rg.Rules {
			rules = append(rules, rl.Name+" <- "+readerNorm(rl.Expr))
		}
		// the reader keeps import paths only; aliases are compared through the routing rule
		got, ok := read(text)
		if und != "" {
			c.Und("R-grammar-differential", construct, pos, und)
			return
		}
		if !ok {
			fails = append(fails, fmt.Sprintf("the documented grammar text %q is rejected by peg.peg", text))
			continue
		}
		wantRules := "rules {" + strings.Join(rules, " | ") + "}"
		if !strings.HasSuffix(got, wantRules) || !strings.Contains(got, "package "+rg.Package+";") || !strings.Contains(got, "type "+rg.Type+";") {
			fails = append(fails, fmt.Sprintf("%q: peg.peg and the builder make {%s}; documented: package %s; type %s; %s", text, got, rg.Package, rg.Type, wantRules))
			continue
		}
		for _, imp := range rg.Imports {
			if !strings.Contains(got, imp) {
				fails = append(fails, fmt.Sprintf("%q: the import %q is lost (%s)", text, imp, got))
			}
		}
	}
	for _, text := range bad {
		n++
		if _, err := parsePeg("corpus", text); err == nil {
			fails = append(fails, fmt.Sprintf("checker corpus text %q was meant to be malformed but the independent reader accepts it", text))
			continue
		}
		got, ok := read(text)
		if und != "" {
			c.Und("R-grammar-differential", construct, pos, und)
			return
		}
		if ok {
			fails = append(fails, fmt.Sprintf("%q is not a grammar, yet peg.peg accepts it as {%s}", text, got))
		}
	}
	if len(fails) > 5 {
		fails = append(fails[:5], fmt.Sprintf("… %d more", len(fails)-5))
	}
	c.Decide(len(fails) == 0 && n >= 30, "R-grammar-differential", construct, pos,
		fmt.Sprintf("%d whole grammar texts (both arrows, both comment styles in header, between rules, behind rules and on the last line without newline, CRLF, single/grouped/aliased imports, nested braces in the state and in actions, empty alternatives; %d malformed texts): package, type, imports and every rule's tree agree with the independent reader; malformed texts are rejected", n, len(bad)), strings.Join(fails, "; "))
}
