// Package c09ctl is a positive control for the zero-expected rules of C09:
// every detector must report at least once on this file on every run.
package c09ctl

import (
	"fmt"
	"time"
	"unsafe"
)

var counter int
var table = map[string]int{}

func GlobalWrite(k string) {
	counter++
	table[k] = counter
}

func MapRange() (s string) {
	for k := range table {
		s += k
	}
	return s
}

func Select(a, b chan int) int {
	select {
	case x := <-a:
		return x
	case y := <-b:
		return y
	}
}

func Clock() int64 { return time.Now().UnixNano() }

func Pointer(p *int) string { return fmt.Sprintf("%p", p) }

func Unsafe(p *int) uintptr { return uintptr(unsafe.Pointer(p)) }
