module c09ctl

go 1.26
