package main

// pegsa — static analyser for the peg properties (see /verif/DESIGN.md).
// usage: pegsa <property-id> [--tier quick|thorough] [--only 'rule|construct']

import (
	"fmt"
	"os"
	"runtime/debug"
	"sort"
)

var checks = map[string]func(*Check){}

func register(id string, f func(*Check)) { checks[id] = f }

func init() {
	register("C18", checkC18)
	register("C16", checkC16)
	register("C09", checkC09)
	register("C12", checkC12)
	register("C14", checkC14)
	register("C06", checkC06)
	register("C11", checkC11)
	register("C05", checkC05)
	register("C01", checkC01)
	register("C03", checkC03)
	register("C04", checkC04)
	register("C13", checkC13)
	register("C07", checkC07)
	register("C08", checkC08)
	register("C02", checkC02)
	register("C15", checkC15)
	register("C10", checkC10)
}

func main() {
	if len(os.Args) < 2 {
		var ids []string
		for id := range checks {
			ids = append(ids, id)
		}
		sort.Strings(ids)
		fmt.Fprintln(os.Stderr, "usage: pegsa <property-id>|dump-… [--tier quick|thorough] [--only key]; properties:", ids)
		os.Exit(2)
	}
	id := os.Args[1]
	tier := os.Getenv("VERIF_TIER")
	if tier == "" {
		tier = "quick"
	}
	only := ""
	for i := 2; i < len(os.Args); i++ {
		switch os.Args[i] {
		case "--tier":
			if i+1 < len(os.Args) {
				tier = os.Args[i+1]
				i++
			}
		case "--only":
			if i+1 < len(os.Args) {
				only = os.Args[i+1]
				i++
			}
		}
	}
	if tier != "quick" && tier != "thorough" {
		tier = "quick"
	}
	if fn, ok := tools[id]; ok {
		os.Exit(fn(os.Args[2:]))
	}
	fn, ok := checks[id]
	if !ok {
		fmt.Fprintln(os.Stderr, "unknown property", id)
		os.Exit(2)
	}
	c := NewCheck(id, tier)
	c.onlyKey = only
	func() {
		defer func() {
			if r := recover(); r != nil {
				c.onlyKey = ""
				c.Und("R-internal", "pegsa panic", "", fmt.Sprintf("%v\n%s", r, debug.Stack()))
			}
		}()
		fn(c)
	}()
	os.Exit(c.Finish())
}

// tools are non-check subcommands (dumps used while developing / reviewing).
var tools = map[string]func(args []string) int{}
