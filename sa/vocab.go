package main

// The runtime vocabulary. The rules about the generated runtime speak of
// Init's closures and captured variables by the names they have today
// (position, tokenIndex, buffer, add, memoize, …). A consistent renaming of
// one of them in the template and the emitter changes nothing a parser does;
// so the names are treated as roles: each role is identified in the
// instantiated template by what the thing is (its type, its signature, how it
// is used), and when it carries another name the instantiated text and the
// emitted text are rewritten, identifier token by identifier token, to the
// role names before anything is analysed.

import (
	"go/ast"
	"go/parser"
	"go/scanner"
	"go/token"
	"go/types"
	"sort"
	"strings"
)

// runtimeVocab returns actual name -> role name for every role whose name
// differs, or a problem text when the roles cannot be told apart.
func runtimeVocab(src string) (map[string]string, string) {
	fset := token.NewFileSet()
	f, err := parser.ParseFile(fset, "vocab.go", src, parser.SkipObjectResolution)
	if err != nil {
		// the head alone may not parse (the rule table is appended later): close it
		f, err = parser.ParseFile(fset, "vocab.go", src+"\n nil,\n }\n p.rules = _rules\n return nil\n}\n", parser.SkipObjectResolution)
		if err != nil {
			return nil, ""
		}
	}
	var init *ast.FuncDecl
	for _, d := range f.Decls {
		if fd, ok := d.(*ast.FuncDecl); ok && fd.Name.Name == "Init" && fd.Recv != nil {
			init = fd
		}
	}
	if init == nil || init.Body == nil {
		return nil, ""
	}
	recv := ""
	if len(init.Recv.List) == 1 && len(init.Recv.List[0].Names) == 1 {
		recv = init.Recv.List[0].Names[0].Name
	}
	typeParam := "U"
	if st, ok := init.Recv.List[0].Type.(*ast.StarExpr); ok {
		if ix, ok := st.X.(*ast.IndexExpr); ok {
			if id, ok := ix.Index.(*ast.Ident); ok {
				typeParam = id.Name
			}
		}
	}
	roles := map[string]string{} // role -> actual
	var uVars []string
	set := func(role, actual string) {
		// the first candidate, unless a later one carries the role's own name (a second variable of the
		// same type added next to it is not the role)
		if prev, dup := roles[role]; !dup || (actual == role && prev != role) {
			roles[role] = actual
		}
	}
	ts := func(e ast.Expr) string { return types.ExprString(e) }
	for _, st := range init.Body.List {
		switch x := st.(type) {
		case *ast.DeclStmt:
			gd, ok := x.Decl.(*ast.GenDecl)
			if !ok || gd.Tok != token.VAR {
				continue
			}
			for _, sp := range gd.Specs {
				vs := sp.(*ast.ValueSpec)
				if vs.Type == nil {
					continue
				}
				t := ts(vs.Type)
				for _, id := range vs.Names {
					switch {
					case t == "token["+typeParam+"]":
						set("maxToken", id.Name)
					case t == "[]rune":
						set("buffer", id.Name)
					case strings.HasPrefix(t, "map["):
						set("memoization", id.Name)
					case t == "string":
						set("text", id.Name)
					case t == typeParam, t == "int", t == "uint", t == "uint32", t == "uint64", t == "int64", t == "int32":
						// the cursor (of the offset type) and the token counter (of the offset type or an integer type of its own)
						uVars = append(uVars, id.Name)
					}
				}
			}
		case *ast.AssignStmt:
			if len(x.Lhs) != 1 || len(x.Rhs) != 1 {
				continue
			}
			lit, isLit := x.Rhs[0].(*ast.FuncLit)
			if isLit {
				var ps []string
				if lit.Type.Params != nil {
					for _, fld := range lit.Type.Params.List {
						n := len(fld.Names)
						if n == 0 {
							n = 1
						}
						for i := 0; i < n; i++ {
							ps = append(ps, ts(fld.Type))
						}
					}
				}
				res := ""
				if lit.Type.Results != nil && len(lit.Type.Results.List) == 1 {
					res = ts(lit.Type.Results.List[0].Type)
				}
				sig := strings.Join(ps, ",") + "->" + res
				if id, ok := x.Lhs[0].(*ast.Ident); ok && x.Tok == token.DEFINE {
					switch sig {
					case "pegRule," + typeParam + "->":
						set("add", id.Name)
					case "int," + typeParam + "," + typeParam + ",bool->", "int," + typeParam + ",int,bool->", "int," + typeParam + ",uint32,bool->":
						// (rule, begin, token counter at entry, matched): the counter has the offset type or an integer type of its own
						set("memoize", id.Name)
					case "memo[" + typeParam + "]->bool":
						set("memoizedResult", id.Name)
					case "->bool":
						set("matchDot", id.Name)
					case "string->bool":
						set("matchString", id.Name)
					}
				}
				if se, ok := x.Lhs[0].(*ast.SelectorExpr); ok && x.Tok == token.ASSIGN {
					if base, ok := se.X.(*ast.Ident); ok && base.Name == recv {
						switch sig {
						case "->":
							set("reset", se.Sel.Name)
						case "...int->error":
							set("parse", se.Sel.Name)
						}
					}
				}
				continue
			}
			// Y := p.<field>
			if id, ok := x.Lhs[0].(*ast.Ident); ok && x.Tok == token.DEFINE {
				if se, ok := x.Rhs[0].(*ast.SelectorExpr); ok {
					if base, ok := se.X.(*ast.Ident); ok && base.Name == recv {
						// _rules: later assigned an array literal of rule functions; tree: receiver of .Add(…)
						name := id.Name
						isRules, isTree := false, false
						ast.Inspect(init.Body, func(n ast.Node) bool {
							switch y := n.(type) {
							case *ast.AssignStmt:
								if y.Tok == token.ASSIGN && len(y.Lhs) == 1 && len(y.Rhs) == 1 {
									if l, ok := y.Lhs[0].(*ast.Ident); ok && l.Name == name {
										if _, ok := y.Rhs[0].(*ast.CompositeLit); ok {
											isRules = true
										}
									}
								}
							case *ast.CallExpr:
								if s2, ok := y.Fun.(*ast.SelectorExpr); ok {
									if b2, ok := s2.X.(*ast.Ident); ok && b2.Name == name && len(y.Args) == 4 {
										isTree = true
									}
								}
							}
							return true
						})
						if isRules {
							set("_rules", name)
						}
						if isTree {
							set("tree", name)
						}
					}
				}
			}
		}
	}
	// position is the U variable that indexes the rune buffer
	if len(uVars) == 2 {
		buf := roles["buffer"]
		posName := ""
		maxTok := roles["maxToken"]
		ast.Inspect(init.Body, func(n ast.Node) bool {
			switch y := n.(type) {
			case *ast.IndexExpr:
				if b, ok := y.X.(*ast.Ident); ok && b.Name == buf {
					if i, ok := y.Index.(*ast.Ident); ok && (i.Name == uVars[0] || i.Name == uVars[1]) && posName == "" {
						posName = i.Name
					}
				}
			case *ast.BinaryExpr:
				// position > maxToken.end (present in every configuration: the furthest-token test of add)
				if y.Op == token.GTR || y.Op == token.GEQ {
					if i, ok := y.X.(*ast.Ident); ok && (i.Name == uVars[0] || i.Name == uVars[1]) && posName == "" {
						if se, ok := y.Y.(*ast.SelectorExpr); ok {
							if b, ok := se.X.(*ast.Ident); ok && b.Name == maxTok {
								posName = i.Name
							}
						}
					}
				}
			}
			return true
		})
		if posName != "" {
			set("position", posName)
			if posName == uVars[0] {
				set("tokenIndex", uVars[1])
			} else {
				set("tokenIndex", uVars[0])
			}
		}
	}
	out := map[string]string{}
	for role, actual := range roles {
		if role != actual {
			out[actual] = role
		}
	}
	if len(out) == 0 {
		return nil, ""
	}
	// a role name that is already in use for something else cannot be taken over
	used := map[string]bool{}
	var s scanner.Scanner
	fs := token.NewFileSet()
	s.Init(fs.AddFile("", fs.Base(), len(src)), []byte(src), nil, 0)
	for {
		_, tok, lit := s.Scan()
		if tok == token.EOF {
			break
		}
		if tok == token.IDENT {
			used[lit] = true
		}
	}
	var clash []string
	for actual, role := range out {
		if used[role] {
			if _, renamedAway := out[role]; !renamedAway {
				if role == "text" {
					// the captured text is found by its type alone (a string variable of Init): when the name
					// text is in use as well, the candidate is a further string variable, not a renamed text
					delete(out, actual)
					continue
				}
				clash = append(clash, actual+" plays the role of "+role+" but "+role+" names something else")
			}
		}
	}
	if len(clash) > 0 {
		sort.Strings(clash)
		return nil, "the runtime's names cannot be mapped to their roles: " + strings.Join(clash, "; ")
	}
	return out, ""
}

// applyVocab renames identifier tokens.
func applyVocab(src string, v map[string]string) string {
	if len(v) == 0 {
		return src
	}
	var s scanner.Scanner
	fs := token.NewFileSet()
	file := fs.AddFile("", fs.Base(), len(src))
	s.Init(file, []byte(src), nil, scanner.ScanComments)
	var sb strings.Builder
	last := 0
	for {
		pos, tok, lit := s.Scan()
		if tok == token.EOF {
			break
		}
		if tok == token.IDENT {
			if role, ok := v[lit]; ok {
				off := file.Offset(pos)
				sb.WriteString(src[last:off])
				sb.WriteString(role)
				last = off + len(lit)
			}
		}
	}
	sb.WriteString(src[last:])
	return sb.String()
}
