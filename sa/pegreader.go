package main

// G — an independent reader of the .peg language (DESIGN §2 G). Trusted,
// recursive descent, written from docs/peg-file-syntax.md and the peg(1)
// conventions; it does not use peg's own front end.

import (
	"fmt"
	"strconv"
	"strings"
	"unicode"
)

type pexpr struct {
	Op     string // seq alt query star plus and not capture lit class dot name action pred state nil
	Kids   []*pexpr
	S      string    // literal text (decoded), rule name, action code
	Insens bool      // case-insensitive literal / class
	Neg    bool      // negated class
	Ranges [][2]rune // class members
	Pos    int       // line
}

type prule struct {
	Name string
	Expr *pexpr
	Line int
}

type pgrammar struct {
	Package string
	Imports []string
	Type    string
	State   string
	Rules   []*prule
	ByName  map[string]*prule
	File    string
}

type pegParser struct {
	src  []rune
	pos  int
	file string
}

type pegSyntaxError struct{ msg string }

// pegUnspecified: the text uses a spelling the documentation says nothing
// about (a dash directly before the closing bracket of a class); a comparison
// with peg.peg neither demands nor forbids it.
type pegUnspecified struct{ msg string }

func (p *pegParser) fail(format string, a ...any) {
	line := 1 + strings.Count(string(p.src[:min(p.pos, len(p.src))]), "\n")
	panic(pegSyntaxError{fmt.Sprintf("%s:%d: %s", p.file, line, fmt.Sprintf(format, a...))})
}

func (p *pegParser) line() int {
	return 1 + strings.Count(string(p.src[:min(p.pos, len(p.src))]), "\n")
}

func (p *pegParser) eof() bool { return p.pos >= len(p.src) }

func (p *pegParser) peek() rune {
	if p.eof() {
		return -1
	}
	return p.src[p.pos]
}

func (p *pegParser) has(s string) bool {
	rs := []rune(s)
	if p.pos+len(rs) > len(p.src) {
		return false
	}
	for i, r := range rs {
		if p.src[p.pos+i] != r {
			return false
		}
	}
	return true
}

func (p *pegParser) eat(s string) bool {
	if p.has(s) {
		p.pos += len([]rune(s))
		return true
	}
	return false
}

func (p *pegParser) spacing() {
	for !p.eof() {
		switch {
		case p.peek() == ' ' || p.peek() == '\t' || p.peek() == '\n' || p.peek() == '\r':
			p.pos++
		case p.peek() == '#' || p.has("//"):
			for !p.eof() && p.peek() != '\n' && p.peek() != '\r' {
				p.pos++
			}
		default:
			return
		}
	}
}

func isIdentStart(r rune) bool { return r == '_' || (r >= 'a' && r <= 'z') || (r >= 'A' && r <= 'Z') }
func isIdentCont(r rune) bool  { return isIdentStart(r) || (r >= '0' && r <= '9') }

func (p *pegParser) identifier() (string, bool) {
	if p.eof() || !isIdentStart(p.peek()) {
		return "", false
	}
	st := p.pos
	for !p.eof() && isIdentCont(p.peek()) {
		p.pos++
	}
	s := string(p.src[st:p.pos])
	p.spacing()
	return s, true
}

func (p *pegParser) leftArrow() bool {
	if p.eat("<-") || p.eat("←") {
		p.spacing()
		return true
	}
	return false
}

func (p *pegParser) action() (string, bool) {
	if p.peek() != '{' {
		return "", false
	}
	depth := 0
	st := p.pos
	for !p.eof() {
		switch p.peek() {
		case '{':
			depth++
		case '}':
			depth--
			if depth == 0 {
				code := string(p.src[st+1 : p.pos])
				p.pos++
				p.spacing()
				return code, true
			}
		}
		p.pos++
	}
	p.fail("unterminated action")
	return "", false
}

func parsePeg(file, text string) (g *pgrammar, err error) {
	p := &pegParser{src: []rune(text), file: file}
	defer func() {
		if r := recover(); r != nil {
			if se, ok := r.(pegSyntaxError); ok {
				err = fmt.Errorf("%s", se.msg)
				return
			}
			if u, ok := r.(pegUnspecified); ok {
				err = fmt.Errorf("%s: %s (a spelling the documentation does not define)", file, u.msg)
				return
			}
			panic(r)
		}
	}()
	g = &pgrammar{ByName: map[string]*prule{}, File: file}
	p.spacing()
	if !p.eat("package") {
		p.fail("expected package clause")
	}
	if !p.eof() && isIdentCont(p.peek()) {
		p.fail("expected a break behind package")
	}
	p.spacing()
	g.Package, _ = p.identifier()
	for p.has("import") {
		p.eat("import")
		if !p.eof() && isIdentCont(p.peek()) {
			p.fail("expected a break behind import")
		}
		p.spacing()
		one := func() {
			if id, ok := p.identifier(); ok {
				_ = id
			}
			if !p.eat("\"") {
				p.fail("expected import path")
			}
			st := p.pos
			for !p.eof() && p.peek() != '"' {
				p.pos++
			}
			g.Imports = append(g.Imports, string(p.src[st:p.pos]))
			p.eat("\"")
			p.spacing()
		}
		if p.eat("(") {
			p.spacing()
			for !p.eat(")") {
				one()
			}
			p.spacing()
		} else {
			one()
		}
	}
	if !p.eat("type") {
		p.fail("expected parser type declaration")
	}
	if !p.eof() && isIdentCont(p.peek()) {
		p.fail("expected a break behind type")
	}
	p.spacing()
	g.Type, _ = p.identifier()
	if !p.eat("Peg") {
		p.fail("expected Peg")
	}
	p.spacing()
	g.State, _ = p.action()
	for !p.eof() {
		line := p.line()
		name, ok := p.identifier()
		if !ok {
			p.fail("expected rule name")
		}
		if !p.leftArrow() {
			p.fail("expected <- after %s", name)
		}
		e := p.expression()
		r := &prule{Name: name, Expr: e, Line: line}
		g.Rules = append(g.Rules, r)
		if _, dup := g.ByName[name]; !dup {
			g.ByName[name] = r
		}
	}
	if len(g.Rules) == 0 {
		p.fail("a grammar needs at least one rule")
	}
	return g, nil
}

func (p *pegParser) expression() *pexpr {
	line := p.line()
	first := p.sequence()
	if first == nil {
		return &pexpr{Op: "nil", Pos: line}
	}
	alts := []*pexpr{first}
	for p.peek() == '/' && !p.has("//") {
		p.pos++
		p.spacing()
		s := p.sequence()
		if s == nil {
			alts = append(alts, &pexpr{Op: "nil", Pos: p.line()})
			break
		}
		alts = append(alts, s)
	}
	if len(alts) == 1 {
		return first
	}
	return &pexpr{Op: "alt", Kids: alts, Pos: line}
}

func (p *pegParser) sequence() *pexpr {
	line := p.line()
	var ks []*pexpr
	for {
		e := p.prefix()
		if e == nil {
			break
		}
		ks = append(ks, e)
	}
	switch len(ks) {
	case 0:
		return nil
	case 1:
		return ks[0]
	}
	return &pexpr{Op: "seq", Kids: ks, Pos: line}
}

func (p *pegParser) prefix() *pexpr {
	line := p.line()
	st := p.pos
	if p.peek() == '&' || p.peek() == '!' {
		op := p.peek()
		p.pos++
		p.spacing()
		if code, ok := p.action(); ok {
			if op == '&' {
				return &pexpr{Op: "pred", S: code, Pos: line}
			}
			return &pexpr{Op: "state", S: code, Pos: line}
		}
		s := p.suffix()
		if s == nil {
			p.pos = st
			return nil
		}
		if op == '&' {
			return &pexpr{Op: "and", Kids: []*pexpr{s}, Pos: line}
		}
		return &pexpr{Op: "not", Kids: []*pexpr{s}, Pos: line}
	}
	return p.suffix()
}

func (p *pegParser) suffix() *pexpr {
	line := p.line()
	pr := p.primary()
	if pr == nil {
		return nil
	}
	for _, op := range []struct{ c, name string }{{"?", "query"}, {"*", "star"}, {"+", "plus"}} {
		if p.has(op.c) {
			p.pos++
			p.spacing()
			return &pexpr{Op: op.name, Kids: []*pexpr{pr}, Pos: line}
		}
	}
	return pr
}

func (p *pegParser) primary() *pexpr {
	line := p.line()
	st := p.pos
	if id, ok := p.identifier(); ok {
		save := p.pos
		if p.leftArrow() {
			p.pos = st // next definition
			_ = save
			return nil
		}
		return &pexpr{Op: "name", S: id, Pos: line}
	}
	switch {
	case p.peek() == '(':
		p.pos++
		p.spacing()
		e := p.expression()
		if !p.eat(")") {
			p.fail("expected )")
		}
		p.spacing()
		return e
	case p.peek() == '<' && !p.has("<-"):
		p.pos++
		p.spacing()
		e := p.expression()
		if !p.eat(">") {
			p.fail("expected >")
		}
		p.spacing()
		return &pexpr{Op: "capture", Kids: []*pexpr{e}, Pos: line}
	case p.peek() == '\'' || p.peek() == '"':
		q := p.peek()
		p.pos++
		var rs []rune
		for !p.eof() && p.peek() != q {
			rs = append(rs, p.char())
		}
		if p.eof() {
			p.fail("unterminated literal")
		}
		p.pos++
		p.spacing()
		return &pexpr{Op: "lit", S: string(rs), Insens: q == '"', Pos: line}
	case p.has("[["):
		// a double-bracket class; when it is not closed by ]] the text can still be a
		// single-bracket class whose first member is '['
		save := p.pos
		if e := p.tryClass("]]", true, line, 2); e != nil {
			return e
		}
		p.pos = save + 1
		return p.class("]", false, line)
	case p.peek() == '[':
		p.pos++
		return p.class("]", false, line)
	case p.peek() == '.':
		p.pos++
		p.spacing()
		return &pexpr{Op: "dot", Pos: line}
	case p.peek() == '{':
		code, _ := p.action()
		return &pexpr{Op: "action", S: code, Pos: line}
	}
	return nil
}

func (p *pegParser) tryClass(close string, insens bool, line, skip int) (e *pexpr) {
	save := p.pos
	defer func() {
		if r := recover(); r != nil {
			if _, ok := r.(pegSyntaxError); ok {
				p.pos = save
				e = nil
				return
			}
			panic(r)
		}
	}()
	p.pos += skip
	return p.class(close, insens, line)
}

func (p *pegParser) class(close string, insens bool, line int) *pexpr {
	e := &pexpr{Op: "class", Insens: insens, Pos: line}
	if p.peek() == '^' {
		// negation only when something other than the closing bracket follows
		save := p.pos
		p.pos++
		if p.has(close) {
			p.pos = save
		} else {
			e.Neg = true
		}
	}
	for !p.eof() && !p.has(close) {
		lo := p.char()
		hi := lo
		if p.peek() == '-' {
			rest := string(p.src[p.pos+1:])
			if strings.HasPrefix(rest, close) || strings.HasPrefix(rest, "]") {
				panic(pegUnspecified{"a dash directly before the closing bracket"})
			}
			if p.pos+1 < len(p.src) {
				p.pos++
				hi = p.char()
			}
		}
		e.Ranges = append(e.Ranges, [2]rune{lo, hi})
	}
	if !p.eat(close) {
		p.fail("unterminated class")
	}
	p.spacing()
	return e
}

// char decodes one (possibly escaped) character by the documented conventions.
func (p *pegParser) char() rune {
	if p.peek() != '\\' {
		r := p.peek()
		p.pos++
		return r
	}
	p.pos++
	c := p.peek()
	simple := map[rune]rune{'a': 7, 'b': 8, 'e': 27, 'f': 12, 'n': 10, 'r': 13, 't': 9, 'v': 11, '\'': '\'', '"': '"', '[': '[', ']': ']', '-': '-', '\\': '\\'}
	if unicode.ToLower(c) == 'a' || true {
		if r, ok := simple[unicode.ToLower(c)]; ok && !(c == '0') {
			// letters are matched case-insensitively by the grammar ("\\a" is double-quoted)
			p.pos++
			return r
		}
	}
	if (p.has("0x") || p.has("0X")) && p.pos+2 < len(p.src) && strings.ContainsRune("0123456789abcdefABCDEF", p.src[p.pos+2]) {
		p.pos += 2
		st := p.pos
		for !p.eof() && strings.ContainsRune("0123456789abcdefABCDEF", p.peek()) {
			p.pos++
		}
		v, err := strconv.ParseInt(string(p.src[st:p.pos]), 16, 64)
		if err != nil {
			p.fail("bad hex escape")
		}
		return rune(v)
	}
	if c >= '0' && c <= '7' {
		st := p.pos
		n := 0
		max := 2
		if c <= '3' {
			max = 3
		}
		for !p.eof() && n < max && p.peek() >= '0' && p.peek() <= '7' {
			p.pos++
			n++
		}
		v, _ := strconv.ParseInt(string(p.src[st:p.pos]), 8, 64)
		return rune(v)
	}
	p.fail("unknown escape \\%c", c)
	return 0
}
