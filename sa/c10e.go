package main

// C10: the actions of peg.peg are Go code. Nearly all of them are plain builder
// calls on the captured text or a literal; for anything else (text converted
// before it is handed to the builder, several statements) the action is
// type-checked in a synthetic package against a stand-in for the builder whose
// methods record their calls, and evaluated by the interpreter for the captured
// text at hand. Nothing of peg is executed.

import (
	"fmt"
	"go/types"
	"sort"
	"strconv"
	"strings"
	"sync"
)

// actionCalls: the builder calls an action's code contains, in order, with the
// text of their (single) argument — parentheses balanced.
func actionCalls(code string) []callSite {
	var out []callSite
	for i := 0; i < len(code); {
		j := strings.Index(code[i:], "p.Add")
		if j < 0 {
			break
		}
		k := i + j + 2
		e := k
		for e < len(code) && (code[e] == '_' || code[e] >= '0' && code[e] <= '9' || code[e] >= 'a' && code[e] <= 'z' || code[e] >= 'A' && code[e] <= 'Z') {
			e++
		}
		name := code[k:e]
		if e >= len(code) || code[e] != '(' {
			i = e
			continue
		}
		depth, q := 0, e
		inStr := byte(0)
		for ; q < len(code); q++ {
			ch := code[q]
			if inStr != 0 {
				if ch == '\\' && inStr != '`' {
					q++
				} else if ch == inStr {
					inStr = 0
				}
				continue
			}
			switch ch {
			case '"', '\'', '`':
				inStr = ch
			case '(':
				depth++
			case ')':
				depth--
			}
			if depth == 0 {
				break
			}
		}
		if q >= len(code) {
			break
		}
		cs := callSite{Method: name}
		if arg := strings.TrimSpace(code[e+1 : q]); arg != "" {
			cs.Args = []string{arg}
		}
		out = append(out, cs)
		i = q + 1
	}
	return out
}

// plainAction: the code is nothing but builder calls whose argument is the
// captured text, a string literal or absent.
func plainAction(code string) ([]callSite, bool) {
	calls := actionCalls(code)
	rest := code
	for _, cs := range calls {
		arg := ""
		if len(cs.Args) == 1 {
			arg = cs.Args[0]
			if arg != "text" {
				if _, err := strconv.Unquote(arg); err != nil {
					return nil, false
				}
			}
		}
		// remove this call from the remaining text
		idx := strings.Index(rest, "p."+cs.Method+"(")
		if idx < 0 {
			return nil, false
		}
		end := idx + len("p."+cs.Method+"(")
		depth := 1
		for end < len(rest) && depth > 0 {
			switch rest[end] {
			case '(':
				depth++
			case ')':
				depth--
			}
			end++
		}
		rest = rest[:idx] + rest[end:]
		_ = arg
	}
	rest = strings.NewReplacer(";", "", "\n", "", "\t", "", " ", "").Replace(rest)
	return calls, rest == ""
}

type actionEval struct {
	it  *Interp
	in  *inst
	fns map[string]string // action code -> function name
}

var (
	actionEvalOnce sync.Once
	actionEvalInst *actionEval
	actionEvalErr  string
	actionEvalMu   sync.Mutex
)

// buildActionEval type-checks every non-plain action of the grammar in one
// synthetic package.
func buildActionEval(r *Repo, g *pgrammar) (*actionEval, string) {
	actionEvalOnce.Do(func() {
		var codes []string
		seen := map[string]bool{}
		var walk func(e *pexpr)
		walk = func(e *pexpr) {
			if e.Op == "action" && !seen[e.S] {
				seen[e.S] = true
				if _, plain := plainAction(e.S); !plain {
					codes = append(codes, e.S)
				}
			}
			for _, k := range e.Kids {
				walk(k)
			}
		}
		for _, rl := range g.Rules {
			walk(rl.Expr)
		}
		sort.Strings(codes)
		var sb strings.Builder
		sb.WriteString("package p\n\nimport (\n")
		imps := map[string]bool{}
		for _, i := range g.Imports {
			path := strings.Trim(strings.TrimSpace(i), "\"")
			if j := strings.LastIndex(i, " "); j >= 0 {
				path = strings.Trim(strings.TrimSpace(i[j+1:]), "\"")
			}
			if _, ok := r.Std[path]; ok && !imps[path] {
				imps[path] = true
			}
		}
		for _, extra := range []string{"strconv", "strings", "fmt", "unicode", "unicode/utf8"} {
			if _, ok := r.Std[extra]; ok {
				imps[extra] = true
			}
		}
		var ips []string
		for p := range imps {
			ips = append(ips, p)
		}
		sort.Strings(ips)
		for _, p := range ips {
			fmt.Fprintf(&sb, "\t%q\n", p)
		}
		sb.WriteString(")\n\nvar (\n")
		for _, p := range ips {
			// keep every import used
			pkg := r.Std[p]
			names := pkg.Scope().Names()
			for _, n := range names {
				if o := pkg.Scope().Lookup(n); o.Exported() {
					if _, isFn := o.(*types.Func); isFn {
						fmt.Fprintf(&sb, "\t_ = %s.%s\n", pkg.Name(), n)
						break
					}
				}
			}
		}
		sb.WriteString(")\n\n// calls records what the action asks the builder to do\nvar calls []string\n\ntype builder struct{}\n\n")
		// a recording stand-in for every exported method of *tree.Tree with plain parameters
		treeObj := r.pkg("tree").Types.Scope().Lookup("Tree")
		ms := types.NewMethodSet(types.NewPointer(treeObj.Type()))
		for i := 0; i < ms.Len(); i++ {
			fn, ok := ms.At(i).Obj().(*types.Func)
			if !ok || !fn.Exported() {
				continue
			}
			sig := fn.Type().(*types.Signature)
			if sig.Results().Len() != 0 || sig.Variadic() {
				continue
			}
			var ps, rec []string
			okSig := true
			for k := 0; k < sig.Params().Len(); k++ {
				t := types.TypeString(sig.Params().At(k).Type(), nil)
				switch t {
				case "string":
					rec = append(rec, fmt.Sprintf("a%d", k))
				case "int", "bool", "rune", "int32", "int64", "uint":
					rec = append(rec, fmt.Sprintf("fmt.Sprint(a%d)", k))
				default:
					okSig = false
				}
				ps = append(ps, fmt.Sprintf("a%d %s", k, t))
			}
			if !okSig {
				continue
			}
			fmt.Fprintf(&sb, "func (builder) %s(%s) { calls = append(calls, %q", fn.Name(), strings.Join(ps, ", "), fn.Name())
			for _, x := range rec {
				fmt.Fprintf(&sb, ", %s", x)
			}
			sb.WriteString(", \"\\x00end of call\\x00\") }\n")
		}
		fns := map[string]string{}
		for i, code := range codes {
			name := fmt.Sprintf("action%d", i)
			fns[code] = name
			fmt.Fprintf(&sb, "\nfunc %s(p builder, text string, buffer string, begin, end int) {\n\t_, _, _, _ = text, buffer, begin, end\n\t%s\n}\n", name, code)
		}
		in := buildInst(r, "peg.peg actions", sb.String())
		if len(in.Errs) > 0 {
			actionEvalErr = "the actions of peg.peg do not type-check against a stand-in for the builder: " + in.Errs[0]
			return
		}
		actionEvalInst = &actionEval{it: newInstInterp(in), in: in, fns: fns}
	})
	return actionEvalInst, actionEvalErr
}

// concreteCalls: the builder calls an action makes for a captured text, with
// their arguments as strings.
func concreteCalls(r *Repo, g *pgrammar, code, text string) (out []callSite, und string) {
	if calls, plain := plainAction(code); plain {
		for _, cs := range calls {
			c := callSite{Method: cs.Method}
			if len(cs.Args) == 1 {
				if cs.Args[0] == "text" {
					c.Args = []string{text}
				} else {
					s, _ := strconv.Unquote(cs.Args[0])
					c.Args = []string{s}
				}
			}
			out = append(out, c)
		}
		return out, ""
	}
	ae, err := buildActionEval(r, g)
	if err != "" {
		return nil, err
	}
	fn := ae.fns[code]
	if fn == "" {
		return nil, "an action that is not part of the grammar"
	}
	actionEvalMu.Lock()
	defer actionEvalMu.Unlock()
	defer func() {
		if p := recover(); p != nil {
			switch x := p.(type) {
			case undecided:
				und = "action " + clip(code, 60) + ": " + x.msg
			case goPanic:
				und = "action " + clip(code, 60) + " panics: " + x.msg
			case nilDeref:
				und = "action " + clip(code, 60) + ": nil dereference at " + x.pos
			default:
				panic(p)
			}
		}
	}()
	it := ae.it
	callsObj := it.pkg.Scope().Lookup("calls")
	it.globals[callsObj] = &Cell{&SliceV{elems: []Value{}}}
	fd := it.declOf(fn)
	bT := it.namedType("builder")
	it.callDecl(fd, nil, it.newObj(bT), text, "", int64(0), int64(len([]rune(text))))
	rec, _ := it.globals[callsObj].v.(*SliceV)
	var cur []string
	if rec != nil {
		for _, e := range rec.elems {
			s, _ := e.(string)
			if s == "\x00end of call\x00" {
				if len(cur) > 0 {
					out = append(out, callSite{Method: cur[0], Args: cur[1:]})
				}
				cur = nil
				continue
			}
			cur = append(cur, s)
		}
	}
	return out, ""
}
