package main

// C09, R-determinism: the accepted form of ranging over a map. The order of a
// map iteration varies between runs, so any range over a map reachable from
// the generator is reported — except the one idiom that is order-independent
// by construction: the loop only filters (pure conditions with continue) and
// appends to one local slice, and that slice is sorted by a total order before
// anything else looks at it (collect the keys, then sort them).

import (
	"go/ast"
	"go/token"
	"go/types"
	"strings"

	"golang.org/x/tools/go/packages"
	"golang.org/x/tools/go/ssa"
)

func sortedCollectRanges(r *Repo, ea *effAnalysis) map[token.Pos]bool {
	out := map[token.Pos]bool{}
	for _, p := range r.Pkgs {
		for _, f := range p.Syntax {
			ast.Inspect(f, func(n ast.Node) bool {
				blk, ok := n.(*ast.BlockStmt)
				if !ok {
					return true
				}
				for i, st := range blk.List {
					rs, ok := st.(*ast.RangeStmt)
					if !ok {
						continue
					}
					if tv, ok := p.TypesInfo.Types[rs.X]; !ok || tv.Type == nil {
						continue
					} else if _, isMap := tv.Type.Underlying().(*types.Map); !isMap {
						continue
					}
					if isSortedCollect(r, ea, p, rs, blk.List[i+1:]) {
						out[rs.For] = true
					}
				}
				return true
			})
		}
	}
	return out
}

func isSortedCollect(r *Repo, ea *effAnalysis, p *packages.Package, rs *ast.RangeStmt, rest []ast.Stmt) bool {
	info := p.TypesInfo
	var target types.Object
	pure := func(e ast.Expr) bool { return pureExpr(r, ea, info, e) }
	for _, st := range rs.Body.List {
		switch x := st.(type) {
		case *ast.IfStmt:
			if x.Init != nil || x.Else != nil || !pure(x.Cond) || len(x.Body.List) != 1 {
				return false
			}
			if b, ok := x.Body.List[0].(*ast.BranchStmt); !ok || b.Tok != token.CONTINUE || b.Label != nil {
				return false
			}
		case *ast.AssignStmt:
			if x.Tok != token.ASSIGN || len(x.Lhs) != 1 || len(x.Rhs) != 1 {
				return false
			}
			id, ok := x.Lhs[0].(*ast.Ident)
			if !ok {
				return false
			}
			call, ok := x.Rhs[0].(*ast.CallExpr)
			if !ok || len(call.Args) < 2 || call.Ellipsis.IsValid() {
				return false
			}
			if fn, ok := call.Fun.(*ast.Ident); !ok || fn.Name != "append" || info.Uses[fn] != types.Universe.Lookup("append") {
				return false
			}
			first, ok := call.Args[0].(*ast.Ident)
			if !ok || info.Uses[first] == nil || info.Uses[first] != info.Uses[id] {
				return false
			}
			if v, ok := info.Uses[id].(*types.Var); !ok || v.IsField() || v.Parent() == v.Pkg().Scope() {
				return false // a local slice only
			}
			if target != nil && target != info.Uses[id] {
				return false
			}
			target = info.Uses[id]
			for _, a := range call.Args[1:] {
				if !pure(a) {
					return false
				}
			}
		default:
			return false
		}
	}
	if target == nil {
		return false
	}
	mentions := func(n ast.Node) bool {
		found := false
		ast.Inspect(n, func(m ast.Node) bool {
			if id, ok := m.(*ast.Ident); ok && info.Uses[id] == target {
				found = true
			}
			return !found
		})
		return found
	}
	for _, st := range rest {
		if !mentions(st) {
			continue
		}
		es, ok := st.(*ast.ExprStmt)
		if !ok {
			return false
		}
		call, ok := es.X.(*ast.CallExpr)
		if !ok || len(call.Args) == 0 {
			return false
		}
		if id, ok := call.Args[0].(*ast.Ident); !ok || info.Uses[id] != target {
			return false
		}
		se, ok := call.Fun.(*ast.SelectorExpr)
		if !ok {
			return false
		}
		fn, ok := info.Uses[se.Sel].(*types.Func)
		if !ok {
			return false
		}
		switch fn.FullName() {
		case "slices.Sort", "sort.Strings", "sort.Ints":
			return len(call.Args) == 1
		case "slices.SortFunc", "slices.SortStableFunc":
			return len(call.Args) == 2 && totalComparator(info, call.Args[1])
		case "sort.Slice", "sort.SliceStable":
			return len(call.Args) == 2 && totalLess(info, call.Args[1], target)
		}
		return false
	}
	return false
}

// totalComparator: func(a, b T) int whose last statement compares the two
// elements themselves — distinct elements (the keys of a map are distinct)
// never compare equal, so the order is total.
func totalComparator(info *types.Info, e ast.Expr) bool {
	fl, ok := e.(*ast.FuncLit)
	if !ok || fl.Type.Params == nil || len(fl.Body.List) == 0 {
		return false
	}
	var params []types.Object
	for _, f := range fl.Type.Params.List {
		for _, n := range f.Names {
			params = append(params, info.Defs[n])
		}
	}
	if len(params) != 2 {
		return false
	}
	ret, ok := fl.Body.List[len(fl.Body.List)-1].(*ast.ReturnStmt)
	if !ok || len(ret.Results) != 1 {
		return false
	}
	call, ok := ret.Results[0].(*ast.CallExpr)
	if !ok || len(call.Args) != 2 {
		return false
	}
	se, ok := call.Fun.(*ast.SelectorExpr)
	if !ok {
		return false
	}
	fn, ok := info.Uses[se.Sel].(*types.Func)
	if !ok || (fn.FullName() != "strings.Compare" && fn.FullName() != "cmp.Compare") {
		return false
	}
	a, ok1 := call.Args[0].(*ast.Ident)
	b, ok2 := call.Args[1].(*ast.Ident)
	return ok1 && ok2 && info.Uses[a] == params[0] && info.Uses[b] == params[1]
}

// totalLess: func(i, j int) bool { return x[i] < x[j] } on the collected slice.
func totalLess(info *types.Info, e ast.Expr, target types.Object) bool {
	fl, ok := e.(*ast.FuncLit)
	if !ok || len(fl.Body.List) != 1 {
		return false
	}
	ret, ok := fl.Body.List[0].(*ast.ReturnStmt)
	if !ok || len(ret.Results) != 1 {
		return false
	}
	be, ok := ret.Results[0].(*ast.BinaryExpr)
	if !ok || be.Op != token.LSS {
		return false
	}
	isElem := func(x ast.Expr) bool {
		ix, ok := x.(*ast.IndexExpr)
		if !ok {
			return false
		}
		id, ok := ix.X.(*ast.Ident)
		return ok && info.Uses[id] == target
	}
	return isElem(be.X) && isElem(be.Y)
}

// pureExpr: an expression whose evaluation writes nothing — operators, field
// and index reads, conversions, and calls of functions that the effect
// analysis finds free of writes (or of a short list of library functions).
func pureExpr(r *Repo, ea *effAnalysis, info *types.Info, e ast.Expr) bool {
	ok := true
	ast.Inspect(e, func(n ast.Node) bool {
		switch x := n.(type) {
		case *ast.FuncLit:
			ok = false
		case *ast.UnaryExpr:
			if x.Op == token.ARROW {
				ok = false
			}
		case *ast.CallExpr:
			if tv, isT := info.Types[x.Fun]; isT && tv.IsType() {
				return true // conversion
			}
			var obj types.Object
			switch f := x.Fun.(type) {
			case *ast.Ident:
				obj = info.Uses[f]
			case *ast.SelectorExpr:
				obj = info.Uses[f.Sel]
			}
			switch o := obj.(type) {
			case *types.Builtin:
				if o.Name() != "len" && o.Name() != "cap" && o.Name() != "min" && o.Name() != "max" {
					ok = false
				}
			case *types.Func:
				name := o.FullName()
				if o.Pkg() != nil && (o.Pkg().Path() == "strings" || o.Pkg().Path() == "path" || o.Pkg().Path() == "unicode" || o.Pkg().Path() == "unicode/utf8" || o.Pkg().Path() == "strconv") {
					return true
				}
				if name == "slices.Contains" || name == "slices.Index" || name == "slices.Equal" {
					return true
				}
				if r.Prog != nil {
					if sf := r.Prog.FuncValue(o.Origin()); sf != nil && len(sf.Blocks) > 0 {
						if s := ea.summary(sf); s != nil && len(s.W) == 0 {
							return true
						}
					}
				}
				ok = false
			default:
				ok = false
			}
		}
		return ok
	})
	return ok
}

var _ = strings.HasPrefix
var _ *ssa.Function
