package main

// C16, value part: R-set-semantics (set.go evaluated on every insertion
// history over a small universe, compared with sets of integers) and
// R-order-invariant (the structural condition that makes small universes
// representative).

import (
	"fmt"
	"go/ast"
	"go/constant"
	"go/token"
	"go/types"
	"os"
	"strconv"
	"strings"
)

func setValueRules(c *Check, r *Repo) {
	n, k, k2 := 4, 3, 2
	if c.Tier == "thorough" {
		n, k, k2 = 6, 3, 2
	}
	if v := os.Getenv("PEGSA_SET_N"); v != "" {
		n, _ = strconv.Atoi(v)
	}
	found, evals, err := setSemantics(r, n, k, k2)
	if err != nil {
		c.Und("R-set-semantics", "set.go/evaluation", "", err.Error())
		return
	}
	c.Note("set evaluations", fmt.Sprintf("%d histories and pairs over [0,%d]", evals, n))
	observers := []string{"AddRange", "Has", "Len", "String", "Copy", "Complement", "Union", "Intersects", "Equal"}
	if u, ok := found["undecided"]; ok {
		c.Und("R-set-semantics", "set.go/evaluation", "", u)
		return
	}
	byObs := map[string][]string{}
	for _, key := range sortedFindingKeys(found) {
		obs := strings.Fields(key)[0]
		if obs == "binary" {
			obs = "Union"
		}
		byObs[obs] = append(byObs[obs], key+": "+found[key])
	}
	for _, o := range observers {
		construct := "set.(*Set)." + o + " agrees with the set of integers"
		ok := fmt.Sprintf("every history of at most %d insertions over [0,%d] (and every pair of histories of at most %d): the result is that of the set of integers, no nil dereference", k, n, k2)
		c.Decide(len(byObs[o]) == 0, "R-set-semantics", construct, "", ok, strings.Join(byObs[o], "; "))
		delete(byObs, o)
	}
	for o, v := range byObs {
		c.Bad("R-set-semantics", "set.(*Set)."+o, "", strings.Join(v, "; "))
	}
	c.Floor("R-set-semantics", evals, 3000)
	orderInvariant(c, r)
}

// orderInvariant: R-order-invariant — outside Len and String (whose results
// are interval lengths and enumerations, compared exactly on the small
// universe) set.go uses code points only in comparisons, copies, ±1 and
// min/max, and compares them with no constant but 0. Then an operation's
// control flow and result depend only on the relative order and adjacency of
// the values involved and on which of them is 0, and every such pattern for
// the enumerated history sizes occurs in the small universe.
func orderInvariant(c *Check, r *Repo) {
	p := r.pkg("set")
	info := p.TypesInfo
	isRune := func(e ast.Expr) bool {
		tv, ok := info.Types[e]
		if !ok {
			return false
		}
		b, ok := tv.Type.Underlying().(*types.Basic)
		return ok && b.Kind() == types.Int32
	}
	constOf := func(e ast.Expr) (int64, bool) {
		tv, ok := info.Types[e]
		if !ok || tv.Value == nil {
			return 0, false
		}
		if v, ok := constant.Int64Val(constant.ToInt(tv.Value)); ok {
			return v, true
		}
		return 0, false
	}
	var bad []string
	sites := 0
	for _, f := range p.Syntax {
		if strings.HasSuffix(r.Fset.Position(f.Pos()).Filename, "_test.go") {
			continue
		}
		for _, d := range f.Decls {
			fd, ok := d.(*ast.FuncDecl)
			if !ok || fd.Body == nil {
				continue
			}
			cardinal := fd.Name.Name == "Len" || fd.Name.Name == "String"
			ast.Inspect(fd.Body, func(n ast.Node) bool {
				switch x := n.(type) {
				case *ast.BinaryExpr:
					if !isRune(x.X) && !isRune(x.Y) {
						return true
					}
					sites++
					switch x.Op {
					case token.EQL, token.NEQ, token.LSS, token.LEQ, token.GTR, token.GEQ:
						for _, o := range []ast.Expr{x.X, x.Y} {
							if v, ok := constOf(o); ok && v != 0 {
								bad = append(bad, fmt.Sprintf("%s: %s compares a code point with the constant %d", r.pos(x.Pos()), fd.Name.Name, v))
							}
						}
					case token.ADD, token.SUB:
						if cardinal {
							return true
						}
						v, ok := constOf(x.Y)
						if !ok || v != 1 {
							bad = append(bad, fmt.Sprintf("%s: %s computes %s on code points (only ±1 keeps the small universe representative)", r.pos(x.Pos()), fd.Name.Name, types.ExprString(x)))
						}
					default:
						if !cardinal {
							bad = append(bad, fmt.Sprintf("%s: %s applies %s to code points", r.pos(x.Pos()), fd.Name.Name, x.Op))
						}
					}
				case *ast.CallExpr:
					// a particular code point handed on as an argument (a limit, an element) makes the
					// result depend on where the values lie relative to it
					for _, arg := range x.Args {
						if v, ok := constOf(arg); ok && v != 0 && isRune(arg) {
							sites++
							bad = append(bad, fmt.Sprintf("%s: %s passes the constant code point %d to %s", r.pos(arg.Pos()), fd.Name.Name, v, types.ExprString(x.Fun)))
						}
					}
				case *ast.AssignStmt:
					for _, rhs := range x.Rhs {
						if v, ok := constOf(rhs); ok && v != 0 && v != 1 && isRune(rhs) {
							sites++
							bad = append(bad, fmt.Sprintf("%s: %s assigns the constant code point %d", r.pos(rhs.Pos()), fd.Name.Name, v))
						}
					}
				case *ast.SwitchStmt:
					if x.Tag != nil && isRune(x.Tag) {
						bad = append(bad, fmt.Sprintf("%s: %s switches on a code point", r.pos(x.Pos()), fd.Name.Name))
					}
				case *ast.IndexExpr:
					if isRune(x.Index) {
						bad = append(bad, fmt.Sprintf("%s: %s indexes by a code point", r.pos(x.Pos()), fd.Name.Name))
					}
				}
				return true
			})
		}
	}
	c.Decide(len(bad) == 0, "R-order-invariant", "set.go/code points are only compared, copied and stepped by one", "",
		fmt.Sprintf("%d binary operations on code points: comparisons among themselves or with 0, and ±1 (Len and String also take interval lengths and enumerate, and are compared exactly)", sites), strings.Join(bad, "; "))
	c.Floor("R-order-invariant", sites, 5)
}
