package main

// Systematic and seeded-random model generation for the thorough tier.

import (
	"fmt"
	"math/rand"
)

// mexpr is a model-expression recipe (built into a model on demand, so that
// the same recipe can be instantiated for several option sets / twins).
type mexpr struct {
	Op   string // e, es (never fails), seq, alt, query, star, plus, and, not, push, char, range, dot, nil, pred, act
	Kids []*mexpr
	S    string
}

func (x *mexpr) String() string {
	switch x.Op {
	case "e":
		return "e"
	case "es":
		return "ε"
	case "char":
		return "'" + x.S + "'"
	case "name":
		return x.S
	case "range":
		return "[" + x.S + "]"
	case "dot":
		return "."
	case "nil":
		return "()"
	case "pred":
		return "&{}"
	case "act":
		return "{}"
	}
	s := x.Op + "("
	for i, k := range x.Kids {
		if i > 0 {
			s += " "
		}
		s += k.String()
	}
	return s + ")"
}

func (x *mexpr) nullable() bool {
	switch x.Op {
	case "es", "query", "star", "and", "not", "nil", "pred", "act":
		return true
	case "seq":
		for _, k := range x.Kids {
			if !k.nullable() {
				return false
			}
		}
		return true
	case "alt":
		for _, k := range x.Kids {
			if k.nullable() {
				return true
			}
		}
		return false
	case "plus", "push":
		return x.Kids[0].nullable()
	}
	return false
}

// wellFormed: no repetition of a nullable expression.
func (x *mexpr) wellFormed() bool {
	if (x.Op == "star" || x.Op == "plus") && x.Kids[0].nullable() {
		return false
	}
	for _, k := range x.Kids {
		if !k.wellFormed() {
			return false
		}
	}
	return true
}

func (x *mexpr) build(m *model) *Obj {
	var ks []*Obj
	for _, k := range x.Kids {
		ks = append(ks, k.build(m))
	}
	switch x.Op {
	case "e":
		return m.opaqueChild(true, false)
	case "es":
		return m.opaqueChild(false, false)
	case "seq":
		return m.seq(ks...)
	case "alt":
		return m.alt(ks...)
	case "query":
		return m.query(ks[0])
	case "star":
		return m.star(ks[0])
	case "plus":
		return m.plus(ks[0])
	case "and":
		return m.peekFor(ks[0])
	case "not":
		return m.peekNot(ks[0])
	case "push":
		return m.push(ks[0])
	case "char":
		return m.char(x.S)
	case "name":
		return m.name(x.S)
	case "range":
		r := []rune(x.S)
		return m.rng(string(r[0]), string(r[1]))
	case "dot":
		return m.dot()
	case "nil":
		return m.nilNode()
	case "pred":
		return m.predicate("__pred0()")
	case "act":
		return m.action("__act0()")
	}
	panic("mexpr op " + x.Op)
}

func me(op string, k ...*mexpr) *mexpr { return &mexpr{Op: op, Kids: k} }

var unaryOps = []string{"query", "star", "plus", "and", "not", "push"}
var binaryOps = []string{"seq", "alt"}

// twoLevel enumerates every composition of two operators over opaque children.
func twoLevel() []*mexpr {
	var out []*mexpr
	e := func() *mexpr { return me("e") }
	add := func(x *mexpr) {
		if x.wellFormed() {
			out = append(out, x)
		}
	}
	for _, u1 := range unaryOps {
		for _, u2 := range unaryOps {
			add(me(u1, me(u2, e())))
		}
		for _, b := range binaryOps {
			add(me(u1, me(b, e(), e())))
		}
	}
	for _, b := range binaryOps {
		for _, u := range unaryOps {
			add(me(b, me(u, e()), e()))
			add(me(b, e(), me(u, e())))
			add(me(b, me(u, e()), me(u, e())))
		}
		for _, b2 := range binaryOps {
			add(me(b, me(b2, e(), e()), e()))
			add(me(b, e(), me(b2, e(), e())))
		}
	}
	return out
}

// randomExpr draws a well-formed expression of bounded depth.
func randomExpr(rng *rand.Rand, depth int) *mexpr {
	for {
		x := randExpr1(rng, depth)
		if x.wellFormed() {
			return x
		}
	}
}

func randExpr1(rng *rand.Rand, depth int) *mexpr {
	if depth == 0 || rng.Intn(5) == 0 {
		switch rng.Intn(10) {
		case 0:
			return me("es")
		case 1:
			return &mexpr{Op: "char", S: string(rune('a' + rng.Intn(4)))}
		case 2:
			return &mexpr{Op: "range", S: "bd"}
		case 3:
			return me("dot")
		case 4:
			return me("pred")
		case 5:
			return me("nil")
		default:
			return me("e")
		}
	}
	switch rng.Intn(9) {
	case 0, 1:
		n := 2 + rng.Intn(2)
		var ks []*mexpr
		for i := 0; i < n; i++ {
			ks = append(ks, randExpr1(rng, depth-1))
		}
		return me("seq", ks...)
	case 2, 3:
		n := 2 + rng.Intn(2)
		var ks []*mexpr
		for i := 0; i < n; i++ {
			ks = append(ks, randExpr1(rng, depth-1))
		}
		return me("alt", ks...)
	default:
		return me(unaryOps[rng.Intn(len(unaryOps))], randExpr1(rng, depth-1))
	}
}

func genSpecs(tag string, xs []*mexpr) []modelSpec {
	var out []modelSpec
	for i, x := range xs {
		x := x
		out = append(out, modelSpec{Op: tag, Name: fmt.Sprintf("%s #%d %s", tag, i, x.String()), Build: func(m *model) int {
			m.addRule("S", x.build(m), 1)
			return 0
		}})
	}
	return out
}

// thoroughSpecs: the exhaustive two-level compositions plus seeded random
// expressions of depth ≤ 3.
func thoroughSpecs(seed int64, n int) []modelSpec {
	var out []modelSpec
	rng := rand.New(rand.NewSource(seed))
	var xs []*mexpr
	seen := map[string]bool{}
	for len(xs) < n {
		x := randomExpr(rng, 3)
		if s := x.String(); !seen[s] {
			seen[s] = true
			xs = append(xs, x)
		}
	}
	out = append(out, genSpecs("random depth≤3", xs)...)
	// a smaller share of deeper expressions
	var ys []*mexpr
	for tries := 0; len(ys) < n/8 && tries < 20*n; tries++ {
		x := randomExpr(rng, 4)
		if s := x.String(); !seen[s] && len(s) < 160 {
			seen[s] = true
			ys = append(ys, x)
		}
	}
	return append(out, genSpecs("random depth≤4", ys)...)
}
