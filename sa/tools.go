package main

import (
	"fmt"
	"os"
	"strings"
)

func init() {
	tools["dump-inst"] = func(args []string) int {
		r := loadRepo()
		ti := loadTemplate(r)
		if ti.Err != nil {
			fmt.Println("template:", ti.Err)
			return 1
		}
		fmt.Println("fields:", joinSorted(ti.Fields), "bools:", ti.BoolVars)
		want := map[string]bool{}
		show := false
		for _, a := range args {
			if a == "--show" {
				show = true
			} else {
				want[a] = true
			}
		}
		bad := 0
		for _, v := range allValuations(ti.BoolVars) {
			if len(want) > 0 {
				match := true
				for _, b := range ti.BoolVars {
					if v[b] != want[b] {
						match = false
					}
				}
				if !match {
					continue
				}
			}
			cfg := modelConfig(v)
			head, lm, err := ti.instantiate(cfg)
			if err != nil {
				fmt.Println(cfg.name(), "instantiate:", err)
				bad++
				continue
			}
			in := buildInst(r, cfg.name(), head+syntheticTail(cfg))
			in.LineMap = lm
			fmt.Printf("%-50s %d lines, %d errors\n", cfg.name(), strings.Count(in.Src, "\n"), len(in.Errs))
			for _, e := range in.Errs {
				fmt.Println("   ", e)
				bad++
			}
			if show {
				for i, l := range strings.Split(in.Src, "\n") {
					fmt.Printf("%4d %s\n", i+1, l)
				}
			}
		}
		if bad > 0 {
			return 1
		}
		return 0
	}
}

func init() {
	tools["dump-ssa"] = func(args []string) int {
		r := loadRepo()
		ti := loadTemplate(r)
		v := map[string]bool{}
		for _, b := range ti.BoolVars {
			v[b] = false
		}
		fnFilter := ""
		for _, a := range args {
			if strings.HasPrefix(a, "fn=") {
				fnFilter = a[3:]
			} else {
				v[a] = true
			}
		}
		cfg := modelConfig(v)
		head, lm, err := ti.instantiate(cfg)
		if err != nil {
			fmt.Println(err)
			return 1
		}
		in := buildInst(r, cfg.name(), head+syntheticTail(cfg))
		in.LineMap = lm
		in.Cfg = cfg
		if len(in.Errs) > 0 {
			fmt.Println(in.Errs)
			return 1
		}
		initFn, by := in.initClosures()
		if fnFilter == "" || fnFilter == "Init" {
			initFn.WriteTo(os.Stdout)
		}
		for n, f := range by {
			if fnFilter == "" || fnFilter == n {
				fmt.Println("=====", n)
				f.WriteTo(os.Stdout)
			}
		}
		if fnFilter != "" {
			for _, m := range []string{"Error", "AST", "print", "Print", "Execute", "Add", "Trim", "PrintSyntaxTree", "WriteSyntaxTree"} {
				if m == fnFilter {
					for _, recv := range []string{"parseError", "tokens", "node", cfg.Struct} {
						if f := in.method(recv, m); f != nil {
							f.WriteTo(os.Stdout)
							for _, af := range f.AnonFuncs {
								af.WriteTo(os.Stdout)
							}
						}
					}
				}
			}
			if f := in.SSA.Func(fnFilter); f != nil {
				f.WriteTo(os.Stdout)
			}
		}
		return 0
	}
}
