package main

import (
	"fmt"
	"os"
	"strings"
)

func init() {
	tools["dump-inst"] = func(args []string) int {
		r := loadRepo()
		ti := loadTemplate(r)
		if ti.Err != nil {
			fmt.Println("template:", ti.Err)
			return 1
		}
		fmt.Println("fields:", joinSorted(ti.Fields), "bools:", ti.BoolVars)
		want := map[string]bool{}
		show := false
		for _, a := range args {
			if a == "--show" {
				show = true
			} else {
				want[a] = true
			}
		}
		bad := 0
		for _, v := range allValuations(ti.BoolVars) {
			if len(want) > 0 {
				match := true
				for _, b := range ti.BoolVars {
					if v[b] != want[b] {
						match = false
					}
				}
				if !match {
					continue
				}
			}
			cfg := modelConfig(v)
			head, lm, err := ti.instantiate(cfg)
			if err != nil {
				fmt.Println(cfg.name(), "instantiate:", err)
				bad++
				continue
			}
			in := buildInst(r, cfg.name(), head+syntheticTail(cfg))
			in.LineMap = lm
			fmt.Printf("%-50s %d lines, %d errors\n", cfg.name(), strings.Count(in.Src, "\n"), len(in.Errs))
			for _, e := range in.Errs {
				fmt.Println("   ", e)
				bad++
			}
			if show {
				for i, l := range strings.Split(in.Src, "\n") {
					fmt.Printf("%4d %s\n", i+1, l)
				}
			}
		}
		if bad > 0 {
			return 1
		}
		return 0
	}
}

func init() {
	tools["dump-ssa"] = func(args []string) int {
		r := loadRepo()
		ti := loadTemplate(r)
		v := map[string]bool{}
		for _, b := range ti.BoolVars {
			v[b] = false
		}
		fnFilter := ""
		for _, a := range args {
			if strings.HasPrefix(a, "fn=") {
				fnFilter = a[3:]
			} else {
				v[a] = true
			}
		}
		cfg := modelConfig(v)
		head, lm, err := ti.instantiate(cfg)
		if err != nil {
			fmt.Println(err)
			return 1
		}
		in := buildInst(r, cfg.name(), head+syntheticTail(cfg))
		in.LineMap = lm
		in.Cfg = cfg
		if len(in.Errs) > 0 {
			fmt.Println(in.Errs)
			return 1
		}
		initFn, by := in.initClosures()
		if fnFilter == "" || fnFilter == "Init" {
			initFn.WriteTo(os.Stdout)
		}
		for n, f := range by {
			if fnFilter == "" || fnFilter == n {
				fmt.Println("=====", n)
				f.WriteTo(os.Stdout)
			}
		}
		if fnFilter != "" {
			for _, m := range []string{"Error", "AST", "print", "Print", "Execute", "Add", "Trim", "PrintSyntaxTree", "WriteSyntaxTree"} {
				if m == fnFilter {
					for _, recv := range []string{"parseError", "tokens", "node", cfg.Struct} {
						if f := in.method(recv, m); f != nil {
							f.WriteTo(os.Stdout)
							for _, af := range f.AnonFuncs {
								af.WriteTo(os.Stdout)
							}
						}
					}
				}
			}
			if f := in.SSA.Func(fnFilter); f != nil {
				f.WriteTo(os.Stdout)
			}
		}
		return 0
	}
}

func init() {
	tools["dump-emit"] = func(args []string) int {
		r := loadRepo()
		rg := findRegion(r)
		if len(rg.problems) > 0 {
			fmt.Println(rg.problems)
			return 1
		}
		it := newInterp(r)
		opts := modelOpts{Ast: true}
		kind := "alt"
		for _, a := range args {
			switch a {
			case "inline":
				opts.Inline = true
			case "switch":
				opts.Switch = true
			case "noast":
				opts.Ast = false
			default:
				kind = a
			}
		}
		m := newModel(it, opts)
		var body *Obj
		switch kind {
		case "alt":
			body = m.alt(m.opaqueChild(true, false), m.opaqueChild(true, false), m.opaqueChild(true, false))
		case "seq":
			body = m.seq(m.opaqueChild(true, false), m.char("a"), m.rng("b", "y"), m.dot(), m.str("xyz"))
		case "star":
			body = m.star(m.opaqueChild(true, false))
		case "plus":
			body = m.plus(m.opaqueChild(true, false))
		case "query":
			body = m.query(m.opaqueChild(true, false))
		case "peek":
			body = m.seq(m.peekFor(m.opaqueChild(true, false)), m.peekNot(m.opaqueChild(true, false)))
		case "push":
			body = m.seq(m.push(m.opaqueChild(true, false)), m.action("_ = text"))
		case "name":
			body = m.seq(m.name("A"), m.name("B"))
		}
		m.addRule("S", body, 1)
		if kind == "name" {
			m.addRule("A", m.opaqueChild(true, false), 1)
			m.addRule("B", m.star(m.opaqueChild(true, false)), 2)
		}
		m.finish()
		em := m.run(rg)
		fmt.Println("err:", em.Err, "warnings:", em.Warnings, "contracts:", em.Contracts)
		fmt.Println(em.Text)
		return 0
	}
}

func init() {
	tools["dump-check"] = func(args []string) int {
		r := loadRepo()
		rg := findRegion(r)
		ti := loadTemplate(r)
		it := newInterp(r)
		opts := modelOpts{Ast: true}
		kind := "alt"
		for _, a := range args {
			switch a {
			case "inline":
				opts.Inline = true
			case "switch":
				opts.Switch = true
			case "noast":
				opts.Ast = false
			default:
				kind = a
			}
		}
		m := newModel(it, opts)
		var body *Obj
		switch kind {
		case "alt":
			body = m.alt(m.opaqueChild(true, false), m.opaqueChild(true, false), m.opaqueChild(true, false))
		case "seq":
			body = m.seq(m.opaqueChild(true, false), m.char("a"), m.rng("b", "y"), m.dot())
		case "star":
			body = m.star(m.opaqueChild(true, false))
		case "plus":
			body = m.plus(m.opaqueChild(true, false))
		case "query":
			body = m.query(m.opaqueChild(true, false))
		case "peek":
			body = m.seq(m.peekFor(m.opaqueChild(true, false)), m.peekNot(m.opaqueChild(true, false)))
		case "push":
			body = m.seq(m.push(m.opaqueChild(true, false)), m.action("__act0()"))
		}
		m.addRule("S", body, 1)
		m.addRule("Aux", m.char("z"), 2)
		m.finish()
		tv := checkModel(r, ti, rg, m, 0, kind)
		fmt.Println("ok:", tv.ok(), "outcomes:", tv.NOut)
		fmt.Println(tv.detail())
		if !tv.ok() {
			fmt.Println(tv.replay())
		}
		return 0
	}
}

func init() {
	tools["dump-sw"] = func(args []string) int {
		r := loadRepo()
		want := strings.Join(args, " ")
		for _, sp := range switchSuite() {
			if !strings.Contains(sp.Name, want) {
				continue
			}
			rs, probs := runSwitchSuite(r, []swModel{sp}, []modelOpts{{Ast: true, Switch: true}})
			fmt.Println(probs)
			for _, sr := range rs {
				fmt.Println("==", sr.Spec.Name, "rewrote:", sr.Rewrote, "err:", sr.Err, "first:", sr.FirstBad)
				if sr.TV != nil {
					fmt.Println(sr.TV.RuleText)
					fmt.Println(sr.TV.detail())
					for _, o := range sr.TV.Got {
						fmt.Println("  got ", projEquivRaw(o), o.Flags)
					}
					for _, o := range sr.TV.Want {
						fmt.Println("  want", projEquivRaw(o))
					}
				}
			}
		}
		return 0
	}
}

func init() {
	tools["dump-peg"] = func(args []string) int {
		r := loadRepo()
		b, _ := os.ReadFile(r.Root + "/peg.peg")
		g, err := parsePeg("peg.peg", string(b))
		if err != nil {
			fmt.Println(err)
			return 1
		}
		var show func(e *pexpr) string
		show = func(e *pexpr) string {
			var ks []string
			for _, k := range e.Kids {
				ks = append(ks, show(k))
			}
			switch e.Op {
			case "name":
				return e.S
			case "lit":
				return fmt.Sprintf("%q", e.S)
			case "action":
				return "{" + strings.TrimSpace(e.S) + "}"
			case "class":
				return fmt.Sprintf("class%v", e.Ranges)
			}
			return e.Op + "(" + strings.Join(ks, " ") + ")"
		}
		for _, rl := range g.Rules {
			if len(args) == 0 || args[0] == rl.Name {
				fmt.Println(rl.Name, "<-", show(rl.Expr))
			}
		}
		return 0
	}
}
