package main

// The model catalogue: for every node type that can occur inside a rule, the
// operator template is evaluated on model trees whose children are opaque
// holes (contracts), for child counts 1..3 and every may-fail/never-fail
// flavour, plus a few two-level compositions. Shared by C01, C03, C04, C06,
// C07, C08 and C13, each of which looks at its own component of the result.

import (
	"fmt"
	"sort"
	"strings"
	"sync"
)

type modelSpec struct {
	Op    string // the compile case this model is about
	Name  string
	Build func(m *model) int // builds rules, returns the index of the rule under test
	NoAux bool
}

func flavourName(mask, k int) string {
	var sb strings.Builder
	for i := 0; i < k; i++ {
		if mask&(1<<i) != 0 {
			sb.WriteByte('f') // may fail
		} else {
			sb.WriteByte('s') // always succeeds
		}
	}
	return sb.String()
}

func opaques(m *model, mask, k int) []*Obj {
	var out []*Obj
	for i := 0; i < k; i++ {
		out = append(out, m.opaqueChild(mask&(1<<i) != 0, false))
	}
	return out
}

func coreSuite() []modelSpec {
	var s []modelSpec
	add := func(op, name string, b func(m *model) *Obj) {
		s = append(s, modelSpec{Op: op, Name: name, Build: func(m *model) int {
			m.addRule("S", b(m), 1)
			return 0
		}})
	}
	for k := 1; k <= 3; k++ {
		for mask := 0; mask < 1<<k; mask++ {
			k, mask := k, mask
			add("TypeSequence", fmt.Sprintf("Sequence k=%d %s", k, flavourName(mask, k)), func(m *model) *Obj {
				return m.seq(opaques(m, mask, k)...)
			})
			if k >= 2 {
				add("TypeAlternate", fmt.Sprintf("Alternate k=%d %s", k, flavourName(mask, k)), func(m *model) *Obj {
					return m.alt(opaques(m, mask, k)...)
				})
			}
		}
	}
	add("TypeAlternate", "Alternate with empty last alternative", func(m *model) *Obj {
		return m.alt(m.opaqueChild(true, false), m.opaqueChild(true, false), m.nilNode())
	})
	for _, mf := range []bool{true, false} {
		mf := mf
		fl := map[bool]string{true: "f", false: "s"}[mf]
		add("TypeQuery", "Query "+fl, func(m *model) *Obj { return m.query(m.opaqueChild(mf, false)) })
		add("TypePeekFor", "PeekFor "+fl, func(m *model) *Obj { return m.peekFor(m.opaqueChild(mf, false)) })
		add("TypePeekNot", "PeekNot "+fl, func(m *model) *Obj { return m.peekNot(m.opaqueChild(mf, false)) })
		add("TypePush", "Push "+fl, func(m *model) *Obj { return m.push(m.opaqueChild(mf, false)) })
		add("TypeImplicitPush", "rule wrapper "+fl, func(m *model) *Obj { return m.opaqueChild(mf, false) })
	}
	add("TypeStar", "Star f", func(m *model) *Obj { return m.star(m.opaqueChild(true, false)) })
	add("TypePlus", "Plus f", func(m *model) *Obj { return m.plus(m.opaqueChild(true, false)) })
	add("TypeCharacter", "Character", func(m *model) *Obj { return m.char("a") })
	add("TypeCharacter", "Character non-ASCII", func(m *model) *Obj { return m.char("世") })
	add("TypeCharacter", "Character quote", func(m *model) *Obj { return m.char("'") })
	add("TypeRange", "Range", func(m *model) *Obj { return m.rng("b", "y") })
	add("TypeDot", "Dot", func(m *model) *Obj { return m.dot() })
	add("TypeRange", "Range from NUL", func(m *model) *Obj { return m.rng("\x00", "b") })
	add("TypeRange", "Range to the last code point", func(m *model) *Obj { return m.rng("y", "\U0010FFFF") })
	add("TypeRange", "Range over all code points", func(m *model) *Obj { return m.rng("\x00", "\U0010FFFF") })
	add("TypeCharacter", "Character NUL", func(m *model) *Obj { return m.char("\x00") })
	add("TypeCharacter", "Character last code point", func(m *model) *Obj { return m.char("\U0010FFFF") })
	add("TypePredicate", "Predicate", func(m *model) *Obj { return m.predicate("__pred0()") })
	add("TypePredicate", "Predicate with layout around it", func(m *model) *Obj { return m.predicate("\n\t__pred0()\n") })
	add("TypePredicate", "Predicate ending in a line comment", func(m *model) *Obj { return m.predicate("__pred0() // why\n") })
	add("TypePredicate", "Predicate with a line comment inside, in a sequence", func(m *model) *Obj {
		return m.seq(m.opaqueChild(true, false), m.predicate("__pred0() && // first\n true"), m.opaqueChild(true, false))
	})
	add("TypeStateChange", "StateChange", func(m *model) *Obj { return m.state("__st0()") })
	add("TypeNil", "Nil inside a sequence", func(m *model) *Obj { return m.seq(m.opaqueChild(true, false), m.nilNode()) })
	add("TypeAction", "Action (reference to its rule)", func(m *model) *Obj {
		return m.seq(m.opaqueChild(true, false), m.action("__act0()"), m.opaqueChild(true, false))
	})
	s = append(s, modelSpec{Op: "TypeAction", Name: "Action rule function", Build: func(m *model) int {
		m.addRule("S", m.seq(m.opaqueChild(true, false), m.action("__act0()")), 1)
		return -1 // resolved after finish: the Action0 rule
	}})
	// rule references
	s = append(s, modelSpec{Op: "TypeName", Name: "Name callee may fail", Build: func(m *model) int {
		m.addRule("S", m.seq(m.name("A"), m.opaqueChild(true, false)), 1)
		m.addRule("A", m.opaqueChild(true, false), 2)
		return 0
	}})
	s = append(s, modelSpec{Op: "TypeName", Name: "Name callee always succeeds (star)", Build: func(m *model) int {
		m.addRule("S", m.seq(m.name("A"), m.opaqueChild(true, false)), 1)
		m.addRule("A", m.star(m.opaqueChild(true, false)), 2)
		return 0
	}})
	s = append(s, modelSpec{Op: "TypeName", Name: "Name callee always succeeds (alternate with optional)", Build: func(m *model) int {
		m.addRule("S", m.seq(m.name("A"), m.opaqueChild(true, false)), 1)
		m.addRule("A", m.alt(m.opaqueChild(true, false), m.query(m.opaqueChild(true, false))), 2)
		return 0
	}})
	s = append(s, modelSpec{Op: "TypeName", Name: "Name guarded recursion", Build: func(m *model) int {
		m.addRule("S", m.seq(m.opaqueChild(true, false), m.query(m.name("S"))), 2)
		return 0
	}})
	// every operator directly over a reference to a rule that is referenced once
	// (emitted in place under -inline) and whose body can fail after its first
	// element has consumed input and recorded tokens
	{
		nm := func(s string) *mexpr { return &mexpr{Op: "name", S: s} }
		var xs []*mexpr
		for _, u := range unaryOps {
			xs = append(xs, me(u, nm("A")))
		}
		xs = append(xs, me("alt", nm("A"), me("e")), me("alt", me("e"), nm("A")), me("alt", nm("A"), nm("B"), me("e")), me("alt", nm("A"), nm("B")),
			me("seq", nm("A"), me("e")), me("seq", me("e"), nm("A")), me("seq", me("query", nm("A")), nm("B")), me("alt", me("seq", nm("A"), me("e")), nm("B")),
			me("star", me("alt", nm("A"), nm("B"))), me("not", me("alt", nm("A"), me("e"))))
		for i, x := range xs {
			x := x
			uses := map[string]bool{}
			var walk func(y *mexpr)
			walk = func(y *mexpr) {
				if y.Op == "name" {
					uses[y.S] = true
				}
				for _, k := range y.Kids {
					walk(k)
				}
			}
			walk(x)
			s = append(s, modelSpec{Op: "TypeName", Name: fmt.Sprintf("single-use rule #%d %s", i, x.String()), Build: func(m *model) int {
				m.addRule("S", x.build(m), 1)
				for _, r := range []string{"A", "B"} {
					if uses[r] {
						m.addRule(r, m.seq(m.opaqueChild(true, false), m.opaqueChild(true, false)), 1)
					}
				}
				return 0
			}})
		}
	}
	// two-level compositions (label numbering, labelLast plumbing)
	add("composition", "Seq[Query, Alt, Star]", func(m *model) *Obj {
		return m.seq(m.query(m.opaqueChild(true, false)), m.alt(m.opaqueChild(true, false), m.opaqueChild(true, false)), m.star(m.opaqueChild(true, false)))
	})
	add("composition", "Alt[Seq[PeekNot, e], Alt[e, e], Plus]", func(m *model) *Obj {
		return m.alt(m.seq(m.peekNot(m.opaqueChild(true, false)), m.opaqueChild(true, false)), m.alt(m.opaqueChild(true, false), m.opaqueChild(true, false)), m.plus(m.opaqueChild(true, false)))
	})
	add("composition", "Star[Alt[Seq[Char, e], Push[Range]]]", func(m *model) *Obj {
		return m.star(m.alt(m.seq(m.char("a"), m.opaqueChild(true, false)), m.push(m.rng("b", "y"))))
	})
	add("composition", "Seq[PeekFor[Alt], Query[Seq[Dot, Char]], Alt ending a sequence]", func(m *model) *Obj {
		return m.seq(m.peekFor(m.alt(m.char("a"), m.char("c"))), m.query(m.seq(m.dot(), m.char("a"))), m.alt(m.opaqueChild(true, false), m.opaqueChild(true, false)))
	})
	add("composition", "a sequence of empty literals behind a choice: Seq[e, Alt[e, e], Seq[(), ()]]", func(m *model) *Obj {
		return m.seq(m.opaqueChild(true, false), m.alt(m.opaqueChild(true, false), m.opaqueChild(true, false)), m.seq(m.nilNode(), m.nilNode()))
	})
	add("composition", "children ending in a label", func(m *model) *Obj {
		return m.seq(m.opaqueChild(true, true), m.alt(m.opaqueChild(true, true), m.opaqueChild(true, true)), m.query(m.opaqueChild(true, true)))
	})
	// every operator directly under every operator: an emitter that special-cases
	// the *type* of a child (rather than treating it by contract) is exercised here
	s = append(s, genSpecs("two-level", twoLevel())...)
	// … and every terminal / leaf type directly under every operator
	leaves := []func() *mexpr{
		func() *mexpr { return &mexpr{Op: "char", S: "a"} },
		func() *mexpr { return &mexpr{Op: "range", S: "bd"} },
		func() *mexpr { return me("dot") },
		func() *mexpr { return me("pred") },
		func() *mexpr { return me("act") },
	}
	var lx []*mexpr
	for _, lf := range leaves {
		for _, u := range unaryOps {
			lx = append(lx, me(u, lf()))
		}
		lx = append(lx, me("alt", lf(), me("e")), me("alt", me("e"), lf()), me("seq", lf(), me("e")), me("alt", lf(), lf(), me("nil")))
	}
	var wf []*mexpr
	for _, x := range lx {
		if x.wellFormed() {
			wf = append(wf, x)
		}
	}
	s = append(s, genSpecs("operator over leaf", wf)...)
	// the shapes the front end builds for the lexical idioms of a grammar — negated class,
	// class, case-insensitive literal, string literal, quoted string — alone, under every
	// operator and next to a sibling: an emitter that recognises one of these *shapes* (to
	// emit a scan loop, a table lookup, …) is exercised on exactly what it looks for
	{
		ch := func(c string) *mexpr { return &mexpr{Op: "char", S: c} }
		rg := func(b string) *mexpr { return &mexpr{Op: "range", S: b} }
		idioms := []func() *mexpr{
			func() *mexpr { return me("seq", me("not", ch("a")), me("dot")) },                            // [^a]
			func() *mexpr { return me("seq", me("not", rg("bd")), me("dot")) },                           // [^b-d]
			func() *mexpr { return me("seq", me("not", me("alt", ch("a"), rg("bd"))), me("dot")) },       // [^ab-d]
			func() *mexpr { return me("alt", ch("a"), rg("bd"), ch("x")) },                               // [ab-dx]
			func() *mexpr { return me("seq", me("alt", ch("a"), ch("A")), me("alt", ch("b"), ch("B"))) }, // "ab"
			func() *mexpr { return me("seq", ch("a"), ch("b"), ch("a")) },                                // 'aba'
		}
		var ix []*mexpr
		for _, id := range idioms {
			ix = append(ix, id())
			for _, u := range unaryOps {
				ix = append(ix, me(u, id()))
			}
			ix = append(ix, me("seq", id(), me("e")), me("alt", id(), me("e")), me("seq", me("star", id()), ch("a")), me("seq", me("plus", id()), me("e")))
		}
		// [^a]* . and [^ab-d]+ . : the idiom next to the terminal it is built from
		ix = append(ix, me("seq", me("star", me("seq", me("not", ch("a")), me("dot"))), me("dot")),
			me("seq", me("plus", me("seq", me("not", me("alt", ch("a"), rg("bd"))), me("dot"))), me("dot")))
		// a quoted string: 'a' [^a]* 'a'
		ix = append(ix, me("seq", ch("a"), me("star", me("seq", me("not", ch("a")), me("dot"))), ch("a")))
		var wfi []*mexpr
		for _, x := range ix {
			if x.wellFormed() {
				wfi = append(wfi, x)
			}
		}
		s = append(s, genSpecs("lexical idiom", wfi)...)
	}
	return s
}

type suiteResult struct {
	Spec modelSpec
	Opts modelOpts
	TV   *templateVerdict
	M    *model
}

func optsName(o modelOpts) string {
	var p []string
	if o.Inline {
		p = append(p, "-inline")
	}
	if o.Switch {
		p = append(p, "-switch")
	}
	if !o.Ast {
		p = append(p, "-noast")
	}
	if len(p) == 0 {
		return "default"
	}
	return strings.Join(p, " ")
}

// runSuite evaluates every model under every option set, in parallel.
func runSuite(r *Repo, specs []modelSpec, optSets []modelOpts) ([]*suiteResult, []string) {
	rg := findRegion(r)
	if len(rg.problems) > 0 {
		return nil, rg.problems
	}
	ti := loadTemplate(r)
	if ti.Err != nil {
		return nil, []string{"template: " + ti.Err.Error()}
	}
	var out []*suiteResult
	for _, o := range optSets {
		for _, sp := range specs {
			out = append(out, &suiteResult{Spec: sp, Opts: o})
		}
	}
	sem := make(chan struct{}, 16)
	var wg sync.WaitGroup
	for _, sr := range out {
		wg.Add(1)
		sem <- struct{}{}
		go func(sr *suiteResult) {
			defer wg.Done()
			defer func() { <-sem }()
			defer func() {
				if p := recover(); p != nil {
					sr.TV = &templateVerdict{Name: sr.Spec.Name, EmitErr: fmt.Sprint(p)}
					if u, ok := p.(undecided); ok {
						sr.TV.EmitErr = u.msg
					}
				}
			}()
			it := newInterp(r)
			m := newModel(it, sr.Opts)
			ri := sr.Spec.Build(m)
			if !sr.Spec.NoAux {
				m.addRule("Aux", m.char("z"), 2)
			}
			m.finish()
			if ri < 0 {
				for i, rl := range m.rules {
					if strings.HasPrefix(m.strOf(rl), "Action") {
						ri = i
					}
				}
			}
			sr.M = m
			sr.TV = checkModel(r, ti, rg, m, ri, sr.Spec.Name+" ["+optsName(sr.Opts)+"]")
		}(sr)
	}
	wg.Wait()
	return out, nil
}

// byOp groups results by operator, keeping catalogue order.
func byOp(rs []*suiteResult) (ops []string, m map[string][]*suiteResult) {
	m = map[string][]*suiteResult{}
	for _, r := range rs {
		if _, ok := m[r.Spec.Op]; !ok {
			ops = append(ops, r.Spec.Op)
		}
		m[r.Spec.Op] = append(m[r.Spec.Op], r)
	}
	sort.Strings(ops)
	return
}
