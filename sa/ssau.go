package main

// SSA helpers shared by the E4/E3 rules.

import (
	"go/constant"
	"go/token"
	"go/types"
	"strings"

	"golang.org/x/tools/go/ssa"
)

// calleeName returns the fully qualified name of a statically resolved callee
// ("os.Exit", "(*log.Logger).Fatal", "github.com/…/tree.New"), or "" for a
// dynamic call. Interface method calls return "(iface).Method".
func calleeName(c ssa.CallInstruction) string {
	cc := c.Common()
	if cc.IsInvoke() {
		return "(" + cc.Value.Type().String() + ")." + cc.Method.Name()
	}
	if f := cc.StaticCallee(); f != nil {
		if f.Origin() != nil {
			f = f.Origin()
		}
		if f.Object() != nil {
			return f.Object().(*types.Func).FullName()
		}
		return f.String()
	}
	if b, ok := cc.Value.(*ssa.Builtin); ok {
		return "builtin." + b.Name()
	}
	return ""
}

var errorType = types.Universe.Lookup("error").Type()

func isErrorType(t types.Type) bool { return types.Identical(t, errorType) }

// errorResult returns the SSA value(s) carrying the error result of a call
// (the call itself, or its Extract instructions), and whether the call has an
// error result at all.
func errorResult(c ssa.CallInstruction) (vals []ssa.Value, has bool, idx int) {
	v := c.Value()
	if v == nil {
		return nil, false, -1
	}
	t := v.Type()
	if isErrorType(t) {
		return []ssa.Value{v}, true, 0
	}
	if tup, ok := t.(*types.Tuple); ok {
		for i := 0; i < tup.Len(); i++ {
			if isErrorType(tup.At(i).Type()) {
				for _, r := range *v.Referrers() {
					if e, ok := r.(*ssa.Extract); ok && e.Index == i {
						vals = append(vals, e)
					}
				}
				return vals, true, i
			}
		}
	}
	return nil, false, -1
}

// isExitInstr: a call that terminates the process with non-zero status.
func isExitInstr(in ssa.Instruction, noret map[*ssa.Function]bool) bool {
	switch x := in.(type) {
	case *ssa.Panic:
		return true
	case ssa.CallInstruction:
		if _, isDefer := in.(*ssa.Defer); isDefer {
			return false
		}
		if _, isGo := in.(*ssa.Go); isGo {
			return false
		}
		n := calleeName(x)
		switch n {
		case "log.Fatal", "log.Fatalf", "log.Fatalln", "log.Panic", "log.Panicf", "log.Panicln",
			"(*log.Logger).Fatal", "(*log.Logger).Fatalf", "(*log.Logger).Fatalln":
			return true
		case "os.Exit":
			if len(x.Common().Args) == 1 {
				if k, ok := x.Common().Args[0].(*ssa.Const); ok && k.Value != nil {
					if v, ok := constant.Int64Val(k.Value); ok && v != 0 {
						return true
					}
				}
			}
			return false
		}
		if f := x.Common().StaticCallee(); f != nil && noret[f] {
			return true
		}
	}
	return false
}

func blockExits(b *ssa.BasicBlock, noret map[*ssa.Function]bool) bool {
	for _, in := range b.Instrs {
		if isExitInstr(in, noret) {
			return true
		}
	}
	return false
}

// noReturnFuncs computes functions of the given set all of whose paths from
// entry hit an exit call before any return (fixpoint).
func noReturnFuncs(fns []*ssa.Function) map[*ssa.Function]bool {
	nr := map[*ssa.Function]bool{}
	for changed := true; changed; {
		changed = false
		for _, f := range fns {
			if nr[f] || len(f.Blocks) == 0 {
				continue
			}
			if !reachesReturn(f.Blocks[0], nr, nil) {
				nr[f] = true
				changed = true
			}
		}
	}
	return nr
}

// reachesReturn: is there a path from b to a Return instruction that passes
// no exit call and no block accepted by stop?
func reachesReturn(b *ssa.BasicBlock, noret map[*ssa.Function]bool, stop func(*ssa.BasicBlock) bool) bool {
	return pathToReturn(b, noret, stop) != nil
}

// pathToReturn returns one such path (block indices), or nil.
func pathToReturn(b *ssa.BasicBlock, noret map[*ssa.Function]bool, stop func(*ssa.BasicBlock) bool) []*ssa.BasicBlock {
	seen := map[*ssa.BasicBlock]bool{}
	var dfs func(b *ssa.BasicBlock) []*ssa.BasicBlock
	dfs = func(b *ssa.BasicBlock) []*ssa.BasicBlock {
		if seen[b] {
			return nil
		}
		seen[b] = true
		if stop != nil && stop(b) {
			return nil
		}
		// instructions in order: an exit before the return ends the path
		for _, in := range b.Instrs {
			if isExitInstr(in, noret) {
				return nil
			}
			if _, ok := in.(*ssa.Return); ok {
				return []*ssa.BasicBlock{b}
			}
		}
		for _, s := range b.Succs {
			if p := dfs(s); p != nil {
				return append([]*ssa.BasicBlock{b}, p...)
			}
		}
		return nil
	}
	return dfs(b)
}

// nilCheck describes `v != nil` / `v == nil` used by an If: the successor taken
// when v is non-nil and the one taken when v is nil.
type nilCheck struct {
	If          *ssa.If
	NonNil, Nil *ssa.BasicBlock
}

// reachingStores: the values a local may hold just before instruction `before`
// of block blk (nearest store on every backward path); zero reports that the
// function entry is reachable without a store (the local still has its zero value).
func reachingStores(a *ssa.Alloc, blk *ssa.BasicBlock, before ssa.Instruction) (vals []ssa.Value, zero bool) {
	seen := map[*ssa.BasicBlock]bool{}
	have := map[ssa.Value]bool{}
	var walk func(b *ssa.BasicBlock, upto int)
	walk = func(b *ssa.BasicBlock, upto int) {
		for i := upto - 1; i >= 0; i-- {
			if st, ok := b.Instrs[i].(*ssa.Store); ok && st.Addr == ssa.Value(a) {
				if !have[st.Val] {
					have[st.Val] = true
					vals = append(vals, st.Val)
				}
				return
			}
		}
		if len(b.Preds) == 0 {
			zero = true
			return
		}
		for _, p := range b.Preds {
			if !seen[p] {
				seen[p] = true
				walk(p, len(p.Instrs))
			}
		}
	}
	idx := len(blk.Instrs)
	for i, in := range blk.Instrs {
		if in == before {
			idx = i
		}
	}
	walk(blk, idx)
	return
}

// aliasLoads: v itself and every load of a local whose only reaching store at
// that load is v (a result kept in a variable, e.g. `if err = f(); err != nil`).
func aliasLoads(v ssa.Value) []ssa.Value {
	out := []ssa.Value{v}
	refs := v.Referrers()
	if refs == nil {
		return out
	}
	for _, r := range *refs {
		st, ok := r.(*ssa.Store)
		if !ok || st.Val != v {
			continue
		}
		al, ok := st.Addr.(*ssa.Alloc)
		if !ok {
			continue
		}
		for _, ar := range *al.Referrers() {
			l, ok := ar.(*ssa.UnOp)
			if !ok || l.Op != token.MUL {
				continue
			}
			vals, zero := reachingStores(al, l.Block(), l)
			if !zero && len(vals) == 1 && vals[0] == v {
				out = append(out, l)
			}
		}
	}
	return out
}

// nilChecksOf: nil tests of v or of a variable that holds v.
func nilChecksOf(v ssa.Value) []nilCheck {
	var out []nilCheck
	for _, a := range aliasLoads(v) {
		out = append(out, nilChecksOf1(a)...)
	}
	return out
}

func nilChecksOf1(v ssa.Value) []nilCheck {
	var out []nilCheck
	refs := v.Referrers()
	if refs == nil {
		return nil
	}
	for _, r := range *refs {
		b, ok := r.(*ssa.BinOp)
		if !ok || (b.Op != token.NEQ && b.Op != token.EQL) {
			continue
		}
		other := b.Y
		if other == v {
			other = b.X
		}
		k, ok := other.(*ssa.Const)
		if !ok || !k.IsNil() {
			continue
		}
		for _, br := range *b.Referrers() {
			if iff, ok := br.(*ssa.If); ok {
				blk := iff.Block()
				nc := nilCheck{If: iff}
				if b.Op == token.NEQ {
					nc.NonNil, nc.Nil = blk.Succs[0], blk.Succs[1]
				} else {
					nc.NonNil, nc.Nil = blk.Succs[1], blk.Succs[0]
				}
				out = append(out, nc)
			}
		}
	}
	return out
}

// edgeDominates: does taking edge from→to dominate block t?
func edgeDominates(from, to, t *ssa.BasicBlock) bool {
	if !to.Dominates(t) {
		return false
	}
	for _, p := range to.Preds {
		if p != from && !to.Dominates(p) {
			return false
		}
	}
	return true
}

// returnValues resolves, for a Return instruction, the possible SSA values of
// result i, looking through the defer-spill pattern (*t0 = v; rundefers;
// t = *t0; return t).
func returnValues(ret *ssa.Return, i int) []ssa.Value {
	v := ret.Results[i]
	if u, ok := v.(*ssa.UnOp); ok && u.Op == token.MUL {
		if a, ok := u.X.(*ssa.Alloc); ok {
			// nearest store in the same block before the load
			blk := ret.Block()
			var last ssa.Value
			for _, in := range blk.Instrs {
				if in == ssa.Instruction(u) {
					break
				}
				if st, ok := in.(*ssa.Store); ok && st.Addr == a {
					last = st.Val
				}
			}
			if last != nil {
				return resolveLoads([]ssa.Value{last}, 0)
			}
			vals, zero := reachingStores(a, blk, u)
			if zero {
				vals = append(vals, ssa.NewConst(nil, a.Type().(*types.Pointer).Elem()))
			}
			return resolveLoads(vals, 0)
		}
	}
	return []ssa.Value{v}
}

// resolveLocal looks through a load of a field of a local struct variable
// that is initialised once (added := token{rule, begin, position}; … added.end):
// the value stored into that field. Anything else is returned unchanged.
func resolveLocal(x ssa.Value) ssa.Value {
	for depth := 0; depth < 4; depth++ {
		u, ok := x.(*ssa.UnOp)
		if !ok || u.Op != token.MUL {
			return x
		}
		fa, ok := u.X.(*ssa.FieldAddr)
		if !ok {
			return x
		}
		al, ok := fa.X.(*ssa.Alloc)
		if !ok {
			return x
		}
		field := fa.Field
		var vals []ssa.Value
		for hop := 0; hop < 3; hop++ {
			vals = nil
			var wholes []ssa.Value
			for _, r := range *al.Referrers() {
				switch y := r.(type) {
				case *ssa.FieldAddr:
					if y.Field != field {
						continue
					}
					for _, rr := range *y.Referrers() {
						if st, ok := rr.(*ssa.Store); ok && st.Addr == ssa.Value(y) {
							vals = append(vals, st.Val)
						}
					}
				case *ssa.Store:
					if y.Addr == ssa.Value(al) {
						wholes = append(wholes, y.Val)
					}
				}
			}
			if len(wholes) == 0 {
				break
			}
			// the variable was initialised from a composite literal built in a temporary
			if len(wholes) == 1 && len(vals) == 0 {
				if l, ok := wholes[0].(*ssa.UnOp); ok && l.Op == token.MUL {
					if b, ok := l.X.(*ssa.Alloc); ok {
						al = b
						continue
					}
				}
			}
			return x
		}
		if len(vals) != 1 {
			return x
		}
		x = vals[0]
	}
	return x
}

// resolveLoads replaces loads of locals by the values that reach them
// (`return err` on a named result compiles to t = *err; *err = t; … return *err).
func resolveLoads(vals []ssa.Value, depth int) []ssa.Value {
	if depth > 4 {
		return vals
	}
	var out []ssa.Value
	for _, v := range vals {
		if l, ok := v.(*ssa.UnOp); ok && l.Op == token.MUL {
			if al, ok := l.X.(*ssa.Alloc); ok {
				rs, zero := reachingStores(al, l.Block(), l)
				if zero {
					rs = append(rs, ssa.NewConst(nil, al.Type().(*types.Pointer).Elem()))
				}
				if len(rs) > 0 {
					out = append(out, resolveLoads(rs, depth+1)...)
					continue
				}
			}
		}
		out = append(out, v)
	}
	return out
}

// derivedFrom: is v the value e, or a phi/ChangeInterface/MakeInterface of it,
// or the result of a wrapping call (fmt.Errorf, errors.Join…) that takes a
// value derived from e? Bounded depth.
func derivedFrom(v, e ssa.Value, depth int) bool {
	if v == e {
		return true
	}
	if depth > 6 {
		return false
	}
	switch x := v.(type) {
	case *ssa.Phi:
		for _, ed := range x.Edges {
			if derivedFrom(ed, e, depth+1) {
				return true
			}
		}
	case *ssa.ChangeInterface:
		return derivedFrom(x.X, e, depth+1)
	case *ssa.MakeInterface:
		return derivedFrom(x.X, e, depth+1)
	case *ssa.Call:
		if isErrorType(x.Type()) {
			for _, a := range x.Call.Args {
				if usesValue(a, e, depth+1) {
					return true
				}
			}
		}
	}
	return false
}

// usesValue: does a (possibly a varargs slice) carry e?
func usesValue(a, e ssa.Value, depth int) bool {
	if derivedFrom(a, e, depth) {
		return true
	}
	if depth > 6 {
		return false
	}
	if s, ok := a.(*ssa.Slice); ok {
		if al, ok := s.X.(*ssa.Alloc); ok {
			for _, r := range *al.Referrers() {
				if ia, ok := r.(*ssa.IndexAddr); ok {
					for _, rr := range *ia.Referrers() {
						if st, ok := rr.(*ssa.Store); ok && derivedFrom(st.Val, e, depth+1) {
							return true
						}
					}
				}
			}
		}
	}
	return false
}

func fnName(f *ssa.Function) string {
	if f == nil {
		return "?"
	}
	s := f.String()
	s = strings.ReplaceAll(s, modPath+"/", "")
	s = strings.ReplaceAll(s, modPath+".", "main.")
	return s
}

// instrsOf iterates all instructions of f.
func instrsOf(f *ssa.Function, visit func(ssa.Instruction)) {
	for _, b := range f.Blocks {
		for _, in := range b.Instrs {
			visit(in)
		}
	}
}

// unconv strips value-preserving conversions (Convert, MultiConvert, ChangeType).
func unconv(v ssa.Value) ssa.Value {
	for i := 0; i < 6; i++ {
		switch x := v.(type) {
		case *ssa.Convert:
			v = x.X
		case *ssa.MultiConvert:
			v = x.X
		case *ssa.ChangeType:
			v = x.X
		default:
			return v
		}
	}
	return v
}

// originFn returns the generic origin of an instantiated function.
func originFn(f *ssa.Function) *ssa.Function {
	if f != nil && f.Origin() != nil {
		return f.Origin()
	}
	return f
}
