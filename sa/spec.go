package main

// The PEG operator oracle (DESIGN §4 C01 table): a reference evaluator over
// model trees that produces, in the same term language as the E2 analysis,
// the set of admissible outcomes of a rule function. Written from the PEG
// definition (Ford 2004) and the property statements, not from the emitter.

import (
	"fmt"
	"go/ast"
	"go/parser"
	"go/printer"
	"go/token"
	"io"
	"regexp"
	"sort"
	"strconv"
	"strings"
)

var rePredStub = regexp.MustCompile(`__pred[0-9a-z_]*`)

func parserParse(fset *token.FileSet, name, src string) (*ast.File, error) {
	return parser.ParseFile(fset, name, src, parser.ParseComments|parser.SkipObjectResolution)
}

func printerFprint(w io.Writer, fset *token.FileSet, n any) { printer.Fprint(w, fset, n) }

type sstate struct {
	pos, tok string
	know     map[string]string
	hist     []string
	nloop    int
}

func (s sstate) clone() sstate {
	c := sstate{pos: s.pos, tok: s.tok, know: map[string]string{}, nloop: s.nloop}
	for k, v := range s.know {
		c.know[k] = v
	}
	c.hist = append([]string{}, s.hist...)
	return c
}

type sres struct {
	ok bool
	st sstate
}

type specEval struct {
	m    *model
	u    *universe
	ast  bool
	und  []string
	fuel int
}

func (m *model) kids(n *Obj) []*Obj {
	var out []*Obj
	for k, _ := n.field("front").v.(*Obj); k != nil; k, _ = k.field("next").v.(*Obj) {
		out = append(out, k)
	}
	return out
}

func (m *model) typeOf(n *Obj) string { return m.typeName(n) }

func (m *model) strOf(n *Obj) string { return n.field("string").v.(string) }

// universeOf collects the rune literals of a model.
func (m *model) universe() *universe {
	set := map[rune]bool{uOther: true, uEnd: true}
	seen := map[*Obj]bool{}
	var walk func(n *Obj)
	walk = func(n *Obj) {
		if n == nil || seen[n] {
			return
		}
		seen[n] = true
		switch m.typeOf(n) {
		case "TypeCharacter", "TypeString":
			if rs := []rune(m.strOf(n)); len(rs) > 0 {
				set[rs[0]] = true
			}
		case "TypeRange":
			ks := m.kids(n)
			if len(ks) == 2 {
				lo, hi := []rune(m.strOf(ks[0]))[0], []rune(m.strOf(ks[1]))[0]
				set[lo], set[hi] = true, true
				if lo+1 < hi {
					set[lo+1] = true
				}
			}
		}
		for _, k := range m.kids(n) {
			walk(k)
		}
	}
	for _, r := range m.rules {
		walk(r)
	}
	for _, oi := range m.opaque {
		if oi.first != nil {
			for _, r := range oi.first.members() {
				set[r] = true
			}
		}
	}
	u := &universe{}
	for r := range set {
		u.runes = append(u.runes, r)
	}
	sort.Slice(u.runes, func(i, j int) bool { return u.runes[i] < u.runes[j] })
	return u
}

// canFail: sound "may this expression fail" (false only when it certainly cannot).
func (m *model) canFail(n *Obj, visiting map[*Obj]bool) bool {
	if oi := m.oinfo(n); oi != nil {
		return oi.mayFail
	}
	switch m.typeOf(n) {
	case "TypeQuery", "TypeStar", "TypeNil", "TypeAction", "TypeStateChange", "TypeComment", "TypeCommit":
		return false
	case "TypeSequence":
		for _, k := range m.kids(n) {
			if m.canFail(k, visiting) {
				return true
			}
		}
		return false
	case "TypeAlternate":
		for _, k := range m.kids(n) {
			if !m.canFail(k, visiting) {
				return false
			}
		}
		return true
	case "TypePush", "TypeImplicitPush", "TypeRule", "TypePlus":
		ks := m.kids(n)
		if len(ks) == 0 {
			return true
		}
		return m.canFail(ks[0], visiting)
	case "TypeName":
		rule, _ := m.tree.field("Rules").v.(*MapV).m[m.strOf(n)].(*Obj)
		if rule == nil {
			return true
		}
		if visiting[rule] {
			// least fixpoint: a failure needs a finite derivation; a path that only
			// re-enters the rule it came from contributes none
			return false
		}
		visiting[rule] = true
		defer func() { visiting[rule] = false }()
		return m.canFail(rule, visiting)
	}
	return true
}

func (e *specEval) eval(n *Obj, st sstate) []sres {
	e.fuel--
	if e.fuel < 0 {
		e.und = append(e.und, "oracle evaluation budget exceeded")
		return nil
	}
	m := e.m
	if oi := m.oinfo(n); oi != nil {
		name := fmt.Sprintf("__c%d", oi.idx)
		ok := st.clone()
		feasible := true
		if oi.first != nil {
			yes, _ := split(e.u, ok.know, ok.pos, func(r rune) bool { return oi.first.has(r) })
			if yes == "" {
				feasible = false
			} else {
				ok.know[ok.pos] = yes
			}
		}
		ok.hist = append(ok.hist, fmt.Sprintf("%s@(%s,%s):ok", name, st.pos, st.tok))
		ok.tok = st.tok + "·" + strings.TrimPrefix(name, "__") + "@" + st.pos
		ok.pos = "S" + strings.TrimPrefix(name, "__") + "(" + st.pos + ")"
		var out []sres
		if feasible {
			out = append(out, sres{true, ok})
		}
		if oi.mayFail {
			bad := st.clone()
			bad.hist = append(bad.hist, fmt.Sprintf("%s@(%s,%s):fail", name, st.pos, st.tok))
			out = append(out, sres{false, bad})
		}
		return out
	}
	ks := m.kids(n)
	term := func(accept func(rune) bool, mk func(yes string) string) []sres {
		yes, no := split(e.u, st.know, st.pos, accept)
		var out []sres
		if yes != "" {
			c := st.clone()
			c.know[st.pos] = yes
			c.pos = mk(yes)
			out = append(out, sres{true, c})
		}
		if no != "" {
			c := st.clone()
			c.know[st.pos] = no
			out = append(out, sres{false, c})
		}
		return out
	}
	switch m.typeOf(n) {
	case "TypeSequence":
		cur := []sres{{true, st}}
		for _, k := range ks {
			var next []sres
			for _, r := range cur {
				if !r.ok {
					next = append(next, r)
					continue
				}
				next = append(next, e.eval(k, r.st)...)
			}
			cur = next
		}
		return cur
	case "TypeAlternate":
		var out []sres
		pending := []sstate{st}
		for _, k := range ks {
			var nextPending []sstate
			for _, p := range pending {
				p2 := p.clone()
				p2.pos, p2.tok = st.pos, st.tok
				for _, r := range e.eval(k, p2) {
					if r.ok {
						out = append(out, r)
					} else {
						nextPending = append(nextPending, r.st)
					}
				}
			}
			pending = nextPending
		}
		for _, p := range pending {
			out = append(out, sres{false, p})
		}
		return out
	case "TypeQuery":
		var out []sres
		for _, r := range e.eval(ks[0], st) {
			if r.ok {
				out = append(out, r)
			} else {
				c := r.st.clone()
				c.pos, c.tok = st.pos, st.tok
				out = append(out, sres{true, c})
			}
		}
		return out
	case "TypeStar":
		return e.star(ks[0], st)
	case "TypePlus":
		var out []sres
		for _, r := range e.eval(ks[0], st) {
			if !r.ok {
				out = append(out, r)
				continue
			}
			out = append(out, e.star(ks[0], r.st)...)
		}
		return out
	case "TypePeekFor":
		var out []sres
		for _, r := range e.eval(ks[0], st) {
			c := r.st.clone()
			c.pos, c.tok = st.pos, st.tok
			out = append(out, sres{r.ok, c})
		}
		return out
	case "TypePeekNot":
		var out []sres
		for _, r := range e.eval(ks[0], st) {
			c := r.st.clone()
			c.pos, c.tok = st.pos, st.tok
			out = append(out, sres{!r.ok, c})
		}
		return out
	case "TypePush", "TypeImplicitPush":
		if len(ks) != 2 {
			e.und = append(e.und, "capture node without its rule copy in the model")
			return nil
		}
		rule := "rule" + m.strOf(ks[1])
		if m.typeOf(ks[0]) == "TypeAction" {
			c := st.clone()
			if e.ast {
				c.tok = st.tok + "·" + fmt.Sprintf("tok(%s,%s→%s)", rule, st.pos, st.pos)
			} else {
				c.hist = append(c.hist, fmt.Sprintf("%s@%s", strings.TrimSuffix(m.strOf(ks[0]), "()"), st.pos))
			}
			return []sres{{true, c}}
		}
		var out []sres
		for _, r := range e.eval(ks[0], st) {
			if !r.ok {
				out = append(out, r)
				continue
			}
			c := r.st.clone()
			if m.typeOf(n) == "TypePush" && !e.ast {
				c.hist = append(c.hist, fmt.Sprintf("text=buffer[%s:%s]", st.pos, c.pos))
			} else {
				c.tok = c.tok + "·" + fmt.Sprintf("tok(%s,%s→%s)", rule, st.pos, c.pos)
			}
			out = append(out, sres{true, c})
		}
		return out
	case "TypeCharacter":
		rs := []rune(m.strOf(n))
		return term(func(r rune) bool { return r == rs[0] }, func(yes string) string { return "A(" + st.pos + ")" })
	case "TypeRange":
		lo, hi := []rune(m.strOf(ks[0]))[0], []rune(m.strOf(ks[1]))[0]
		return term(func(r rune) bool { return r >= lo && r <= hi && r != uEnd }, func(yes string) string { return "A(" + st.pos + ")" })
	case "TypeDot":
		return term(func(r rune) bool { return r != uEnd }, func(yes string) string { return "A(" + st.pos + ")" })
	case "TypeString":
		s := m.strOf(n)
		rs := []rune(s)
		lit := strconv.Quote(s)
		out := term(func(r rune) bool { return r == rs[0] }, func(string) string { return "Str[" + lit + "](" + st.pos + ")" })
		if len(rs) > 1 {
			yes, _ := split(e.u, st.know, st.pos, func(r rune) bool { return r == rs[0] })
			if yes != "" {
				c := st.clone()
				c.know[st.pos] = yes
				out = append(out, sres{false, c})
			}
		}
		return out
	case "TypePredicate":
		// the event is named by the stub the text calls, whatever layout and comments surround it
		name := strings.TrimSuffix(m.strOf(n), "()")
		if id := rePredStub.FindString(name); id != "" {
			name = id
		}
		y, no := st.clone(), st.clone()
		y.hist = append(y.hist, fmt.Sprintf("%s@%s:true", name, st.pos))
		no.hist = append(no.hist, fmt.Sprintf("%s@%s:false", name, st.pos))
		return []sres{{true, y}, {false, no}}
	case "TypeStateChange":
		c := st.clone()
		c.hist = append(c.hist, fmt.Sprintf("%s@%s", strings.TrimSuffix(m.strOf(n), "()"), st.pos))
		return []sres{{true, c}}
	case "TypeNil", "TypeComment", "TypeCommit", "TypeAction":
		return []sres{{true, st}}
	case "TypeName":
		name := m.strOf(n)
		rule, _ := m.tree.field("Rules").v.(*MapV).m[name].(*Obj)
		if rule == nil {
			e.und = append(e.und, "model references undefined rule "+name)
			return nil
		}
		cnt, _ := m.tree.field("rulesCount").v.(*MapV).m[name].(int64)
		if m.opts.Inline && cnt == 1 {
			return e.eval(m.kids(rule)[0], st)
		}
		ok := st.clone()
		feasible := true
		if fs := m.ruleFirst(name); fs != nil {
			yes, _ := split(e.u, ok.know, ok.pos, func(r rune) bool { return fs.has(r) })
			if yes == "" {
				feasible = false
			} else {
				ok.know[ok.pos] = yes
			}
		}
		ok.hist = append(ok.hist, fmt.Sprintf("rule%s@(%s,%s):ok", name, st.pos, st.tok))
		ok.tok = st.tok + "·R" + name + "@" + st.pos
		ok.pos = "R" + name + "(" + st.pos + ")"
		var out []sres
		if feasible {
			out = append(out, sres{true, ok})
		}
		if m.canFail(rule, map[*Obj]bool{}) {
			bad := st.clone()
			bad.hist = append(bad.hist, fmt.Sprintf("rule%s@(%s,%s):fail", name, st.pos, st.tok))
			out = append(out, sres{false, bad})
		}
		return out
	case "TypeUnorderedAlternate":
		// committed choice on buffer[position]: case i if it is in class i, else the default
		var out []sres
		cur := st
		for i, el := range ks {
			seq := m.kids(el)
			if len(seq) != 2 {
				e.und = append(e.und, "switch element is not Sequence{PeekFor{class}, expr}")
				return nil
			}
			if i == len(ks)-1 {
				out = append(out, e.eval(seq[1], cur)...)
				break
			}
			class := m.kids(m.kids(seq[0])[0])
			in := map[rune]bool{}
			for _, ch := range class {
				if m.typeOf(ch) == "TypeCharacter" {
					in[[]rune(m.strOf(ch))[0]] = true
				}
			}
			yes, no := split(e.u, cur.know, cur.pos, func(r rune) bool { return in[r] })
			if yes != "" {
				c := cur.clone()
				c.know[cur.pos] = yes
				out = append(out, e.eval(seq[1], c)...)
			}
			if no == "" {
				break
			}
			c := cur.clone()
			c.know[cur.pos] = no
			cur = c
		}
		return out
	}
	e.und = append(e.und, "oracle has no semantics for "+m.typeOf(n))
	return nil
}

func (e *specEval) star(k *Obj, st sstate) []sres {
	s := st.clone()
	s.nloop++
	tag := fmt.Sprintf("%d", s.nloop)
	s.hist = append(s.hist, fmt.Sprintf("loop(%s)from(%s,%s)", tag, st.pos, st.tok))
	var out []sres
	for _, r := range e.eval(k, s) {
		if !r.ok {
			// zero iterations: the repetition ends where it started
			c := r.st.clone()
			c.pos, c.tok = st.pos, st.tok
			out = append(out, sres{true, c})
			continue
		}
		// at least one iteration: the invariant state
		s2 := r.st.clone()
		s2.hist = append(s2.hist, fmt.Sprintf("loop(%s)+", tag))
		s2.pos, s2.tok = "I"+tag+"("+st.pos+")", "J"+tag+"("+st.tok+")"
		for _, r2 := range e.eval(k, s2) {
			if r2.ok {
				continue // another iteration: covered by the invariant
			}
			c := r2.st.clone()
			c.pos, c.tok = s2.pos, s2.tok
			out = append(out, sres{true, c})
		}
	}
	return out
}

// ruleOutcomes: the admissible outcomes of the rule function for model rule r.
func (e *specEval) ruleOutcomes(rule *Obj) map[string]outcome {
	m := e.m
	out := map[string]outcome{}
	id := rule.field("id").v.(int64)
	st := sstate{pos: "E", tok: "K", know: map[string]string{}}
	add := func(kind string, s sstate) {
		o := outcome{Kind: kind, Pos: s.pos, Tok: s.tok, Hist: s.hist, Know: copyKnow(s.know)}
		out[normOutcome(o)+" given "+knowKey(o.Know)] = o
	}
	if e.ast {
		st.hist = append(st.hist, fmt.Sprintf("memo?(%d,E)", id))
		hit := st.clone()
		hit.hist = append(hit.hist, "memo-hit")
		add("memo", hit)
	}
	for _, r := range e.eval(m.kids(rule)[0], st) {
		c := r.st.clone()
		if r.ok {
			if e.ast {
				c.hist = append(c.hist, fmt.Sprintf("memoize(%d,E,K,true)at(%s,%s)", id, c.pos, c.tok))
			}
			add("true", c)
		} else {
			if e.ast {
				c.hist = append(c.hist, fmt.Sprintf("memoize(%d,E,K,false)", id))
			}
			c.pos, c.tok = "E", "K"
			add("false", c)
		}
	}
	return out
}

var (
	reLoop = regexp.MustCompile(`loop#\d+`)
	rePD   = regexp.MustCompile(`(c\d+)_pdm?`)
)

// normOutcome renders an outcome in the canonical form used for comparison.
func normOutcome(o outcome) string {
	h := strings.Join(o.Hist, " ; ")
	s := fmt.Sprintf("return %s | position=%s | tokens=%s | events=[%s]", o.Kind, o.Pos, o.Tok, h)
	s = reLoop.ReplaceAllString(s, "loop")
	s = rePD.ReplaceAllString(s, "$1")
	return s
}
