package main

// Evaluating the front half of the generator (builder API and link) on small
// inputs with the E1 interpreter: used for R-action-id (C04) and R-link-shape
// (the assumption the model builder in e1.go rests on).

import (
	"fmt"
	"go/ast"
	"go/types"
	"strings"
)

type frontModel struct {
	it   *Interp
	tree *Obj
	m    *model // reuse helpers (method lookup)
}

func newFrontModel(r *Repo) *frontModel {
	it := newInterp(r)
	m := newModel(it, modelOpts{Ast: true})
	// a pristine tree as tree.New builds it
	t := it.newTree(modelOpts{Ast: true})
	m.tree = t
	return &frontModel{it: it, tree: t, m: m}
}

func (fm *frontModel) call(name string, args ...Value) []Value {
	return fm.it.invoke(nil, fm.m.method(name, fm.tree), args)
}

// linkAll runs Compile's second pass (link every rule) the way Compile does.
func (fm *frontModel) firstPassAndLink() {
	it, m := fm.it, fm.m
	last := it.typeConst("TypeLast")
	zeroArr := func() *SliceV {
		s := &SliceV{}
		for i := int64(0); i < last; i++ {
			s.elems = append(s.elems, int64(0))
		}
		return s
	}
	// first pass: wrap each rule's expression in an ImplicitPush (mirrors Compile; checked against it by R-link-shape)
	rules := []*Obj{}
	for _, n := range m.kids(fm.tree.field("node").v.(*Obj)) {
		if m.typeOf(n) == "TypeRule" {
			rules = append(rules, n)
		}
	}
	_ = rules
	counts := zeroArr()
	cbr := &Cell{&SliceV{elems: []Value{}}}
	for _, n := range rules {
		cfr := zeroArr()
		it.invoke(nil, m.method("link", fm.tree), []Value{cfr, n, counts, &Ptr{cbr}, n})
	}
}

func (m *model) dump(n *Obj, depth int, seen map[*Obj]bool) string {
	if n == nil {
		return "<nil>"
	}
	if seen[n] {
		return fmt.Sprintf("%s(%q)↑", strings.TrimPrefix(m.typeOf(n), "Type"), m.strOf(n))
	}
	seen[n] = true
	defer func() { seen[n] = false }()
	s := fmt.Sprintf("%s(%q,id=%v)", strings.TrimPrefix(m.typeOf(n), "Type"), m.strOf(n), n.field("id").v)
	ks := m.kids(n)
	if len(ks) > 0 && depth < 8 {
		var parts []string
		for _, k := range ks {
			parts = append(parts, m.dump(k, depth+1, seen))
		}
		s += "[" + strings.Join(parts, " ") + "]"
	}
	return s
}

// actionIDs: R-action-id.
func actionIDs(c *Check, r *Repo) {
	defer func() {
		if p := recover(); p != nil {
			if u, ok := p.(undecided); ok {
				c.Und("R-action-id", "Tree.link/case TypeAction", "", u.msg)
				return
			}
			panic(p)
		}
	}()
	fm := newFrontModel(r)
	m := fm.m
	// S <- {a0} 'x' {a1} ; T <- {a2}
	fm.call("AddRule", "S")
	fm.call("AddAction", "a0")
	fm.call("AddCharacter", "x")
	fm.call("AddSequence")
	fm.call("AddAction", "a1")
	fm.call("AddSequence")
	fm.call("AddExpression")
	fm.call("AddRule", "T")
	fm.call("AddAction", "a2")
	fm.call("AddExpression")
	// the passes of Compile as they are written (first pass, linking, the analyses, emission): the tree is read afterwards
	rg := findRegion(r)
	if len(rg.problems) > 0 {
		panic(undecided{strings.Join(rg.problems, "; ")})
	}
	if em := fm.m.runFull(rg); em.Err != "" {
		panic(undecided{em.Err})
	}
	acts, _ := fm.tree.field("Actions").v.(*SliceV)
	var bad []string
	if acts == nil || len(acts.elems) != 3 {
		bad = append(bad, fmt.Sprintf("%d actions collected for 3 action occurrences", lenOf(acts)))
	} else {
		for i, a := range acts.elems {
			o := a.(*Obj)
			code := m.strOf(o)
			id := o.field("id").v.(int64)
			if id != int64(i) {
				bad = append(bad, fmt.Sprintf("the %d-th action in textual order (%q) carries id %d in t.Actions", i, code, id))
			}
			if code != fmt.Sprintf("a%d", i) {
				bad = append(bad, fmt.Sprintf("t.Actions[%d] holds code %q", i, code))
			}
			// the rule ActionN must contain this very copy
			rule, _ := fm.tree.field("Rules").v.(*MapV).m[fmt.Sprintf("Action%d", id)].(*Obj)
			if rule == nil {
				bad = append(bad, fmt.Sprintf("no rule Action%d was created for action %q", id, code))
				continue
			}
			ip := m.kids(rule)
			if len(ip) != 1 || m.typeOf(ip[0]) != "TypeImplicitPush" || len(m.kids(ip[0])) != 2 || m.kids(ip[0])[0] != o {
				bad = append(bad, fmt.Sprintf("rule Action%d is not Rule{ImplicitPush{that action's copy, rule copy}}: %s", id, m.dump(rule, 0, map[*Obj]bool{})))
			} else if m.strOf(m.kids(ip[0])[1]) != fmt.Sprintf("Action%d", id) {
				bad = append(bad, fmt.Sprintf("the token rule of Action%d is named %q", id, m.strOf(m.kids(ip[0])[1])))
			}
		}
	}
	// the occurrence in the grammar became a Name referring to the same rule, in textual order
	var names []string
	var walk func(n *Obj)
	walk = func(n *Obj) {
		if m.typeOf(n) == "TypeName" {
			names = append(names, m.strOf(n))
		}
		for _, k := range m.kids(n) {
			if m.typeOf(k) != "TypeRule" {
				walk(k)
			}
		}
	}
	for _, n := range m.kids(fm.tree.field("node").v.(*Obj)) {
		if m.typeOf(n) == "TypeRule" && !strings.HasPrefix(m.strOf(n), "Action") {
			walk(n)
		}
	}
	if strings.Join(names, ",") != "Action0,Action1,Action2" {
		bad = append(bad, "action occurrences were rewritten to references "+strings.Join(names, ",")+" (expected Action0,Action1,Action2 in textual order)")
	}
	pos := ""
	if fd := findLinkDecl(fm.it); fd != nil {
		pos = r.pos(fd.Pos())
	}
	c.Decide(len(bad) == 0, "R-action-id", "Tree.link/case TypeAction numbers actions consistently", pos,
		"evaluating link on S <- {a0} 'x' {a1}; T <- {a2}: occurrence i became Name ActionI, rule ActionI is Rule{ImplicitPush{copy with id I and code aI, rule copy ActionI}}, and t.Actions[I] is that copy",
		strings.Join(bad, "; "))
	_ = types.Typ
}

// operands: the operand stack of the builder, top first — the front of the
// tree's own list, or a field of the tree that is a slice of nodes when the
// builder keeps its operands apart from the finished items.
func (fm *frontModel) operands() []*Obj {
	for i := 0; i < fm.tree.st.NumFields(); i++ {
		ft := fm.tree.st.Field(i).Type()
		sl, ok := ft.Underlying().(*types.Slice)
		if !ok {
			continue
		}
		pt, ok := sl.Elem().(*types.Pointer)
		if !ok {
			continue
		}
		if n, ok := pt.Elem().(*types.Named); !ok || n.Obj().Name() != "node" {
			continue
		}
		name := fm.tree.st.Field(i).Name()
		if name == "Actions" || name == "RuleNames" {
			continue // lists the second pass fills, not the builder's operands
		}
		var out []*Obj
		if s, ok := fm.tree.fields[i].v.(*SliceV); ok && s != nil {
			for k := len(s.elems) - 1; k >= 0; k-- {
				if o, ok := s.elems[k].(*Obj); ok && o != nil {
					out = append(out, o)
				}
			}
		}
		return out
	}
	return fm.m.kids(fm.tree.field("node").v.(*Obj))
}

// separateOperands: does the builder keep its operands in a field of their own?
func (fm *frontModel) separateOperands() bool {
	for i := 0; i < fm.tree.st.NumFields(); i++ {
		if sl, ok := fm.tree.st.Field(i).Type().Underlying().(*types.Slice); ok {
			if pt, ok := sl.Elem().(*types.Pointer); ok {
				if n, ok := pt.Elem().(*types.Named); ok && n.Obj().Name() == "node" {
					if name := fm.tree.st.Field(i).Name(); name != "Actions" && name != "RuleNames" {
						return true
					}
				}
			}
		}
	}
	return false
}

// findLinkDecl: the function of the second pass by its role — it switches on a
// node's type and, in the case of an action, appends to the tree's Actions.
func findLinkDecl(it *Interp) *ast.FuncDecl {
	var found *ast.FuncDecl
	for _, fd := range it.decls {
		if fd.Body == nil || found != nil {
			continue
		}
		ast.Inspect(fd.Body, func(n ast.Node) bool {
			cc, ok := n.(*ast.CaseClause)
			if !ok {
				return true
			}
			isAction := false
			for _, e := range cc.List {
				if id, ok := e.(*ast.Ident); ok && id.Name == "TypeAction" {
					isAction = true
				}
			}
			if !isAction {
				return true
			}
			for _, st := range cc.Body {
				ast.Inspect(st, func(k ast.Node) bool {
					if as, ok := k.(*ast.AssignStmt); ok && len(as.Lhs) == 1 {
						if se, ok := as.Lhs[0].(*ast.SelectorExpr); ok && se.Sel.Name == "Actions" {
							found = fd
						}
					}
					return true
				})
			}
			return true
		})
	}
	return found
}
