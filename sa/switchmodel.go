package main

// Evaluating the -switch rewrite (optimizeAlternates) of (*Tree).Compile on
// model trees: FIRST sets are a mathematical model (setmodel.go); opaque
// children answer with their declared (consumes, FIRST).

import (
	"go/ast"
	"go/types"
	"slices"
	"strings"
)

type switchBlock struct {
	stmt     *ast.IfStmt
	optLit   ast.Node // the first-set function: a closure of the block, or a function/method of the package
	problems []string
}

func findSwitchBlock(r *Repo) *switchBlock {
	fd, p := r.funcDecl("tree", "Tree.Compile")
	sb := &switchBlock{}
	if fd == nil {
		sb.problems = append(sb.problems, "Compile not found")
		return sb
	}
	for _, st := range fd.Body.List {
		is, ok := st.(*ast.IfStmt)
		if !ok {
			continue
		}
		if se, ok := is.Cond.(*ast.SelectorExpr); ok && se.Sel.Name == "_switch" {
			sb.stmt = is
		}
	}
	if sb.stmt == nil {
		sb.problems = append(sb.problems, "the `if t._switch` block was not found in Compile")
		return sb
	}
	isFirstSetSig := func(sig *types.Signature) bool {
		return sig != nil && sig.Params().Len() == 1 && sig.Results().Len() == 2 &&
			strings.HasSuffix(sig.Params().At(0).Type().String(), "node") &&
			types.TypeString(sig.Results().At(0).Type(), nil) == "bool" &&
			strings.HasSuffix(sig.Results().At(1).Type().String(), "set.Set")
	}
	ast.Inspect(sb.stmt.Body, func(n ast.Node) bool {
		if fl, ok := n.(*ast.FuncLit); ok && sb.optLit == nil {
			if sig, ok := p.TypesInfo.Types[fl].Type.(*types.Signature); ok && isFirstSetSig(sig) {
				sb.optLit = fl
			}
		}
		return true
	})
	if sb.optLit == nil {
		// the computation may live in functions or methods of the package: the one with the
		// first-set signature that is entered from outside the family (the others are its cases)
		cands := map[types.Object]*ast.FuncDecl{}
		for _, f := range p.Syntax {
			for _, d := range f.Decls {
				if md, ok := d.(*ast.FuncDecl); ok && md.Body != nil {
					if o, ok := p.TypesInfo.Defs[md.Name].(*types.Func); ok && isFirstSetSig(o.Type().(*types.Signature)) {
						cands[o] = md
					}
				}
			}
		}
		var entries []*ast.FuncDecl
		for _, f := range p.Syntax {
			for _, d := range f.Decls {
				md, ok := d.(*ast.FuncDecl)
				if !ok || md.Body == nil {
					continue
				}
				if o := p.TypesInfo.Defs[md.Name]; o != nil && cands[o] != nil {
					continue // a member of the family
				}
				ast.Inspect(md.Body, func(n ast.Node) bool {
					var id *ast.Ident
					switch x := n.(type) {
					case *ast.SelectorExpr:
						id = x.Sel
					case *ast.Ident:
						id = x
					}
					if id != nil {
						if c := cands[p.TypesInfo.Uses[id]]; c != nil && !slices.Contains(entries, c) {
							entries = append(entries, c)
						}
					}
					return true
				})
			}
		}
		if len(entries) == 1 {
			sb.optLit = entries[0]
		} else if len(cands) == 1 {
			for _, c := range cands {
				sb.optLit = c
			}
		}
	}
	if sb.optLit == nil {
		sb.problems = append(sb.problems, "the FIRST-set closure func(*node) (bool, *set.Set) was not found")
	}
	return sb
}

// applySwitch runs the body of the -switch block on the model's tree.
// observe, if set, is called with (node, consumes, set) at every return of the closure.
func (m *model) applySwitch(r *Repo, sb *switchBlock, observe func(n *Obj, consumes bool, s *NSet)) (err string) {
	it := m.it
	defer func() {
		if p := recover(); p != nil {
			if u, ok := p.(undecided); ok {
				err = u.msg
				return
			}
			panic(p)
		}
	}()
	fd, _ := r.funcDecl("tree", "Tree.Compile")
	env := newEnv(nil)
	env.define(it.info.Defs[fd.Recv.List[0].Names[0]], m.tree)
	it.hooks = map[ast.Node]func(*Interp, *Closure, []Value) ([]Value, bool){}
	it.hooks[sb.optLit] = func(it *Interp, cl *Closure, args []Value) ([]Value, bool) {
		n, _ := args[0].(*Obj)
		if oi := m.oinfo(n); oi != nil {
			fs := &NSet{}
			if oi.first != nil {
				fs = oi.first.copy()
			}
			return []Value{oi.consumes, fs}, true
		}
		return nil, false
	}
	if observe != nil {
		it.onRet = func(cl *Closure, args []Value, res []Value) {
			if cl.lit == ast.Node(sb.optLit) && len(res) == 2 {
				n, _ := args[0].(*Obj)
				c, _ := res[0].(bool)
				s, _ := res[1].(*NSet)
				if n != nil && s != nil {
					observe(n, c, s)
				}
			}
		}
		defer func() { it.onRet = nil }()
	}
	it.steps = -50_000_000 // the class construction loops are long
	it.execBlock(sb.stmt.Body.List, env)
	it.steps = 0
	return ""
}
