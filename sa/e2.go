package main

// E2 — operator-template typestate (DESIGN §2 E2). The text E1 extracted for a
// model is spliced behind the matching E3 instantiation, type-checked, and the
// rule function under test is analysed on go/cfg with a disjunctive abstract
// state (symbolic position, token trace, snapshots, knowledge about
// buffer[position], event history). Children are contracts, not code.

import (
	"fmt"
	"go/ast"
	"go/constant"
	"go/token"
	"go/types"
	"sort"
	"strconv"
	"strings"

	"golang.org/x/tools/go/cfg"
)

// ---------------------------------------------------------------------------
// assembling and type-checking the generated file

type genFile struct {
	in     *inst
	rules  []*ast.FuncLit // index = position in the _rules literal (0 is nil)
	objs   map[string]types.Object
	stubs  string
	tmplLn int
}

func childStubs(text string) string {
	seen := map[string]bool{}
	var sb strings.Builder
	for _, pre := range []string{"__c", "__act", "__pred", "__st"} {
		rest := text
		for {
			i := strings.Index(rest, pre)
			if i < 0 {
				break
			}
			j := i + len(pre)
			for j < len(rest) && (rest[j] == '_' || (rest[j] >= '0' && rest[j] <= '9') || (rest[j] >= 'a' && rest[j] <= 'z')) {
				j++
			}
			name := rest[i:j]
			rest = rest[j:]
			if seen[name] || name == pre {
				continue
			}
			seen[name] = true
			if pre == "__c" || pre == "__pred" {
				fmt.Fprintf(&sb, "\nfunc %s(...any) bool { return false }", name)
			} else {
				fmt.Fprintf(&sb, "\nfunc %s(...any) {}", name)
			}
		}
	}
	return sb.String() + "\n"
}

func assemble(r *Repo, ti *tmplInfo, m *model, em *emission, name string) (*genFile, []string) {
	cfgT, err := m.tmplConfigFromTree(em.Tmpl, ti.BoolVars)
	if err != nil {
		return nil, []string{err.Error()}
	}
	head, lm, err := ti.instantiate(cfgT)
	if err != nil {
		return nil, []string{"template: " + err.Error()}
	}
	vocab := ti.vocabFor(cfgT)
	emText := applyVocab(em.Text, vocab)
	src := applyVocab(em.Head, vocab) + head + emText + childStubs(emText)
	in := buildInstTypesOnly(r, name, src)
	in.Cfg = cfgT
	in.LineMap = lm
	in.ti = ti
	gf := &genFile{in: in, objs: map[string]types.Object{}}
	if len(in.Errs) > 0 {
		return gf, in.Errs
	}
	// locate Init and the _rules literal
	fd := in.funcDeclAST(cfgT.Struct, "Init")
	if fd == nil {
		return gf, []string{"Init not found in the generated file"}
	}
	ast.Inspect(fd.Body, func(n ast.Node) bool {
		switch x := n.(type) {
		case *ast.ValueSpec:
			for _, id := range x.Names {
				gf.objs[id.Name] = in.Info.Defs[id]
			}
		case *ast.AssignStmt:
			if x.Tok == token.DEFINE {
				for _, l := range x.Lhs {
					if id, ok := l.(*ast.Ident); ok {
						if _, seen := gf.objs[id.Name]; !seen {
							gf.objs[id.Name] = in.Info.Defs[id]
						}
					}
				}
			} else if len(x.Lhs) == 1 && len(x.Rhs) == 1 {
				// the table filled entry by entry: _rules[rule<Name>] = func() bool { … }
				if ix, ok := x.Lhs[0].(*ast.IndexExpr); ok {
					if id, ok := ix.X.(*ast.Ident); ok && id.Name == "_rules" {
						if fl, ok := x.Rhs[0].(*ast.FuncLit); ok {
							if tv, ok := in.Info.Types[ix.Index]; ok && tv.Value != nil {
								if k, ok := constant.Int64Val(constant.ToInt(tv.Value)); ok && k >= 0 && k < 1<<20 {
									for int64(len(gf.rules)) <= k {
										gf.rules = append(gf.rules, nil)
									}
									gf.rules[k] = fl
								}
							}
						}
					}
				}
				if id, ok := x.Lhs[0].(*ast.Ident); ok && id.Name == "_rules" {
					if cl, ok := x.Rhs[0].(*ast.CompositeLit); ok {
						for _, e := range cl.Elts {
							fl, _ := e.(*ast.FuncLit)
							gf.rules = append(gf.rules, fl)
						}
					}
				}
			}
			return false
		case *ast.FuncLit:
			return false
		}
		return true
	})
	// a table filled entry by entry has no placeholders for rules without a function
	for len(gf.rules) > 0 && len(gf.rules) < len(cfgT.RuleNames)+1 {
		gf.rules = append(gf.rules, nil)
	}
	return gf, nil
}

// buildInstTypesOnly: parse + type-check (no SSA).
func buildInstTypesOnly(r *Repo, name, src string) *inst {
	in := &inst{Name: name, Src: src, Fset: token.NewFileSet()}
	f, err := parserParse(in.Fset, name+".go", src)
	if err != nil {
		in.Errs = append(in.Errs, "parse: "+err.Error())
		return in
	}
	in.File = f
	in.Info = &types.Info{Types: map[ast.Expr]types.TypeAndValue{}, Defs: map[*ast.Ident]types.Object{}, Uses: map[*ast.Ident]types.Object{},
		Selections: map[*ast.SelectorExpr]*types.Selection{}, Scopes: map[ast.Node]*types.Scope{}, Instances: map[*ast.Ident]types.Instance{}}
	tc := &types.Config{Importer: mapImporter(r.Std), Error: func(err error) { in.Errs = append(in.Errs, err.Error()) }}
	pkg, _ := tc.Check("p", in.Fset, []*ast.File{f}, in.Info)
	in.Pkg = pkg
	return in
}

// ---------------------------------------------------------------------------
// abstract domain

type event struct {
	Kind string // child, rule, tok, action, text, memo?, memoize, loop, pred
	S    string // rendered
}

type astate struct {
	pos, tok string
	snap     map[string]string
	know     map[string]string // position term -> comma-joined sorted set of possible runes
	cbind    map[string]string // local rune variable -> position term it was read at
	hist     []string
	flags    []string // violations noticed on this path (unguarded advance, …)
	nloop    int
	tag      string // position term at which the enclosing switch read buffer[position]
	// pend: a boolean variable defined from an expression in the header of the if that tests it
	// (if ok := <predicate>; !ok {…}): the expression is evaluated when the variable is tested
	pend map[string]ast.Expr
}

func (s *astate) clone() *astate {
	c := &astate{pos: s.pos, tok: s.tok, snap: map[string]string{}, know: map[string]string{}, cbind: map[string]string{}, nloop: s.nloop, tag: s.tag}
	for k, v := range s.snap {
		c.snap[k] = v
	}
	for k, v := range s.know {
		c.know[k] = v
	}
	for k, v := range s.cbind {
		c.cbind[k] = v
	}
	c.hist = append([]string{}, s.hist...)
	c.flags = append([]string{}, s.flags...)
	if len(s.pend) > 0 {
		c.pend = map[string]ast.Expr{}
		for k, v := range s.pend {
			c.pend[k] = v
		}
	}
	return c
}

func (s *astate) key() string {
	var sb strings.Builder
	sb.WriteString(s.pos + "|" + s.tok + "|" + s.tag + "|")
	var ks []string
	for k, v := range s.snap {
		ks = append(ks, k+"="+v)
	}
	sort.Strings(ks)
	sb.WriteString(strings.Join(ks, ",") + "|")
	ks = ks[:0]
	for k, v := range s.know {
		ks = append(ks, k+":"+v)
	}
	sort.Strings(ks)
	sb.WriteString(strings.Join(ks, ",") + "|")
	ks = ks[:0]
	for k, v := range s.cbind {
		ks = append(ks, k+"@"+v)
	}
	sort.Strings(ks)
	sb.WriteString(strings.Join(ks, ",") + "|" + strings.Join(s.hist, ";") + "|" + strings.Join(s.flags, ";"))
	return sb.String()
}

// rune universe of a model: every rune literal that occurs, plus OTHER and END.
type universe struct {
	runes []rune // sorted, includes representatives
}

const (
	uOther = rune(0xE000)
	uEnd   = rune(0x110000)
)

func (u *universe) all() []rune { return u.runes }

func setStr(rs []rune) string {
	sort.Slice(rs, func(i, j int) bool { return rs[i] < rs[j] })
	var ss []string
	for _, r := range rs {
		switch r {
		case uOther:
			ss = append(ss, "OTHER")
		case uEnd:
			ss = append(ss, "END")
		case ',':
			ss = append(ss, "COMMA")
		default:
			ss = append(ss, string(r))
		}
	}
	return strings.Join(ss, ",")
}

func parseSet(s string) []rune {
	if s == "" {
		return nil
	}
	var out []rune
	for _, p := range strings.Split(s, ",") {
		switch p {
		case "OTHER":
			out = append(out, uOther)
		case "END":
			out = append(out, uEnd)
		case "COMMA":
			out = append(out, ',')
		default:
			out = append(out, []rune(p)[0])
		}
	}
	return out
}

// split partitions the knowledge at position p by an accept predicate.
func split(u *universe, know map[string]string, p string, accept func(rune) bool) (yes, no string) {
	var cur []rune
	if k, ok := know[p]; ok {
		cur = parseSet(k)
	} else {
		cur = u.all()
	}
	var y, n []rune
	for _, r := range cur {
		if accept(r) {
			y = append(y, r)
		} else {
			n = append(n, r)
		}
	}
	return setStr(y), setStr(n)
}

// outcome of a rule function
type outcome struct {
	Kind     string // true, false, memo
	Pos, Tok string
	Hist     []string
	Flags    []string
	Know     map[string]string // position term -> the runes the input can have there on this path
}

func knowKey(k map[string]string) string {
	if len(k) == 0 {
		return ""
	}
	ps := make([]string, 0, len(k))
	for p := range k {
		ps = append(ps, p)
	}
	sort.Strings(ps)
	var sb strings.Builder
	for _, p := range ps {
		sb.WriteString(p + "∈{" + k[p] + "};")
	}
	return sb.String()
}

func copyKnow(k map[string]string) map[string]string {
	c := make(map[string]string, len(k))
	for p, v := range k {
		c[p] = v
	}
	return c
}

func (o outcome) String() string {
	s := fmt.Sprintf("return %s  position=%s  tokens=%s  events=[%s]", o.Kind, o.Pos, o.Tok, strings.Join(o.Hist, " ; "))
	if len(o.Flags) > 0 {
		s += "  FLAGS=[" + strings.Join(o.Flags, "; ") + "]"
	}
	return s
}

// ---------------------------------------------------------------------------
// the analysis

type flow struct {
	gf   *genFile
	u    *universe
	info *types.Info
	und  []string // constructs not understood
	outs map[string]outcome
	pos  func(token.Pos) string
	// ruleCanFail: sound "may fail" of a callee, from the model (nil = every call may fail)
	ruleCanFail func(name string) bool
	// ruleFirst: FIRST set of a callee that must consume (nil = no knowledge)
	ruleFirst func(name string) *NSet
	// nilRule: does the rule table hold nil for this rule?
	nilRule func(name string) bool
	// childFirst: declared FIRST set of an opaque child (nil = unknown)
	childFirst func(name string) *NSet
}

// childFeasible refines the knowledge at the current position by an opaque
// child's declared FIRST set; false = the child cannot succeed here.
func (f *flow) childFeasible(c *astate, name string) bool {
	if f.childFirst == nil {
		return true
	}
	fs := f.childFirst(name)
	if fs == nil {
		return true
	}
	yes, _ := split(f.u, c.know, c.pos, func(r rune) bool { return fs.has(r) })
	if yes == "" {
		return false
	}
	c.know[c.pos] = yes
	return true
}

func (f *flow) isObj(e ast.Expr, name string) bool {
	id, ok := ast.Unparen(e).(*ast.Ident)
	if !ok {
		return false
	}
	o := f.info.Uses[id]
	if o == nil {
		o = f.info.Defs[id]
	}
	return o != nil && o == f.gf.objs[name]
}

func (f *flow) localName(e ast.Expr) (string, bool) {
	id, ok := ast.Unparen(e).(*ast.Ident)
	if !ok {
		return "", false
	}
	return id.Name, true
}

func runeLit(info *types.Info, e ast.Expr) (rune, bool) {
	tv, ok := info.Types[e]
	if !ok || tv.Value == nil {
		return 0, false
	}
	v, ok := constValue(tv)
	if !ok {
		return 0, false
	}
	i, ok := v.(int64)
	return rune(i), ok
}

// isBufAtPos: buffer[position]
func (f *flow) isBufAtPos(e ast.Expr) bool {
	ix, ok := ast.Unparen(e).(*ast.IndexExpr)
	return ok && f.isObj(ix.X, "buffer") && f.isObj(ix.Index, "position")
}

// callName: f() where f is an identifier -> name, resolved object
func (f *flow) callOf(e ast.Expr) (name string, obj types.Object, args []ast.Expr, ok bool) {
	ce, isCall := ast.Unparen(e).(*ast.CallExpr)
	if !isCall {
		return
	}
	switch fn := ce.Fun.(type) {
	case *ast.Ident:
		o := f.info.Uses[fn]
		return fn.Name, o, ce.Args, true
	case *ast.IndexExpr:
		// _rules[ruleX]()
		if f.isObj(fn.X, "_rules") {
			if id, ok := fn.Index.(*ast.Ident); ok {
				return "_rules:" + strings.TrimPrefix(id.Name, "rule"), nil, ce.Args, true
			}
		}
	}
	return
}

func (f *flow) analyse(fl *ast.FuncLit) {
	g := cfg.New(fl.Body, func(*ast.CallExpr) bool { return true })
	f.outs = map[string]outcome{}
	// loop heads: targets of back edges (DFS)
	color := map[*cfg.Block]int{}
	heads := map[*cfg.Block]bool{}
	type edge struct{ from, to *cfg.Block }
	backEdge := map[edge]bool{}
	var dfs func(b *cfg.Block)
	dfs = func(b *cfg.Block) {
		color[b] = 1
		for _, s := range b.Succs {
			if color[s] == 1 {
				heads[s] = true
				backEdge[edge{b, s}] = true
			} else if color[s] == 0 {
				dfs(s)
			}
		}
		color[b] = 2
	}
	if len(g.Blocks) == 0 {
		return
	}
	dfs(g.Blocks[0])
	type item struct {
		b    *cfg.Block
		s    *astate
		from *cfg.Block
	}
	init := &astate{pos: "E", tok: "K", snap: map[string]string{}, know: map[string]string{}, cbind: map[string]string{}}
	work := []item{{g.Blocks[0], init, nil}}
	seen := map[string]bool{}
	steps := 0
	type inv struct{ pos, tok string }
	invs := map[string]inv{} // loop id -> invariant
	for len(work) > 0 {
		steps++
		if steps > 20000 {
			f.und = append(f.und, "state explosion in operator template")
			return
		}
		it := work[len(work)-1]
		work = work[:len(work)-1]
		b, s := it.b, it.s
		if heads[b] {
			id := fmt.Sprintf("%d", b.Index)
			marker := "loop#" + id
			tag := histLoopTag(s.hist, marker)
			if !backEdge[edge{it.from, b}] {
				tag = "" // entered from outside: a new execution of this repetition
			}
			switch {
			case tag == "":
				// first arrival: zero iterations so far, the state is exact
				s = s.clone()
				s.nloop++
				tag = fmt.Sprintf("%d", s.nloop)
				s.hist = append(s.hist, fmt.Sprintf("%s(%s)from(%s,%s)", marker, tag, s.pos, s.tok))
				invs[marker+"/"+tag] = inv{"I" + tag + "(" + s.pos + ")", "J" + tag + "(" + s.tok + ")"}
			case !histHas(s.hist, marker+"("+tag+")+"):
				// first back edge: one iteration succeeded; from here on the state is the
				// invariant "entry advanced by one or more successful iterations"
				iv := invs[marker+"/"+tag]
				s = s.clone()
				s.hist = append(s.hist, marker+"("+tag+")+")
				s.pos, s.tok = iv.pos, iv.tok
			default:
				// later back edges must be the invariant advanced by one more iteration
				iv := invs[marker+"/"+tag]
				if !(strings.HasSuffix(strings.TrimRight(s.pos, ")"), "("+strings.TrimRight(iv.pos, ")")) && tokDerived(s.tok, iv.tok)) {
					o := outcome{Kind: "loop-back-edge", Pos: s.pos, Tok: s.tok, Hist: s.hist, Know: copyKnow(s.know), Flags: append(s.flags, "the state at the repetition's back edge is not 'invariant advanced by one successful iteration of the body' (position "+s.pos+", tokens "+s.tok+" vs invariant "+iv.pos+", "+iv.tok+")")}
					f.outs[o.String()] = o
				}
				continue
			}
		}
		k := fmt.Sprintf("%d|", b.Index) + s.key()
		if seen[k] {
			continue
		}
		seen[k] = true
		// execute nodes
		cur := []*astate{s}
		var condTrue, condFalse []*astate
		branched := false
		for ni, n := range b.Nodes {
			last := ni == len(b.Nodes)-1
			if last && len(b.Succs) == 2 {
				if e, ok := n.(ast.Expr); ok {
					branched = true
					for _, st := range cur {
						t, fa := f.cond(e, st)
						condTrue = append(condTrue, t...)
						condFalse = append(condFalse, fa...)
					}
					continue
				}
			}
			var next []*astate
			for _, st := range cur {
				next = append(next, f.stmt(n, st)...)
			}
			cur = next
		}
		if branched {
			for _, st := range condTrue {
				work = append(work, item{b.Succs[0], st, b})
			}
			for _, st := range condFalse {
				work = append(work, item{b.Succs[1], st, b})
			}
			continue
		}
		for _, st := range cur {
			if st == nil {
				continue
			}
			for _, su := range b.Succs {
				work = append(work, item{su, st, b})
			}
			if len(b.Succs) == 0 && !isReturnBlock(b) {
				// fell off the end of the function body
				o := outcome{Kind: "falls-off-end", Pos: st.pos, Tok: st.tok, Hist: st.hist, Flags: st.flags, Know: copyKnow(st.know)}
				f.outs[o.String()] = o
			}
		}
	}
}

func histHas(hist []string, entry string) bool {
	for _, h := range hist {
		if h == entry {
			return true
		}
	}
	return false
}

func histLoopTag(hist []string, marker string) string {
	for i := len(hist) - 1; i >= 0; i-- {
		if strings.HasPrefix(hist[i], marker+"(") {
			rest := hist[i][len(marker)+1:]
			return rest[:strings.Index(rest, ")")]
		}
	}
	return ""
}

func isReturnBlock(b *cfg.Block) bool {
	if len(b.Nodes) == 0 {
		return false
	}
	_, ok := b.Nodes[len(b.Nodes)-1].(*ast.ReturnStmt)
	return ok
}

// term of an identifier used as a value on the right-hand side
func (f *flow) valueTerm(e ast.Expr, s *astate) (string, bool) {
	if f.isObj(e, "position") {
		return s.pos, true
	}
	if f.isObj(e, "tokenIndex") {
		return s.tok, true
	}
	if n, ok := f.localName(e); ok {
		if t, ok := s.snap[n]; ok {
			return t, true
		}
	}
	return "", false
}

// stmt: transfer of a non-branching node. Returns successor states (nil entry = path ended).
func (f *flow) stmt(n ast.Node, s *astate) []*astate {
	if len(s.pend) > 0 {
		f.und = append(f.und, "a boolean variable is defined and not tested at once: "+nodeStr(f.gf.in.Fset, n))
		return nil
	}
	switch x := n.(type) {
	case *ast.AssignStmt:
		// memo lookup: memoized, ok := memoization[memoKey[U]{id, position}]
		if len(x.Rhs) == 1 {
			if ix, ok := x.Rhs[0].(*ast.IndexExpr); ok && f.isObj(ix.X, "memoization") {
				if cl, ok := ix.Index.(*ast.CompositeLit); ok && len(cl.Elts) == 2 {
					idv, _ := runeLit(f.info, cl.Elts[0])
					pt, okp := f.valueTerm(cl.Elts[1], s)
					if !okp {
						pt = "<" + exprStr(cl.Elts[1]) + ">"
					}
					c := s.clone()
					c.hist = append(c.hist, fmt.Sprintf("memo?(%d,%s)", idv, pt))
					return []*astate{c}
				}
			}
		}
		// the same lookup through a method or helper of the memo table: memoized, ok := memoization.get(id, position)
		if len(x.Rhs) == 1 && len(x.Lhs) == 2 {
			if ce, ok := x.Rhs[0].(*ast.CallExpr); ok {
				onTable := false
				if se, ok := ce.Fun.(*ast.SelectorExpr); ok && f.isObj(se.X, "memoization") {
					onTable = true
				}
				for _, a := range ce.Args {
					if f.isObj(a, "memoization") {
						onTable = true
					}
				}
				if onTable {
					idv, pt, haveID, havePos := rune(0), "", false, false
					for _, a := range ce.Args {
						if f.isObj(a, "memoization") {
							continue
						}
						if t, ok := f.valueTerm(a, s); ok && !havePos {
							pt, havePos = t, true
							continue
						}
						if v, ok := runeLit(f.info, a); ok && !haveID {
							idv, haveID = v, true
						}
					}
					if haveID && havePos {
						c := s.clone()
						c.hist = append(c.hist, fmt.Sprintf("memo?(%d,%s)", idv, pt))
						return []*astate{c}
					}
				}
			}
		}
		// parallel assignment among position/tokenIndex/snapshots
		if len(x.Lhs) == len(x.Rhs) {
			var vals []string
			okAll := true
			for _, r := range x.Rhs {
				t, ok := f.valueTerm(r, s)
				if !ok {
					okAll = false
					break
				}
				vals = append(vals, t)
			}
			if okAll {
				c := s.clone()
				for i, l := range x.Lhs {
					switch {
					case f.isObj(l, "position"):
						c.pos = vals[i]
					case f.isObj(l, "tokenIndex"):
						c.tok = vals[i]
					default:
						nm, ok := f.localName(l)
						if !ok {
							f.und = append(f.und, "assignment target "+exprStr(l))
							return nil
						}
						c.snap[nm] = vals[i]
					}
				}
				return []*astate{c}
			}
		}
		// c := buffer[position]
		if len(x.Lhs) == 1 && len(x.Rhs) == 1 && f.isBufAtPos(x.Rhs[0]) {
			if nm, ok := f.localName(x.Lhs[0]); ok {
				c := s.clone()
				c.cbind[nm] = s.pos
				return []*astate{c}
			}
		}
		// text = string(buffer[begin:end])
		if len(x.Lhs) == 1 && f.isObj(x.Lhs[0], "text") {
			if ce, ok := x.Rhs[0].(*ast.CallExpr); ok && len(ce.Args) == 1 {
				if sl, ok := ce.Args[0].(*ast.SliceExpr); ok && f.isObj(sl.X, "buffer") {
					lo, ok1 := f.valueTerm(sl.Low, s)
					hi, ok2 := f.valueTerm(sl.High, s)
					if ok1 && ok2 {
						c := s.clone()
						c.hist = append(c.hist, fmt.Sprintf("text=buffer[%s:%s]", lo, hi))
						return []*astate{c}
					}
				}
			}
		}
		// v := <boolean expression> in the header of the if that tests v
		if x.Tok == token.DEFINE && len(x.Lhs) == 1 && len(x.Rhs) == 1 {
			if id, ok := x.Lhs[0].(*ast.Ident); ok {
				if tv, ok := f.info.Types[x.Rhs[0]]; ok && tv.Type != nil {
					if b, ok := tv.Type.Underlying().(*types.Basic); ok && b.Info()&types.IsBoolean != 0 {
						c := s.clone()
						if c.pend == nil {
							c.pend = map[string]ast.Expr{}
						}
						c.pend[id.Name] = x.Rhs[0]
						return []*astate{c}
					}
				}
			}
		}
		f.und = append(f.und, "assignment not modelled: "+nodeStr(f.gf.in.Fset, x))
		return nil
	case *ast.IncDecStmt:
		if f.isObj(x.X, "position") && x.Tok == token.INC {
			c := s.clone()
			k, known := s.know[s.pos]
			if !known {
				k = setStr(f.u.all())
			}
			guarded := known
			for _, r := range parseSet(k) {
				if r == uEnd {
					guarded = false
				}
			}
			if !guarded {
				c.flags = append(c.flags, "position++ at "+s.pos+" without a successful test excluding endSymbol on this path (possible values of buffer[position]: {"+k+"})")
			}
			c.pos = "A(" + s.pos + ")"
			return []*astate{c}
		}
		f.und = append(f.und, "inc/dec not modelled: "+nodeStr(f.gf.in.Fset, x))
		return nil
	case *ast.ExprStmt:
		name, obj, args, ok := f.callOf(x.X)
		if !ok {
			f.und = append(f.und, "expression statement not modelled: "+nodeStr(f.gf.in.Fset, x))
			return nil
		}
		switch {
		case strings.HasPrefix(name, "__c"):
			c := s.clone()
			if !f.childFeasible(c, name) {
				return nil
			}
			f.childOK(c, name)
			return []*astate{c}
		case strings.HasPrefix(name, "__act"), strings.HasPrefix(name, "__st"):
			c := s.clone()
			c.hist = append(c.hist, fmt.Sprintf("%s@%s", name, s.pos))
			return []*astate{c}
		case strings.HasPrefix(name, "_rules:"):
			c := s.clone()
			rn := strings.TrimPrefix(name, "_rules:")
			if f.ruleCanFail == nil || f.ruleCanFail(rn) {
				c.flags = append(c.flags, "the result of calling rule "+rn+" is ignored although that rule can fail (the always-succeeds shortcut is unsound here)")
			}
			if !f.ruleFeasible(c, rn) {
				return nil
			}
			f.ruleOK(c, rn)
			return []*astate{c}
		case obj != nil && obj == f.gf.objs["add"] && len(args) == 2:
			c := s.clone()
			rule := exprStr(args[0])
			bt, ok := f.valueTerm(args[1], s)
			if !ok {
				bt = "<" + exprStr(args[1]) + ">"
			}
			ev := fmt.Sprintf("tok(%s,%s→%s)", rule, bt, s.pos)
			c.tok = s.tok + "·" + ev
			return []*astate{c}
		case obj != nil && obj == f.gf.objs["memoize"] && len(args) == 4:
			c := s.clone()
			idv, _ := runeLit(f.info, args[0])
			bt, _ := f.valueTerm(args[1], s)
			tt, _ := f.valueTerm(args[2], s)
			if exprStr(args[3]) == "true" {
				c.hist = append(c.hist, fmt.Sprintf("memoize(%d,%s,%s,true)at(%s,%s)", idv, bt, tt, s.pos, s.tok))
			} else {
				c.hist = append(c.hist, fmt.Sprintf("memoize(%d,%s,%s,%s)", idv, bt, tt, exprStr(args[3])))
			}
			return []*astate{c}
		}
		f.und = append(f.und, "call not modelled: "+nodeStr(f.gf.in.Fset, x))
		return nil
	case *ast.ReturnStmt:
		kind := "?"
		if len(x.Results) == 1 {
			switch r := x.Results[0].(type) {
			case *ast.Ident:
				kind = r.Name
			case *ast.CallExpr:
				if id, ok := r.Fun.(*ast.Ident); ok && f.info.Uses[id] == f.gf.objs["memoizedResult"] {
					kind = "memo"
				}
			}
		}
		o := outcome{Kind: kind, Pos: s.pos, Tok: s.tok, Hist: s.hist, Flags: s.flags, Know: copyKnow(s.know)}
		f.outs[o.String()+" given "+knowKey(o.Know)] = o
		return nil
	case *ast.LabeledStmt, *ast.BranchStmt, *ast.EmptyStmt:
		return []*astate{s}
	case *ast.DeclStmt:
		return []*astate{s}
	case ast.Expr:
		// the tag expression of a switch (buffer[position]) appears as a node: remember where it was read
		if f.isBufAtPos(x) {
			c := s.clone()
			c.tag = s.pos
			return []*astate{c}
		}
	}
	f.und = append(f.und, fmt.Sprintf("node %T not modelled: %s", n, nodeStr(f.gf.in.Fset, n)))
	return nil
}

func (f *flow) childOK(c *astate, name string) {
	at := c.pos
	c.hist = append(c.hist, fmt.Sprintf("%s@(%s,%s):ok", name, at, c.tok))
	base := strings.TrimPrefix(name, "__")
	c.tok = c.tok + "·" + base + "@" + at
	c.pos = "S" + base + "(" + at + ")"
}

// ruleFeasible refines knowledge by the callee's FIRST set when it must consume.
func (f *flow) ruleFeasible(c *astate, rule string) bool {
	if f.ruleFirst == nil {
		return true
	}
	fs := f.ruleFirst(rule)
	if fs == nil {
		return true
	}
	yes, _ := split(f.u, c.know, c.pos, func(r rune) bool { return fs.has(r) })
	if yes == "" {
		return false
	}
	c.know[c.pos] = yes
	return true
}

func (f *flow) ruleOK(c *astate, rule string) {
	if f.nilRule != nil && f.nilRule(rule) {
		c.flags = append(c.flags, "call of rule "+rule+" whose table entry is nil (nil entry: the rule was inlined away or is unused/undefined)")
	}
	at := c.pos
	c.hist = append(c.hist, fmt.Sprintf("rule%s@(%s,%s):ok", rule, at, c.tok))
	c.tok = c.tok + "·R" + rule + "@" + at
	c.pos = "R" + rule + "(" + at + ")"
}

// cond: transfer of a branching expression; returns states for the true and false successor.
func (f *flow) cond(e ast.Expr, s *astate) (t, fa []*astate) {
	e = ast.Unparen(e)
	if u, ok := e.(*ast.UnaryExpr); ok && u.Op == token.NOT {
		a, b := f.cond(u.X, s)
		return b, a
	}
	if tv, ok := f.info.Types[e]; ok && tv.Value != nil && tv.Value.Kind() == constant.Bool {
		// a constant condition
		if constant.BoolVal(tv.Value) {
			return []*astate{s.clone()}, nil
		}
		return nil, []*astate{s.clone()}
	}
	if id, ok := e.(*ast.Ident); ok && s.pend[id.Name] != nil {
		// the variable of the if header: its defining expression decides
		c := s.clone()
		ex := c.pend[id.Name]
		delete(c.pend, id.Name)
		return f.cond(ex, c)
	}
	if id, ok := e.(*ast.Ident); ok && id.Name == "ok" {
		// memo lookup result
		hit := s.clone()
		hit.hist = append(hit.hist, "memo-hit")
		miss := s.clone()
		return []*astate{hit}, []*astate{miss}
	}
	if b, ok := e.(*ast.BinaryExpr); ok && (b.Op == token.EQL || b.Op == token.NEQ) {
		// position (or a snapshot) compared with a snapshot: "has anything been consumed since"
		if l, okL := f.valueTerm(b.X, s); okL {
			if r, okR := f.valueTerm(b.Y, s); okR && (f.isObj(b.X, "position") || f.isObj(b.Y, "position")) {
				eq, ne := posCompare(l, r)
				var ts, fs []*astate
				if eq {
					ts = append(ts, s.clone())
				}
				if ne {
					fs = append(fs, s.clone())
				}
				if b.Op == token.NEQ {
					ts, fs = fs, ts
				}
				return ts, fs
			}
		}
	}
	if name, obj, args, ok := f.callOf(e); ok {
		switch {
		case strings.HasPrefix(name, "__c"):
			okS := s.clone()
			var oks []*astate
			if f.childFeasible(okS, name) {
				f.childOK(okS, name)
				oks = append(oks, okS)
			}
			bad := s.clone()
			bad.hist = append(bad.hist, fmt.Sprintf("%s@(%s,%s):fail", name, s.pos, s.tok))
			bad.pos, bad.tok = "?", "?"
			return oks, []*astate{bad}
		case strings.HasPrefix(name, "__pred"):
			y := s.clone()
			y.hist = append(y.hist, fmt.Sprintf("%s@%s:true", name, s.pos))
			n := s.clone()
			n.hist = append(n.hist, fmt.Sprintf("%s@%s:false", name, s.pos))
			return []*astate{y}, []*astate{n}
		case strings.HasPrefix(name, "_rules:"):
			okS := s.clone()
			rn := strings.TrimPrefix(name, "_rules:")
			var oks []*astate
			if f.ruleFeasible(okS, rn) {
				f.ruleOK(okS, rn)
				oks = append(oks, okS)
			}
			if f.ruleCanFail != nil && !f.ruleCanFail(rn) {
				return oks, nil
			}
			// a rule *function* that returns false has restored position and token
			// index itself (the wrapper contract, an obligation of every model's
			// root rule: its false outcome must be at (E, K)); only a body emitted
			// in place under -inline leaves them undefined, and that is no call
			bad := s.clone()
			bad.hist = append(bad.hist, fmt.Sprintf("rule%s@(%s,%s):fail", rn, s.pos, s.tok))
			return oks, []*astate{bad}
		case obj != nil && obj == f.gf.objs["matchDot"]:
			yes, no := split(f.u, s.know, s.pos, func(r rune) bool { return r != uEnd })
			return f.advance(s, yes), f.stay(s, no)
		case obj != nil && obj == f.gf.objs["matchString"] && len(args) == 1:
			lit := exprStr(args[0])
			str, _ := strconv.Unquote(lit)
			first := []rune(str)
			okS := s.clone()
			if len(first) > 0 {
				yes, no := split(f.u, s.know, s.pos, func(r rune) bool { return r == first[0] })
				var ts, fs []*astate
				if yes != "" {
					okS.know[s.pos] = yes
					okS.pos = "Str[" + lit + "](" + s.pos + ")"
					ts = append(ts, okS)
					// a longer literal may still fail after its first rune
					if len(first) > 1 {
						b := s.clone()
						b.know[s.pos] = yes
						fs = append(fs, b)
					}
				}
				if no != "" {
					b := s.clone()
					b.know[s.pos] = no
					fs = append(fs, b)
				}
				return ts, fs
			}
			okS.pos = "Str[" + lit + "](" + s.pos + ")"
			return []*astate{okS}, nil
		}
	}
	if r, ok := runeLit(f.info, e); ok && s.tag != "" {
		// a case value of `switch buffer[position]`
		yes, no := split(f.u, s.know, s.tag, func(c rune) bool { return c == r })
		if yes != "" {
			c := s.clone()
			c.know[s.tag] = yes
			t = append(t, c)
		}
		if no != "" {
			c := s.clone()
			c.know[s.tag] = no
			fa = append(fa, c)
		}
		return t, fa
	}
	if be, ok := e.(*ast.BinaryExpr); ok && (be.Op == token.LOR || be.Op == token.LAND) {
		ta, fa0 := f.cond(be.X, s)
		if be.Op == token.LOR {
			t = append(t, ta...)
			for _, st := range fa0 {
				tb, fb := f.cond(be.Y, st)
				t = append(t, tb...)
				fa = append(fa, fb...)
			}
			return t, fa
		}
		fa = append(fa, fa0...)
		for _, st := range ta {
			tb, fb := f.cond(be.Y, st)
			t = append(t, tb...)
			fa = append(fa, fb...)
		}
		return t, fa
	}
	if be, ok := e.(*ast.BinaryExpr); ok {
		// comparisons of buffer[position] / bound local with a rune literal
		var subj string // position term the tested rune was read at
		x, y := be.X, be.Y
		if f.isBufAtPos(x) {
			subj = s.pos
		} else if n, ok := f.localName(x); ok {
			if p, ok := s.cbind[n]; ok {
				subj = p
			}
		}
		if subj != "" {
			if r, ok := runeLit(f.info, y); ok {
				var acc func(rune) bool
				switch be.Op {
				case token.EQL:
					acc = func(c rune) bool { return c == r }
				case token.NEQ:
					acc = func(c rune) bool { return c != r }
				case token.LSS:
					acc = func(c rune) bool { return c < r }
				case token.GTR:
					acc = func(c rune) bool { return c > r }
				case token.LEQ:
					acc = func(c rune) bool { return c <= r }
				case token.GEQ:
					acc = func(c rune) bool { return c >= r }
				}
				if acc != nil {
					yes, no := split(f.u, s.know, subj, acc)
					var ts, fs []*astate
					if yes != "" {
						c := s.clone()
						c.know[subj] = yes
						ts = append(ts, c)
					}
					if no != "" {
						c := s.clone()
						c.know[subj] = no
						fs = append(fs, c)
					}
					return ts, fs
				}
			}
		}
	}
	f.und = append(f.und, "condition not modelled: "+nodeStr(f.gf.in.Fset, e))
	return nil, nil
}

func (f *flow) advance(s *astate, yes string) []*astate {
	if yes == "" {
		return nil
	}
	c := s.clone()
	c.know[s.pos] = yes
	c.pos = "A(" + s.pos + ")"
	return []*astate{c}
}

func (f *flow) stay(s *astate, no string) []*astate {
	if no == "" {
		return nil
	}
	c := s.clone()
	c.know[s.pos] = no
	return []*astate{c}
}

func exprStr(e ast.Expr) string { return types.ExprString(e) }

func nodeStr(fset *token.FileSet, n ast.Node) string {
	var sb strings.Builder
	printerFprint(&sb, fset, n)
	return clip(strings.Join(strings.Fields(sb.String()), " "), 160)
}

// tokDerived: token trace t extends base, possibly through the invariants of
// inner repetitions (J<n>(x) = x followed by the tokens of ≥0 iterations).
func tokDerived(t, base string) bool {
	if t == base || strings.HasPrefix(t, base+"·") {
		return true
	}
	if len(t) > 2 && t[0] == 'J' {
		i := strings.IndexByte(t, '(')
		if i < 0 {
			return false
		}
		depth := 0
		for k := i; k < len(t); k++ {
			if t[k] == '(' {
				depth++
			} else if t[k] == ')' {
				depth--
				if depth == 0 {
					return tokDerived(t[i+1:k], base)
				}
			}
		}
	}
	return false
}

// posCompare: can two position terms be equal / differ? Terms are nested
// wrappers around an earlier term: A{…}(t) and Str[…](t) lie strictly behind t,
// S…(t) and R…(t) (a child or rule that succeeded at t) at or behind it.
func posCompare(l, r string) (canEq, canNe bool) {
	if l == r {
		return true, false
	}
	if l == "?" || r == "?" {
		return true, true
	}
	long, short := l, r
	if len(r) > len(l) {
		long, short = r, l
	}
	// peel wrappers off the longer term until the shorter one is reached
	strict := false
	t := long
	for t != short {
		i := strings.Index(t, "(")
		if i < 0 || !strings.HasSuffix(t, ")") {
			return true, true // unrelated terms
		}
		head := t[:i]
		if head == "A" || strings.HasPrefix(head, "A{") || strings.HasPrefix(head, "Str[") {
			strict = true
		}
		t = t[i+1 : len(t)-1]
	}
	if strict {
		return false, true
	}
	return true, true
}
