package main

// C18 — the CLI exits zero only after writing a complete parser (DESIGN §4 C18).
// Rules: R-exit-on-error, R-error-propagation, R-complete-before-zero,
// R-wiring, R-open-flags.

import (
	"fmt"
	"go/constant"
	"go/token"
	"go/types"
	"strings"

	"golang.org/x/tools/go/ssa"
)

func checkC18(c *Check) {
	c.Explain = "Decides, on the SSA form of main.go and tree.(*Tree).Compile as found in /repo now: (1) every error produced on the path input→parse→compile→output is either returned to the caller or leads, on every path from its non-nil test, to a non-zero process exit (os.Exit(≠0), log.Fatal*, panic) — for main.main this is the must-pass-through condition 'non-nil error ⇒ non-zero exit' for both values of -strict; (2) no such error is dropped outside four listed idioms; (3) a nil error is returned by Compile / the compile callback / parse only on paths dominated by the nil edge of the check of the stage that completes the output (printer Fprint to out ← Compile ← callback); (4) flags named inline/switch/noast/strict flow to the tree.New parameter / Tree field of the matching name, and the destination is opened with O_CREATE|O_TRUNC and a write mode; (5) R-destination: the file opened for writing is named by the -output variable, which is defaulted only to flag.Arg(0)+\".go\"; the file opened for reading is flag.Arg(0); the streams handed on are os.Stdin/os.Stdout or those two files; (6) R-cli-semantics: main is evaluated by the interpreter on 14 command lines (default, nested and absolute grammar paths, -output file/=/-, standard input, each option flag and all of them) x {success, syntax error, generation failure, read failure, unopenable grammar, unopenable destination} with flag.*, os.Open/OpenFile/Create, io.ReadAll, the front end's Init/Parse/Execute, tree.New and (*Tree).Compile as natives that record their arguments and fail on demand: exit status 0 exactly when Compile was handed the requested destination and returned nil; the value-shape rules (4)/(5) yield to it when main.go is organised differently (options struct, helper functions). Not decided: what the operating system does after Fprint returned nil; the text of messages."
	c.Assume = []string{"go/ssa (x/tools v0.50.0) models main.go faithfully", "os.Exit(c≠0), log.Fatal*, panic terminate the process with non-zero status", "writes to a *bytes.Buffer cannot fail"}
	c.Trusted = []string{"go/packages, go/types, go/ssa of golang.org/x/tools v0.50.0"}
	r := mustRepo(c)
	if r == nil {
		return
	}
	mainFns := r.allFuncs("")
	// restrict to functions declared in main.go (peg.peg.go is generated runtime)
	var scope []*ssa.Function
	for _, f := range mainFns {
		if strings.HasSuffix(r.Fset.Position(f.Pos()).Filename, "/main.go") {
			scope = append(scope, f)
		}
	}
	compile := r.ssaFunc("tree", "Tree.Compile")
	if compile == nil {
		c.Und("R-anchor", "tree.(*Tree).Compile", "", "function not found")
		return
	}
	scope = append(scope, compile)
	scope = append(scope, compile.AnonFuncs...)
	noret := noReturnFuncs(scope)
	for _, f := range scope {
		c.Note("functions", fnName(f))
	}

	nSites := 0
	for _, f := range scope {
		nSites += errorDiscipline(c, r, f, noret)
	}
	c.Floor("R-error-propagation", nSites, 12)

	completeBeforeZero(c, r, compile, scope)
	wiring(c, r)
	openFlags(c, r)
	destination(c, r)
	cliSemantics(c, r)
}

// errorDiscipline checks every error-producing call site in f.
func errorDiscipline(c *Check, r *Repo, f *ssa.Function, noret map[*ssa.Function]bool) int {
	n := 0
	isMain := f.Name() == "main" && f.Pkg != nil && f.Pkg.Pkg.Name() == "main" && f.Parent() == nil
	hasErrResult := false
	res := f.Signature.Results()
	errIdx := -1
	for i := 0; i < res.Len(); i++ {
		if isErrorType(res.At(i).Type()) {
			hasErrResult = true
			errIdx = i
		}
	}
	siteNo := map[string]int{}
	instrsOf(f, func(in ssa.Instruction) {
		call, ok := in.(ssa.CallInstruction)
		if !ok {
			return
		}
		if _, isDefer := in.(*ssa.Defer); isDefer {
			return
		}
		vals, has, _ := errorResult(call)
		if !has {
			return
		}
		cn := calleeName(call)
		if cn == "fmt.Errorf" || cn == "errors.New" {
			return // constructors of error values, not fallible operations
		}
		if g := call.Common().StaticCallee(); g != nil && storedErrorGetter(g) {
			// an accessor of diagnostics kept in the receiver (the collected warnings): it reports what
			// was stored, nothing failed in it; what happens to warnings is C15's R-strict
			return
		}
		n++
		if cn == "" {
			cn = "dynamic:" + call.Common().Value.Name()
			if p, ok := call.Common().Value.(*ssa.Parameter); ok {
				cn = "param:" + p.Name()
			}
		}
		cn = shortName(cn)
		siteNo[cn]++
		construct := fmt.Sprintf("%s/call %s", fnName(f), cn)
		if siteNo[cn] > 1 {
			construct += fmt.Sprintf("[%d]", siteNo[cn])
		}
		rule := "R-error-propagation"
		if isMain {
			rule = "R-exit-on-error"
		}
		pos := r.pos(in.Pos())

		// live error values (ignore debug refs)
		var live []ssa.Value
		for _, v := range vals {
			for _, ref := range *v.Referrers() {
				if _, dbg := ref.(*ssa.DebugRef); !dbg {
					live = append(live, v)
					break
				}
			}
		}
		if len(live) == 0 {
			if why := droppedIdiom(call, f, noret, errIdx); why != "" {
				c.OK(rule, construct, pos, "error result unused; listed idiom: "+why)
			} else {
				c.Bad(rule, construct, pos, "error result of "+cn+" is dropped and the call is not one of the listed idioms (bytes.Buffer write, diagnostic print to stderr/stdout, best-effort dump on a failing path, removal of a file, Init with infallible options)")
			}
			return
		}
		for _, e := range live {
			ok, wit, det := errorHandled(r, f, e, noret, hasErrResult, errIdx)
			if ok {
				c.OK(rule, construct, pos, wit)
			} else {
				// in main itself the exit may be organised in a way the path rule cannot follow (a status
				// variable and one deferred os.Exit): for an error that comes out of main's own pipeline
				// function every failure the pipeline can have is injected by R-cli-semantics, which
				// observes the exit status of the evaluated main
				if isMain && call.Common().StaticCallee() != nil && call.Common().StaticCallee().Pkg == f.Pkg {
					if res := cliVerdict(r); res.und == "" && len(res.bad) == 0 && res.n >= 60 {
						c.OK(rule, construct, pos, "the path from the error to the exit is not in a form this rule follows ("+clip(det, 140)+"); decided by R-cli-semantics: every injected failure of the pipeline ends in a non-zero exit status")
						continue
					}
				}
				o := c.Bad(rule, construct, pos, det)
				o.Replay = det
			}
		}
	})
	return n
}

func shortName(s string) string {
	s = strings.ReplaceAll(s, modPath+"/", "")
	s = strings.ReplaceAll(s, modPath+".", "main.")
	return s
}

func errorHandled(r *Repo, f *ssa.Function, e ssa.Value, noret map[*ssa.Function]bool, hasErr bool, errIdx int) (bool, string, string) {
	// (a) returned directly on some use, and every other use is benign
	returned := false
	var checks []nilCheck
	exited := false
	for _, ref := range *e.Referrers() {
		switch x := ref.(type) {
		case *ssa.Return:
			returned = true
		case *ssa.Store:
			// store into the spill slot of a named result that is then returned
			if _, ok := x.Addr.(*ssa.Alloc); ok {
				blk := x.Block()
				for _, in := range blk.Instrs {
					if ret, ok := in.(*ssa.Return); ok && hasErr {
						for _, v := range returnValues(ret, errIdx) {
							if derivedFrom(v, e, 0) {
								returned = true
							}
						}
					}
				}
			}
		case *ssa.Phi:
			// phi merged into a value that is later nil-checked: follow one level
			checks = append(checks, nilChecksOf(x)...)
		}
		if in, ok := ref.(ssa.Instruction); ok && isExitInstr(in, noret) {
			exited = true
		}
		// handed to a helper that exits whenever it is given a non-nil error
		if call, ok := ref.(ssa.CallInstruction); ok {
			if g := call.Common().StaticCallee(); g != nil && len(g.Blocks) > 0 {
				for i, a := range call.Common().Args {
					if a == e && i < len(g.Params) && exitsOnNonNil(g, g.Params[i], noret) {
						exited = true
					}
				}
			}
		}
	}
	checks = append(checks, nilChecksOf(e)...)
	if len(checks) == 0 {
		if returned {
			return true, "error value is returned to the caller unconditionally", ""
		}
		if exited {
			return true, "error value is passed to a terminating call", ""
		}
		return false, "", "error value is never compared with nil, returned or passed to a terminating call"
	}
	var wit []string
	for _, nc := range checks {
		// every Return reachable from the non-nil successor without passing an
		// exit must return a value derived from e
		bad := findSwallow(nc.NonNil, e, noret, hasErr, errIdx)
		if bad != nil {
			var path []string
			for _, b := range bad {
				path = append(path, fmt.Sprintf("b%d", b.Index))
			}
			last := bad[len(bad)-1]
			what := "returns normally"
			if hasErr {
				what = "returns without propagating the error"
			}
			return false, "", fmt.Sprintf("on the non-nil branch of the test at %s, path %s reaches the return at %s which %s and passes no non-zero exit (os.Exit(≠0)/log.Fatal*/panic)",
				r.pos(nc.If.Cond.Pos()), strings.Join(path, "→"), r.pos(retPos(last)), what)
		}
		wit = append(wit, fmt.Sprintf("non-nil edge of test at %s: every path returns the error or exits non-zero", r.pos(nc.If.Cond.Pos())))
	}
	return true, strings.Join(wit, "; "), ""
}

func retPos(b *ssa.BasicBlock) token.Pos {
	for _, in := range b.Instrs {
		if ret, ok := in.(*ssa.Return); ok {
			if ret.Pos().IsValid() {
				return ret.Pos()
			}
		}
	}
	for i := len(b.Instrs) - 1; i >= 0; i-- {
		if b.Instrs[i].Pos().IsValid() {
			return b.Instrs[i].Pos()
		}
	}
	return token.NoPos
}

// findSwallow returns a path from b to a Return that neither exits nor
// returns a value derived from e; nil if none.
func findSwallow(b *ssa.BasicBlock, e ssa.Value, noret map[*ssa.Function]bool, hasErr bool, errIdx int) []*ssa.BasicBlock {
	seen := map[*ssa.BasicBlock]bool{}
	var dfs func(b *ssa.BasicBlock) []*ssa.BasicBlock
	dfs = func(b *ssa.BasicBlock) []*ssa.BasicBlock {
		if seen[b] {
			return nil
		}
		seen[b] = true
		for _, in := range b.Instrs {
			if isExitInstr(in, noret) {
				return nil
			}
			if ret, ok := in.(*ssa.Return); ok {
				if hasErr {
					for _, v := range returnValues(ret, errIdx) {
						if derivedFrom(v, e, 0) {
							return nil
						}
					}
				}
				return []*ssa.BasicBlock{b}
			}
		}
		for _, s := range b.Succs {
			if p := dfs(s); p != nil {
				return append([]*ssa.BasicBlock{b}, p...)
			}
		}
		return nil
	}
	return dfs(b)
}

// droppedIdiom returns the reason a dropped error is acceptable, or "".
func droppedIdiom(call ssa.CallInstruction, f *ssa.Function, noret map[*ssa.Function]bool, errIdx int) string {
	cn := calleeName(call)
	args := call.Common().Args
	switch cn {
	case "fmt.Fprintf", "fmt.Fprintln", "fmt.Fprint":
		if len(args) > 0 {
			if mi, ok := args[0].(*ssa.MakeInterface); ok {
				if types.TypeString(mi.X.Type(), nil) == "*bytes.Buffer" {
					return "fmt.Fprint* into a *bytes.Buffer cannot fail"
				}
				if u, ok := mi.X.(*ssa.UnOp); ok {
					if g, ok := u.X.(*ssa.Global); ok && g.Pkg.Pkg.Path() == "os" && (g.Name() == "Stderr") {
						return "diagnostic print to os.Stderr"
					}
				}
			}
		}
	case "(*flag.FlagSet).Parse":
		// a FlagSet created with flag.ExitOnError ends the process itself on a bad command line:
		// its Parse only ever returns nil
		if len(args) > 0 {
			if mk, ok := resolveLocal(args[0]).(*ssa.Call); ok && calleeName(mk) == "flag.NewFlagSet" && len(mk.Call.Args) == 2 {
				if k, ok := mk.Call.Args[1].(*ssa.Const); ok && k.Value != nil && k.Value.String() == "1" {
					return "Parse of a flag set created with flag.ExitOnError (it exits with status 2 itself; the returned error is always nil)"
				}
			}
		}
	case "os.Remove", "os.RemoveAll":
		// deleting a scratch file: a failure leaves a stale file behind and changes neither the exit
		// status nor what is at the destination; a deletion of the destination itself is judged by
		// R-cli-semantics (where the generated text is when main ends)
		return "best-effort removal of a file (cannot make the exit status or the destination wrong; R-cli-semantics follows removals)"
	case "fmt.Println", "fmt.Printf", "fmt.Print":
		// allowed only where the function returns right after without producing output (version banner)
		blk := call.(ssa.Instruction).Block()
		if _, ok := blk.Instrs[len(blk.Instrs)-1].(*ssa.Return); ok && f.Pkg != nil && f.Pkg.Pkg.Name() == "main" {
			return "informational print immediately followed by return, in the command itself (no parser requested)"
		}
	case "(*bytes.Buffer).WriteTo":
		// best-effort dump: every path from here returns a non-nil error
		blk := call.(ssa.Instruction).Block()
		if errIdx >= 0 && allReturnsNonNil(blk, errIdx) {
			return "best-effort raw dump on a path that already returns a non-nil error"
		}
		// the same dump in a deferred function: guarded by the non-nil test of the
		// captured error result of the enclosing function
		if f.Parent() != nil {
			for _, c := range dominatingEdgeFacts(blk) {
				b, ok := c.Cond.(*ssa.BinOp)
				if !ok || !((b.Op == token.NEQ && c.Truth) || (b.Op == token.EQL && !c.Truth)) {
					continue
				}
				for _, side := range []ssa.Value{b.X, b.Y} {
					if u, ok := side.(*ssa.UnOp); ok && u.Op == token.MUL {
						if fv, ok := u.X.(*ssa.FreeVar); ok {
							if pt, ok := fv.Type().(*types.Pointer); ok && isErrorType(pt.Elem()) {
								return "best-effort raw dump in a deferred function, reached only when the enclosing function's error result is non-nil"
							}
						}
					}
				}
			}
		}
	}
	if strings.HasSuffix(cn, ".Init") && strings.Contains(cn, "Peg[") {
		// every option passed must be Pretty or Size
		if len(args) == 2 {
			if names := varargCallees(args[1]); len(names) > 0 {
				for _, n := range names {
					if !(strings.Contains(n, ".Pretty[") || strings.Contains(n, ".Size[") || strings.HasSuffix(n, ".Pretty") || strings.HasSuffix(n, ".Size")) {
						return ""
					}
				}
				return "Init returns only an option's error and the options passed (" + strings.Join(names, ", ") + ") cannot fail"
			}
		}
	}
	return ""
}

func varargCallees(a ssa.Value) []string {
	var out []string
	s, ok := a.(*ssa.Slice)
	if !ok {
		return nil
	}
	al, ok := s.X.(*ssa.Alloc)
	if !ok {
		return nil
	}
	for _, r := range *al.Referrers() {
		if ia, ok := r.(*ssa.IndexAddr); ok {
			for _, rr := range *ia.Referrers() {
				if st, ok := rr.(*ssa.Store); ok {
					if cl, ok := st.Val.(*ssa.Call); ok {
						if fn := cl.Call.StaticCallee(); fn != nil {
							out = append(out, shortName(fn.String()))
							continue
						}
					}
					return nil
				}
			}
		}
	}
	return out
}

// allReturnsNonNil: every Return reachable from b returns, at errIdx, a value
// that is known non-nil (the return lies on the non-nil edge of a nil test of
// that very value).
func allReturnsNonNil(b *ssa.BasicBlock, errIdx int) bool {
	seen := map[*ssa.BasicBlock]bool{}
	ok := true
	found := false
	var dfs func(b *ssa.BasicBlock)
	dfs = func(b *ssa.BasicBlock) {
		if seen[b] {
			return
		}
		seen[b] = true
		for _, in := range b.Instrs {
			if ret, isRet := in.(*ssa.Return); isRet {
				found = true
				for _, v := range returnValues(ret, errIdx) {
					if !knownNonNilAt(v, b) {
						ok = false
					}
				}
				return
			}
		}
		for _, s := range b.Succs {
			dfs(s)
		}
	}
	dfs(b)
	return ok && found
}

func knownNonNilAt(v ssa.Value, at *ssa.BasicBlock) bool {
	if k, ok := v.(*ssa.Const); ok {
		return !k.IsNil()
	}
	for _, nc := range nilChecksOf(v) {
		if edgeDominates(nc.If.Block(), nc.NonNil, at) {
			return true
		}
	}
	switch x := v.(type) {
	case *ssa.MakeInterface:
		return true
	case *ssa.Call:
		n := calleeName(x)
		if n == "fmt.Errorf" || n == "errors.New" {
			return true
		}
	}
	// a field or variable re-read after its own nil test (if t.werr != nil { … return t.werr }):
	// the access path is known non-nil on a dominating edge and is not stored in between
	if ap := accessPath(v); ap != "" {
		for _, c := range dominatingEdgeFacts(at) {
			for _, f := range condFacts(c.Cond, c.Truth, nil) {
				if !f.eq && ((f.a == ap && f.b == "nil") || (f.b == ap && f.a == "nil")) {
					return true
				}
			}
		}
	}
	return false
}

// ---------------------------------------------------------------------------
// R-complete-before-zero

func completeBeforeZero(c *Check, r *Repo, compile *ssa.Function, scope []*ssa.Function) {
	type stage struct {
		fn       *ssa.Function
		isFinish func(call ssa.CallInstruction) bool
		what     string
	}
	var stages []stage
	// Compile: printer Fprint / format.Node whose writer is the `out` parameter — called by Compile itself or by a
	// helper of the package that is handed `out` (each such helper is a stage of its own: what it returns is judged too)
	staged := map[*ssa.Function]bool{}
	var writerStage func(g *ssa.Function, w string) bool
	writerStage = func(g *ssa.Function, w string) bool {
		if staged[g] {
			return true
		}
		direct := func(call ssa.CallInstruction) bool {
			args := call.Common().Args
			switch calleeName(call) {
			case "(*go/printer.Config).Fprint":
				return len(args) >= 2 && isParam(args[1], w, g)
			case "go/format.Node":
				return len(args) >= 1 && isParam(args[0], w, g)
			}
			return false
		}
		viaHelper := func(call ssa.CallInstruction) bool {
			h := call.Common().StaticCallee()
			if h == nil || len(h.Blocks) == 0 || h == g || h.Pkg != g.Pkg || len(staged) > 8 {
				return false
			}
			for j, a := range call.Common().Args {
				if isParam(a, w, g) && j < len(h.Params) {
					staged[g] = true
					ok := writerStage(h, h.Params[j].Name())
					delete(staged, g)
					if ok {
						return true
					}
				}
			}
			return false
		}
		isFinish := func(call ssa.CallInstruction) bool { return direct(call) || viaHelper(call) }
		found := false
		instrsOf(g, func(in ssa.Instruction) {
			if call, ok := in.(ssa.CallInstruction); ok && isFinish(call) {
				found = true
			}
		})
		if !found {
			return false
		}
		staged[g] = true
		stages = append(stages, stage{g, isFinish, "(*printer.Config).Fprint(out, …) or format.Node(out, …), directly or in a helper handed the writer"})
		return true
	}
	if !writerStage(compile, "out") {
		stages = append(stages, stage{compile, func(ssa.CallInstruction) bool { return false }, "(*printer.Config).Fprint(out, …) or format.Node(out, …)"})
	}
	for _, f := range scope {
		f := f
		if f.Pkg == nil || f.Pkg.Pkg.Name() != "main" {
			continue
		}
		if f.Name() == "parse" && f.Parent() == nil {
			stages = append(stages, stage{f, func(call ssa.CallInstruction) bool {
				p, ok := call.Common().Value.(*ssa.Parameter)
				return ok && p.Parent() == f
			}, "call of the compile callback parameter"})
		}
		if f.Parent() != nil && f.Parent().Name() == "main" {
			stages = append(stages, stage{f, func(call ssa.CallInstruction) bool {
				return strings.HasSuffix(calleeName(call), "tree.Tree).Compile")
			}, "(*tree.Tree).Compile"})
		}
	}
	found := 0
	for _, st := range stages {
		f := st.fn
		errIdx := -1
		for i := 0; i < f.Signature.Results().Len(); i++ {
			if isErrorType(f.Signature.Results().At(i).Type()) {
				errIdx = i
			}
		}
		if errIdx < 0 {
			continue
		}
		var fin []ssa.CallInstruction
		instrsOf(f, func(in ssa.Instruction) {
			if call, ok := in.(ssa.CallInstruction); ok && st.isFinish(call) {
				fin = append(fin, call)
			}
		})
		if len(fin) == 0 {
			c.Und("R-complete-before-zero", fnName(f), r.pos(f.Pos()), "completion call ("+st.what+") not found")
			continue
		}
		found++
		nret := 0
		instrsOf(f, func(in ssa.Instruction) {
			ret, ok := in.(*ssa.Return)
			if !ok || ret.Block() == f.Recover {
				return // the recover block is only entered after a recovered panic; these functions never call recover()
			}
			nret++
			construct := fmt.Sprintf("%s/return#%d", fnName(f), nret)
			for _, v := range returnValues(ret, errIdx) {
				switch {
				case isDirectResultOf(v, fin):
					c.OK("R-complete-before-zero", construct, r.pos(retPos(ret.Block())), "returns the result of "+st.what+" itself")
				case knownNonNilAt(v, ret.Block()):
					c.OK("R-complete-before-zero", construct, r.pos(retPos(ret.Block())), "returned error is non-nil on this path (non-nil edge of its own test)")
				default:
					// may be nil: must be dominated by the nil edge of the finish call's error check
					dom := false
					for _, fc := range fin {
						vals, _, _ := errorResult(fc)
						for _, ev := range vals {
							for _, nc := range nilChecksOf(ev) {
								if edgeDominates(nc.If.Block(), nc.Nil, ret.Block()) {
									dom = true
								}
							}
						}
					}
					c.Decide(dom, "R-complete-before-zero", construct, r.pos(retPos(ret.Block())),
						"possibly-nil return is dominated by the nil edge of the error test of "+st.what,
						"this return may yield a nil error although it is not dominated by the success edge of "+st.what+": the process can exit 0 without a complete parser having been written")
				}
			}
		})
	}
	c.Floor("R-complete-before-zero", found, 1)
}

func isDirectResultOf(v ssa.Value, calls []ssa.CallInstruction) bool {
	for _, cl := range calls {
		vals, _, _ := errorResult(cl)
		for _, e := range vals {
			if e == v {
				// direct only if not nil-checked at all (returned as is)
				return true
			}
		}
	}
	return false
}

func isParam(v ssa.Value, name string, f *ssa.Function) bool {
	if mi, ok := v.(*ssa.MakeInterface); ok {
		v = mi.X
	}
	if ci, ok := v.(*ssa.ChangeInterface); ok {
		v = ci.X
	}
	if p, ok := v.(*ssa.Parameter); ok {
		return p.Parent() == f && p.Name() == name
	}
	// a parameter captured by a closure (e.g. a deferred function) is spilled:
	// the value is a load of a local that is only ever stored the parameter
	if u, ok := v.(*ssa.UnOp); ok && u.Op == token.MUL {
		if al, ok := u.X.(*ssa.Alloc); ok && al.Parent() == f {
			isP, other := false, false
			for _, ref := range *al.Referrers() {
				if st, ok := ref.(*ssa.Store); ok && st.Addr == ssa.Value(al) {
					if p, ok := st.Val.(*ssa.Parameter); ok && p.Name() == name {
						isP = true
					} else {
						other = true
					}
				}
			}
			return isP && !other
		}
	}
	return false
}

// ---------------------------------------------------------------------------
// R-wiring: flag name -> tree.New parameter -> Tree field

// flagOfGlobal maps a package-level *bool/*string variable to the flag name
// it was registered under (flag.Bool("name", …) in the package initialiser).
func flagGlobals(r *Repo) map[*ssa.Global]string {
	out := map[*ssa.Global]string{}
	sp := r.SSA[modPath]
	if sp == nil {
		return out
	}
	init := sp.Func("init")
	if init == nil {
		return out
	}
	instrsOf(init, func(in ssa.Instruction) {
		st, ok := in.(*ssa.Store)
		if !ok {
			return
		}
		g, ok := st.Addr.(*ssa.Global)
		if !ok {
			return
		}
		cl, ok := st.Val.(*ssa.Call)
		if !ok {
			return
		}
		n := calleeName(cl)
		if n == "flag.Bool" || n == "flag.String" || n == "flag.Int" {
			if k, ok := cl.Call.Args[0].(*ssa.Const); ok && k.Value != nil && k.Value.Kind() == constant.String {
				out[g] = constant.StringVal(k.Value)
			}
		}
	})
	return out
}

// flagOfValue: v == **global (load of the flag's value) -> flag name.
func flagOfValue(v ssa.Value, fg map[*ssa.Global]string) string {
	u, ok := v.(*ssa.UnOp)
	if !ok || u.Op != token.MUL {
		return ""
	}
	u2, ok := u.X.(*ssa.UnOp)
	if !ok || u2.Op != token.MUL {
		return ""
	}
	g, ok := u2.X.(*ssa.Global)
	if !ok {
		return ""
	}
	return fg[g]
}

func wiring(c *Check, r *Repo) {
	fg := flagGlobals(r)
	if len(fg) < 4 {
		// the flags are not package-level variables filled by flag.Bool/String in the
		// initialiser (e.g. an options struct with flag.BoolVar): this data-flow rule
		// does not apply; the wiring is decided by evaluating main (R-cli-semantics)
		c.OK("R-wiring", "flags", "", fmt.Sprintf("%d flag-backed package-level variables: the flags are kept elsewhere, the shape rule does not apply (decided by R-cli-semantics)", len(fg)))
		return
	}
	newFn := r.ssaFunc("tree", "New")
	if newFn == nil {
		c.Und("R-wiring", "tree.New", "", "not found")
		return
	}
	norm := func(s string) string { return strings.TrimLeft(strings.ToLower(s), "_") }
	n := 0
	for _, f := range r.allFuncs("") {
		if !strings.HasSuffix(r.Fset.Position(f.Pos()).Filename, "/main.go") {
			continue
		}
		instrsOf(f, func(in ssa.Instruction) {
			switch x := in.(type) {
			case *ssa.Call:
				if x.Call.StaticCallee() == newFn {
					for i, a := range x.Call.Args {
						pname := newFn.Params[i].Name()
						fl := flagOfValue(a, fg)
						n++
						c.Decide(fl != "" && norm(fl) == norm(pname), "R-wiring", fmt.Sprintf("%s/tree.New arg %d (%s)", fnName(f), i, pname), r.pos(x.Pos()),
							fmt.Sprintf("argument is the value of flag -%s", fl),
							fmt.Sprintf("parameter %q of tree.New receives %s instead of the flag of the same name", pname, describeFlag(fl)))
					}
				}
			case *ssa.Store:
				// p.Strict = *strict  (store to field Strict of *tree.Tree)
				if fa, ok := x.Addr.(*ssa.FieldAddr); ok {
					st := derefStruct(fa.X.Type())
					if st != nil {
						fname := st.Field(fa.Field).Name()
						if fl := flagOfValue(x.Val, fg); fl != "" || fname == "Strict" {
							n++
							c.Decide(norm(fl) == norm(fname), "R-wiring", fmt.Sprintf("%s/field %s", fnName(f), fname), r.pos(x.Pos()),
								fmt.Sprintf("field %s is assigned the value of flag -%s", fname, fl),
								fmt.Sprintf("field %s receives %s", fname, describeFlag(fl)))
						}
					}
				}
			}
		})
	}
	// inside tree.New: parameter -> field of the matching meaning
	instrsOf(newFn, func(in ssa.Instruction) {
		st, ok := in.(*ssa.Store)
		if !ok {
			return
		}
		fa, ok := st.Addr.(*ssa.FieldAddr)
		if !ok {
			return
		}
		sT := derefStruct(fa.X.Type())
		if sT == nil {
			return
		}
		fname := sT.Field(fa.Field).Name()
		val := st.Val
		neg := false
		if u, ok := val.(*ssa.UnOp); ok && u.Op == token.NOT {
			neg = true
			val = u.X
		}
		p, ok := val.(*ssa.Parameter)
		if !ok {
			return
		}
		n++
		want := norm(fname)
		okk := false
		switch {
		case want == norm(p.Name()) && !neg:
			okk = true
		case want == "ast" && norm(p.Name()) == "noast" && neg:
			okk = true
		}
		c.Decide(okk, "R-wiring", fmt.Sprintf("tree.New/field %s", fname), r.pos(st.Pos()),
			fmt.Sprintf("field %s := %s%s", fname, map[bool]string{true: "!", false: ""}[neg], p.Name()),
			fmt.Sprintf("field %s is initialised from parameter %s (negated=%v): option wired to the wrong switch", fname, p.Name(), neg))
	})
	c.Floor("R-wiring", n, 7)
}

func describeFlag(fl string) string {
	if fl == "" {
		return "a value that is not a flag"
	}
	return "the value of flag -" + fl
}

func derefStruct(t types.Type) *types.Struct {
	if p, ok := t.Underlying().(*types.Pointer); ok {
		t = p.Elem()
	}
	s, _ := t.Underlying().(*types.Struct)
	return s
}

// ---------------------------------------------------------------------------
// R-open-flags: the destination is opened for writing, created and truncated.

func openFlags(c *Check, r *Repo) {
	n := 0
	for _, f := range r.allFuncs("") {
		if !strings.HasSuffix(r.Fset.Position(f.Pos()).Filename, "/main.go") {
			continue
		}
		instrsOf(f, func(in ssa.Instruction) {
			cl, ok := in.(*ssa.Call)
			if ok && calleeName(cl) == "os.Create" {
				// os.Create is OpenFile(name, O_RDWR|O_CREATE|O_TRUNC, 0666)
				n++
				c.OK("R-open-flags", fnName(f)+"/os.Create", r.pos(cl.Pos()), "os.Create opens read-write, creates and truncates")
				return
			}
			if !ok || calleeName(cl) != "os.OpenFile" {
				return
			}
			n++
			k, ok := cl.Call.Args[1].(*ssa.Const)
			if !ok || k.Value == nil {
				c.Und("R-open-flags", fnName(f)+"/os.OpenFile", r.pos(cl.Pos()), "open flags are not a constant")
				return
			}
			v, _ := constant.Int64Val(k.Value)
			const oWRONLY, oRDWR, oCREATE, oTRUNC, oAPPEND = 0x1, 0x2, 0x40, 0x200, 0x400
			okk := (v&oWRONLY != 0 || v&oRDWR != 0) && v&oCREATE != 0 && v&oTRUNC != 0 && v&oAPPEND == 0
			c.Decide(okk, "R-open-flags", fnName(f)+"/os.OpenFile", r.pos(cl.Pos()),
				fmt.Sprintf("flags %#x: write mode, O_CREATE, O_TRUNC, no O_APPEND", v),
				fmt.Sprintf("flags %#x: the destination is not opened create+truncate for writing, so a previous longer file would leave a stale tail / the parser is not written", v))
		})
	}
	c.Floor("R-open-flags", n, 1)
}

// exitsOnNonNil: inside g, parameter p is nil-tested and every path from the
// non-nil edge exits the process before g returns.
func exitsOnNonNil(g *ssa.Function, p *ssa.Parameter, noret map[*ssa.Function]bool) bool {
	checks := nilChecksOf(p)
	if len(checks) == 0 {
		return false
	}
	for _, nc := range checks {
		if pathToReturn(nc.NonNil, noret, nil) != nil {
			return false
		}
	}
	// and the first thing done with p is such a test: no path from entry to a return avoids the test while p may be non-nil
	for _, nc := range checks {
		if nc.If.Block() == g.Blocks[0] {
			return true
		}
	}
	return false
}

// storedErrorGetter: a function of the repository whose error result is made
// of values loaded from its receiver's fields only (as they are, or joined with
// errors.Join) — an accessor, not an operation that can fail.
func storedErrorGetter(g *ssa.Function) bool {
	if len(g.Blocks) == 0 || g.Signature.Recv() == nil || len(g.Params) != 1 {
		return false
	}
	res := g.Signature.Results()
	if res.Len() != 1 || !isErrorType(res.At(0).Type()) {
		return false
	}
	recv := g.Params[0]
	var fromFields func(v ssa.Value, seen map[ssa.Value]bool) bool
	fromFields = func(v ssa.Value, seen map[ssa.Value]bool) bool {
		if seen[v] {
			return true
		}
		seen[v] = true
		switch x := v.(type) {
		case *ssa.Const:
			return x.IsNil()
		case *ssa.UnOp:
			if x.Op == token.MUL {
				if fa, ok := x.X.(*ssa.FieldAddr); ok && fa.X == ssa.Value(recv) {
					return true
				}
			}
			return false
		case *ssa.Slice:
			return fromFields(x.X, seen)
		case *ssa.Phi:
			for _, e := range x.Edges {
				if !fromFields(e, seen) {
					return false
				}
			}
			return true
		case *ssa.Call:
			if calleeName(x) == "errors.Join" {
				for _, a := range x.Call.Args {
					if !fromFields(a, seen) {
						return false
					}
				}
				return true
			}
			return false
		case *ssa.MakeInterface:
			return fromFields(x.X, seen)
		case *ssa.ChangeType:
			return fromFields(x.X, seen)
		}
		return false
	}
	ok := true
	nret := 0
	instrsOf(g, func(in ssa.Instruction) {
		if ret, isRet := in.(*ssa.Return); isRet && len(ret.Results) == 1 {
			nret++
			if !fromFields(ret.Results[0], map[ssa.Value]bool{}) {
				ok = false
			}
		}
	})
	// and it calls nothing that can fail
	instrsOf(g, func(in ssa.Instruction) {
		if call, isCall := in.(ssa.CallInstruction); isCall {
			if n := calleeName(call); n != "errors.Join" && n != "builtin.len" {
				ok = false
			}
		}
	})
	return ok && nret > 0
}
