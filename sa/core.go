package main

// Core plumbing shared by every rule: obligations, verdicts, known findings,
// replay files and evidence files (DESIGN.md §3).

import (
	"encoding/json"
	"fmt"
	"os"
	"path/filepath"
	"sort"
	"strings"
	"time"
	"unicode/utf8"
)

type Verdict int

const (
	Discharged Verdict = iota
	Violated
	Undecided
)

func (v Verdict) String() string {
	switch v {
	case Discharged:
		return "discharged"
	case Violated:
		return "VIOLATED"
	}
	return "UNDECIDED"
}

// Obligation is one decided instance of a rule. Key = Rule|Construct and never
// contains a line number; Pos is for diagnosis only.
type Obligation struct {
	Rule       string  `json:"rule"`
	Construct  string  `json:"construct"`
	Pos        string  `json:"pos,omitempty"`
	Verdict    Verdict `json:"-"`
	VerdictS   string  `json:"verdict"`
	Detail     string  `json:"detail,omitempty"`
	Nontrivial bool    `json:"nontrivial"`
	Witness    string  `json:"witness,omitempty"` // what was examined (paths, sites, stores)
	Replay     string  `json:"-"`                 // long text kept for the replay file only
}

func (o *Obligation) Key() string { return o.Rule + "|" + o.Construct }

// Check accumulates the obligations of one property run.
type Check struct {
	ID        string
	Tier      string
	Seed      int64
	start     time.Time
	Obls      []*Obligation
	Analysed  map[string][]string // category -> items (functions, configs, cases…)
	Floors    map[string][2]int   // rule -> {found, floor}
	Explain   string
	Assume    []string
	Trusted   []string
	seenKeys  map[string]bool
	extraCov  map[string]any
	onlyKey   string
	verifRoot string
}

func NewCheck(id, tier string) *Check {
	seed := int64(0)
	if s := os.Getenv("VERIF_SEED"); s != "" {
		fmt.Sscan(s, &seed)
	}
	return &Check{ID: id, Tier: tier, Seed: seed, start: time.Now(),
		Analysed: map[string][]string{}, Floors: map[string][2]int{},
		seenKeys: map[string]bool{}, extraCov: map[string]any{}, verifRoot: verifRoot()}
}

func verifRoot() string {
	if v := os.Getenv("PEGSA_VERIF"); v != "" {
		return v
	}
	return "/verif"
}

func repoRoot() string {
	if v := os.Getenv("PEGSA_REPO"); v != "" {
		return v
	}
	return "/repo"
}

func (c *Check) add(o *Obligation) *Obligation {
	if c.onlyKey != "" && o.Key() != c.onlyKey {
		return o
	}
	k := o.Key()
	if c.seenKeys[k] {
		// keys must be unique; disambiguate deterministically
		for i := 2; ; i++ {
			k2 := fmt.Sprintf("%s#%d", o.Construct, i)
			if !c.seenKeys[o.Rule+"|"+k2] {
				o.Construct = k2
				break
			}
		}
	}
	c.seenKeys[o.Key()] = true
	o.VerdictS = o.Verdict.String()
	c.Obls = append(c.Obls, o)
	return o
}

// OK / Bad / Und are the three ways a rule reports an instance.
func (c *Check) OK(rule, construct, pos, witness string) *Obligation {
	return c.add(&Obligation{Rule: rule, Construct: construct, Pos: pos, Verdict: Discharged, Witness: witness, Nontrivial: witness != ""})
}
func (c *Check) Bad(rule, construct, pos, detail string) *Obligation {
	return c.add(&Obligation{Rule: rule, Construct: construct, Pos: pos, Verdict: Violated, Detail: detail, Nontrivial: true})
}
func (c *Check) Und(rule, construct, pos, detail string) *Obligation {
	return c.add(&Obligation{Rule: rule, Construct: construct, Pos: pos, Verdict: Undecided, Detail: detail, Nontrivial: true})
}

// Decide is a convenience: ok ? OK : Bad.
func (c *Check) Decide(ok bool, rule, construct, pos, witness, detail string) *Obligation {
	if ok {
		return c.OK(rule, construct, pos, witness)
	}
	return c.Bad(rule, construct, pos, detail)
}

func (c *Check) Note(cat, item string) {
	for _, x := range c.Analysed[cat] {
		if x == item {
			return
		}
	}
	c.Analysed[cat] = append(c.Analysed[cat], item)
}

// Floor records the instance floor of a rule; fewer instances than confirmed
// by reading the pinned tree means the rule would pass vacuously: undecided.
func (c *Check) Floor(rule string, found, floor int) {
	c.Floors[rule] = [2]int{found, floor}
	if found < floor {
		c.Und(rule, "instance-floor", "", fmt.Sprintf("found %d instances, floor is %d (anchor moved or rule no longer matches; the checker needs maintenance)", found, floor))
	}
}

// ---------------------------------------------------------------------------
// known findings

type knownFinding struct {
	Property string `json:"property"`
	Key      string `json:"key"`  // rule|construct
	What     string `json:"what"` // human description: the failing input / site
	// Instances: the failing inputs (model names) this finding is about. The obligation is the
	// known finding only while every failing part of its report names one of them: another input
	// failing under the same rule is a new violation.
	Instances []string `json:"instances"`
}

type knownFile struct {
	Findings []knownFinding `json:"findings"`
	Fixed    []string       `json:"fixed"`
}

func loadKnown(root string) knownFile {
	var k knownFile
	b, err := os.ReadFile(filepath.Join(root, "known_findings.json"))
	if err != nil {
		return k
	}
	if err := json.Unmarshal(b, &k); err != nil {
		fmt.Fprintf(os.Stderr, "known_findings.json: %v\n", err)
		os.Exit(2)
	}
	return k
}

// ---------------------------------------------------------------------------
// finishing: print, replay files, evidence, exit code

func (c *Check) Finish() int {
	known := loadKnown(c.verifRoot)
	isKnown := func(o *Obligation) *knownFinding {
		for i := range known.Findings {
			f := &known.Findings[i]
			if f.Property == c.ID && f.Key == o.Key() {
				if len(f.Instances) == 0 {
					return f
				}
				all := true
				for _, part := range strings.Split(o.Detail, " || ") {
					covered := false
					for _, inst := range f.Instances {
						if strings.Contains(part, inst) {
							covered = true
						}
					}
					if !covered {
						all = false
					}
				}
				if all {
					return f
				}
			}
		}
		return nil
	}
	sort.SliceStable(c.Obls, func(i, j int) bool { return c.Obls[i].Key() < c.Obls[j].Key() })

	evDir := filepath.Join(c.verifRoot, "evidence")
	if v := os.Getenv("PEGSA_EVIDENCE"); v != "" {
		evDir = v // self-tests on scratch copies must not overwrite the real evidence
	}
	rpDir := filepath.Join(evDir, "replay")
	os.MkdirAll(rpDir, 0o755)
	// remove stale replay files of this property
	if old, _ := filepath.Glob(filepath.Join(rpDir, c.ID+"-*.json")); old != nil {
		for _, f := range old {
			os.Remove(f)
		}
	}

	nDis, nViol, nUnd, nKnown := 0, 0, 0, 0
	distinct := map[string]bool{}
	var violLines []string
	for _, o := range c.Obls {
		if o.Nontrivial {
			distinct[o.Key()] = true
		}
		switch o.Verdict {
		case Discharged:
			nDis++
			fmt.Printf("  ok    %-24s %-60s %s\n", o.Rule, o.Construct, o.Pos)
		default:
			if o.Verdict == Violated {
				if f := isKnown(o); f != nil {
					nKnown++
					fmt.Printf("  known %-24s %-60s %s\n        %s\n", o.Rule, o.Construct, o.Pos, o.Detail)
					fmt.Printf("KNOWN-FINDING: property=%s %s :: %s\n", c.ID, o.Key(), f.What)
					continue
				}
				nViol++
			} else {
				nUnd++
			}
			fmt.Printf("  %-5s %-24s %-60s %s\n        %s\n", map[Verdict]string{Violated: "FAIL", Undecided: "UNDEC"}[o.Verdict], o.Rule, o.Construct, o.Pos, clip(o.Detail, 1500))
			name := fmt.Sprintf("%s-%03d.json", c.ID, nViol+nUnd)
			path := filepath.Join(rpDir, name)
			rp := map[string]any{
				"property": c.ID, "rule": o.Rule, "construct": o.Construct, "pos": o.Pos,
				"verdict": o.Verdict.String(), "detail": o.Detail, "witness": o.Witness, "replay_text": o.Replay,
				"redecide_cmd": fmt.Sprintf("./check %s --only %q", c.ID, o.Key()),
			}
			if o.Verdict == Undecided {
				rp["undecided"] = o.Detail
			}
			b, _ := json.MarshalIndent(rp, "", " ")
			os.WriteFile(path, b, 0o644)
			violLines = append(violLines, fmt.Sprintf("VIOLATION property=%s replay=%s", c.ID, path))
		}
	}

	// evidence
	samples := []any{}
	step := 1
	if len(c.Obls) > 12 {
		step = len(c.Obls) / 12
	}
	for i := 0; i < len(c.Obls); i += step {
		o := c.Obls[i]
		samples = append(samples, map[string]string{"obligation": o.Key(), "pos": o.Pos, "verdict": o.Verdict.String(), "detail": o.Detail, "witness": clip(o.Witness, 400)})
	}
	for _, o := range c.Obls { // always show non-discharged ones
		if o.Verdict != Discharged && len(samples) < 40 {
			samples = append(samples, map[string]string{"obligation": o.Key(), "pos": o.Pos, "verdict": o.Verdict.String(), "detail": clip(o.Detail, 600)})
		}
	}
	floors := map[string]any{}
	for r, f := range c.Floors {
		floors[r] = map[string]int{"found": f[0], "floor": f[1]}
	}
	perRule := map[string]int{}
	for _, o := range c.Obls {
		perRule[o.Rule]++
	}
	cov := map[string]any{
		"explanation":          c.Explain,
		"evaluations":          len(c.Obls),
		"distinct_nontrivial":  len(distinct),
		"rule":                 "one obligation per (rule, resolved construct) instance found in /repo's current source; non-trivial = its decision examined at least one CFG path, call site, store or instantiated fragment (witness non-empty) or it was violated/undecided",
		"obligations":          len(c.Obls),
		"discharged":           nDis,
		"violated_known":       nKnown,
		"violated_new":         nViol,
		"undecided":            nUnd,
		"samples":              samples,
		"analysed":             c.Analysed,
		"instance_floors":      floors,
		"obligations_per_rule": perRule,
		"checker_cmd":          fmt.Sprintf("./check %s --tier %s", c.ID, c.Tier),
		"trusted_base":         c.Trusted,
		"exhaustive":           true,
	}
	for k, v := range c.extraCov {
		cov[k] = v
	}
	ev := map[string]any{
		"property_id": c.ID, "tier": c.Tier, "seed": c.Seed, "level": "other",
		"coverage": cov, "assumptions": c.Assume,
		"wall_s": time.Since(c.start).Seconds(), "violations": nViol + nUnd,
	}
	b, _ := json.MarshalIndent(ev, "", " ")
	if c.onlyKey == "" {
		if err := os.WriteFile(filepath.Join(evDir, c.ID+".json"), b, 0o644); err != nil {
			fmt.Fprintln(os.Stderr, "cannot write evidence:", err)
			return 2
		}
	}
	fmt.Printf("%s [%s]: %d obligations, %d discharged, %d known findings, %d violated, %d undecided (%.1fs)\n",
		c.ID, c.Tier, len(c.Obls), nDis, nKnown, nViol, nUnd, time.Since(c.start).Seconds())
	for _, l := range violLines {
		fmt.Println(l)
	}
	if nViol+nUnd > 0 {
		return 1
	}
	if len(c.Obls) == 0 {
		fmt.Printf("VIOLATION property=%s replay=%s\n", c.ID, "none (no obligations were generated: vacuous run)")
		return 1
	}
	return 0
}

func clip(s string, n int) string {
	if len(s) <= n {
		return s
	}
	for n > 0 && !utf8.RuneStart(s[n]) {
		n--
	}
	return s[:n] + "…"
}

func joinSorted(m map[string]bool) string {
	var ks []string
	for k := range m {
		ks = append(ks, k)
	}
	sort.Strings(ks)
	return strings.Join(ks, ", ")
}
