package main

// Pure standard-library functions the emitter (or the builder/link code) may
// use on concrete strings and integers: bridged by reflection so that an
// innocent refactoring (strings.ReplaceAll, strconv.Itoa, …) does not make the
// interpreter refuse the code. Only side-effect-free functions are listed.

import (
	"fmt"
	"path"
	"path/filepath"
	"reflect"
	"slices"
	"strconv"
	"strings"
	"unicode"
	"unicode/utf8"
)

var pureFuncs = map[string]any{
	"strings.ReplaceAll": strings.ReplaceAll, "strings.Replace": strings.Replace, "strings.ToLower": strings.ToLower, "strings.ToUpper": strings.ToUpper,
	"strings.TrimSpace": strings.TrimSpace, "strings.TrimPrefix": strings.TrimPrefix, "strings.TrimSuffix": strings.TrimSuffix, "strings.Trim": strings.Trim,
	"strings.TrimLeft": strings.TrimLeft, "strings.TrimRight": strings.TrimRight, "strings.HasPrefix": strings.HasPrefix, "strings.HasSuffix": strings.HasSuffix,
	"strings.Contains": strings.Contains, "strings.ContainsRune": strings.ContainsRune, "strings.ContainsAny": strings.ContainsAny, "strings.Index": strings.Index,
	"strings.IndexByte": strings.IndexByte, "strings.IndexRune": strings.IndexRune, "strings.LastIndex": strings.LastIndex, "strings.Repeat": strings.Repeat,
	"strings.Join": strings.Join, "strings.Split": strings.Split, "strings.Fields": strings.Fields, "strings.Cut": strings.Cut, "strings.CutPrefix": strings.CutPrefix, "strings.CutSuffix": strings.CutSuffix, "strings.EqualFold": strings.EqualFold,
	"strings.Count": strings.Count, "strings.Compare": strings.Compare, "strings.Title": strings.ToTitle,
	"strconv.Itoa": strconv.Itoa, "strconv.QuoteRune": strconv.QuoteRune, "strconv.QuoteToASCII": strconv.QuoteToASCII, "strconv.Unquote": strconv.Unquote,
	"strconv.ParseInt": strconv.ParseInt, "strconv.ParseUint": strconv.ParseUint, "strconv.FormatInt": strconv.FormatInt, "strconv.Atoi": strconv.Atoi,
	"strconv.QuoteRuneToASCII": strconv.QuoteRuneToASCII, "strconv.FormatBool": strconv.FormatBool,
	"unicode.IsPrint": unicode.IsPrint, "unicode.IsLetter": unicode.IsLetter, "unicode.IsDigit": unicode.IsDigit, "unicode.IsSpace": unicode.IsSpace,
	"unicode.IsUpper": unicode.IsUpper, "unicode.IsLower": unicode.IsLower, "unicode.ToUpper": unicode.ToUpper, "unicode.ToLower": unicode.ToLower,
	"unicode.IsControl": unicode.IsControl, "unicode.IsGraphic": unicode.IsGraphic,
	"unicode/utf8.RuneCountInString": utf8.RuneCountInString, "unicode/utf8.RuneLen": utf8.RuneLen, "unicode/utf8.ValidString": utf8.ValidString,
	"unicode/utf8.ValidRune": utf8.ValidRune, "unicode/utf8.DecodeRuneInString": utf8.DecodeRuneInString, "unicode/utf8.DecodeLastRuneInString": utf8.DecodeLastRuneInString,
	"unicode/utf8.FullRuneInString": utf8.FullRuneInString, "unicode/utf8.RuneStart": utf8.RuneStart,
	"strconv.Quote": strconv.Quote, "strconv.IsPrint": strconv.IsPrint, "strconv.IsGraphic": strconv.IsGraphic, "strconv.CanBackquote": strconv.CanBackquote,
	"strconv.QuoteToGraphic": strconv.QuoteToGraphic, "strconv.QuoteRuneToGraphic": strconv.QuoteRuneToGraphic,
	"strings.IndexAny": strings.IndexAny, "strings.ToValidUTF8": strings.ToValidUTF8,
	"unicode.IsPunct": unicode.IsPunct, "unicode.IsSymbol": unicode.IsSymbol, "unicode.IsMark": unicode.IsMark, "unicode.IsNumber": unicode.IsNumber,
	"fmt.Sprint":         fmt.Sprint,
	"path/filepath.Base": filepath.Base, "path/filepath.Dir": filepath.Dir, "path/filepath.Ext": filepath.Ext, "path/filepath.Clean": filepath.Clean, "path/filepath.ToSlash": filepath.ToSlash,
	"path.Base": path.Base, "path.Dir": path.Dir, "path.Ext": path.Ext, "path.Clean": path.Clean,
}

func init() {
	_ = slices.Sort[[]string]
}

func (it *Interp) callPure(name string, args []Value) ([]Value, bool) {
	fn, ok := pureFuncs[name]
	if !ok {
		return nil, false
	}
	fv := reflect.ValueOf(fn)
	ft := fv.Type()
	var in []reflect.Value
	for i, a := range args {
		var pt reflect.Type
		if ft.IsVariadic() && i >= ft.NumIn()-1 {
			pt = ft.In(ft.NumIn() - 1).Elem()
		} else if i < ft.NumIn() {
			pt = ft.In(i)
		} else {
			panic(undecided{"too many arguments for " + name})
		}
		in = append(in, it.toReflect(name, a, pt))
	}
	out := fv.Call(in)
	var res []Value
	for _, o := range out {
		res = append(res, fromReflect(o))
	}
	return res, true
}

func (it *Interp) toReflect(name string, a Value, pt reflect.Type) reflect.Value {
	switch pt.Kind() {
	case reflect.String:
		if s, ok := a.(string); ok {
			return reflect.ValueOf(s)
		}
	case reflect.Bool:
		if b, ok := a.(bool); ok {
			return reflect.ValueOf(b)
		}
	case reflect.Int, reflect.Int8, reflect.Int16, reflect.Int32, reflect.Int64, reflect.Uint, reflect.Uint8, reflect.Uint16, reflect.Uint32, reflect.Uint64:
		if i, ok := a.(int64); ok {
			return reflect.ValueOf(i).Convert(pt)
		}
	case reflect.Slice:
		if s, ok := a.(*SliceV); ok {
			out := reflect.MakeSlice(pt, 0, lenOf(s))
			if s != nil {
				for _, e := range s.elems {
					out = reflect.Append(out, it.toReflect(name, e, pt.Elem()))
				}
			}
			return out
		}
		if _, ok := a.(Nil); ok {
			return reflect.Zero(pt)
		}
	case reflect.Interface:
		return reflect.ValueOf(it.goValue(a))
	}
	panic(undecided{fmt.Sprintf("argument %s of library function %s is not a concrete value", describe(a), name)})
}

func fromReflect(o reflect.Value) Value {
	switch o.Kind() {
	case reflect.String:
		return o.String()
	case reflect.Bool:
		return o.Bool()
	case reflect.Int, reflect.Int8, reflect.Int16, reflect.Int32, reflect.Int64:
		return o.Int()
	case reflect.Uint, reflect.Uint8, reflect.Uint16, reflect.Uint32, reflect.Uint64:
		return int64(o.Uint())
	case reflect.Slice:
		s := &SliceV{elems: []Value{}}
		for i := 0; i < o.Len(); i++ {
			s.elems = append(s.elems, fromReflect(o.Index(i)))
		}
		return s
	case reflect.Interface:
		if o.IsNil() {
			return Nil{}
		}
		if e, ok := o.Interface().(error); ok {
			return &Ext{"error: " + e.Error()}
		}
	}
	return &Unknown{"library result of kind " + o.Kind().String()}
}
