package main

// Interprocedural mod/ref summaries over go/ssa with a field-based,
// object-insensitive location abstraction (DESIGN §4 C09, §7 "no pointer
// analysis"). Locations:
//
//	F:<pkg.Type.field>   a struct field (every object of the type conflated;
//	                     the elements of a map/slice held in a field are
//	                     conflated with the field)
//	V:<func.var>         a captured local variable (identified by its Alloc)
//	G:<pkg.var>          a package-level variable
//	P:<i>                what parameter i points to / holds (summary-relative)
//	U:<why>              unknown (forces a conservative verdict)
//
// Locals that do not escape the function (plain Allocs, make/new results) are
// dropped. Function values are accounted lexically: a function's summary
// includes the summaries of the closures it creates, so a callee invoking a
// func-typed parameter (iter.Seq yield, slices.ContainsFunc predicate) is
// covered by the summary of whoever created the closure, which is always an
// included function; func values of any other origin are U.

import (
	"fmt"
	"os"
	"go/token"
	"go/types"
	"sort"
	"strings"

	"golang.org/x/tools/go/ssa"
)

type effSet map[string]token.Pos // location -> one sample position

type effects struct {
	R, W effSet
}

func newEffects() *effects { return &effects{effSet{}, effSet{}} }

func (e *effects) addR(l string, p token.Pos) bool { return addEff(e.R, l, p) }
func (e *effects) addW(l string, p token.Pos) bool { return addEff(e.W, l, p) }

func addEff(s effSet, l string, p token.Pos) bool {
	if l == "" || l == "L" {
		return false
	}
	if _, ok := s[l]; ok {
		return false
	}
	s[l] = p
	return true
}

type effAnalysis struct {
	r       *Repo
	sum     map[*ssa.Function]*effects
	spawns  map[*ssa.Function][]spawnSite
	inScope func(*ssa.Function) bool
	changed bool
	all     []*ssa.Function                         // every analysed function
	callers map[*ssa.Function][]ssa.CallInstruction // static call sites, built on demand
}

type spawnSite struct {
	In      ssa.Instruction
	Fn      *ssa.Function   // spawned closure/function
	More    []*ssa.Function // further functions the spawned value may be (several call sites of a helper)
	Closure *ssa.MakeClosure
	Group   ssa.Value // the WaitGroup receiver, nil for a bare go statement
}

func newEffAnalysis(r *Repo) *effAnalysis {
	return &effAnalysis{r: r, sum: map[*ssa.Function]*effects{}, spawns: map[*ssa.Function][]spawnSite{},
		inScope: func(f *ssa.Function) bool {
			p := f.Pkg
			if p == nil && f.Origin() != nil {
				p = f.Origin().Pkg
			}
			for q := f; p == nil && q != nil; q = q.Parent() {
				p = q.Pkg
			}
			return p != nil && strings.HasPrefix(p.Pkg.Path(), modPath) && len(f.Blocks) > 0
		}}
}

// rootAlloc resolves a FreeVar to the Alloc (or outer value) it is bound to.
func rootBinding(fv *ssa.FreeVar) ssa.Value {
	fn := fv.Parent()
	idx := -1
	for i, v := range fn.FreeVars {
		if v == fv {
			idx = i
		}
	}
	par := fn.Parent()
	if par == nil || idx < 0 {
		return fv
	}
	var out ssa.Value = fv
	instrsOf(par, func(in ssa.Instruction) {
		if mc, ok := in.(*ssa.MakeClosure); ok && mc.Fn == fn && idx < len(mc.Bindings) {
			out = mc.Bindings[idx]
		}
	})
	if ofv, ok := out.(*ssa.FreeVar); ok && ofv != fv {
		return rootBinding(ofv)
	}
	return out
}

func isCaptured(a *ssa.Alloc) bool {
	if !a.Heap {
		return false
	}
	for _, r := range *a.Referrers() {
		if _, ok := r.(*ssa.MakeClosure); ok {
			return true
		}
	}
	return false
}

func varLoc(a *ssa.Alloc) string {
	return "V:" + fnName(a.Parent()) + "." + a.Comment
}

func fieldLoc(xt types.Type, idx int) string {
	if p, ok := xt.Underlying().(*types.Pointer); ok {
		xt = p.Elem()
	}
	name := types.TypeString(xt, func(p *types.Package) string { return p.Name() })
	if st, ok := xt.Underlying().(*types.Struct); ok {
		return "F:" + name + "." + st.Field(idx).Name()
	}
	return "F:" + name + fmt.Sprintf(".#%d", idx)
}

// locs gives the abstract locations a pointer/container value denotes.
func (a *effAnalysis) locs(v ssa.Value, seen map[ssa.Value]bool) []string {
	if seen[v] {
		return nil
	}
	seen[v] = true
	switch x := v.(type) {
	case *ssa.FieldAddr:
		return []string{fieldLoc(x.X.Type(), x.Field)}
	case *ssa.Field:
		return []string{fieldLoc(x.X.Type(), x.Field)}
	case *ssa.IndexAddr:
		return a.locs(x.X, seen)
	case *ssa.Index:
		return a.locs(x.X, seen)
	case *ssa.UnOp:
		if x.Op == token.MUL {
			return a.locs(x.X, seen)
		}
		return nil
	case *ssa.Slice:
		return a.locs(x.X, seen)
	case *ssa.Alloc:
		if isCaptured(x) {
			return []string{varLoc(x)}
		}
		return []string{"L"}
	case *ssa.FreeVar:
		rb := rootBinding(x)
		if al, ok := rb.(*ssa.Alloc); ok {
			return []string{varLoc(al)}
		}
		if rb != ssa.Value(x) {
			return a.locs(rb, seen)
		}
		return []string{"U:freevar " + x.Name()}
	case *ssa.Global:
		return []string{"G:" + x.Pkg.Pkg.Name() + "." + x.Name()}
	case *ssa.Parameter:
		for i, p := range x.Parent().Params {
			if p == x {
				return []string{fmt.Sprintf("P:%d", i)}
			}
		}
	case *ssa.Phi:
		var out []string
		for _, e := range x.Edges {
			out = append(out, a.locs(e, seen)...)
		}
		return out
	case *ssa.MakeSlice, *ssa.MakeMap, *ssa.MakeChan:
		return []string{"L"}
	case *ssa.MakeInterface:
		return a.locs(x.X, seen)
	case *ssa.ChangeType:
		return a.locs(x.X, seen)
	case *ssa.Convert:
		return a.locs(x.X, seen)
	case *ssa.ChangeInterface:
		return a.locs(x.X, seen)
	case *ssa.TypeAssert:
		return a.locs(x.X, seen)
	case *ssa.Extract:
		return a.locs(x.Tuple, seen)
	case *ssa.Lookup:
		return a.locs(x.X, seen)
	case *ssa.Next:
		return a.locs(x.Iter, seen)
	case *ssa.Range:
		return a.locs(x.X, seen)
	case *ssa.Const, *ssa.Function, *ssa.Builtin, *ssa.MakeClosure, *ssa.BinOp:
		return nil
	case *ssa.Call:
		if b, ok := x.Call.Value.(*ssa.Builtin); ok {
			switch b.Name() {
			case "append":
				// the result is the first operand's storage or a fresh array
				return append(a.locs(x.Call.Args[0], seen), "L")
			case "min", "max", "len", "cap", "real", "imag", "complex":
				return nil
			}
			return []string{"L"}
		}
		if f := x.Call.StaticCallee(); f != nil {
			n := calleeName(x)
			if freshReturning[n] {
				return []string{"L"}
			}
			if a.inScope(f) {
				return []string{"RET:" + fnName(f)}
			}
			return []string{"L"} // results of other library calls are not module state
		}
		return []string{"U:result of dynamic call"}
	}
	return nil
}

var freshReturning = map[string]bool{
	"slices.Collect": true, "slices.Clone": true, "slices.Concat": true, "strings.Split": true, "fmt.Sprintf": true,
	"fmt.Errorf": true, "strconv.Quote": true, "strings.Join": true, "slices.Backward": true,
	"slices.Values": true, "slices.All": true, "slices.Sorted": true, "slices.SortedFunc": true, "maps.Keys": true, "maps.Values": true,
}

// library calls: which pointer-like arguments may be written.
func libWritesArg(name string, i int) bool {
	switch {
	case strings.HasPrefix(name, "slices.Sort"), name == "slices.Reverse", strings.HasPrefix(name, "sort."),
		name == "slices.AppendSeq", name == "slices.Insert", name == "slices.Delete", name == "slices.Compact", name == "slices.CompactFunc":
		return i == 0
	case strings.HasPrefix(name, "fmt.Fprint"), strings.HasPrefix(name, "fmt.Fscan"):
		return i == 0
	case strings.HasPrefix(name, "fmt."), strings.HasPrefix(name, "strings."), strings.HasPrefix(name, "strconv."),
		strings.HasPrefix(name, "slices."), strings.HasPrefix(name, "unicode."), strings.HasPrefix(name, "math."),
		strings.HasPrefix(name, "errors."), strings.HasPrefix(name, "maps."), strings.HasPrefix(name, "iter."),
		strings.HasPrefix(name, "(*sync.WaitGroup)."), strings.HasPrefix(name, "utf8."), strings.HasPrefix(name, "unicode/utf8."):
		return false
	}
	return true // unknown library function: assume it writes what it is given
}

func (a *effAnalysis) summary(f *ssa.Function) *effects {
	if e := a.sum[f]; e != nil {
		return e
	}
	e := newEffects()
	a.sum[f] = e
	return e
}

// run computes summaries for all in-scope functions reachable from roots.
func (a *effAnalysis) run(roots []*ssa.Function) {
	work := map[*ssa.Function]bool{}
	var order []*ssa.Function
	var reach func(f *ssa.Function)
	reach = func(f *ssa.Function) {
		if f == nil || work[f] || !a.inScope(f) {
			return
		}
		work[f] = true
		order = append(order, f)
		instrsOf(f, func(in ssa.Instruction) {
			switch x := in.(type) {
			case ssa.CallInstruction:
				if g := x.Common().StaticCallee(); g != nil {
					reach(g)
				}
			case *ssa.MakeClosure:
				reach(x.Fn.(*ssa.Function))
			}
			for _, op := range in.Operands(nil) {
				if op != nil && *op != nil {
					if g, ok := (*op).(*ssa.Function); ok {
						reach(g)
					}
				}
			}
		})
	}
	for _, r := range roots {
		reach(r)
	}
	a.all = order
	for iter := 0; iter < 50; iter++ {
		a.changed = false
		for _, f := range order {
			a.analyse(f)
		}
		if !a.changed {
			break
		}
	}
}

func (a *effAnalysis) analyse(f *ssa.Function) {
	e := a.summary(f)
	a.spawns[f] = a.spawns[f][:0]
	instrsOf(f, func(in ssa.Instruction) { a.instrEff(f, in, e, true) })
}

// instrEff adds the effects of one instruction to e.
func (a *effAnalysis) instrEff(f *ssa.Function, in ssa.Instruction, e *effects, record bool) {
	R := func(v ssa.Value, p token.Pos) {
		for _, l := range a.locs(v, map[ssa.Value]bool{}) {
			if e.addR(l, p) {
				a.changed = true
			}
		}
	}
	W := func(v ssa.Value, p token.Pos) {
		for _, l := range a.locs(v, map[ssa.Value]bool{}) {
			if e.addW(l, p) {
				a.changed = true
			}
		}
	}
	inst := func(g *ssa.Function, args []ssa.Value, p token.Pos) {
		se := a.summary(g)
		apply := func(src effSet, write bool) {
			callPos := p
			for l, orig := range src {
				p := callPos
				if orig.IsValid() {
					p = orig // keep the position of the actual access for diagnosis
				}
				if strings.HasPrefix(l, "P:") {
					var i int
					fmt.Sscanf(l, "P:%d", &i)
					if i < len(args) {
						if write {
							W(args[i], p)
						} else {
							R(args[i], p)
						}
					} else if write {
						// closure created here and invoked elsewhere with arguments we do not
						// see: a direct write through its parameter is conservatively unknown
						if e.addW("U:write through parameter of closure "+fnName(g), p) {
							a.changed = true
						}
					}
					continue
				}
				if write {
					if e.addW(l, p) {
						a.changed = true
					}
				} else if e.addR(l, p) {
					a.changed = true
				}
			}
		}
		apply(se.R, false)
		apply(se.W, true)
	}
	{
		p := in.Pos()
		switch x := in.(type) {
		case *ssa.Store:
			W(x.Addr, p)
		case *ssa.UnOp:
			if x.Op == token.MUL {
				R(x.X, p)
			}
		case *ssa.Field:
			R(x, p)
		case *ssa.MapUpdate:
			W(x.Map, p)
		case *ssa.Lookup:
			R(x.X, p)
		case *ssa.Index:
			R(x.X, p)
		case *ssa.Range:
			R(x.X, p)
		case *ssa.MakeClosure:
			inst(x.Fn.(*ssa.Function), nil, p) // lexical accounting
		case ssa.CallInstruction:
			cc := x.Common()
			if p == token.NoPos {
				p = cc.Pos()
			}
			if _, isGo := in.(*ssa.Go); isGo {
				if record {
					a.recordSpawn(f, in, cc.Value, nil)
				}
			}
			if cc.IsInvoke() {
				// interface method call: effects unknown unless the interface is a library one
				tn := cc.Value.Type().String()
				if !(tn == "error" || strings.HasPrefix(tn, "io.") || strings.HasPrefix(tn, "fmt.")) {
					if e.addW("U:invoke "+tn+"."+cc.Method.Name(), p) {
						a.changed = true
					}
				}
				return
			}
			if b, ok := cc.Value.(*ssa.Builtin); ok {
				switch b.Name() {
				case "append":
					W(cc.Args[0], p)
					if len(cc.Args) > 1 {
						R(cc.Args[1], p)
					}
				case "copy":
					W(cc.Args[0], p)
					R(cc.Args[1], p)
				case "delete", "clear":
					W(cc.Args[0], p)
				}
				return
			}
			if g := cc.StaticCallee(); g != nil {
				name := calleeName(x)
				if name == "(*sync.WaitGroup).Go" && len(cc.Args) == 2 {
					if record {
						a.recordSpawn(f, in, cc.Args[1], cc.Args[0])
					}
				}
				if a.inScope(g) {
					inst(g, cc.Args, p)
					return
				}
				for i, arg := range cc.Args {
					if !pointerLike(arg.Type()) {
						continue
					}
					R(arg, p)
					if libWritesArg(name, i) {
						W(arg, p)
					}
				}
				return
			}
			// dynamic call through a function value
			switch cv := cc.Value.(type) {
			case *ssa.MakeClosure:
				inst(cv.Fn.(*ssa.Function), cc.Args, p)
			case *ssa.Parameter, *ssa.FreeVar:
				// a func-typed parameter of a function all of whose call sites are seen (a helper
				// that runs the functions it is given): the functions passed there
				if fns := a.funcValues(cc.Value, map[ssa.Value]bool{}); len(fns) > 0 {
					for _, g := range fns {
						inst(g, cc.Args, p)
					}
					return
				}
				// otherwise lexically accounted at the creator (see file comment); the root
				// closures of a fork are checked separately for this case.
				if e.addR("DYN:"+cv.Name(), p) {
					a.changed = true
				}
			default:
				// a func value loaded from a variable: find closures stored into it
				if fns := a.funcValues(cc.Value, map[ssa.Value]bool{}); fns != nil {
					for _, g := range fns {
						inst(g, cc.Args, p)
					}
				} else if prm := spilledParam(cc.Value); prm != nil {
					// a func-typed parameter captured by an inner closure (spilled to a cell that holds nothing
					// else) and called there: the parameter case above — accounted at the creator
					if e.addR("DYN:"+prm.Name(), p) {
						a.changed = true
					}
				} else if os.Getenv("PEGSA_DEBUG") == "eff" && func() bool {
					fmt.Fprintf(os.Stderr, "unresolved func value %s = %v (%T) in %s\n", cc.Value.Name(), cc.Value, cc.Value, f)
					return false
				}() {
				} else if e.addW("U:call through func value "+cc.Value.Name(), p) {
					a.changed = true
				}
			}
		}
	}
}

// funcValues resolves a func-typed value to the set of functions it may hold
// when it is a load of a local/captured variable that is only ever assigned
// closures/functions; nil when unknown.
func (a *effAnalysis) funcValues(v ssa.Value, seen map[ssa.Value]bool) []*ssa.Function {
	if seen[v] {
		return []*ssa.Function{}
	}
	seen[v] = true
	switch x := v.(type) {
	case *ssa.MakeClosure:
		return []*ssa.Function{unwrapBound(x.Fn.(*ssa.Function))}
	case *ssa.Function:
		return []*ssa.Function{unwrapBound(x)}
	case *ssa.ChangeType:
		return a.funcValues(x.X, seen)
	case *ssa.Parameter:
		// the values passed at every static call site of the function (none seen: unknown)
		g := x.Parent()
		idx := -1
		for i, p := range g.Params {
			if p == x {
				idx = i
			}
		}
		sites := a.callSites(g)
		if idx < 0 || len(sites) == 0 || a.addressTaken(g) {
			return nil
		}
		var out []*ssa.Function
		for _, cs := range sites {
			args := cs.Common().Args
			if idx >= len(args) {
				return nil
			}
			r := a.funcValues(args[idx], seen)
			if r == nil {
				return nil
			}
			out = append(out, r...)
		}
		return out
	case *ssa.Phi:
		var out []*ssa.Function
		for _, e := range x.Edges {
			r := a.funcValues(e, seen)
			if r == nil {
				return nil
			}
			out = append(out, r...)
		}
		return out
	case *ssa.Call:
		// a function returned by an in-module function: the closures it returns
		g := x.Call.StaticCallee()
		if g == nil || !a.inScope(g) {
			return nil
		}
		out := []*ssa.Function{}
		okAll := true
		instrsOf(g, func(in ssa.Instruction) {
			if ret, ok := in.(*ssa.Return); ok && len(ret.Results) == 1 {
				r := a.funcValues(ret.Results[0], seen)
				if r == nil {
					okAll = false
				}
				out = append(out, r...)
			}
		})
		if !okAll {
			return nil
		}
		return out
	case *ssa.UnOp:
		if x.Op != token.MUL {
			return nil
		}
		var cell ssa.Value = x.X
		if fv, ok := cell.(*ssa.FreeVar); ok {
			cell = rootBinding(fv)
		}
		al, ok := cell.(*ssa.Alloc)
		if !ok {
			return nil
		}
		out := []*ssa.Function{}
		okAll := true
		var scan func(fn *ssa.Function)
		scanned := map[*ssa.Function]bool{}
		scan = func(fn *ssa.Function) {
			if scanned[fn] {
				return
			}
			scanned[fn] = true
			instrsOf(fn, func(in ssa.Instruction) {
				st, ok := in.(*ssa.Store)
				if !ok {
					return
				}
				var tgt ssa.Value = st.Addr
				if fv, ok := tgt.(*ssa.FreeVar); ok {
					tgt = rootBinding(fv)
				}
				if tgt != ssa.Value(al) {
					return
				}
				if k, ok := st.Val.(*ssa.Const); ok && k.IsNil() {
					return
				}
				r := a.funcValues(st.Val, seen)
				if r == nil {
					okAll = false
				}
				out = append(out, r...)
			})
			for _, af := range fn.AnonFuncs {
				scan(af)
			}
		}
		scan(al.Parent())
		if !okAll {
			return nil
		}
		return out
	}
	return nil
}

func (a *effAnalysis) recordSpawn(f *ssa.Function, in ssa.Instruction, fv ssa.Value, group ssa.Value) {
	s := spawnSite{In: in, Group: group}
	switch x := fv.(type) {
	case *ssa.MakeClosure:
		s.Fn = x.Fn.(*ssa.Function)
		s.Closure = x
		if group == nil {
			// the classic idiom: wg.Add(1); go func() { defer wg.Done(); … }() — the
			// group is the captured WaitGroup on which the closure calls Done
			instrsOf(s.Fn, func(i2 ssa.Instruction) {
				var cc *ssa.CallCommon
				switch y := i2.(type) {
				case *ssa.Defer:
					cc = &y.Call
				case *ssa.Call:
					cc = &y.Call
				}
				if cc == nil || cc.StaticCallee() == nil || cc.StaticCallee().String() != "(*sync.WaitGroup).Done" || len(cc.Args) != 1 {
					return
				}
				recv := cc.Args[0]
				for bi, fvar := range s.Fn.FreeVars {
					if recv == ssa.Value(fvar) && bi < len(x.Bindings) {
						s.Group = x.Bindings[bi]
					}
				}
			})
		}
	case *ssa.Function:
		s.Fn = x
	default:
		// a function value received from elsewhere (a parameter of a helper that starts what it is
		// given, a variable): the functions it can hold, when they are all known
		if fns := a.funcValues(fv, map[ssa.Value]bool{}); len(fns) > 0 {
			s.Fn = fns[0]
			s.More = fns[1:]
		}
	}
	a.spawns[f] = append(a.spawns[f], s)
}

func pointerLike(t types.Type) bool {
	switch t.Underlying().(type) {
	case *types.Pointer, *types.Slice, *types.Map, *types.Interface, *types.Signature, *types.Chan:
		return true
	}
	return false
}

func sortedLocs(s effSet) []string {
	var out []string
	for l := range s {
		out = append(out, l)
	}
	sort.Strings(out)
	return out
}

// unwrapBound: a bound-method closure (t.m as a value) runs the method.
func unwrapBound(f *ssa.Function) *ssa.Function {
	if f == nil || f.Synthetic == "" || len(f.Blocks) == 0 {
		return f
	}
	var callee *ssa.Function
	n := 0
	instrsOf(f, func(in ssa.Instruction) {
		if c, ok := in.(ssa.CallInstruction); ok {
			n++
			callee = c.Common().StaticCallee()
		}
	})
	if n == 1 && callee != nil {
		return callee
	}
	return f
}

// callSites: the static calls of g (or of the generic function it instantiates) in the analysed functions.
func (a *effAnalysis) callSites(g *ssa.Function) []ssa.CallInstruction {
	if a.callers == nil {
		a.callers = map[*ssa.Function][]ssa.CallInstruction{}
		for _, f := range a.all {
			instrsOf(f, func(in ssa.Instruction) {
				if c, ok := in.(ssa.CallInstruction); ok {
					if callee := c.Common().StaticCallee(); callee != nil {
						a.callers[callee] = append(a.callers[callee], c)
					}
				}
			})
		}
	}
	return a.callers[g]
}

// addressTaken: g is used as a value somewhere (then its static call sites are not all its calls).
func (a *effAnalysis) addressTaken(g *ssa.Function) bool {
	taken := false
	for _, f := range a.all {
		instrsOf(f, func(in ssa.Instruction) {
			for _, op := range in.Operands(nil) {
				if op == nil || *op == nil || *op != ssa.Value(g) {
					continue
				}
				if c, ok := in.(ssa.CallInstruction); ok && c.Common().Value == ssa.Value(g) {
					// the callee position of a static call
					isArg := false
					for _, arg := range c.Common().Args {
						if arg == ssa.Value(g) {
							isArg = true
						}
					}
					if !isArg {
						continue
					}
				}
				taken = true
			}
		})
	}
	return taken
}


// spilledParam: v is a load of a captured cell whose only store is a parameter
// of the function that owns the cell (the parameter was captured by a closure).
func spilledParam(v ssa.Value) *ssa.Parameter {
	u, ok := v.(*ssa.UnOp)
	if !ok || u.Op != token.MUL {
		return nil
	}
	var cell ssa.Value = u.X
	if fv, ok := cell.(*ssa.FreeVar); ok {
		cell = rootBinding(fv)
	}
	al, ok := cell.(*ssa.Alloc)
	if !ok {
		return nil
	}
	var prm *ssa.Parameter
	n := 0
	var scan func(fn *ssa.Function)
	scan = func(fn *ssa.Function) {
		instrsOf(fn, func(in ssa.Instruction) {
			st, ok := in.(*ssa.Store)
			if !ok {
				return
			}
			var tgt ssa.Value = st.Addr
			if fv, ok := tgt.(*ssa.FreeVar); ok {
				tgt = rootBinding(fv)
			}
			if tgt != ssa.Value(al) {
				return
			}
			n++
			if p, ok := st.Val.(*ssa.Parameter); ok && p.Parent() == al.Parent() {
				prm = p
			}
		})
		for _, af := range fn.AnonFuncs {
			scan(af)
		}
	}
	scan(al.Parent())
	if n == 1 {
		return prm
	}
	return nil
}
