package main

// Loading /repo's current working tree: type-checked syntax + SSA of the four
// packages that build offline. Any type error is a check failure (§2).

import (
	"fmt"
	"go/ast"
	"go/token"
	"go/types"
	"os"
	"path/filepath"
	"strings"
	"sync"

	"golang.org/x/tools/go/packages"
	"golang.org/x/tools/go/ssa"
	"golang.org/x/tools/go/ssa/ssautil"
)

const modPath = "github.com/pointlander/peg"

type Repo struct {
	Root  string
	Fset  *token.FileSet
	Pkgs  map[string]*packages.Package // by import path
	Prog  *ssa.Program
	SSA   map[string]*ssa.Package
	Std   map[string]*types.Package // every transitively loaded package (importer for instantiations)
	Errs  []string
	NPkgs int
}

var (
	repoOnce sync.Once
	theRepo  *Repo
)

func loadRepo() *Repo {
	repoOnce.Do(func() {
		os.Unsetenv("GOWORK")
		root := repoRoot()
		fset := token.NewFileSet()
		cfg := &packages.Config{Mode: packages.LoadAllSyntax, Dir: root, Fset: fset, Tests: false,
			Env: append(os.Environ(), "GOWORK=off", "GOFLAGS=-mod=mod")}
		// extra std packages needed to type-check template instantiations
		pkgs, err := packages.Load(cfg, ".", "./tree", "./set", "./bootstrap", "bytes", "fmt", "io", "os", "slices", "strconv", "sort", "strings", "math", "unicode")
		r := &Repo{Root: root, Fset: fset, Pkgs: map[string]*packages.Package{}, SSA: map[string]*ssa.Package{}, Std: map[string]*types.Package{}}
		if err != nil {
			r.Errs = append(r.Errs, err.Error())
			theRepo = r
			return
		}
		packages.Visit(pkgs, nil, func(p *packages.Package) {
			if p.Types != nil {
				r.Std[p.PkgPath] = p.Types
			}
			if strings.HasPrefix(p.PkgPath, modPath) {
				r.Pkgs[p.PkgPath] = p
				r.NPkgs++
				for _, e := range p.Errors {
					r.Errs = append(r.Errs, e.Error())
				}
			}
		})
		prog, _ := ssautil.AllPackages(pkgs, ssa.InstantiateGenerics)
		prog.Build()
		r.Prog = prog
		for path, p := range r.Pkgs {
			r.SSA[path] = prog.Package(p.Types)
		}
		theRepo = r
	})
	return theRepo
}

// mustRepo loads the repo and turns load problems into an undecided obligation.
func mustRepo(c *Check) *Repo {
	r := loadRepo()
	if len(r.Errs) > 0 {
		c.Und("R-load", "packages", "", "load/type errors in /repo: "+strings.Join(r.Errs, "; "))
		return nil
	}
	if r.NPkgs < 4 {
		c.Und("R-load", "packages", "", fmt.Sprintf("only %d module packages loaded, need ., ./tree, ./set, ./bootstrap", r.NPkgs))
		return nil
	}
	for p := range r.Pkgs {
		c.Note("packages", p)
	}
	return r
}

func (r *Repo) pos(p token.Pos) string {
	if !p.IsValid() {
		return ""
	}
	ps := r.Fset.Position(p)
	rel, err := filepath.Rel(r.Root, ps.Filename)
	if err != nil {
		rel = ps.Filename
	}
	return fmt.Sprintf("%s:%d", rel, ps.Line)
}

func (r *Repo) pkg(sub string) *packages.Package {
	if sub == "" {
		return r.Pkgs[modPath]
	}
	return r.Pkgs[modPath+"/"+sub]
}

// funcDecl finds a top-level function or method ("Name" or "Recv.Name").
func (r *Repo) funcDecl(sub, name string) (*ast.FuncDecl, *packages.Package) {
	p := r.pkg(sub)
	if p == nil {
		return nil, nil
	}
	recv, fn := "", name
	if i := strings.Index(name, "."); i >= 0 {
		recv, fn = name[:i], name[i+1:]
	}
	for _, f := range p.Syntax {
		for _, d := range f.Decls {
			fd, ok := d.(*ast.FuncDecl)
			if !ok || fd.Name.Name != fn {
				continue
			}
			if recv == "" && fd.Recv == nil {
				return fd, p
			}
			if recv != "" && fd.Recv != nil && len(fd.Recv.List) == 1 && recvTypeName(fd.Recv.List[0].Type) == recv {
				return fd, p
			}
		}
	}
	return nil, p
}

func recvTypeName(e ast.Expr) string {
	switch t := e.(type) {
	case *ast.StarExpr:
		return recvTypeName(t.X)
	case *ast.Ident:
		return t.Name
	case *ast.IndexExpr:
		return recvTypeName(t.X)
	case *ast.IndexListExpr:
		return recvTypeName(t.X)
	}
	return ""
}

// ssaFunc finds the SSA function for a package-level function or method.
func (r *Repo) ssaFunc(sub, name string) *ssa.Function {
	p := r.pkg(sub)
	if p == nil {
		return nil
	}
	sp := r.SSA[p.PkgPath]
	if sp == nil {
		return nil
	}
	if i := strings.Index(name, "."); i >= 0 {
		recv, fn := name[:i], name[i+1:]
		obj := p.Types.Scope().Lookup(recv)
		if obj == nil {
			return nil
		}
		for _, T := range []types.Type{types.NewPointer(obj.Type()), obj.Type()} {
			ms := r.Prog.MethodSets.MethodSet(T)
			for i := 0; i < ms.Len(); i++ {
				if ms.At(i).Obj().Name() == fn {
					if f := r.Prog.MethodValue(ms.At(i)); f != nil && f.Synthetic == "" {
						return f
					}
				}
			}
		}
		return nil
	}
	return sp.Func(name)
}

// allFuncs returns every source-level function (incl. anonymous) of a package.
func (r *Repo) allFuncs(sub string) []*ssa.Function {
	p := r.pkg(sub)
	if p == nil {
		return nil
	}
	var out []*ssa.Function
	seen := map[*ssa.Function]bool{}
	var addFn func(f *ssa.Function)
	addFn = func(f *ssa.Function) {
		if f == nil || seen[f] {
			return
		}
		seen[f] = true
		out = append(out, f)
		for _, a := range f.AnonFuncs {
			addFn(a)
		}
	}
	for fn := range ssautil.AllFunctions(r.Prog) {
		if fn.Pkg != nil && fn.Pkg.Pkg == p.Types && fn.Synthetic == "" {
			addFn(fn)
		} else if fn.Pkg == nil && fn.Origin() != nil && fn.Origin().Pkg != nil && fn.Origin().Pkg.Pkg == p.Types {
			addFn(fn) // generic instantiation
		}
	}
	return out
}
