package main

// C02 — -inline and -switch never change what the generated parser accepts or records.

import (
	"fmt"
	"math/rand"
	"os"
	"regexp"
	"runtime/debug"
	"sort"
	"strings"
)

// firstOracle: FIRST set and must-consume of a model expression (PEG definition).
func (m *model) firstOracle(n *Obj, visiting map[*Obj]bool) (consumes bool, s *NSet) {
	s = &NSet{}
	if oi := m.oinfo(n); oi != nil {
		if oi.first != nil {
			s = oi.first.copy()
		}
		return oi.consumes, s
	}
	ks := m.kids(n)
	switch m.typeOf(n) {
	case "TypeDot":
		s.add(0, 0x10FFFF)
		return true, s
	case "TypeCharacter", "TypeString":
		r := []rune(m.strOf(n))[0]
		s.add(r, r)
		return true, s
	case "TypeRange":
		s.add([]rune(m.strOf(ks[0]))[0], []rune(m.strOf(ks[1]))[0])
		return true, s
	case "TypeSequence":
		for _, k := range ks {
			c, ks := m.firstOracle(k, visiting)
			s = s.union(ks)
			if c {
				return true, s
			}
		}
		return false, s
	case "TypeAlternate", "TypeUnorderedAlternate":
		all := true
		for _, k := range ks {
			c, ks := m.firstOracle(k, visiting)
			s = s.union(ks)
			all = all && c
		}
		return all, s
	case "TypeQuery", "TypeStar":
		_, ks := m.firstOracle(ks[0], visiting)
		return false, ks
	case "TypePlus", "TypePush", "TypeImplicitPush", "TypeRule":
		return m.firstOracle(ks[0], visiting)
	case "TypeName":
		rule, _ := m.tree.field("Rules").v.(*MapV).m[m.strOf(n)].(*Obj)
		if rule == nil || visiting[rule] {
			return false, s
		}
		visiting[rule] = true
		defer func() { visiting[rule] = false }()
		return m.firstOracle(rule, visiting)
	}
	return false, s // lookahead, predicate, action, nil: consume nothing
}

type swModel struct {
	Name  string
	Hop   string // what the model exercises
	Build func(m *model) int
}

func opq(m *model, first string, consumes bool) *Obj {
	n := m.opaqueChild(true, false)
	oi := m.oinfo(n)
	oi.consumes = consumes
	if first != "" {
		oi.first = &NSet{}
		for _, r := range first {
			oi.first.add(r, r)
		}
	}
	return n
}

func switchSuite() []swModel {
	var s []swModel
	add := func(hop, name string, b func(m *model) *Obj) {
		s = append(s, swModel{Name: name, Hop: hop, Build: func(m *model) int {
			m.addRule("S", b(m), 1)
			return 0
		}})
		// the alternative with the largest class becomes the default; a second variant
		// with a large extra alternative [k-w] makes every other alternative a case
		s = append(s, swModel{Name: name + " / [k-w] e", Hop: hop, Build: func(m *model) int {
			body := b(m)
			if m.typeOf(body) == "TypeAlternate" {
				m.pushBack(body, m.seq(m.rng("k", "w"), m.opaqueChild(true, false)))
			}
			m.addRule("S", body, 1)
			return 0
		}})
	}
	e := func(m *model) *Obj { return m.opaqueChild(true, false) }
	add("case→Character", "'a' e / 'b' e / 'c' e", func(m *model) *Obj {
		return m.alt(m.seq(m.char("a"), e(m)), m.seq(m.char("b"), e(m)), m.seq(m.char("c"), e(m)))
	})
	add("case→Range", "[a-c] e / [x-z] e / 'h' e", func(m *model) *Obj {
		return m.alt(m.seq(m.rng("a", "c"), e(m)), m.seq(m.rng("x", "z"), e(m)), m.seq(m.char("h"), e(m)))
	})
	add("case→opaque child", "e{a} / e{b} / e{c,d}", func(m *model) *Obj {
		return m.alt(opq(m, "a", true), opq(m, "b", true), opq(m, "cd", true))
	})
	add("Sequence→first element", "e{a} e / e{b} e / e{c} e", func(m *model) *Obj {
		return m.alt(m.seq(opq(m, "a", true), e(m)), m.seq(opq(m, "b", true), e(m)), m.seq(opq(m, "c", true), e(m)))
	})
	add("Sequence→nullable first element", "e{a}? 'x' / 'y' e / 'z'", func(m *model) *Obj {
		return m.alt(m.seq(opq(m, "a", false), m.char("x")), m.seq(m.char("y"), e(m)), m.char("z"))
	})
	add("Query→child", "[a-c]? 'x' / [d-j] 'y' / 'z'", func(m *model) *Obj {
		return m.alt(m.seq(m.query(m.rng("a", "c")), m.char("x")), m.seq(m.rng("d", "j"), m.char("y")), m.char("z"))
	})
	add("Query→child", "e{a}? 'x' e / 'y' / 'z'  (opaque under ?)", func(m *model) *Obj {
		return m.alt(m.seq(m.query(opq(m, "a", true)), m.char("x"), e(m)), m.char("y"), m.char("z"))
	})
	add("Star→child", "[a-c]* 'x' / 'y' / 'z'", func(m *model) *Obj {
		return m.alt(m.seq(m.star(m.rng("a", "c")), m.char("x")), m.char("y"), m.char("z"))
	})
	add("Star→child", "'a'* 'a' e / 'y' / 'z'  (single key)", func(m *model) *Obj {
		return m.alt(m.seq(m.star(m.seq(m.char("a"), m.char("q"))), m.char("a"), e(m)), m.char("y"), m.char("z"))
	})
	add("nullable alternative", "'b' / 'c' / 'a'*", func(m *model) *Obj {
		return m.alt(m.char("b"), m.char("c"), m.star(m.char("a")))
	})
	add("nullable alternative", "'b' e / e{a}? / 'c'", func(m *model) *Obj {
		return m.alt(m.seq(m.char("b"), e(m)), m.query(opq(m, "a", true)), m.char("c"))
	})
	add("empty last alternative", "'a' e / 'b' e / (empty)", func(m *model) *Obj {
		return m.alt(m.seq(m.char("a"), e(m)), m.seq(m.char("b"), e(m)), m.nilNode())
	})
	add("Alternate→first alternative", "([a-c] e / 'x' e) 'q' / 'y' / 'z'", func(m *model) *Obj {
		return m.alt(m.seq(m.alt(m.seq(m.rng("a", "c"), e(m)), m.seq(m.char("x"), e(m))), m.char("q")), m.char("y"), m.char("z"))
	})
	add("Alternate→first alternative", "(e{a} / e{b}) 'q' / 'y' / 'z'  (opaque)", func(m *model) *Obj {
		return m.alt(m.seq(m.alt(opq(m, "a", true), opq(m, "b", true)), m.char("q")), m.char("y"), m.char("z"))
	})
	add("nested nullable choice", "('b'? / 'a') 'c' / 'x' / 'y'", func(m *model) *Obj {
		return m.alt(m.seq(m.alt(m.query(m.char("b")), m.char("a")), m.char("c")), m.char("x"), m.char("y"))
	})
	add("PeekNot→child", "!'x' 'a' e / 'b' / 'c'", func(m *model) *Obj {
		return m.alt(m.seq(m.peekNot(m.char("x")), m.char("a"), e(m)), m.char("b"), m.char("c"))
	})
	add("PeekNot→child", "!e{a} 'a' e / 'b' / 'c'  (opaque)", func(m *model) *Obj {
		return m.alt(m.seq(m.peekNot(opq(m, "a", true)), m.char("a"), e(m)), m.char("b"), m.char("c"))
	})
	add("PeekFor→child", "&[a-c] 'b' e / 'x' / 'y'", func(m *model) *Obj {
		return m.alt(m.seq(m.peekFor(m.rng("a", "c")), m.char("b"), e(m)), m.char("x"), m.char("y"))
	})
	add("PeekFor→child", "&'q' 'b' e / 'x' / 'y'  (contradictory lookahead)", func(m *model) *Obj {
		return m.alt(m.seq(m.peekFor(m.char("q")), m.char("b"), e(m)), m.char("x"), m.char("y"))
	})
	add("Push→child", "<'a'> e / <[b-c]> / 'x'", func(m *model) *Obj {
		return m.alt(m.seq(m.push(m.char("a")), e(m)), m.push(m.rng("b", "c")), m.char("x"))
	})
	add("Plus", "'a'+ e / 'b' / 'c'", func(m *model) *Obj {
		return m.alt(m.seq(m.plus(m.char("a")), e(m)), m.char("b"), m.char("c"))
	})
	add("partly ordered", "'a' 'x' / 'a' 'y' / 'b' e / 'c' e / 'd'", func(m *model) *Obj {
		return m.alt(m.seq(m.char("a"), m.char("x")), m.seq(m.char("a"), m.char("y")), m.seq(m.char("b"), e(m)), m.seq(m.char("c"), e(m)), m.char("d"))
	})
	add("partly ordered", "[a-b] e / [b-c] e / [c-d] e / 'x' e / 'y' e / 'z'  (chained overlaps)", func(m *model) *Obj {
		return m.alt(m.seq(m.rng("a", "b"), e(m)), m.seq(m.rng("b", "c"), e(m)), m.seq(m.rng("c", "d"), e(m)), m.seq(m.char("x"), e(m)), m.seq(m.char("y"), e(m)), m.char("z"))
	})
	add("partly ordered", "'x' e / [a-b] e / 'y' e / [b-c] e / [c-d] e / [d-f] e / 'z'  (chain interleaved with disjoint alternatives)", func(m *model) *Obj {
		return m.alt(m.seq(m.char("x"), e(m)), m.seq(m.rng("a", "b"), e(m)), m.seq(m.char("y"), e(m)), m.seq(m.rng("b", "c"), e(m)), m.seq(m.rng("c", "d"), e(m)), m.seq(m.rng("d", "f"), e(m)), m.char("z"))
	})
	add("partly ordered", "[a-c] 'p' / 'x' e / [b-b] 'q' / 'y' e / [c-d] 'r' / 'z'  (first overlaps third and fifth only)", func(m *model) *Obj {
		return m.alt(m.seq(m.rng("a", "c"), m.char("p")), m.seq(m.char("x"), e(m)), m.seq(m.rng("b", "b"), m.char("q")), m.seq(m.char("y"), e(m)), m.seq(m.rng("c", "d"), m.char("r")), m.char("z"))
	})
	add("case ending in a label", "'c' 'd' / 'a' 'b'? () / 'e' 'f'", func(m *model) *Obj {
		return m.alt(m.seq(m.char("c"), m.char("d")), m.seq(m.char("a"), m.query(m.char("b")), m.nilNode()), m.seq(m.char("e"), m.char("f")))
	})
	add("case ending in a label", "'c' 'd' / 'a' (e / 'b') (() ()) / 'e' 'f'  (a parenthesised sequence of empty literals behind the label)", func(m *model) *Obj {
		return m.alt(m.seq(m.char("c"), m.char("d")), m.seq(m.char("a"), m.alt(e(m), m.char("b")), m.seq(m.nilNode(), m.nilNode())), m.seq(m.char("e"), m.char("f")))
	})
	add("case ending in a label", "'c' 'd' / 'a' 'b'? (() (() ())) / 'e' 'f'  (nested twice)", func(m *model) *Obj {
		return m.alt(m.seq(m.char("c"), m.char("d")), m.seq(m.char("a"), m.query(m.char("b")), m.seq(m.nilNode(), m.seq(m.nilNode(), m.nilNode()))), m.seq(m.char("e"), m.char("f")))
	})
	add("case ending in a label", "'c' e / 'a' (e / e) {act} / 'e' e", func(m *model) *Obj {
		return m.alt(m.seq(m.char("c"), e(m)), m.seq(m.char("a"), m.alt(e(m), e(m)), m.action("__act0()")), m.seq(m.char("e"), e(m)))
	})
	add("class across the surrogate block", "'a' 'b' / [\\uD7FE-\\uE001] 'x' / [\\u0100-\\u0A00] 'd'", func(m *model) *Obj {
		return m.alt(m.seq(m.char("a"), m.char("b")), m.seq(m.rng("\ud7fe", "\ue001"), m.char("x")), m.seq(m.rng("\u0100", "\u0a00"), m.char("d")))
	})
	add("class at the last code point", "'\\U0010FFFF' 'x' / 'b' 'y' / 'c' 'z'", func(m *model) *Obj {
		return m.alt(m.seq(m.char("\U0010FFFF"), m.char("x")), m.seq(m.char("b"), m.char("y")), m.seq(m.char("c"), m.char("z")))
	})
	add("class at the last code point", "[\\U0010FFFE-\\U0010FFFF] 'x' / 'b' 'y' / [c-f] 'z'", func(m *model) *Obj {
		return m.alt(m.seq(m.rng("\U0010FFFE", "\U0010FFFF"), m.char("x")), m.seq(m.char("b"), m.char("y")), m.seq(m.rng("c", "f"), m.char("z")))
	})
	add("class at the first code point", "'\\x00' 'x' / [\\x01-\\x02] 'y' / [c-f] 'z'", func(m *model) *Obj {
		return m.alt(m.seq(m.char("\x00"), m.char("x")), m.seq(m.rng("\x01", "\x02"), m.char("y")), m.seq(m.rng("c", "f"), m.char("z")))
	})
	add("alternative that can never match", "[z-a] 'x' / 'b' 'y' / 'c' 'z'  (inverted range)", func(m *model) *Obj {
		return m.alt(m.seq(m.rng("z", "a"), m.char("x")), m.seq(m.char("b"), m.char("y")), m.seq(m.char("c"), m.char("z")))
	})
	add("alternative that can never match", "'b' 'y' / [z-a] e / 'c' 'z' / [q-p]", func(m *model) *Obj {
		return m.alt(m.seq(m.char("b"), m.char("y")), m.seq(m.rng("z", "a"), e(m)), m.seq(m.char("c"), m.char("z")), m.rng("q", "p"))
	})
	// … whose span, read the other way round, is disjoint from every other alternative: a first-set
	// that is too large is harmless for the ordering and fatal for the skipped first test
	add("alternative that can never match", "[w-q] 'y' / 'b' 'y' / 'c' 'z'  (span disjoint from the others)", func(m *model) *Obj {
		return m.alt(m.seq(m.rng("w", "q"), m.char("y")), m.seq(m.char("b"), m.char("y")), m.seq(m.char("c"), m.char("z")))
	})
	add("alternative that can never match", "'b' e / [k-e] / 'c' e / [w-q] e", func(m *model) *Obj {
		return m.alt(m.seq(m.char("b"), e(m)), m.rng("k", "e"), m.seq(m.char("c"), e(m)), m.seq(m.rng("w", "q"), e(m)))
	})
	add("alternative that can never match", "[z-a] / [y-b] / [x-c]  (none can match)", func(m *model) *Obj {
		return m.alt(m.rng("z", "a"), m.rng("y", "b"), m.rng("x", "c"))
	})
	add("alternative that can never match", "[z-a] e / 'b' e / [x-c]  (one case left)", func(m *model) *Obj {
		return m.alt(m.seq(m.rng("z", "a"), e(m)), m.seq(m.char("b"), e(m)), m.rng("x", "c"))
	})
	add("no rewrite (dot intersects)", "'a' e / 'b' e / . e", func(m *model) *Obj {
		return m.alt(m.seq(m.char("a"), e(m)), m.seq(m.char("b"), e(m)), m.seq(m.dot(), e(m)))
	})
	s = append(s, swModel{Name: "A e / 'b' / 'c'  with A <- 'a' (referenced twice)", Hop: "Name→rule", Build: func(m *model) int {
		m.addRule("S", m.alt(m.seq(m.name("A"), m.opaqueChild(true, false)), m.char("b"), m.char("c")), 1)
		m.addRule("A", m.char("a"), 2)
		return 0
	}})
	s = append(s, swModel{Name: "A e / 'b' / 'c'  with A <- [a-a] 'q'? (referenced once)", Hop: "Name→rule (inlined under -inline)", Build: func(m *model) int {
		m.addRule("S", m.alt(m.seq(m.name("A"), m.opaqueChild(true, false)), m.char("b"), m.char("c")), 1)
		m.addRule("A", m.seq(m.rng("a", "a"), m.query(m.char("q"))), 1)
		return 0
	}})
	s = append(s, swModel{Name: "'a' e / B e / 'c' e  with B <- [k-e] (referenced once: inlined under -inline)", Hop: "alternative that can never match", Build: func(m *model) int {
		m.addRule("S", m.alt(m.seq(m.char("a"), m.opaqueChild(true, false)), m.seq(m.name("B"), m.opaqueChild(true, false)), m.seq(m.char("c"), m.opaqueChild(true, false))), 1)
		m.addRule("B", m.rng("k", "e"), 1)
		return 0
	}})
	s = append(s, swModel{Name: "'a' e / B e / 'c' e  with B <- [k-e] 'x' (referenced twice)", Hop: "alternative that can never match", Build: func(m *model) int {
		m.addRule("S", m.alt(m.seq(m.char("a"), m.opaqueChild(true, false)), m.seq(m.name("B"), m.opaqueChild(true, false)), m.seq(m.char("c"), m.opaqueChild(true, false))), 1)
		m.addRule("B", m.seq(m.rng("k", "e"), m.char("x")), 2)
		return 0
	}})
	// recursion: the first-set of a rule that is still being computed comes from the first pass
	s = append(s, swModel{Name: "Inner <- 'b' / Item / 'c' / 'd'  inside Item <- '(' Inner ')' / 'b' 'x'  (choice behind a consuming element of a recursive rule)", Hop: "recursive rules", Build: func(m *model) int {
		m.addRule("S", m.name("Item"), 1)
		m.addRule("Item", m.alt(m.seq(m.char("("), m.name("Inner"), m.char(")")), m.seq(m.char("b"), m.char("x"))), 2)
		m.addRule("Inner", m.alt(m.char("b"), m.name("Item"), m.char("c"), m.char("d")), 2)
		return 2
	}})
	s = append(s, swModel{Name: "Y <- X / 'z' / 'x' 'q'  with P <- 'x' X ; X <- P 'a' / 'y' Y  (the first-set of X depends on P, which is in progress when X is first computed)", Hop: "recursive rules", Build: func(m *model) int {
		m.addRule("P", m.seq(m.char("x"), m.name("X")), 2)
		m.addRule("X", m.alt(m.seq(m.name("P"), m.char("a")), m.seq(m.char("y"), m.name("Y"))), 2)
		m.addRule("Y", m.alt(m.name("X"), m.char("z"), m.seq(m.char("x"), m.char("q"))), 1)
		return 2
	}})
	s = append(s, swModel{Name: "Z <- W 'z' / 'u' 'o' / 'x'  with U <- 'u' V ; V <- U 'v' / 'q' W / 'e' ; W <- V 'w' / 'r' Z / 'f'  (a chain of three rules each first reached while its predecessor is in progress)", Hop: "recursive rules", Build: func(m *model) int {
		m.addRule("U", m.seq(m.char("u"), m.name("V")), 2)
		m.addRule("V", m.alt(m.seq(m.name("U"), m.char("v")), m.seq(m.char("q"), m.name("W")), m.char("e")), 2)
		m.addRule("W", m.alt(m.seq(m.name("V"), m.char("w")), m.seq(m.char("r"), m.name("Z")), m.char("f")), 2)
		m.addRule("Z", m.alt(m.seq(m.name("W"), m.char("z")), m.seq(m.char("u"), m.char("o")), m.char("x")), 2)
		return 3
	}})
	s = append(s, swModel{Name: "Z5 <- R4 'z' / 'a' 'o' / 'x'  behind a chain of five such rules", Hop: "recursive rules", Build: func(m *model) int {
		m.addRule("R0", m.seq(m.char("a"), m.name("R1")), 2)
		for i := 1; i <= 4; i++ {
			prev, next := fmt.Sprintf("R%d", i-1), fmt.Sprintf("R%d", i+1)
			if i == 4 {
				next = "Z5"
			}
			m.addRule(fmt.Sprintf("R%d", i), m.alt(m.seq(m.name(prev), m.char(string(rune('b'+i)))), m.seq(m.char(string(rune('k'+i))), m.name(next)), m.char(string(rune('p'+i)))), 2)
		}
		m.addRule("Z5", m.alt(m.seq(m.name("R4"), m.char("z")), m.seq(m.char("a"), m.char("o")), m.char("x")), 2)
		return 5
	}})
	s = append(s, swModel{Name: "List <- 'a' Tail ; Tail <- ',' List / ';' / List / 'e'  (mutual recursion, overlapping through the recursion)", Hop: "recursive rules", Build: func(m *model) int {
		m.addRule("S", m.name("List"), 1)
		m.addRule("List", m.seq(m.char("a"), m.name("Tail")), 3)
		m.addRule("Tail", m.alt(m.seq(m.char(","), m.name("List")), m.char(";"), m.name("List"), m.char("e"), m.seq(m.char("a"), m.char("z"))), 2)
		return 2
	}})
	s = append(s, swModel{Name: "choice inside a rule referenced from a choice", Hop: "nested rules", Build: func(m *model) int {
		m.addRule("S", m.alt(m.seq(m.name("A"), m.opaqueChild(true, false)), m.char("x"), m.char("y")), 1)
		m.addRule("A", m.alt(m.seq(m.char("a"), m.opaqueChild(true, false)), m.seq(m.char("b"), m.opaqueChild(true, false)), m.char("c")), 2)
		return 1
	}})
	return s
}

// projEquiv: what must be equal between the optimised and the plain parser:
// verdict, consumed prefix and recorded tokens (attempts that fail are allowed to differ).
func projEquivRaw(o outcome) string {
	if o.Kind == "memo" {
		return ""
	}
	var ev []string
	for _, e := range o.Hist {
		if strings.HasSuffix(e, ":ok") || strings.HasPrefix(e, "__act") || strings.HasPrefix(e, "text=") || strings.HasSuffix(e, ":true") || strings.HasPrefix(e, "__st") {
			ev = append(ev, e)
		}
	}
	s := fmt.Sprintf("return %s at position %s with tokens %s after successes [%s]", o.Kind, o.Pos, o.Tok, strings.Join(ev, " ; "))
	s = reLoop.ReplaceAllString(s, "loop")
	return renumberLoops(rePD.ReplaceAllString(s, "$1"))
}

var reLoopTag = regexp.MustCompile(`([IJ]|loop\()(\d+)`)

// renumberLoops numbers repetition invariants in order of appearance: the plain
// and the switched parser meet different (failed) repetitions on the way.
func renumberLoops(s string) string {
	m := map[string]string{}
	return reLoopTag.ReplaceAllStringFunc(s, func(x string) string {
		sub := reLoopTag.FindStringSubmatch(x)
		if _, ok := m[sub[2]]; !ok {
			m[sub[2]] = fmt.Sprint(len(m) + 1)
		}
		return sub[1] + m[sub[2]]
	})
}

// expandRunes turns one outcome whose advance terms carry sets of possible
// runes (A{a,b}(P)) into one outcome per concrete choice, so that two parsers
// that split the input space differently are compared by what they accept.
func expandRunes(s string) []string {
	i := strings.Index(s, "A{")
	if i < 0 {
		return []string{s}
	}
	j := strings.IndexByte(s[i:], '}')
	if j < 0 {
		return []string{s}
	}
	term := s[i : i+j+1] // A{a,b}
	members := strings.Split(s[i+2:i+j], ",")
	// the position the set belongs to is the argument that follows; identical
	// (set, argument) occurrences denote the same rune: replace them together
	end := i + j + 1
	depth := 0
	k := end
	for ; k < len(s); k++ {
		if s[k] == '(' {
			depth++
		} else if s[k] == ')' {
			depth--
			if depth == 0 {
				break
			}
		}
	}
	if k >= len(s) {
		return []string{s}
	}
	full := s[i : k+1]
	arg := s[end : k+1]
	_ = term
	var out []string
	for _, m := range members {
		r := strings.ReplaceAll(s, full, "A<"+m+">"+arg)
		out = append(out, expandRunes(r)...)
		if len(out) > 4000 {
			break
		}
	}
	return out
}

func projEquivMulti(o outcome) []string {
	p := projEquivRaw(o)
	if p == "" {
		return nil
	}
	return expandRunes(p)
}

type swResult struct {
	Spec     swModel
	Opts     modelOpts
	TV       *templateVerdict
	Rewrote  bool
	FirstBad []string
	Err      string
}

func runSwitchSuite(r *Repo, specs []swModel, optSets []modelOpts) ([]*swResult, []string) {
	rg := findRegion(r)
	if len(rg.problems) > 0 {
		return nil, rg.problems
	}
	sb := findSwitchBlock(r)
	if len(sb.problems) > 0 {
		return nil, sb.problems
	}
	ti := loadTemplate(r)
	if ti.Err != nil {
		return nil, []string{ti.Err.Error()}
	}
	var out []*swResult
	for _, o := range optSets {
		for _, sp := range specs {
			out = append(out, &swResult{Spec: sp, Opts: o})
		}
	}
	parallel(len(out), func(i int) {
		sr := out[i]
		defer func() {
			if p := recover(); p != nil {
				sr.Err = fmt.Sprint(p)
				if u, ok := p.(undecided); ok {
					sr.Err = u.msg
				} else if os.Getenv("PEGSA_DEBUG") != "" {
					fmt.Fprintf(os.Stderr, "panic in %s: %v\n%s\n", sr.Spec.Name, p, debug.Stack())
				}
			}
		}()
		// the twin without -switch is the reference
		it0 := newInterp(r)
		m0 := newModel(it0, modelOpts{Ast: sr.Opts.Ast, Inline: sr.Opts.Inline})
		ri := sr.Spec.Build(m0)
		m0.addRule("Aux", m0.char("µ"), 2)
		m0.finish()
		it1 := newInterp(r)
		m1 := newModel(it1, sr.Opts)
		sr.Spec.Build(m1)
		m1.addRule("Aux", m1.char("µ"), 2)
		m1.finish()
		if sr.Opts.Switch {
			before := m1.dump(m1.rules[ri], 0, map[*Obj]bool{})
			// the PEG definition of (must-consume, FIRST) for every node, taken before anything is
			// rewritten; what the closure answers for a node the LAST time it is asked is what the
			// rewriting pass works with (earlier rounds may be estimates for rules still in progress)
			type fo struct {
				c    bool
				s    *NSet
				desc string
			}
			oracle := map[*Obj]fo{}
			var pre func(n *Obj, d int)
			seenPre := map[*Obj]bool{}
			pre = func(n *Obj, d int) {
				if n == nil || seenPre[n] || d > 40 {
					return
				}
				seenPre[n] = true
				if oc, os := m1.firstOracleSafe(n); os != nil {
					oracle[n] = fo{oc, os, m1.describeNode(n)}
				}
				for _, k := range m1.kids(n) {
					pre(k, d+1)
				}
			}
			for _, rl := range m1.rules {
				pre(rl, 0)
			}
			type obs struct {
				c bool
				s *NSet
			}
			last := map[*Obj]obs{}
			var order []*Obj
			if e := m1.applySwitch(r, sb, func(n *Obj, c bool, s *NSet) {
				if _, seen := last[n]; !seen {
					order = append(order, n)
				}
				last[n] = obs{c, s.copy()}
			}); e != "" {
				sr.Err = "optimizeAlternates not evaluable: " + e
				return
			}
			for _, n := range order {
				o, ok := oracle[n]
				if !ok {
					continue
				}
				got := last[n]
				if got.c && !o.c {
					sr.FirstBad = append(sr.FirstBad, fmt.Sprintf("%s is reported as must-consume although it can succeed without consuming", o.desc))
				}
				if !o.s.subsetOf(got.s) {
					sr.FirstBad = append(sr.FirstBad, fmt.Sprintf("FIRST(%s) is computed as %s but the expression can start with %s", o.desc, setDesc(got.s), setDesc(o.s)))
				}
			}
			sr.Rewrote = before != m1.dump(m1.rules[ri], 0, map[*Obj]bool{})
			if os.Getenv("PEGSA_DEBUG") != "" && strings.Contains(sr.Spec.Name, os.Getenv("PEGSA_DEBUG")) {
				fmt.Fprintf(os.Stderr, "MODEL %s [%s]\n before: %s\n after:  %s\n", sr.Spec.Name, optsName(sr.Opts), before, m1.dump(m1.rules[ri], 0, map[*Obj]bool{}))
			}
		}
		m1.twin = m0
		sr.TV = checkModelAgainst(r, ti, rg, m1, m0, ri, sr.Spec.Name+" ["+optsName(sr.Opts)+"]")
	})
	return out, nil
}

func setDesc(s *NSet) string {
	if s.len() > 12 {
		return fmt.Sprintf("{%d runes}", s.len())
	}
	var p []string
	for _, r := range s.members() {
		p = append(p, string(r))
	}
	return "{" + strings.Join(p, ",") + "}"
}

func (m *model) describeNode(n *Obj) string {
	if oi := m.oinfo(n); oi != nil {
		return fmt.Sprintf("e%d", oi.idx)
	}
	return strings.TrimPrefix(m.typeOf(n), "Type") + " " + clip(m.dump(n, 5, map[*Obj]bool{}), 80)
}

// firstOracleSafe: the oracle only speaks about trees before the rewrite (first pass).
func (m *model) firstOracleSafe(n *Obj) (bool, *NSet) {
	if m.typeOf(n) == "TypeUnorderedAlternate" {
		return false, nil
	}
	has := false
	var walk func(x *Obj, d int)
	walk = func(x *Obj, d int) {
		if d > 12 || x == nil {
			return
		}
		if m.typeOf(x) == "TypeUnorderedAlternate" {
			has = true
		}
		for _, k := range m.kids(x) {
			if m.typeOf(k) != "TypeRule" {
				walk(k, d+1)
			}
		}
	}
	walk(n, 0)
	if has {
		return false, nil
	}
	return m.firstOracle(n, map[*Obj]bool{})
}

func checkC02(c *Check) {
	c.Explain = "Decides the soundness conditions of the two optimisations on model grammars with opaque children (E1/E2/E3 pipeline). For -switch the source of optimizeAlternates itself is evaluated on each model (FIRST sets as mathematical sets; opaque children answer with their declared FIRST/must-consume), then the emitter is evaluated on the rewritten tree and the emitted rule function is analysed; its set of (verdict, consumed prefix, recorded tokens, successful child attempts) must equal that of the PEG oracle evaluated on the *unrewritten* twin: this covers the rewrite guard (R-rewrite: only alternatives with pairwise disjoint FIRST sets that must consume may become unordered cases), the skipped first test (R-skip: the ParentDetect flag may reach a terminal or an opaque child only where buffer[position] is still the tested rune and every rune of the case class is accepted by it), and label parity (the instantiation type-checks). R-first compares every (must-consume, FIRST) pair the closure returns with the PEG definition (an over-approximate set is accepted). R-inline: under -inline the same models and the core suite equal the oracle in which a rule referenced exactly once is replaced by its body, and no emitted call reaches a nil table entry. All for {AST,-noast}. Nothing is compared by running two parsers. Not decided: the effect on grammars that are not well formed."
	c.Assume = []string{"assumptions of C01", "an opaque child with declared FIRST set F and must-consume fails when buffer[position] ∉ F", "package set computes unions, intersections and membership of code-point sets correctly (its arithmetic is value-level: C16 does not decide it, and a wrong interval merge inside set.AddRange is outside this check — see seeded change C02-1)"}
	c.Trusted = []string{"interp.go, e2.go, spec.go, setmodel.go", "go/types, go/cfg", "text/template/parse"}
	r := mustRepo(c)
	if r == nil {
		return
	}
	wholeSemantics(c, r, "R-whole-semantics", modelOpts{Ast: true, Inline: true})
	wholeSemantics(c, r, "R-whole-semantics", modelOpts{Ast: true, Switch: true})
	optSets := []modelOpts{{Ast: true, Switch: true}, {Ast: true, Switch: true, Inline: true}}
	if c.Tier == "thorough" {
		optSets = append(optSets, modelOpts{Ast: false, Switch: true}, modelOpts{Ast: false, Switch: true, Inline: true})
	}
	swSpecs := switchSuite()
	nRand := 40
	if c.Tier == "thorough" {
		nRand = 400
	}
	swSpecs = append(swSpecs, randomSwitchModels(c.Seed+3, nRand)...)
	swSpecs = append(swSpecs, overlapModels(c.Seed+5, nRand*2, c.Tier == "thorough")...)
	rs, probs := runSwitchSuite(r, swSpecs, optSets)
	for _, p := range probs {
		c.Und("R-anchor", "tree.(*Tree).Compile/-switch block", "", p)
	}
	if rs != nil {
		hops := map[string][]*swResult{}
		var order []string
		for _, sr := range rs {
			if _, ok := hops[sr.Spec.Hop]; !ok {
				order = append(order, sr.Spec.Hop)
			}
			hops[sr.Spec.Hop] = append(hops[sr.Spec.Hop], sr)
		}
		sort.Strings(order)
		nRewrote := 0
		for _, hop := range order {
			var bad, und, first []string
			var replay strings.Builder
			for _, sr := range hops[hop] {
				name := sr.Spec.Name + " [" + optsName(sr.Opts) + "]"
				c.Note("models", name)
				if sr.Err != "" {
					und = append(und, name+": "+sr.Err)
					continue
				}
				if sr.Rewrote {
					nRewrote++
				}
				first = append(first, sr.FirstBad...)
				tv := sr.TV
				if tv.Skipped != "" {
					continue
				}
				if tv.EmitErr != "" {
					und = append(und, name+": emitter not evaluable: "+tv.EmitErr)
					continue
				}
				var msgs []string
				if len(tv.TypeErrs) > 0 {
					msgs = append(msgs, "generated code does not compile: "+clip(strings.Join(tv.TypeErrs[:min(2, len(tv.TypeErrs))], " | "), 300))
				} else if len(tv.Und) > 0 {
					und = append(und, name+": "+strings.Join(tv.Und[:min(2, len(tv.Und))], " | "))
					continue
				} else {
					missing, extra := tv.project(projEquivRaw)
					for i, x := range extra {
						if i >= 2 {
							msgs = append(msgs, fmt.Sprintf("(+%d more)", len(extra)-2))
							break
						}
						msgs = append(msgs, "with -switch the parser can "+x+" — the plain parser cannot")
					}
					for i, x := range missing {
						if i >= 2 {
							msgs = append(msgs, fmt.Sprintf("(+%d more)", len(missing)-2))
							break
						}
						msgs = append(msgs, "the plain parser can "+x+" — with -switch it cannot")
					}
					for _, f := range tv.Flags {
						msgs = append(msgs, f)
					}
				}
				if tv.em != nil && tv.em.labelParity() != "" {
					msgs = append(msgs, "label parity: "+tv.em.labelParity())
				}
				if len(msgs) > 0 {
					bad = append(bad, name+": "+strings.Join(msgs, "; "))
					replay.WriteString(tv.replay())
				}
			}
			construct := "-switch/" + hop
			switch {
			case len(bad) > 0:
				o := c.Bad("R-switch-equivalence", construct, "", clip(strings.Join(bad, " || "), 1800))
				o.Replay = replay.String()
			case len(und) > 0:
				c.Und("R-switch-equivalence", construct, "", clip(strings.Join(und, " || "), 1200))
			default:
				c.OK("R-switch-equivalence", construct, "", fmt.Sprintf("%d model×option run(s): verdict, consumed prefix, tokens and successful attempts equal the plain parser's; instantiation type-checks; label parity holds", len(hops[hop])))
			}
			if len(first) > 0 {
				c.Bad("R-first", construct, "", clip(strings.Join(uniq(first), " || "), 1500))
			} else if len(und) == 0 {
				c.OK("R-first", construct, "", "every (must-consume, FIRST) pair returned by the FIRST-set closure on these models is sound w.r.t. the PEG definition")
			}
		}
		c.Floor("R-switch-equivalence", len(rs), 80)
		if nRewrote < 10 {
			c.Und("R-switch-equivalence", "rewrite floor", "", fmt.Sprintf("only %d models were actually rewritten into a switch (expected ≥10): the rewrite no longer fires on the catalogue", nRewrote))
		}
	}
	// R-inline
	inl, probs2 := runSuite(r, append(tokenSuite(), inlineSuite()...), []modelOpts{{Ast: true, Inline: true}, {Ast: false, Inline: true}})
	for _, p := range probs2 {
		c.Und("R-anchor", "tree.(*Tree).Compile/emission region", "", p)
	}
	if inl != nil {
		reportSuite(c, "R-inline", inl, projNoast, "with -inline: equal to the oracle in which a rule referenced exactly once is replaced by its body (same token)", func(sr *suiteResult) []string {
			var out []string
			for _, f := range sr.TV.Flags {
				if strings.Contains(f, "nil entry") {
					out = append(out, f)
				}
			}
			return out
		})
		c.Floor("R-inline", len(inl), 100)
	}
}

func inlineSuite() []modelSpec {
	var s []modelSpec
	s = append(s, modelSpec{Op: "TypeName", Name: "rule referenced once (inlined)", Build: func(m *model) int {
		m.addRule("S", m.seq(m.name("A"), m.opaqueChild(true, false)), 1)
		m.addRule("A", m.alt(m.opaqueChild(true, false), m.opaqueChild(true, false)), 1)
		return 0
	}})
	s = append(s, modelSpec{Op: "TypeName", Name: "rule referenced once inside a repetition", Build: func(m *model) int {
		m.addRule("S", m.star(m.seq(m.name("A"), m.opaqueChild(true, false))), 1)
		m.addRule("A", m.seq(m.push(m.opaqueChild(true, false)), m.action("__act0()")), 1)
		return 0
	}})
	s = append(s, modelSpec{Op: "TypeName", Name: "chain of rules each referenced once", Build: func(m *model) int {
		m.addRule("S", m.seq(m.name("A"), m.opaqueChild(true, false)), 1)
		m.addRule("A", m.seq(m.opaqueChild(true, false), m.query(m.name("B"))), 1)
		m.addRule("B", m.plus(m.opaqueChild(true, false)), 1)
		return 0
	}})
	s = append(s, modelSpec{Op: "TypeName", Name: "rule referenced twice is not inlined", Build: func(m *model) int {
		m.addRule("S", m.seq(m.name("A"), m.name("A")), 1)
		m.addRule("A", m.alt(m.opaqueChild(true, false), m.opaqueChild(true, false)), 2)
		return 0
	}})
	s = append(s, modelSpec{Op: "TypeName", Name: "first rule referenced once from another rule", Build: func(m *model) int {
		m.addRule("S", m.seq(m.opaqueChild(true, false), m.query(m.name("A"))), 2) // the start visit counts as one reference
		m.addRule("A", m.seq(m.opaqueChild(true, false), m.query(m.name("S"))), 1)
		return 0
	}})
	return s
}

// randomSwitchModels: choices of 3–5 alternatives, each starting with its own
// letter group in one of a dozen shapes (so that FIRST sets are mostly
// disjoint and the rewrite fires), drawn with a seed.
// overlapModels: choices whose alternatives start with ranges that may overlap
// (chains, stars, nested, equal), interleaved with disjoint ones. Alternative j
// is range followed by j optional 't', so two alternatives that both accept an
// input consume different prefixes: which of them the parser prefers is
// visible in the outcome (opaque children cannot show a priority inversion —
// as sets of possible outcomes 'e1 then e2' and 'e2 then e1' coincide).
func overlapModels(seed int64, n int, exhaustive bool) []swModel {
	rng := rand.New(rand.NewSource(seed))
	letters := []string{"a", "b", "c", "d", "e", "f"}
	type rg struct{ lo, hi int }
	build := func(name string, rs []rg, disj []int) swModel {
		rs2, disj2 := append([]rg{}, rs...), append([]int{}, disj...)
		return swModel{Name: name, Hop: "overlapping alternatives (priority)", Build: func(m *model) int {
			var alts []*Obj
			j := 0
			di := 0
			extra := []string{"x", "y", "z"}
			for pos := 0; j < len(rs2) || di < len(disj2); pos++ {
				if di < len(disj2) && disj2[di] == pos {
					alts = append(alts, m.seq(m.char(extra[di%3]), m.opaqueChild(true, false)))
					di++
					continue
				}
				if j >= len(rs2) {
					// remaining disjoint alternatives go last
					alts = append(alts, m.seq(m.char(extra[di%3]), m.opaqueChild(true, false)))
					di++
					continue
				}
				kids := []*Obj{m.rng(letters[rs2[j].lo], letters[rs2[j].hi])}
				for t := 0; t < j; t++ {
					kids = append(kids, m.query(m.char("t")))
				}
				if len(kids) == 1 {
					alts = append(alts, kids[0])
				} else {
					alts = append(alts, m.seq(kids...))
				}
				j++
			}
			m.addRule("S", m.alt(alts...), 1)
			return 0
		}}
	}
	nameOf := func(rs []rg, disj []int) string {
		var p []string
		for j, r := range rs {
			p = append(p, fmt.Sprintf("[%s-%s]%s", letters[r.lo], letters[r.hi], strings.Repeat(" 't'?", j)))
		}
		return fmt.Sprintf("%s  + %d disjoint at %v", strings.Join(p, " / "), len(disj), disj)
	}
	var out []swModel
	if exhaustive {
		// every triple of ranges over a..d, two disjoint alternatives behind
		var all []rg
		for lo := 0; lo < 4; lo++ {
			for hi := lo; hi < 4; hi++ {
				all = append(all, rg{lo, hi})
			}
		}
		for _, a := range all {
			for _, b := range all {
				for _, c := range all {
					rs := []rg{a, b, c}
					out = append(out, build("triple "+nameOf(rs, []int{3, 4}), rs, []int{3, 4}))
				}
			}
		}
	}
	for i := 0; i < n; i++ {
		k := 2 + rng.Intn(3)
		var rs []rg
		for j := 0; j < k; j++ {
			lo := rng.Intn(len(letters))
			hi := lo + rng.Intn(len(letters)-lo)
			if rng.Intn(3) == 0 {
				hi = lo
			}
			rs = append(rs, rg{lo, hi})
		}
		nd := 1 + rng.Intn(3)
		var disj []int
		for d := 0; d < nd; d++ {
			disj = append(disj, rng.Intn(k+nd))
		}
		sort.Ints(disj)
		// positions must be distinct
		for d := 1; d < len(disj); d++ {
			if disj[d] <= disj[d-1] {
				disj[d] = disj[d-1] + 1
			}
		}
		out = append(out, build(fmt.Sprintf("#%d %s", i, nameOf(rs, disj)), rs, disj))
	}
	return out
}

func randomSwitchModels(seed int64, n int) []swModel {
	rng := rand.New(rand.NewSource(seed))
	groups := [][2]string{{"a", "b"}, {"d", "e"}, {"g", "h"}, {"j", "k"}, {"m", "n"}, {"p", "r"}}
	type shape struct {
		name  string
		build func(m *model, c, d string) *Obj
	}
	e := func(m *model) *Obj { return m.opaqueChild(true, false) }
	shapes := []shape{
		{"'c' e", func(m *model, c, d string) *Obj { return m.seq(m.char(c), e(m)) }},
		{"[c-d] e", func(m *model, c, d string) *Obj { return m.seq(m.rng(c, d), e(m)) }},
		{"<'c'> e", func(m *model, c, d string) *Obj { return m.seq(m.push(m.char(c)), e(m)) }},
		{"('c' e / 'd' e) 'q'", func(m *model, c, d string) *Obj {
			return m.seq(m.alt(m.seq(m.char(c), e(m)), m.seq(m.char(d), e(m))), m.char("q"))
		}},
		{"([c-d] 'q' / 'c' 'z')", func(m *model, c, d string) *Obj {
			return m.alt(m.seq(m.rng(c, d), m.char("q")), m.seq(m.char(c), m.char("z")))
		}},
		{"!'z' 'c' e", func(m *model, c, d string) *Obj { return m.seq(m.peekNot(m.char("z")), m.char(c), e(m)) }},
		{"&[c-d] 'c' e", func(m *model, c, d string) *Obj { return m.seq(m.peekFor(m.rng(c, d)), m.char(c), e(m)) }},
		{"'c'+ e", func(m *model, c, d string) *Obj { return m.seq(m.plus(m.char(c)), e(m)) }},
		{"'c' 'd'* e", func(m *model, c, d string) *Obj { return m.seq(m.char(c), m.star(m.char(d)), e(m)) }},
		{"'c' (e / e)", func(m *model, c, d string) *Obj { return m.seq(m.char(c), m.alt(e(m), e(m))) }},
		{"[c-d]* 'x'", func(m *model, c, d string) *Obj { return m.seq(m.star(m.rng(c, d)), m.char("x")) }},
		{"'c'? 'd' e", func(m *model, c, d string) *Obj { return m.seq(m.query(m.char(c)), m.char(d), e(m)) }},
		{"e{c}", func(m *model, c, d string) *Obj { return opq(m, c, true) }},
		{"e{c,d} e", func(m *model, c, d string) *Obj { return m.seq(opq(m, c+d, true), e(m)) }},
		{"'c'", func(m *model, c, d string) *Obj { return m.char(c) }},
	}
	var out []swModel
	for i := 0; i < n; i++ {
		k := 3 + rng.Intn(3)
		perm := rng.Perm(len(groups))[:k]
		var picks []int
		var names []string
		for _, g := range perm {
			si := rng.Intn(len(shapes))
			picks = append(picks, si)
			nm := strings.NewReplacer("c", groups[g][0], "d", groups[g][1]).Replace(shapes[si].name)
			names = append(names, nm)
		}
		perm2, picks2 := append([]int{}, perm...), append([]int{}, picks...)
		out = append(out, swModel{Name: fmt.Sprintf("#%d %s", i, strings.Join(names, " / ")), Hop: "random choices", Build: func(m *model) int {
			var alts []*Obj
			for j, g := range perm2 {
				alts = append(alts, shapes[picks2[j]].build(m, groups[g][0], groups[g][1]))
			}
			m.addRule("S", m.alt(alts...), 1)
			return 0
		}})
	}
	return out
}
