package main

// C08, R-whole-compile: grammars given through the builder API as the front end
// calls it, taken through the whole of Compile (first pass, link, the analyses,
// -inline/-switch rewriting, the template and the emission loop) under the
// eight option sets; the text that reaches the formatter must parse and
// type-check. The fragment suite evaluates the emitter on finished trees; this
// one also sees what the earlier passes do to a tree before it is emitted.

import (
	"fmt"
	"sort"
	"strings"
)

type wholeCase struct {
	group   string
	name    string
	imports [][2]string // alias, path
	args    []string    // the command line, when it matters
	// anyWarnings: the grammar may be one the generator warns about (random grammars); the file must compile all the same
	anyWarnings bool
	rules       []struct {
		n string
		e *gexpr
	}
}

func wc(group, name string, kv ...any) wholeCase {
	w := wholeCase{group: group, name: name}
	for i := 0; i+1 < len(kv); i += 2 {
		w.rules = append(w.rules, struct {
			n string
			e *gexpr
		}{kv[i].(string), kv[i+1].(*gexpr)})
	}
	return w
}

func (w wholeCase) with(imports ...[2]string) wholeCase {
	w.imports = imports
	return w
}

func (w wholeCase) cmd(args ...string) wholeCase {
	w.args = args
	return w
}

func gLit(s string) *gexpr {
	var k []*gexpr
	for _, c := range s {
		k = append(k, gC(string(c)))
	}
	if len(k) == 1 {
		return k[0]
	}
	return gSeq(k...)
}
func gActS(s string) *gexpr  { return &gexpr{Op: "act", S: s} }
func gPredS(s string) *gexpr { return &gexpr{Op: "pred", S: s} }

func wholeCases() []wholeCase {
	eof := func() *gexpr { return gNot(gDot()) }
	return []wholeCase{
		wc("literals", "C comments: '/*' (!'*/' .)* '*/'", "S", gSeq(gStar(gAlt(gN("Comment"), gC("x"))), eof()),
			"Comment", gSeq(gLit("/*"), gStar(gSeq(gNot(gLit("*/")), gDot())), gLit("*/"))),
		wc("literals", "literals spelling format verbs, quotes and escapes: '%d%%' '\\n' '\"' '''", "S", gSeq(gLit("%d%%"), gLit("\\n"), gLit("\"'"), gLit("%!v(MISSING)"), eof())),
		wc("literals", "a long keyword next to a choice of keywords", "S", gSeq(gLit("package"), gAlt(gLit("type"), gLit("typo"), gLit("*/")), eof())),
		wc("user code", "predicate, action and state change written over several lines", "S",
			gSeq(gC("a"), gPredS("\n\t__pred0()\n"), &gexpr{Op: "state", S: "\n\t__st0()\n"}, gActS("\n\t__act0()\n"), gC("b"))),
		wc("user code", "predicate with blanks around it and a block comment behind it", "S", gSeq(gC("a"), gPredS("  __pred0() /* why */  "), gC("b"))),
		wc("input never read", "S <- {act}", "S", gActS("__act0()")),
		wc("input never read", "S <- &{pred}", "S", gPredS("__pred0()")),
		wc("input never read", "S <- (empty)", "S", gNil()),
		wc("input never read", "S <- A ; A <- {act} (empty)", "S", gN("A"), "A", gSeq(gActS("__act0()"), gNil())),
		wc("command line", "a path with a line break among the arguments", "S", gSeq(gC("a"), eof())).cmd("peg", "-output", "my\ngrammars/g.go", "my\ngrammars/g.peg"),
		wc("command line", "a path with a carriage return and a comment end among the arguments", "S", gSeq(gC("a"), eof())).cmd("peg", "odd\rdir */ /* x/g.peg"),
		wc("imports", "an import under the name the package has anyway: import fmt \"fmt\"", "S", gSeq(gC("a"), gActS("_ = fmt.Sprint(__act0)"))).with([2]string{"fmt", "fmt"}),
		wc("imports", "a package of the runtime under another name", "S", gSeq(gC("a"), gActS("_ = f.Sprint(__act0)"))).with([2]string{"f", "fmt"}),
		wc("imports", "a package the runtime does not import, twice", "S", gSeq(gC("a"), gActS("_ = unicode.IsUpper('a'); __act0()"))).with([2]string{"", "unicode"}, [2]string{"", "unicode"}),
	}
}

func newFrontModelOpts(r *Repo, opts modelOpts) *frontModel {
	it := newInterp(r)
	m := newModel(it, opts)
	t := it.newTree(opts)
	m.tree = t
	return &frontModel{it: it, tree: t, m: m}
}

func (b *gb) emitX(e *gexpr) {
	// the operators c15's builder does not need
	switch e.Op {
	case "state":
		b.fm.call("AddStateChange", e.S)
		return
	case "dchar":
		b.fm.call("AddDoubleCharacter", e.S)
		return
	case "range":
		r := []rune(e.S)
		b.fm.call("AddCharacter", string(r[0]))
		b.fm.call("AddCharacter", string(r[1]))
		b.fm.call("AddRange")
		return
	}
	b.emit(e)
}

func checkWholeCompile(c *Check, r *Repo) {
	rg := findRegion(r)
	if len(rg.problems) > 0 {
		c.Und("R-whole-compile", "tree.(*Tree).Compile", "", strings.Join(rg.problems, "; "))
		return
	}
	ti := loadTemplate(r)
	cases := wholeCases()
	nRand := 40
	if c.Tier == "thorough" {
		nRand = 2500
	}
	cases = append(cases, randomWholeCases(c.Seed+23, nRand)...)
	var allOpts []modelOpts
	for i := 0; i < 8; i++ {
		allOpts = append(allOpts, modelOpts{Inline: i&1 != 0, Switch: i&2 != 0, Ast: i&4 == 0})
	}
	type res struct {
		w        wholeCase
		o        modelOpts
		bad, und string
		skipped  bool
	}
	out := make([]res, len(cases)*len(allOpts))
	parallelChunks(len(out), func(lo, hi int) {
		for i := lo; i < hi; i++ {
			w, o := cases[i/len(allOpts)], allOpts[i%len(allOpts)]
			out[i] = res{w: w, o: o}
			func() {
				defer func() {
					if p := recover(); p != nil {
						if u, ok := p.(undecided); ok {
							out[i].und = u.msg
							return
						}
						out[i].und = fmt.Sprint(p)
					}
				}()
				fm := newFrontModelOpts(r, o)
				if w.args != nil {
					fm.m.args = w.args
				}
				fm.call("AddPackage", "p")
				for _, im := range w.imports {
					if im[0] != "" {
						fm.call("AddImportAlias", im[0])
					}
					fm.call("AddImport", im[1])
				}
				fm.call("AddPeg", "P")
				fm.call("AddState", "")
				b := &gb{fm}
				for _, rl := range w.rules {
					fm.call("AddRule", rl.n)
					b.emitTree(rl.e)
					fm.call("AddExpression")
				}
				em := fm.m.runFull(rg)
				if em.Err != "" {
					if w.anyWarnings && strings.Contains(em.Err, "step limit exceeded") {
						// a random grammar whose generation is too long to evaluate (a case label per code point): not examined
						out[i].skipped = true
						return
					}
					out[i].und = em.Err
					return
				}
				if len(em.Warnings) > 0 && !w.anyWarnings {
					out[i].und = "the grammar is not clean: " + strings.Join(em.Warnings, "; ")
					return
				}
				_, errs := assemble(r, ti, fm.m, em, "whole")
				if len(errs) > 0 {
					sort.Strings(errs)
					out[i].bad = clip(strings.Join(errs, "; "), 300)
				}
			}()
		}
	})
	groups := map[string][]res{}
	var order []string
	for _, o := range out {
		if _, ok := groups[o.w.group]; !ok {
			order = append(order, o.w.group)
		}
		groups[o.w.group] = append(groups[o.w.group], o)
	}
	n := 0
	for _, g := range order {
		var bad, und []string
		seen := map[string]bool{}
		nSkipped := 0
		for _, o := range groups[g] {
			n++
			if o.skipped {
				nSkipped++
				continue
			}
			switch {
			case o.bad != "":
				k := o.w.name + ": " + o.bad
				if !seen[k] {
					seen[k] = true
					bad = append(bad, fmt.Sprintf("%s [%s]: the generated file does not compile: %s", o.w.name, optsName(o.o), o.bad))
				}
			case o.und != "":
				k := o.w.name + ": " + o.und
				if !seen[k] {
					seen[k] = true
					und = append(und, fmt.Sprintf("%s [%s]: %s", o.w.name, optsName(o.o), o.und))
				}
			}
		}
		construct := "Compile as a whole/" + g
		if nSkipped*50 > len(groups[g]) {
			und = append(und, fmt.Sprintf("%d of %d grammar×option sets could not be evaluated within the step limit", nSkipped, len(groups[g])))
		}
		switch {
		case len(bad) > 0:
			c.Bad("R-whole-compile", construct, "", clip(strings.Join(bad, " || "), 1500))
		case len(und) > 0:
			c.Und("R-whole-compile", construct, "", clip(strings.Join(und, " || "), 1200))
		default:
			c.OK("R-whole-compile", construct, "", fmt.Sprintf("%d grammar×option set(s) built through the builder API and taken through all of Compile parse and type-check (%d too long to evaluate)", len(groups[g])-nSkipped, nSkipped))
		}
	}
	c.Floor("R-whole-compile", n, 100)
}

// emitTree is emit with the extra operators of this file at every level.
func (b *gb) emitTree(e *gexpr) {
	switch e.Op {
	case "state", "range", "dchar":
		b.emitX(e)
		return
	case "seq", "alt":
		for i, k := range e.Kids {
			b.emitTree(k)
			if i > 0 {
				if e.Op == "seq" {
					b.fm.call("AddSequence")
				} else {
					b.fm.call("AddAlternate")
				}
			}
		}
		return
	case "query", "star", "plus", "and", "not", "push":
		b.emitTree(e.Kids[0])
		b.fm.call(map[string]string{"query": "AddQuery", "star": "AddStar", "plus": "AddPlus", "and": "AddPeekFor", "not": "AddPeekNot", "push": "AddPush"}[e.Op])
		return
	}
	b.emit(e)
}
