package main

// E5 — small-scope evaluation of runtime template code. The functions of the
// instantiated runtime that reconstruct the tree (tokens.AST) and translate
// offsets (translatePositions, parseError.Error) touch offsets and runes only
// through comparisons (offsets with each other, runes with '\n'), so their
// behaviour depends on the order pattern of the offsets and on which runes are
// newlines. The interpreter evaluates their instantiated source on every such
// pattern up to a size bound and compares with the definition.

import (
	"fmt"
	"go/ast"
	"go/constant"
	"go/types"
	"sort"
	"strconv"
	"strings"
)

func strconvQuote(s string) string { return strconv.Quote(s) }

func newInstInterp(in *inst) *Interp {
	files := []*ast.File{in.File}
	info, pkg := in.Info, in.Pkg
	if in.repo != nil {
		p := in.repo.pkg("")
		files, info, pkg = p.Syntax, p.TypesInfo, p.Types
	}
	it := newInterpRaw(info, pkg, files, in.Fset, in.srcPos)
	it.nilPanics = true
	return it
}

// declOf finds a function ("name") or method ("recv.name") declaration.
func (it *Interp) declOf(name string) *ast.FuncDecl {
	recv, fn := "", name
	if i := strings.Index(name, "."); i >= 0 {
		recv, fn = name[:i], name[i+1:]
	}
	for _, fd := range it.decls {
		if fd.Name.Name != fn {
			continue
		}
		if recv == "" {
			if fd.Recv == nil {
				return fd
			}
			continue
		}
		if fd.Recv == nil || len(fd.Recv.List) != 1 {
			continue
		}
		t := fd.Recv.List[0].Type
		if st, ok := t.(*ast.StarExpr); ok {
			t = st.X
		}
		if ix, ok := t.(*ast.IndexExpr); ok {
			t = ix.X
		}
		if id, ok := t.(*ast.Ident); ok && id.Name == recv {
			return fd
		}
	}
	return nil
}

func (it *Interp) callDecl(fd *ast.FuncDecl, recv Value, args ...Value) []Value {
	it.steps = 0
	return it.invoke(nil, &Closure{name: fd.Name.Name, typ: fd.Type, body: fd.Body, lit: fd, decl: fd, env: newEnv(nil), recv: recv}, args)
}

func (it *Interp) namedType(name string) types.Type {
	o := it.pkg.Scope().Lookup(name)
	if o == nil {
		return nil
	}
	return o.Type()
}

// ---------------------------------------------------------------------------
// derivation trees

type dnode struct {
	rule       int
	begin, end int
	kids       []*dnode
}

// genTrees enumerates derivation shapes with at most budget nodes starting at
// offset begin: leaves of width 0 or 1, inner nodes with optional one-rune
// gaps before, between and after their children.
func genTrees(budget, begin int, next *int) []*dnode {
	var out []*dnode
	if budget <= 0 {
		return nil
	}
	// leaves
	for _, w := range []int{0, 1} {
		out = append(out, &dnode{begin: begin, end: begin + w})
	}
	// inner nodes: sequences of children
	var seqs func(budget, pos int) [][]*dnode
	seqs = func(budget, pos int) [][]*dnode {
		res := [][]*dnode{}
		for _, first := range genTrees(budget, pos, next) {
			used := first.size()
			res = append(res, []*dnode{first})
			if budget-used > 0 {
				for _, gap := range []int{0, 1} {
					for _, rest := range seqs(budget-used, first.end+gap) {
						res = append(res, append([]*dnode{first}, rest...))
					}
				}
			}
		}
		return res
	}
	for _, pre := range []int{0, 1} {
		for _, ks := range seqs(budget-1, begin+pre) {
			last := ks[len(ks)-1]
			for _, post := range []int{0, 1} {
				out = append(out, &dnode{begin: begin, end: last.end + post, kids: ks})
			}
		}
	}
	return out
}

func (d *dnode) size() int {
	n := 1
	for _, k := range d.kids {
		n += k.size()
	}
	return n
}

func (d *dnode) clone() *dnode {
	c := &dnode{rule: d.rule, begin: d.begin, end: d.end}
	for _, k := range d.kids {
		c.kids = append(c.kids, k.clone())
	}
	return c
}

// number assigns distinct rule numbers in post-order and returns the post-order list.
func (d *dnode) number(n *int, out *[]*dnode) {
	for _, k := range d.kids {
		k.number(n, out)
	}
	*n++
	d.rule = *n
	*out = append(*out, d)
}

// expected: the tree of non-empty tokens, children directly nested in input order.
func (d *dnode) expected() string {
	if d.begin == d.end {
		return ""
	}
	var ks []string
	for _, k := range d.kids {
		if s := k.expected(); s != "" {
			ks = append(ks, s)
		}
	}
	return fmt.Sprintf("%d[%d,%d](%s)", d.rule, d.begin, d.end, strings.Join(ks, " "))
}

func (d *dnode) String() string {
	var ks []string
	for _, k := range d.kids {
		ks = append(ks, k.String())
	}
	return fmt.Sprintf("r%d[%d,%d](%s)", d.rule, d.begin, d.end, strings.Join(ks, " "))
}

// renderNode renders the node graph AST() returned (with a cycle guard).
func renderNode(v Value, seen map[*Obj]bool, depth int) string {
	o, ok := v.(*Obj)
	if !ok || o == nil {
		return ""
	}
	if seen[o] || depth > 1000 {
		return "<cycle>"
	}
	seen[o] = true
	tok, _ := o.field("token").v.(*Obj)
	if tok == nil {
		return "<node without token>"
	}
	var ks []string
	for k := o.field("up").v; ; {
		ko, ok := k.(*Obj)
		if !ok || ko == nil {
			break
		}
		if seen[ko] {
			ks = append(ks, "<cycle>")
			break
		}
		ks = append(ks, renderNode(ko, seen, depth+1))
		k = ko.field("next").v
	}
	return fmt.Sprintf("%v[%v,%v](%s)", tok.field("pegRule").v, tok.field("begin").v, tok.field("end").v, strings.Join(ks, " "))
}

// wideAndDeepTrees: derivations beyond the small scope in the two directions the
// reconstruction can depend on — the number of siblings pending when their parent's
// token arrives (9 … 130, the first child starting where the parent starts or one
// later, the parent alone or behind an earlier sibling under a root, empty tokens
// among the siblings) and the nesting depth (chains of 70 and 300 with equal or
// shrinking spans).
func wideAndDeepTrees() []*dnode {
	var out []*dnode
	for _, k := range []int{9, 10, 16, 17, 33, 65, 130} {
		for _, pre := range []int{0, 1} {
			for _, empties := range []bool{false, true} {
				for _, under := range []bool{false, true} {
					base := 0
					if under {
						base = 2
					}
					p := &dnode{begin: base}
					at := base + pre
					for i := 0; i < k; i++ {
						if empties && i%3 == 1 {
							p.kids = append(p.kids, &dnode{begin: at, end: at})
						}
						p.kids = append(p.kids, &dnode{begin: at, end: at + 1})
						at++
					}
					p.end = at
					if under {
						p = &dnode{begin: 0, end: at + 1, kids: []*dnode{{begin: 0, end: 1}, {begin: 1, end: 2}, p, {begin: at, end: at + 1}}}
					}
					out = append(out, p)
				}
			}
		}
	}
	for _, depth := range []int{70, 300} {
		for _, shrink := range []int{0, 1} {
			inner := &dnode{begin: depth * shrink, end: depth*shrink + 1}
			for d := depth - 1; d >= 0; d-- {
				inner = &dnode{begin: d * shrink, end: 2*depth*shrink + 1 - d*shrink, kids: []*dnode{inner}}
			}
			out = append(out, inner)
		}
	}
	return out
}

// rtASTSemantics: R-ast-semantics.
func rtASTSemantics(a *aggregator, v *rtView, budget int) {
	cfg := v.in.Name
	construct := "tokens.AST rebuilds the derivation tree from its post-order tokens"
	if !v.in.Cfg.Bools["Ast"] {
		return
	}
	it := newInstInterp(v.in)
	astFd := it.declOf("tokens.AST")
	tokensT, tokenT := it.namedType("tokens"), it.namedType("token")
	if astFd == nil || tokensT == nil || tokenT == nil {
		a.Und("R-ast-semantics", construct, cfg, "", "tokens.AST / type tokens / type token not found")
		return
	}
	pos := v.in.srcPos(astFd.Pos())
	var next int
	shapes := genTrees(budget, 0, &next)
	// also every shape shifted by one (offset 0 is not special, but cheap to include)
	shapes = append(shapes, wideAndDeepTrees()...)
	n := 0
	var bad []string
	und := ""
	for _, sh := range shapes {
		d := sh.clone()
		cnt := 0
		var post []*dnode
		d.number(&cnt, &post)
		func() {
			defer func() {
				if p := recover(); p != nil {
					switch x := p.(type) {
					case nilDeref:
						bad = append(bad, fmt.Sprintf("AST() dereferences nil at %s on the token list of %s", x.pos, d))
					case goPanic:
						bad = append(bad, fmt.Sprintf("AST() panics (%s at %s) on the token list of %s", x.msg, x.pos, d))
					case undecided:
						und = x.msg
					default:
						panic(p)
					}
				}
			}()
			ts := it.newObj(tokensT)
			list := &SliceV{elems: []Value{}}
			for _, t := range post {
				to := it.newObj(tokenT)
				to.field("pegRule").v = int64(t.rule)
				to.field("begin").v = int64(t.begin)
				to.field("end").v = int64(t.end)
				list.elems = append(list.elems, to)
			}
			ts.field("tree").v = list
			before := tokenListStr(list)
			res := it.callDecl(astFd, ts)
			got := ""
			if len(res) == 1 {
				got = renderNode(res[0], map[*Obj]bool{}, 0)
			}
			n++
			// AST() is an observer: the token list (what Execute and Tokens() read) is as before, and a
			// second call builds the same tree
			after := "<no token list>"
			if l2, ok := ts.field("tree").v.(*SliceV); ok {
				after = tokenListStr(l2)
			}
			if after != before || tokenListStr(list) != before {
				bad = append(bad, fmt.Sprintf("derivation %s: AST() changes the token list from [%s] to [%s] (Execute and Tokens() read it afterwards)", d, before, after))
			} else if res2 := it.callDecl(astFd, ts); len(res2) == 1 && renderNode(res2[0], map[*Obj]bool{}, 0) != got {
				bad = append(bad, fmt.Sprintf("derivation %s: a second AST() builds %q, the first built %q", d, renderNode(res2[0], map[*Obj]bool{}, 0), got))
			}
			if want := d.expected(); got != want {
				bad = append(bad, fmt.Sprintf("derivation %s: AST() builds %q, the derivation tree of non-empty tokens is %q", d, got, want))
			}
		}()
		if und != "" {
			break
		}
	}
	if und != "" {
		a.Und("R-ast-semantics", construct, cfg, pos, und)
		return
	}
	if n < 100 {
		a.Und("R-ast-semantics", construct, cfg, pos, fmt.Sprintf("only %d derivations evaluated", n))
		return
	}
	sort.Slice(bad, func(i, j int) bool { return len(bad[i]) < len(bad[j]) })
	if len(bad) > 3 {
		bad = append(bad[:3], fmt.Sprintf("… %d more", len(bad)-3))
	}
	a.Decide(len(bad) == 0, "R-ast-semantics", construct, cfg, pos,
		fmt.Sprintf("%d derivation shapes: all of at most %d nodes (empty and one-rune leaves, gaps before/between/after children, parent and child with the same span), parents of 9 to 130 siblings (first child at the parent's begin or behind it, empty tokens between siblings, alone or under a root) and chains 70 and 300 deep: the node graph returned is the tree of non-empty tokens with children in input order", n, budget), strings.Join(bad, "; "))
}

// ---------------------------------------------------------------------------
// translatePositions / Error

// lineCol: the definition — 1-based line and column of the rune at offset off.
func lineCol(buf []rune, off int) (int, int) {
	line, col := 1, 1
	for i := 0; i < off && i < len(buf); i++ {
		if buf[i] == '\n' {
			line, col = line+1, 1
		} else {
			col++
		}
	}
	return line, col
}

func rtLineColSemantics(a *aggregator, v *rtView, maxLen int) {
	cfg := v.in.Name
	construct := "translatePositions yields the 1-based line and column of every offset"
	it := newInstInterp(v.in)
	fd := it.declOf("translatePositions")
	if fd == nil {
		a.Und("R-linecol-semantics", construct, cfg, "", "translatePositions not found")
		return
	}
	pos := v.in.srcPos(fd.Pos())
	const endSymbol = 0x110000
	var bad []string
	und := ""
	n := 0
	// the alphabet: newline, an ordinary rune, and every other rune the function
	// itself singles out by comparing with a constant (none today; a carriage
	// return treated as a line break would show up here)
	alphabet := []rune{'x', '\n', '𝄞'} // an ordinary rune, the line break, a rune outside the BMP (4 bytes, 2 UTF-16 units)
	inAlpha := map[rune]bool{'x': true, '\n': true, '𝄞': true}
	for _, k := range runeConstantsIn(it, fd) {
		// a constant may be a threshold (c > 0xFFFF): its neighbours stand for the two sides
		for _, r := range []rune{k, k + 1, k - 1} {
			if !inAlpha[r] && r >= 0 && r < endSymbol && !(r >= 0xD800 && r <= 0xDFFF) {
				inAlpha[r] = true
				alphabet = append(alphabet, r)
			}
		}
	}
	if len(alphabet) > 4 {
		maxLen = 4
	}
	if len(alphabet) > 7 {
		maxLen = 3
	}
	var texts [][]rune
	var gen func(prefix []rune, l int)
	gen = func(prefix []rune, l int) {
		texts = append(texts, append([]rune{}, prefix...))
		if l == 0 {
			return
		}
		for _, r := range alphabet {
			gen(append(prefix, r), l-1)
		}
	}
	gen(nil, maxLen)
	for range 1 {
		for _, text := range texts {
			if und != "" {
				break
			}
			l := len(text)
			buf := append(append([]rune{}, text...), endSymbol)
			for b := 0; b <= l; b++ {
				for e := b; e <= l; e++ {
					func() {
						defer func() {
							if p := recover(); p != nil {
								switch x := p.(type) {
								case nilDeref:
									bad = append(bad, fmt.Sprintf("nil dereference at %s for text %q offsets %d,%d", x.pos, string(text), b, e))
								case goPanic:
									bad = append(bad, fmt.Sprintf("panic (%s at %s) for text %q offsets %d,%d", x.msg, x.pos, string(text), b, e))
								case undecided:
									und = x.msg
								default:
									panic(p)
								}
							}
						}()
						bv := &SliceV{}
						for _, r := range buf {
							bv.elems = append(bv.elems, int64(r))
						}
						// Error() passes begin then end; also the reverse order must not matter
						pv := &SliceV{elems: []Value{int64(b), int64(e)}}
						res := it.callDecl(fd, nil, bv, pv)
						n++
						m, _ := res[0].(*MapV)
						for _, off := range []int{b, e} {
							wl, wc := lineCol(buf, off)
							var got Value
							if m != nil {
								got = m.m[mapKey(int64(off))]
							}
							o, _ := got.(*Obj)
							if o == nil {
								bad = append(bad, fmt.Sprintf("text %q offsets (%d,%d): offset %d has no translation (reported as line 0 symbol 0)", string(text), b, e, off))
								continue
							}
							gl, gc := o.field("line").v, o.field("symbol").v
							if gl != Value(int64(wl)) || gc != Value(int64(wc)) {
								bad = append(bad, fmt.Sprintf("text %q offset %d: translated to line %v symbol %v, it is line %d symbol %d", string(text), off, gl, gc, wl, wc))
							}
						}
					}()
				}
			}
		}
	}
	if und != "" {
		a.Und("R-linecol-semantics", construct, cfg, pos, und)
		return
	}
	sort.Slice(bad, func(i, j int) bool { return len(bad[i]) < len(bad[j]) })
	bad = uniq(bad)
	if len(bad) > 3 {
		bad = append(bad[:3], fmt.Sprintf("… %d more", len(bad)-3))
	}
	a.Decide(len(bad) == 0 && n > 100, "R-linecol-semantics", construct, cfg, pos,
		fmt.Sprintf("%d evaluations: every text of at most %d runes over {newline, other, and any rune the function compares with} followed by the end symbol, every offset pair begin ≤ end ≤ len: each offset is translated to its definitional line and column, no panic", n, maxLen), strings.Join(bad, "; "))
}

// runeConstantsIn: constants that a function compares rune-typed values with.
func runeConstantsIn(it *Interp, fd *ast.FuncDecl) []rune {
	seen := map[rune]bool{}
	var out []rune
	ast.Inspect(fd, func(n ast.Node) bool {
		var exprs []ast.Expr
		switch x := n.(type) {
		case *ast.BinaryExpr:
			exprs = []ast.Expr{x.X, x.Y}
		case *ast.CaseClause:
			exprs = x.List
		default:
			return true
		}
		for _, e := range exprs {
			tv, ok := it.info.Types[e]
			if !ok || tv.Value == nil {
				continue
			}
			b, ok := tv.Type.Underlying().(*types.Basic)
			if !ok || (b.Kind() != types.Int32 && b.Kind() != types.UntypedRune) {
				continue
			}
			if v, ok := constant.Int64Val(constant.ToInt(tv.Value)); ok && !seen[rune(v)] {
				seen[rune(v)] = true
				out = append(out, rune(v))
			}
		}
		return true
	})
	sort.Slice(out, func(i, j int) bool { return out[i] < out[j] })
	return out
}

// rtEvalHere: the evaluated functions do not depend on HasActions/HasDot/
// HasString/HasPush, so one AST and one -noast instantiation plus the
// checked-in front end are evaluated.
func rtEvalHere(v *rtView) bool {
	if v.in.repo != nil || v.in.canonOf != nil {
		return true
	}
	b := v.in.Cfg.Bools
	return b["HasActions"] && b["HasDot"] && b["HasString"] && b["HasPush"]
}

// globalInit evaluates the initialiser of a package-level variable of the
// instantiation (the rule-name table) and installs it.
func (it *Interp) globalInit(files []*ast.File, name string) bool {
	for _, f := range files {
		for _, d := range f.Decls {
			gd, ok := d.(*ast.GenDecl)
			if !ok {
				continue
			}
			for _, sp := range gd.Specs {
				vs, ok := sp.(*ast.ValueSpec)
				if !ok {
					continue
				}
				for i, id := range vs.Names {
					if id.Name == name && i < len(vs.Values) {
						obj := it.info.Defs[id]
						it.globals[obj] = &Cell{it.eval(vs.Values[i], newEnv(nil))}
						return true
					}
				}
			}
		}
	}
	return false
}

func instFiles(in *inst) []*ast.File {
	if in.repo != nil {
		return in.repo.pkg("").Syntax
	}
	return []*ast.File{in.File}
}

// rtErrorSemantics: R-error-message — parseError.Error() evaluated on every
// short text and every furthest token: the message names the token's rule,
// gives the definitional line/column of its begin and end, quotes exactly the
// runes between them, and producing it does not panic.
func rtErrorSemantics(a *aggregator, v *rtView, maxLen int) {
	cfg := v.in.Name
	construct := "parseError.Error reports rule, begin/end line and column and the quoted text"
	it := newInstInterp(v.in)
	fd := it.declOf("parseError.Error")
	peT, tokenT := it.namedType("parseError"), it.namedType("token")
	var parserT types.Type
	if peT != nil {
		if st, ok := peT.Underlying().(*types.Struct); ok {
			for i := 0; i < st.NumFields(); i++ {
				if st.Field(i).Name() == "p" {
					if pt, ok := st.Field(i).Type().(*types.Pointer); ok {
						parserT = pt.Elem()
					}
				}
			}
		}
	}
	if fd == nil || peT == nil || tokenT == nil || parserT == nil {
		a.Und("R-error-message", construct, cfg, "", "parseError.Error / its types not found")
		return
	}
	pos := v.in.srcPos(fd.Pos())
	var bad []string
	und := ""
	func() {
		defer func() {
			if p := recover(); p != nil {
				if u, ok := p.(undecided); ok {
					und = u.msg
					return
				}
				panic(p)
			}
		}()
		if !it.globalInit(instFiles(v.in), "rul3s") {
			und = "the rule-name table rul3s was not found"
		}
	}()
	if und != "" {
		a.Und("R-error-message", construct, cfg, pos, und)
		return
	}
	const endSymbol = 0x110000
	n := 0
	alphabet := []rune{'x', '\n', '世', '"', '%', '\\'}
	var texts [][]rune
	var gen func(prefix []rune, l int)
	gen = func(prefix []rune, l int) {
		texts = append(texts, append([]rune{}, prefix...))
		if l == 0 {
			return
		}
		for _, r := range alphabet {
			gen(append(prefix, r), l-1)
		}
	}
	gen(nil, maxLen)
	for _, text := range texts {
		if und != "" {
			break
		}
		l := len(text)
		for b := 0; b <= l; b++ {
			for e := b; e <= l; e++ {
				for _, pretty := range []bool{false, true} {
					func() {
						defer func() {
							if p := recover(); p != nil {
								switch x := p.(type) {
								case nilDeref:
									bad = append(bad, fmt.Sprintf("Error() dereferences nil at %s for input %q, token [%d,%d]", x.pos, string(text), b, e))
								case goPanic:
									bad = append(bad, fmt.Sprintf("Error() panics (%s at %s) for input %q, token [%d,%d]", x.msg, x.pos, string(text), b, e))
								case undecided:
									und = x.msg
								default:
									panic(p)
								}
							}
						}()
						parser := it.newObj(parserT)
						bv := &SliceV{}
						for _, r := range text {
							bv.elems = append(bv.elems, int64(r))
						}
						bv.elems = append(bv.elems, int64(endSymbol))
						parser.field("buffer").v = bv
						parser.field("Buffer").v = string(text)
						parser.field("Pretty").v = pretty
						tok := it.newObj(tokenT)
						tok.field("pegRule").v = int64(1)
						tok.field("begin").v = int64(b)
						tok.field("end").v = int64(e)
						pe := it.newObj(peT)
						pe.field("p").v = parser
						pe.field("maxToken").v = tok
						// the text the error is about, where the error keeps it itself
						if pst, ok := peT.Underlying().(*types.Struct); ok {
							for i := 0; i < pst.NumFields(); i++ {
								if types.TypeString(pst.Field(i).Type(), nil) == "[]rune" {
									pe.fields[i].v = bv
								}
							}
						}
						res := it.callDecl(fd, pe)
						n++
						msg, _ := res[0].(string)
						buf := append(append([]rune{}, text...), endSymbol)
						bl, bc := lineCol(buf, b)
						el, ec := lineCol(buf, e)
						name := ""
						if tbl, ok := it.globals[it.pkg.Scope().Lookup("rul3s")]; ok {
							if s, ok := tbl.v.(*SliceV); ok && len(s.elems) > 1 {
								name, _ = s.elems[1].(string)
							}
						}
						wantTail := fmt.Sprintf(" (line %d symbol %d - line %d symbol %d):\n%s\n", bl, bc, el, ec, strconvQuote(string(text[b:e])))
						stripped := strings.NewReplacer("\x1B[34m", "", "\x1B[m", "").Replace(msg)
						want := "\nparse error near " + name + wantTail
						if stripped != want {
							bad = append(bad, fmt.Sprintf("input %q, furthest token [%d,%d]: the message is %q, expected %q", string(text), b, e, stripped, want))
						}
					}()
				}
			}
		}
	}
	if und != "" {
		a.Und("R-error-message", construct, cfg, pos, und)
		return
	}
	sort.Slice(bad, func(i, j int) bool { return len(bad[i]) < len(bad[j]) })
	bad = uniq(bad)
	if len(bad) > 3 {
		bad = append(bad[:3], fmt.Sprintf("… %d more", len(bad)-3))
	}
	a.Decide(len(bad) == 0 && n > 100, "R-error-message", construct, cfg, pos,
		fmt.Sprintf("%d evaluations: every input of at most %d runes over {x, newline, a multi-byte rune, a quote, a percent sign, a backslash}, every token begin ≤ end ≤ len (empty input, offset 0 and end of input included), Pretty on and off: rule name, definitional line/column of both ends, exactly the runes between them quoted, no panic", n, maxLen), strings.Join(bad, "; "))
}

// rtPrintSemantics: R-print-semantics — AST() followed by the node printer,
// evaluated on every small derivation over a text with multi-byte runes:
// one line per non-empty token in pre-order, indented by depth, showing the
// rule's name and exactly the runes it spans.
func rtPrintSemantics(a *aggregator, v *rtView, budget int) {
	cfg := v.in.Name
	construct := "node.Print shows each non-empty token's rule name and exact text, in tree order"
	if !v.in.Cfg.Bools["Ast"] {
		return
	}
	it := newInstInterp(v.in)
	astFd, printFd := it.declOf("tokens.AST"), it.declOf("node.Print")
	tokensT, tokenT := it.namedType("tokens"), it.namedType("token")
	if astFd == nil || printFd == nil || tokensT == nil || tokenT == nil {
		a.Und("R-print-semantics", construct, cfg, "", "tokens.AST / node.Print / types not found")
		return
	}
	pos := v.in.srcPos(printFd.Pos())
	und := ""
	var names []string
	func() {
		defer func() {
			if p := recover(); p != nil {
				if u, ok := p.(undecided); ok {
					und = u.msg
					return
				}
				panic(p)
			}
		}()
		if !it.globalInit(instFiles(v.in), "rul3s") {
			und = "the rule-name table rul3s was not found"
			return
		}
		if s, ok := it.globals[it.pkg.Scope().Lookup("rul3s")].v.(*SliceV); ok {
			for _, e := range s.elems {
				n, _ := e.(string)
				names = append(names, n)
			}
		}
	}()
	if und == "" && len(names) < 2 {
		und = "the rule-name table has fewer than two entries"
	}
	if und != "" {
		a.Und("R-print-semantics", construct, cfg, pos, und)
		return
	}
	writer := &Ext{"model writer"}
	write := func(it *Interp, s string) []Value {
		it.out.WriteString(s)
		return []Value{int64(len(s)), Nil{}}
	}
	it.natives["fmt.Fprint"] = func(it *Interp, args []Value) []Value {
		if args[0] != Value(writer) {
			panic(undecided{"fmt.Fprint to another writer"})
		}
		var gv []any
		for _, x := range args[1:] {
			gv = append(gv, it.goValue(x))
		}
		return write(it, fmt.Sprint(gv...))
	}
	it.natives["io.WriteString"] = func(it *Interp, args []Value) []Value {
		if args[0] != Value(writer) {
			panic(undecided{"io.WriteString to another writer"})
		}
		s, ok := args[1].(string)
		if !ok {
			panic(undecided{"io.WriteString of a value that is not a string"})
		}
		return write(it, s)
	}
	it.natives["fmt.Fprintf"] = func(it *Interp, args []Value) []Value {
		if args[0] != Value(writer) {
			panic(undecided{"fmt.Fprintf to another writer"})
		}
		return write(it, it.sprintf(args[1:]))
	}
	text := []rune("aé世\"\n𝄞bcdefghij")
	var next int
	shapes := genTrees(budget, 0, &next)
	// deep derivations: a chain of single-child nodes (depth 12, 70, 300), and one
	// whose innermost node has two children — indentation must follow the depth
	for _, depth := range []int{12, 70, 300} {
		for len(text) < 2*depth+3 {
			text = append(text, 'p', 'é')
		}
		var inner *dnode = &dnode{begin: depth, end: depth + 1}
		inner = &dnode{begin: depth - 1, end: depth + 2, kids: []*dnode{{begin: depth - 1, end: depth}, inner, {begin: depth + 1, end: depth + 2}}}
		for d := depth - 2; d >= 0; d-- {
			inner = &dnode{begin: d, end: 2*depth + 1 - d, kids: []*dnode{inner}}
		}
		shapes = append(shapes, inner)
	}
	shapes = append(shapes, wideAndDeepTrees()...)
	var bad []string
	n := 0
	for _, sh := range shapes {
		if und != "" {
			break
		}
		d := sh.clone()
		cnt := 0
		var post []*dnode
		d.number(&cnt, &post)
		if d.begin == d.end || d.end > len(text) {
			continue
		}
		for _, t := range post {
			t.rule = 1 + (t.rule-1)%(len(names)-1)
		}
		func() {
			defer func() {
				if p := recover(); p != nil {
					switch x := p.(type) {
					case nilDeref:
						bad = append(bad, fmt.Sprintf("printing dereferences nil at %s for %s", x.pos, d))
					case goPanic:
						bad = append(bad, fmt.Sprintf("printing panics (%s at %s) for %s", x.msg, x.pos, d))
					case undecided:
						und = x.msg
					default:
						panic(p)
					}
				}
			}()
			ts := it.newObj(tokensT)
			list := &SliceV{elems: []Value{}}
			for _, t := range post {
				to := it.newObj(tokenT)
				to.field("pegRule").v = int64(t.rule)
				to.field("begin").v = int64(t.begin)
				to.field("end").v = int64(t.end)
				list.elems = append(list.elems, to)
			}
			ts.field("tree").v = list
			root := it.callDecl(astFd, ts)[0]
			it.out = &strings.Builder{}
			it.callDecl(printFd, root, writer, string(text))
			got := it.out.String()
			n++
			var want strings.Builder
			var walk func(x *dnode, depth int)
			walk = func(x *dnode, depth int) {
				if x.begin == x.end {
					return
				}
				want.WriteString(strings.Repeat(" ", depth) + names[x.rule] + " " + strconv.Quote(string(text[x.begin:x.end])) + "\n")
				for _, k := range x.kids {
					walk(k, depth+1)
				}
			}
			walk(d, 0)
			if got != want.String() {
				bad = append(bad, fmt.Sprintf("derivation %s over %q: printed %q, expected %q", d, string(text), got, want.String()))
			}
		}()
	}
	if und != "" {
		a.Und("R-print-semantics", construct, cfg, pos, und)
		return
	}
	sort.Slice(bad, func(i, j int) bool { return len(bad[i]) < len(bad[j]) })
	if len(bad) > 3 {
		bad = append(bad[:3], fmt.Sprintf("… %d more", len(bad)-3))
	}
	a.Decide(len(bad) == 0 && n > 100, "R-print-semantics", construct, cfg, pos,
		fmt.Sprintf("%d derivations over a text with 2-, 3- and 4-byte runes, a quote and a newline: plus chains of depth 12, 70 and 300 and parents of 9 to 130 siblings: the printed tree is the pre-order list of non-empty tokens, one per line, indented by depth, each with its rule's name and the quoted runes [begin,end)", n), strings.Join(bad, "; "))
}

// routeSemantics evaluates the syntax-tree printers of the token list and of
// the parser on one derivation and compares what they write with what the
// node's own Print / PrettyPrint write for the tree AST() returns and the
// parser's Buffer: every printer must show that tree with that text (the
// format itself is R-print-semantics' business).
func routeSemantics(v *rtView) (bad []string, und string, n int) {
	defer func() {
		if p := recover(); p != nil {
			switch x := p.(type) {
			case undecided:
				und = x.msg
			case nilDeref:
				bad = append(bad, "nil dereference at "+x.pos)
			case goPanic:
				bad = append(bad, "panic: "+x.msg+" at "+x.pos)
			default:
				panic(p)
			}
		}
	}()
	it := newInstInterp(v.in)
	if !it.globalInit(instFiles(v.in), "rul3s") {
		return nil, "the rule-name table rul3s was not found", 0
	}
	tokensT, tokenT := it.namedType("tokens"), it.namedType("token")
	_, parserT := findInit(it)
	if tokensT == nil || tokenT == nil || parserT == nil {
		return nil, "types tokens / token / parser not found", 0
	}
	pname := ""
	if nm, ok := parserT.(*types.Named); ok {
		pname = nm.Obj().Name()
	}
	writer, stdout := &Ext{"model writer"}, &Ext{"os.Stdout"}
	if it.extVars == nil {
		it.extVars = map[string]Value{}
	}
	it.extVars["os.Stdout"] = stdout
	var sink *strings.Builder
	emit := func(w Value, s string) []Value {
		if w != Value(writer) && w != Value(stdout) {
			if e, ok := w.(*Ext); !ok || !(strings.Contains(e.desc, "Buffer") || strings.Contains(e.desc, "Builder")) {
				panic(undecided{"a printer writes to " + describe(w)})
			}
		}
		sink.WriteString(s)
		return []Value{int64(len(s)), Nil{}}
	}
	it.natives["fmt.Fprint"] = func(it *Interp, args []Value) []Value {
		var gv []any
		for _, x := range expandVariadic(args[1:]) {
			gv = append(gv, it.goValue(x))
		}
		return emit(args[0], fmt.Sprint(gv...))
	}
	it.natives["fmt.Fprintf"] = func(it *Interp, args []Value) []Value { return emit(args[0], it.sprintf(args[1:])) }
	it.natives["fmt.Fprintln"] = func(it *Interp, args []Value) []Value {
		var gv []any
		for _, x := range expandVariadic(args[1:]) {
			gv = append(gv, it.goValue(x))
		}
		return emit(args[0], fmt.Sprintln(gv...))
	}
	it.natives["io.WriteString"] = func(it *Interp, args []Value) []Value { return emit(args[0], args[1].(string)) }
	text := "aé世\"\n𝄞bcd"
	mk := func() *Obj {
		ts := it.newObj(tokensT)
		list := &SliceV{elems: []Value{}}
		// post-order: [1,3) [3,4) [1,5) [6,8) [0,9)
		for i, be := range [][2]int64{{1, 3}, {3, 4}, {1, 5}, {6, 8}, {0, 9}} {
			to := it.newObj(tokenT)
			to.field("pegRule").v = int64(1 + i%2)
			to.field("begin").v, to.field("end").v = be[0], be[1]
			list.elems = append(list.elems, to)
		}
		ts.field("tree").v = list
		return ts
	}
	run := func(f func()) string {
		sink = &strings.Builder{}
		f()
		return sink.String()
	}
	call := func(name string, recv Value, args ...Value) {
		fd := it.declOf(name)
		if fd == nil {
			panic(undecided{"method " + name + " not found"})
		}
		it.callDecl(fd, recv, args...)
	}
	astFd := it.declOf("tokens.AST")
	if astFd == nil {
		return nil, "tokens.AST not found", 0
	}
	plain := run(func() { call("node.Print", it.callDecl(astFd, mk())[0], writer, text) })
	pretty := run(func() { call("node.PrettyPrint", it.callDecl(astFd, mk())[0], writer, text) })
	if plain == "" || pretty == "" {
		return nil, "node.Print / node.PrettyPrint write nothing on the model tree", 0
	}
	check := func(what, got, want string) {
		n++
		if got != want {
			bad = append(bad, fmt.Sprintf("%s writes %q; the tree of AST() printed with the same text is %q", what, clip(got, 120), clip(want, 120)))
		}
	}
	check("tokens.WriteSyntaxTree(w, buffer)", run(func() { call("tokens.WriteSyntaxTree", mk(), writer, text) }), plain)
	check("tokens.PrintSyntaxTree(buffer)", run(func() { call("tokens.PrintSyntaxTree", mk(), text) }), plain)
	check("tokens.PrettyPrintSyntaxTree(buffer)", run(func() { call("tokens.PrettyPrintSyntaxTree", mk(), text) }), pretty)
	parser := func(prettyOpt bool) *Obj {
		p := it.newObj(parserT)
		p.field("Buffer").v = text
		if c := p.field("Pretty"); c != nil {
			c.v = prettyOpt
		}
		if c := p.field("tokens"); c != nil {
			c.v = mk()
		} else {
			panic(undecided{"the parser has no tokens field"})
		}
		return p
	}
	check("parser.WriteSyntaxTree(w)", run(func() { call(pname+".WriteSyntaxTree", parser(false), writer) }), plain)
	check("parser.PrintSyntaxTree()", run(func() { call(pname+".PrintSyntaxTree", parser(false)) }), plain)
	check("parser.PrintSyntaxTree() with Pretty", run(func() { call(pname+".PrintSyntaxTree", parser(true)) }), pretty)
	return bad, "", n
}

// tokenListStr renders a token list (rule[begin,end] …) for comparison.
func tokenListStr(l *SliceV) string {
	if l == nil {
		return ""
	}
	var out []string
	for _, e := range l.elems {
		out = append(out, tokStr(e))
	}
	return strings.Join(out, " ")
}
