package main

// C01 — the generated parser recognises exactly the grammar's PEG language
// (default options): operator contracts, wrapper contract, always-succeeds
// shortcut, rule-constant/table agreement.

import (
	"fmt"
	"go/ast"
	"go/token"
	"go/types"
	"math/rand"
	"strconv"
	"strings"

	"golang.org/x/tools/go/ssa"
)

// eventsOfKind filters a history to the recognition-relevant events.
func recogEvents(h []string) []string {
	var out []string
	for _, e := range h {
		if strings.HasPrefix(e, "memo") || strings.HasPrefix(e, "text=") || strings.HasPrefix(e, "__act") {
			continue
		}
		out = append(out, e)
	}
	return out
}

func projRecognition(o outcome) string {
	if o.Kind == "memo" {
		return ""
	}
	s := fmt.Sprintf("return %s at position %s after [%s]", o.Kind, stripTok(o.Pos), strings.Join(stripToks(recogEvents(o.Hist)), " ; "))
	s = reLoop.ReplaceAllString(s, "loop")
	return rePD.ReplaceAllString(s, "$1")
}

// the token component is C03's; recognition compares positions and attempt order only
func stripTok(s string) string { return s }

func stripToks(h []string) []string {
	var out []string
	for _, e := range h {
		// child@(pos,tok):ok  ->  child@pos:ok
		if i := strings.Index(e, "@("); i >= 0 {
			if j := strings.LastIndex(e, "):"); j > i {
				inner := e[i+2 : j]
				depth, cut := 0, -1
				for k, ch := range inner {
					switch ch {
					case '(', '{', '[':
						depth++
					case ')', '}', ']':
						depth--
					case ',':
						if depth == 0 && cut < 0 {
							cut = k
						}
					}
				}
				if cut >= 0 {
					e = e[:i] + "@" + inner[:cut] + e[j+1:]
				}
			}
		}
		if i := strings.Index(e, ")from("); i >= 0 && strings.HasPrefix(e, "loop") {
			e = e[:i+1]
		}
		out = append(out, e)
	}
	return out
}

// reportSuite turns suite results into one obligation per operator case.
func reportSuite(c *Check, rule string, rs []*suiteResult, proj func(outcome) string, what string, extra func(sr *suiteResult) []string) {
	ops, groups := byOp(rs)
	for _, op := range ops {
		var bad, und []string
		var replay strings.Builder
		nOut := 0
		for _, sr := range groups[op] {
			tv := sr.TV
			c.Note("models", tv.Name)
			if tv.Skipped != "" {
				continue
			}
			if tv.EmitErr != "" {
				und = append(und, tv.Name+": emitter not evaluable: "+tv.EmitErr)
				continue
			}
			if len(tv.TypeErrs) > 0 {
				und = append(und, tv.Name+": generated code does not type-check (see C08): "+clip(tv.TypeErrs[0], 200))
				continue
			}
			if len(tv.Und) > 0 {
				if strings.HasPrefix(op, "random") && strings.Contains(strings.Join(tv.Und, " "), "state explosion") {
					// a randomly drawn model too large for the path-sensitive analysis says
					// nothing about the repository: it is left out (and counted)
					c.Note("random models left out (state explosion)", tv.Name)
					continue
				}
				und = append(und, tv.Name+": "+strings.Join(tv.Und[:min(2, len(tv.Und))], " | "))
				continue
			}
			missing, extraO := tv.project(proj)
			nOut += len(tv.Got)
			var msgs []string
			for i, x := range extraO {
				if i >= 2 {
					msgs = append(msgs, fmt.Sprintf("(+%d more)", len(extraO)-2))
					break
				}
				msgs = append(msgs, "emitted code can "+x+" — not admitted by the oracle")
			}
			for i, x := range missing {
				if i >= 2 {
					msgs = append(msgs, fmt.Sprintf("(+%d more)", len(missing)-2))
					break
				}
				msgs = append(msgs, "oracle requires "+x+" — emitted code cannot")
			}
			if extra != nil {
				msgs = append(msgs, extra(sr)...)
			}
			if len(msgs) > 0 {
				bad = append(bad, tv.Name+": "+strings.Join(msgs, "; "))
				replay.WriteString(tv.replay() + "\n")
			}
		}
		construct := "compile/case " + op
		if op == "composition" {
			construct = "compile/two-level compositions"
		}
		pos := ""
		switch {
		case len(bad) > 0:
			o := c.Bad(rule, construct, pos, clip(strings.Join(bad, " || "), 1500))
			o.Replay = replay.String()
		case len(und) > 0:
			c.Und(rule, construct, pos, clip(strings.Join(und, " || "), 1200))
		default:
			c.OK(rule, construct, pos, fmt.Sprintf("%d model(s), %d outcome(s) of the emitted rule functions: %s", len(groups[op]), nOut, what))
		}
	}
}

func checkC01(c *Check) {
	c.Explain = "Decides, for default options (AST on, no -inline, no -switch), that every operator template the emitter can print satisfies the inductive PEG contract. E1 evaluates the source of the emission part of (*Tree).Compile (an abstract interpreter over its type-checked AST) on model rule trees whose children are opaque holes with a may-fail/never-fail contract, for every expression node type, 1–3 children and all flavours, plus two-level compositions; E3 instantiates the runtime template for the same model; E2 type-checks the result and runs a disjunctive typestate analysis on go/cfg of the rule function (symbolic position, token trace, snapshots, knowledge about buffer[position], history of child attempts; repetition back edges are discharged against a loop invariant). The set of possible (verdict, final position, order and position of child attempts) is compared for equality with the set produced by an independent PEG oracle written from Ford's semantics. Also decided: the always-succeeds shortcut never drops the failure branch of a rule that can fail; rule constants and the rule table are appended in the same order; Parse's entry index (C11 R-entry-index). By structural induction over the rule tree and the input length these per-operator facts are necessary and, for well-formed grammars, sufficient for C01. Not decided: that the front end builds the intended tree (C10); -inline/-switch/-noast (C02, C07)."
	c.Assume = []string{"grammar is well formed (no left recursion, no repetition of a nullable expression)", "Go executes the emitted text as Go", "children obey the contract they are checked against when they are the root (induction)", "link produces Rule{ImplicitPush{expr, rule copy}}, Push{expr, rule copy named PegText} and Name→Action rules as modelled (R-link-shape)"}
	c.Trusted = []string{"the abstract interpreter in interp.go (refuses anything outside its subset)", "go/parser, go/types, go/cfg", "the PEG oracle in spec.go", "text/template/parse"}
	r := mustRepo(c)
	if r == nil {
		return
	}
	specs := coreSuite()
	if c.Tier == "thorough" {
		specs = append(specs, thoroughSpecs(c.Seed, 2400)...)
		c.extraCov["thorough_models"] = "all two-level operator compositions over opaque children + 2400 seeded random well-formed expressions of depth ≤ 3 and 300 of depth ≤ 4"
	}
	rs, probs := runSuite(r, specs, []modelOpts{{Ast: true}})
	for _, p := range probs {
		c.Und("R-anchor", "tree.(*Tree).Compile/emission region", "", p)
	}
	if rs == nil {
		return
	}
	reportSuite(c, "R-operator-contract", rs, projRecognition, "verdict, final position and order/position of child attempts equal the PEG oracle's", func(sr *suiteResult) []string {
		var out []string
		for _, f := range sr.TV.Flags {
			if strings.Contains(f, "always-succeeds") {
				out = append(out, f)
			}
		}
		for _, w := range sr.TV.Warnings {
			if strings.Contains(w, "illegal node type") || strings.Contains(w, "internal error") {
				out = append(out, "the emitter has no case for this node type ("+w+")")
			}
		}
		return out
	})
	c.Floor("R-operator-contract", len(rs), 50)
	alwaysSucceedsTable(c, r)
	ruleNamesOrder(c, r)
	expressionTypes(c, r)
	// the terminals' contract (dot, negated classes and !. stop at the end of the
	// input and nowhere else) rests on the end symbol being no code point
	forEachRuntime(c, func(a *aggregator, v *rtView) {
		rtSentinel(a, v)
		rtMatchers(a, v)
		if rtEvalHere(v) {
			rtMatcherSemantics(a, v)
		}
	})
}

// alwaysSucceedsTable evaluates (*node).CheckAlwaysSucceeds on models and
// compares with the sound may-fail criterion.
func alwaysSucceedsTable(c *Check, r *Repo) {
	type tc struct {
		name  string
		build func(m *model) *Obj
	}
	f, s := true, false
	cases := []tc{
		{"Query", func(m *model) *Obj { return m.query(m.opaqueChild(f, false)) }},
		{"Star", func(m *model) *Obj { return m.star(m.opaqueChild(f, false)) }},
		{"Plus", func(m *model) *Obj { return m.plus(m.opaqueChild(f, false)) }},
		{"Nil", func(m *model) *Obj { return m.nilNode() }},
		{"Sequence s s", func(m *model) *Obj { return m.seq(m.opaqueChild(s, false), m.opaqueChild(s, false)) }},
		{"Sequence s f", func(m *model) *Obj { return m.seq(m.opaqueChild(s, false), m.opaqueChild(f, false)) }},
		{"Sequence f s", func(m *model) *Obj { return m.seq(m.opaqueChild(f, false), m.opaqueChild(s, false)) }},
		{"Alternate f s", func(m *model) *Obj { return m.alt(m.opaqueChild(f, false), m.opaqueChild(s, false)) }},
		{"Alternate s f", func(m *model) *Obj { return m.alt(m.opaqueChild(s, false), m.opaqueChild(f, false)) }},
		{"Alternate f f", func(m *model) *Obj { return m.alt(m.opaqueChild(f, false), m.opaqueChild(f, false)) }},
		{"Alternate f nil", func(m *model) *Obj { return m.alt(m.opaqueChild(f, false), m.nilNode()) }},
		{"Push s", func(m *model) *Obj { return m.push(m.opaqueChild(s, false)) }},
		{"Push f", func(m *model) *Obj { return m.push(m.opaqueChild(f, false)) }},
		{"PeekFor s", func(m *model) *Obj { return m.peekFor(m.opaqueChild(s, false)) }},
		{"PeekNot f", func(m *model) *Obj { return m.peekNot(m.opaqueChild(f, false)) }},
		{"Character", func(m *model) *Obj { return m.char("a") }},
		{"Range", func(m *model) *Obj { return m.rng("a", "c") }},
		{"Dot", func(m *model) *Obj { return m.dot() }},
		{"Predicate", func(m *model) *Obj { return m.predicate("__pred0()") }},
		{"StateChange", func(m *model) *Obj { return m.state("__st0()") }},
		{"Name→may fail", func(m *model) *Obj { m.addRule("B", m.opaqueChild(f, false), 2); return m.name("B") }},
		{"Name→never fails", func(m *model) *Obj { m.addRule("B", m.query(m.opaqueChild(f, false)), 2); return m.name("B") }},
		{"Name→recursive nullable", func(m *model) *Obj {
			m.addRule("B", m.alt(m.seq(m.opaqueChild(f, false), m.name("B")), m.nilNode()), 2)
			return m.name("B")
		}},
		{"Action reference", func(m *model) *Obj { return m.action("__act0()") }},
	}
	var unsound, conservative []string
	n := 0
	for _, t := range cases {
		func() {
			defer func() {
				if p := recover(); p != nil {
					if u, ok := p.(undecided); ok {
						c.Und("R-always-succeeds", "checkAlwaysSucceedsRecursion/"+t.name, "", u.msg)
						return
					}
					panic(p)
				}
			}()
			it := newInterp(r)
			m := newModel(it, modelOpts{Ast: true})
			rule := m.addRule("S", t.build(m), 1)
			m.finish()
			// hook for opaque children
			if fd, _ := findDecl(it, "node", "checkAlwaysSucceedsRecursion"); fd != nil {
				it.hooks[fd] = func(it *Interp, cl *Closure, args []Value) ([]Value, bool) {
					if nd, ok := cl.recv.(*Obj); ok {
						if oi := m.oinfo(nd); oi != nil {
							return []Value{oi.always}, true
						}
					}
					return nil, false
				}
			}
			res := it.invoke(nil, m.method("CheckAlwaysSucceeds", rule), []Value{m.tree})
			says, _ := res[0].(bool)
			can := m.canFail(rule, map[*Obj]bool{})
			n++
			if says && can {
				unsound = append(unsound, t.name)
			}
			if !says && !can {
				conservative = append(conservative, t.name)
			}
		}()
	}
	// seeded random multi-rule grammars: the same rule reached along several paths
	rng := rand.New(rand.NewSource(c.Seed + 7))
	nGr := 250
	if c.Tier == "thorough" {
		nGr = 20000
	}
	names := []string{"R0", "R1", "R2"}
	var gen func(depth int) *mexpr
	gen = func(depth int) *mexpr {
		if depth == 0 || rng.Intn(4) == 0 {
			switch rng.Intn(6) {
			case 0:
				return me("es")
			case 1, 2:
				return &mexpr{Op: "name", S: names[rng.Intn(len(names))]}
			case 3:
				return &mexpr{Op: "char", S: "a"}
			default:
				return me("e")
			}
		}
		switch rng.Intn(8) {
		case 0, 1:
			return me("seq", gen(depth-1), gen(depth-1))
		case 2, 3, 4:
			return me("alt", gen(depth-1), gen(depth-1))
		default:
			return me(unaryOps[rng.Intn(len(unaryOps))], gen(depth-1))
		}
	}
	for g := 0; g < nGr; g++ {
		func() {
			defer func() {
				if p := recover(); p != nil {
					if u, ok := p.(undecided); ok {
						c.Und("R-always-succeeds", fmt.Sprintf("checkAlwaysSucceedsRecursion/random grammar %d", g), "", u.msg)
						return
					}
					panic(p)
				}
			}()
			it := newInterp(r)
			m := newModel(it, modelOpts{Ast: true})
			var descr []string
			var rules []*Obj
			for _, nm := range names {
				x := gen(3)
				descr = append(descr, nm+" <- "+x.String())
				rules = append(rules, m.addRule(nm, x.build(m), 2))
			}
			m.finish()
			if fd, _ := findDecl(it, "node", "checkAlwaysSucceedsRecursion"); fd != nil {
				it.hooks[fd] = func(it *Interp, cl *Closure, args []Value) ([]Value, bool) {
					if nd, ok := cl.recv.(*Obj); ok {
						if oi := m.oinfo(nd); oi != nil {
							return []Value{oi.always}, true
						}
					}
					return nil, false
				}
			}
			for i, rule := range rules {
				res := it.invoke(nil, m.method("CheckAlwaysSucceeds", rule), []Value{m.tree})
				says, _ := res[0].(bool)
				can := m.canFail(rule, map[*Obj]bool{})
				n++
				if says && can {
					unsound = append(unsound, fmt.Sprintf("%s in {%s}", names[i], strings.Join(descr, "; ")))
				}
			}
		}()
	}
	if len(unsound) > 6 {
		unsound = append(unsound[:6], fmt.Sprintf("(+%d more)", len(unsound)-6))
	}
	_, fd := findDecl(newInterp(r), "node", "checkAlwaysSucceedsRecursion")
	pos := ""
	if fd != nil {
		pos = r.pos(fd.Pos())
	}
	c.Decide(len(unsound) == 0, "R-always-succeeds", "node.checkAlwaysSucceedsRecursion is sound", pos,
		fmt.Sprintf("%d expression shapes evaluated: it answers true only for expressions that cannot fail (conservative 'false' for: %s)", n, strings.Join(conservative, ", ")),
		"it reports 'always succeeds' for an expression that can fail, so the call site drops the failure branch and parsing continues after a failed rule: "+strings.Join(unsound, ", "))
}

// ruleNamesOrder: rule constants (RuleNames order) and rule table entries
// (order of TypeRule nodes in the tree's list) are appended together.
func ruleNamesOrder(c *Check, r *Repo) {
	n := 0
	var bad []string
	for _, f := range r.allFuncs("tree") {
		if f.Parent() != nil {
			continue // closures are scanned with their parent
		}
		var scan func(g *ssa.Function)
		scan = func(g *ssa.Function) {
			instrsOf(g, func(in ssa.Instruction) {
				st, ok := in.(*ssa.Store)
				if !ok {
					return
				}
				fa, ok := st.Addr.(*ssa.FieldAddr)
				if !ok {
					return
				}
				sT := derefStruct(fa.X.Type())
				if sT == nil || sT.Field(fa.Field).Name() != "RuleNames" {
					return
				}
				call, ok := st.Val.(*ssa.Call)
				if !ok || calleeName(call) != "builtin.append" {
					return
				}
				n++
				// appended value
				var v ssa.Value
				if sl, ok := call.Call.Args[1].(*ssa.Slice); ok {
					if al, ok := sl.X.(*ssa.Alloc); ok {
						for _, ref := range *al.Referrers() {
							if ia, ok := ref.(*ssa.IndexAddr); ok {
								for _, rr := range *ia.Referrers() {
									if s2, ok := rr.(*ssa.Store); ok {
										v = s2.Val
									}
								}
							}
						}
					}
				}
				if v == nil {
					bad = append(bad, r.pos(st.Pos())+": appended value not identified")
					return
				}
				// (a) the same value is pushed to the back of the tree's list in this function
				paired := false
				instrsOf(g, func(in2 ssa.Instruction) {
					if cl, ok := in2.(*ssa.Call); ok && strings.HasSuffix(calleeName(cl), "node).PushBack") && len(cl.Call.Args) == 2 && cl.Call.Args[1] == v {
						if fa2, ok := cl.Call.Args[0].(*ssa.FieldAddr); ok {
							if s3 := derefStruct(fa2.X.Type()); s3 != nil && s3.Field(fa2.Field).Name() == "node" {
								paired = true
							}
						}
					}
				})
				// (b) or it is the element of the in-order walk over the tree's list (yield parameter)
				if p, ok := v.(*ssa.Parameter); ok && g.Synthetic != "" && strings.Contains(g.Synthetic, "range-over-func") && p == g.Params[0] {
					paired = true
				}
				if !paired {
					bad = append(bad, r.pos(st.Pos())+": a rule is added to RuleNames without being appended to the rule list at the same point (rule constants and table indices diverge)")
				}
			})
			for _, af := range g.AnonFuncs {
				scan(af)
			}
		}
		scan(f)
	}
	// the same clause by evaluation: after Compile's passes on grammars with actions, captures and
	// undefined names (link appends rules for them), the names in RuleNames are the rule nodes of
	// the tree's list in the same order — so rule constants and table indices agree
	wholeSemantics(c, r, "R-whole-semantics", modelOpts{Ast: true})
	semBad, semUnd, semN := ruleOrderSemantics(r)
	switch {
	case semUnd != "":
		c.Und("R-rule-order-semantics", "Compile/rule constants and rule table entries are in the same order", "", semUnd)
	default:
		c.Decide(len(semBad) == 0 && semN >= 3, "R-rule-order-semantics", "Compile/rule constants and rule table entries are in the same order", "",
			fmt.Sprintf("%d grammars (actions, captures, undefined and unused names, a duplicate definition) evaluated through the first pass and link: RuleNames lists the rule nodes of the tree in list order", semN), strings.Join(semBad, "; "))
	}
	if len(bad) > 0 && semUnd == "" && len(semBad) == 0 && semN >= 3 {
		c.OK("R-rule-order", "RuleNames and the rule list grow together", "", "the append sites are not in the form this rule reads ("+clip(strings.Join(bad, "; "), 160)+"); decided by R-rule-order-semantics")
		return
	}
	c.Decide(len(bad) == 0, "R-rule-order", "RuleNames and the rule list grow together", "", fmt.Sprintf("%d append site(s): each appends the node it also pushes to the back of the tree's list, or the element of the in-order first-pass walk", n), strings.Join(bad, "; "))
	c.Floor("R-rule-order", n, 1)
}

func ruleOrderSemantics(r *Repo) (bad []string, und string, n int) {
	rg := findRegion(r)
	if len(rg.problems) > 0 {
		return nil, strings.Join(rg.problems, "; "), 0
	}
	type gr struct {
		name  string
		build func(fm *frontModel)
		marks map[string]rune // rule → the character only its function reads; 0: the rule has no function
	}
	ti := loadTemplate(r)
	rule := func(fm *frontModel, name string, body func()) {
		fm.call("AddRule", name)
		body()
		fm.call("AddExpression")
	}
	cases := []gr{
		{"A <- 'a' B ; B <- 'b'", func(fm *frontModel) {
			rule(fm, "A", func() { fm.call("AddCharacter", "a"); fm.call("AddName", "B"); fm.call("AddSequence") })
			rule(fm, "B", func() { fm.call("AddCharacter", "b") })
		}, map[string]rune{"A": 'a', "B": 'b'}},
		{"A <- <'a'> {act} U ; B <- {act2} A  (capture, actions, undefined U, unused B)", func(fm *frontModel) {
			rule(fm, "A", func() {
				fm.call("AddCharacter", "a")
				fm.call("AddPush")
				fm.call("AddAction", "_ = 0")
				fm.call("AddSequence")
				fm.call("AddName", "U")
				fm.call("AddSequence")
			})
			rule(fm, "B", func() { fm.call("AddAction", "_ = 1"); fm.call("AddName", "A"); fm.call("AddSequence") })
		}, nil},
		{"A <- B C ; C <- 'c' ; B <- {act} ; A <- 'x'  (a duplicate definition)", func(fm *frontModel) {
			rule(fm, "A", func() { fm.call("AddName", "B"); fm.call("AddName", "C"); fm.call("AddSequence") })
			rule(fm, "C", func() { fm.call("AddCharacter", "c") })
			rule(fm, "B", func() { fm.call("AddAction", "_ = 2") })
			rule(fm, "A", func() { fm.call("AddCharacter", "x") })
		}, nil},
		{"S <- A B C U ; A <- 'a' ; A <- 'z' ; B <- 'b' ; C <- 'c' ; D <- 'd'  (a duplicate in the middle, an undefined and an unused rule)", func(fm *frontModel) {
			rule(fm, "S", func() {
				fm.call("AddName", "A")
				fm.call("AddName", "B")
				fm.call("AddSequence")
				fm.call("AddName", "C")
				fm.call("AddSequence")
				fm.call("AddName", "U")
				fm.call("AddSequence")
			})
			rule(fm, "A", func() { fm.call("AddCharacter", "a") })
			rule(fm, "A", func() { fm.call("AddCharacter", "z") })
			rule(fm, "B", func() { fm.call("AddCharacter", "b") })
			rule(fm, "C", func() { fm.call("AddCharacter", "c") })
			rule(fm, "D", func() { fm.call("AddCharacter", "d") })
		}, map[string]rune{"A": 'a', "B": 'b', "C": 'c', "D": 0, "U": 0}},
		{"S <- A B ; A <- 'a' ; A <- 'y' ; A <- 'z' ; B <- 'b' {act}  (two dropped definitions, an action rule behind them)", func(fm *frontModel) {
			rule(fm, "S", func() { fm.call("AddName", "A"); fm.call("AddName", "B"); fm.call("AddSequence") })
			rule(fm, "A", func() { fm.call("AddCharacter", "a") })
			rule(fm, "A", func() { fm.call("AddCharacter", "y") })
			rule(fm, "A", func() { fm.call("AddCharacter", "z") })
			rule(fm, "B", func() { fm.call("AddCharacter", "b"); fm.call("AddAction", "_ = 3"); fm.call("AddSequence") })
		}, map[string]rune{"A": 'a', "B": 'b'}},
	}
	for _, g := range cases {
		func() {
			defer func() {
				if p := recover(); p != nil {
					if u, ok := p.(undecided); ok {
						und = g.name + ": " + u.msg
						return
					}
					und = g.name + ": " + fmt.Sprint(p)
				}
			}()
			fm := newFrontModel(r)
			if len(g.marks) > 0 {
				fm.call("AddPackage", "p")
				fm.call("AddPeg", "P")
				fm.call("AddState", "")
			}
			g.build(fm)
			em := fm.m.runFull(rg)
			if em.Err != "" {
				und = g.name + ": " + em.Err
				return
			}
			var names, listed []string
			if s, ok := fm.tree.field("RuleNames").v.(*SliceV); ok && s != nil {
				for _, e := range s.elems {
					if o, ok := e.(*Obj); ok {
						names = append(names, fm.m.strOf(o))
					}
				}
			}
			for _, k := range fm.m.kids(fm.tree.field("node").v.(*Obj)) {
				if fm.m.typeOf(k) == "TypeRule" {
					listed = append(listed, fm.m.strOf(k))
				}
			}
			n++
			// the emitted table itself: the entry at the index of constant rule<N> is the function of N
			// (each rule of these grammars reads a character of its own), or nil where N has no function
			if len(g.marks) > 0 {
				gf, errs := assemble(r, ti, fm.m, em, "ruleorder")
				if len(errs) > 0 || gf == nil {
					und = g.name + ": the generated file does not type-check: " + clip(strings.Join(errs, "; "), 200)
					return
				}
				for i, nm := range names {
					mark, has := g.marks[nm]
					var fl *ast.FuncLit
					if i+1 < len(gf.rules) {
						fl = gf.rules[i+1]
					}
					if !has {
						continue
					}
					if mark == 0 {
						if fl != nil {
							bad = append(bad, fmt.Sprintf("%s: the table has a function at the index of rule%s, which has none", g.name, nm))
						}
						continue
					}
					if fl == nil {
						bad = append(bad, fmt.Sprintf("%s: the table entry at the index of constant rule%s is nil: Parse(rule%s) and every call of %s fail", g.name, nm, nm, nm))
						continue
					}
					found := map[rune]bool{}
					ast.Inspect(fl, func(x ast.Node) bool {
						if bl, ok := x.(*ast.BasicLit); ok && bl.Kind == token.CHAR {
							if v, err := strconv.Unquote(bl.Value); err == nil {
								for _, c := range v {
									found[c] = true
								}
							}
						}
						return true
					})
					if !found[mark] {
						bad = append(bad, fmt.Sprintf("%s: the table entry at the index of constant rule%s is not the function of %s (it does not read %q)", g.name, nm, nm, mark))
					}
				}
				for i := len(names) + 1; i < len(gf.rules); i++ {
					if gf.rules[i] != nil {
						bad = append(bad, fmt.Sprintf("%s: the table has a function at index %d, beyond the last rule constant", g.name, i))
					}
				}
			}
			if strings.Join(names, " ") != strings.Join(listed, " ") {
				bad = append(bad, fmt.Sprintf("%s: RuleNames is [%s], the rule nodes of the tree are [%s]: rule constants and table indices diverge", g.name, strings.Join(names, " "), strings.Join(listed, " ")))
			}
		}()
		if und != "" {
			return nil, und, n
		}
	}
	return bad, "", n
}

// expressionTypes: every node type constructed anywhere is known to the oracle.
func expressionTypes(c *Check, r *Repo) {
	known := map[string]bool{}
	for _, t := range []string{"TypeRule", "TypeName", "TypeDot", "TypeCharacter", "TypeRange", "TypePredicate", "TypeStateChange", "TypeAction", "TypeAlternate", "TypeUnorderedAlternate", "TypeSequence", "TypePeekFor", "TypePeekNot", "TypeQuery", "TypeStar", "TypePlus", "TypePush", "TypeImplicitPush", "TypeNil",
		"TypePackage", "TypeImport", "TypePeg", "TypeState", "TypeSpace", "TypeComment",
		"TypeUnknown" /* a dropped duplicate definition: top level only, skipped by every loop over the rule list (C15 R-duplicate) */} {
		known[t] = true
	}
	made := constructedTypes(r)
	var unknown []string
	for t := range made {
		if !known[t] {
			unknown = append(unknown, t)
		}
	}
	c.Decide(len(unknown) == 0 && len(made) >= 20, "R-expression-types", "every constructed node type has oracle semantics", "",
		fmt.Sprintf("%d node types are constructed in package tree (composite literals, addList/addFix arguments, SetType); all are covered by the oracle or are top-level only", len(made)),
		"node types constructed but unknown to the oracle: "+strings.Join(unknown, ", "))
}

// constructedTypes: Type constants that flow into a node's Type field
// (composite literals `Type: X`, arguments of addList/addFix/SetType).
func constructedTypes(r *Repo) map[string]bool {
	out := map[string]bool{}
	p := r.pkg("tree")
	isTypeConst := func(e ast.Expr) string {
		id, ok := ast.Unparen(e).(*ast.Ident)
		if !ok {
			return ""
		}
		k, ok := p.TypesInfo.Uses[id].(*types.Const)
		if !ok || !strings.HasPrefix(k.Name(), "Type") {
			return ""
		}
		if n, ok := k.Type().(*types.Named); !ok || n.Obj().Name() != "Type" {
			return ""
		}
		return k.Name()
	}
	for _, f := range p.Syntax {
		ast.Inspect(f, func(n ast.Node) bool {
			switch x := n.(type) {
			case *ast.KeyValueExpr:
				if id, ok := x.Key.(*ast.Ident); ok && id.Name == "Type" {
					if t := isTypeConst(x.Value); t != "" {
						out[t] = true
					}
				}
			case *ast.CallExpr:
				for _, a := range x.Args {
					if t := isTypeConst(a); t != "" {
						out[t] = true
					}
				}
			}
			return true
		})
	}
	return out
}
