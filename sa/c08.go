package main

// C08 — every accepted grammar yields valid, gofmt-clean Go under every option set.

import (
	"fmt"
	"go/ast"
	"go/constant"
	"go/token"
	"go/types"
	"sort"
	"strconv"
	"strings"

	"golang.org/x/tools/go/ssa"
)

// hostileSuite: representatives of the character classes that matter for the
// lexical context a hole is printed into (rune literal, string literal, block
// comment, statement position).
func hostileSuite() []modelSpec {
	var s []modelSpec
	add := func(op, name string, b func(m *model) *Obj) {
		s = append(s, modelSpec{Op: op, Name: name, Build: func(m *model) int {
			m.addRule("S", b(m), 1)
			return 0
		}})
	}
	chars := map[string]string{"single quote": "'", "double quote": "\"", "backslash": "\\", "newline": "\n", "NUL": "\x00", "tab": "\t",
		"latin-1": "é", "CJK": "世", "max rune": "\U0010FFFF", "replacement char": "\ufffd", "star": "*", "slash": "/", "percent": "%", "DEL": "\x7f", "BOM": "\ufeff"}
	for nm, ch := range chars {
		ch := ch
		add("emit-context: rune literal", "Character "+nm, func(m *model) *Obj { return m.char(ch) })
	}
	add("emit-context: rune literal", "Range quote..backslash", func(m *model) *Obj { return m.rng("'", "\\") })
	add("emit-context: rune literal", "Range star..slash", func(m *model) *Obj { return m.rng("*", "/") })
	add("emit-context: rune literal", "Range NUL..max rune", func(m *model) *Obj { return m.rng("\x00", "\U0010FFFF") })
	add("emit-context: rune literal", "Sequence star then slash", func(m *model) *Obj { return m.seq(m.char("*"), m.char("/")) })
	add("emit-context: block comment", "predicate containing a block comment", func(m *model) *Obj {
		return m.seq(m.predicate("__pred0() /* why */"), m.opaqueChild(true, false))
	})
	add("emit-context: block comment", "state change containing a block comment", func(m *model) *Obj {
		return m.seq(m.state("__st0() /* why */"), m.opaqueChild(true, false))
	})
	add("emit-context: block comment", "action containing a block comment", func(m *model) *Obj {
		return m.seq(m.action("__act0() /* why */"), m.opaqueChild(true, false))
	})
	add("emit-context: block comment", "predicate containing a string with */", func(m *model) *Obj {
		return m.seq(m.predicate("__pred0() && \"*/\" != \"\""), m.opaqueChild(true, false))
	})
	// user code is text of the grammar's author: format verbs, comment ends and escapes in it are its own business
	add("emit-context: statement", "action with format verbs in a string", func(m *model) *Obj {
		return m.seq(m.char("a"), m.action("__act0(\"100% sure: %d %s %%\")"), m.opaqueChild(true, false))
	})
	add("emit-context: statement", "predicate with a format verb", func(m *model) *Obj {
		return m.seq(m.predicate("__pred0(\"%v\", '%')"), m.opaqueChild(true, false))
	})
	add("emit-context: statement", "state change with a format verb and a backslash", func(m *model) *Obj {
		return m.seq(m.state("__st0(\"%q\\n\")"), m.opaqueChild(true, false))
	})
	add("emit-context: statement", "action with a comment end inside a string", func(m *model) *Obj {
		return m.seq(m.char("a"), m.action("__act0(\"/* c */\")"), m.opaqueChild(true, false))
	})
	add("runtime variables in user code", "action reading text and buffer in a grammar without captures", func(m *model) *Obj {
		return m.seq(m.char("a"), m.action("_, _ = text, buffer"), m.opaqueChild(true, false))
	})
	add("runtime variables in user code", "predicate reading buffer and position", func(m *model) *Obj {
		return m.seq(m.predicate("len(buffer) > int(position)"), m.opaqueChild(true, false))
	})
	add("emit-context: statement", "predicate with a line comment", func(m *model) *Obj {
		return m.seq(m.predicate("__pred0() // trailing\n"), m.opaqueChild(true, false))
	})
	return s
}

func labelSuite() []modelSpec {
	var s []modelSpec
	add := func(op, name string, b func(m *model) *Obj) {
		s = append(s, modelSpec{Op: op, Name: name, Build: func(m *model) int {
			m.addRule("S", b(m), 1)
			return 0
		}})
	}
	l := func(m *model) *Obj { return m.opaqueChild(true, true) }
	add("TypeSequence", "Sequence of children ending in labels", func(m *model) *Obj { return m.seq(l(m), l(m)) })
	add("TypeAlternate", "Alternate of children ending in labels", func(m *model) *Obj { return m.alt(l(m), l(m), l(m)) })
	add("TypeQuery", "Query of a child ending in a label", func(m *model) *Obj { return m.query(l(m)) })
	add("TypeStar", "Star of a child ending in a label", func(m *model) *Obj { return m.star(l(m)) })
	add("TypePlus", "Plus of a child ending in a label", func(m *model) *Obj { return m.plus(l(m)) })
	add("TypePeekFor", "PeekFor of a child ending in a label", func(m *model) *Obj { return m.peekFor(l(m)) })
	add("TypePeekNot", "PeekNot of a child ending in a label", func(m *model) *Obj { return m.peekNot(l(m)) })
	add("TypePush", "Push of a child ending in a label", func(m *model) *Obj { return m.push(l(m)) })
	add("TypeSequence", "Sequence ending in an element that prints nothing after a label", func(m *model) *Obj { return m.seq(m.query(m.opaqueChild(true, false)), m.nilNode()) })
	add("TypeSequence", "Sequence: choice followed by an action", func(m *model) *Obj {
		return m.seq(m.alt(m.opaqueChild(true, false), m.opaqueChild(true, false)), m.action("__act0()"))
	})
	add("TypeAlternate", "Alternate whose alternatives cannot fail", func(m *model) *Obj {
		return m.alt(m.opaqueChild(false, false), m.opaqueChild(false, false))
	})
	add("TypeAlternate", "Alternate inside Alternate as last element", func(m *model) *Obj {
		return m.alt(m.opaqueChild(true, false), m.alt(m.opaqueChild(true, false), m.opaqueChild(false, false)))
	})
	// link appends stubs and action rules behind all user rules, so nothing that can jump follows a stub
	s = append(s, modelSpec{Op: "rule wrapper", Name: "undefined rule stub followed by action rule", NoAux: true, Build: func(m *model) int {
		m.addRule("S", m.seq(m.name("B"), m.char("z"), m.action("__act0()"), m.opaqueChild(true, false)), 1)
		m.stubRule("B", 1)
		return 0
	}})
	s = append(s, modelSpec{Op: "rule wrapper", Name: "unused rule between used rules", Build: func(m *model) int {
		m.addRule("S", m.seq(m.name("C"), m.opaqueChild(true, false)), 1)
		m.addRule("Unused", m.alt(m.opaqueChild(true, false), m.opaqueChild(true, false)), 0)
		m.addRule("C", m.alt(m.opaqueChild(true, false), m.opaqueChild(true, false)), 2)
		return 2
	}})
	return s
}

func checkC08(c *Check) {
	c.Explain = "Validity of an unbounded family of outputs is decided as validity of the templates. R-frag-typecheck: for every model of the suite (all operators × child counts × may-fail/never-fail/ends-with-label flavours, backtracking and two-level compositions, rule-table shapes with stubs/unused/inlined rules) and every lexical-context representative (quotes, backslash, control, non-ASCII, maximal runes in literals and ranges; predicates/actions/state changes containing comments), under {AST, -noast} × {plain, -inline} (the -switch shapes are added by C02's suite), the text E1 extracts from the emitter, spliced behind the E3 instantiation of the runtime for the same model, parses and type-checks: no unused or undefined label, variable or import, no unresolved identifier, balanced braces, valid literals; the emitter's labelLast result agrees with the text it printed. R-label-parity: the labels marked used in the dry pass equal, in order, those jumped to in the real pass. R-const-in-U / R-ruletype: a 300-rule model type-checks and the rule-constant type is chosen with exact thresholds at 2^8, 2^16, 2^32 of the node count. R-imports: every path from an append to t.Imports to the template passes a de-duplication. R-gofmt: the buffer is parsed with comments and printed with gofmt's printer configuration, and both error paths return the error. R-runtime-typecheck: all 32 runtime instantiations type-check. Not decided: gofmt idempotence on arbitrary header comments; grammars using reserved identifiers or invalid Go in actions (excluded by the property)."
	c.Assume = []string{"user action/predicate code is valid Go", "rule names do not collide with the generator's identifiers", "go/printer output is canonical gofmt form (trusted)"}
	c.Trusted = []string{"interp.go, e2.go", "go/parser, go/types", "text/template/parse"}
	r := mustRepo(c)
	if r == nil {
		return
	}
	specs := append(append(tokenSuite(), hostileSuite()...), labelSuite()...)
	if c.Tier == "thorough" {
		specs = append(specs, thoroughSpecs(c.Seed, 1200)...)
	}
	optSets := []modelOpts{{Ast: true}, {Ast: false}, {Ast: true, Inline: true}, {Ast: false, Inline: true}}
	rs, probs := runSuite(r, specs, optSets)
	for _, p := range probs {
		c.Und("R-anchor", "tree.(*Tree).Compile/emission region", "", p)
	}
	if rs != nil {
		reportTypecheck(c, rs)
		c.Floor("R-frag-typecheck", len(rs), 300)
	}
	checkWholeCompile(c, r)
	bigGrammar(c, r)
	ruleTypeThresholds(c, r)
	importsDedup(c, r, importOrder(c, r))
	gofmtRule(c, r)
	insts := runtimeInstances(c, r)
	n := 0
	for _, in := range insts {
		if in.repo == nil && in.canonOf == nil {
			n++
		}
	}
	c.Decide(n == 32, "R-runtime-typecheck", "all 32 instantiations of the runtime template type-check", "tree/peg.go.tmpl", fmt.Sprintf("%d valuations of (.Ast .HasActions .HasPush .HasDot .HasString) parse and type-check with exactly the imports they use", n), fmt.Sprintf("only %d of 32 valuations type-check", n))
}

func reportTypecheck(c *Check, rs []*suiteResult) {
	ops, groups := byOp(rs)
	for _, op := range ops {
		var bad, und []string
		var replay strings.Builder
		for _, sr := range groups[op] {
			tv := sr.TV
			c.Note("models", tv.Name)
			if tv.EmitErr != "" {
				und = append(und, tv.Name+": emitter not evaluable: "+tv.EmitErr)
				continue
			}
			var msgs []string
			if len(tv.TypeErrs) > 0 {
				msgs = append(msgs, "does not compile: "+clip(strings.Join(tv.TypeErrs[:min(2, len(tv.TypeErrs))], " | "), 300))
			}
			for _, ct := range tv.Contracts {
				msgs = append(msgs, ct)
			}
			if tv.em != nil && tv.em.labelParity() != "" {
				msgs = append(msgs, "label parity: "+tv.em.labelParity())
			}
			for _, w := range tv.Warnings {
				if strings.Contains(w, "illegal node type") || strings.Contains(w, "internal error") {
					msgs = append(msgs, "emitter: "+w)
				}
			}
			if len(msgs) > 0 {
				bad = append(bad, tv.Name+": "+strings.Join(msgs, "; "))
				replay.WriteString(tv.replay())
			}
		}
		construct := "compile/case " + op
		if !strings.HasPrefix(op, "Type") {
			construct = "compile/" + op
		}
		switch {
		case len(bad) > 0:
			o := c.Bad("R-frag-typecheck", construct, "", clip(strings.Join(bad, " || "), 1500))
			o.Replay = replay.String()
		case len(und) > 0:
			c.Und("R-frag-typecheck", construct, "", clip(strings.Join(und, " || "), 1200))
		default:
			c.OK("R-frag-typecheck", construct, "", fmt.Sprintf("%d model×option instantiation(s) parse and type-check; dry/real label parity and labelLast contract hold", len(groups[op])))
		}
	}
}

// bigGrammar: R-const-in-U — rule ids and constants of a grammar with more than 255 rules.
func bigGrammar(c *Check, r *Repo) {
	sp := modelSpec{Op: "size", Name: "grammar with 300 rules", Build: func(m *model) int {
		var refs []*Obj
		for i := 0; i < 299; i++ {
			refs = append(refs, m.name(fmt.Sprintf("R%d", i)))
		}
		m.addRule("S", m.seq(refs...), 1)
		for i := 0; i < 299; i++ {
			m.addRule(fmt.Sprintf("R%d", i), m.alt(m.char("a"), m.opaqueChild(true, false)), 2)
		}
		return 299
	}, NoAux: true}
	for _, o := range []modelOpts{{Ast: true}, {Ast: false}} {
		rs, probs := runSuite(r, []modelSpec{sp}, []modelOpts{o})
		if len(probs) > 0 || len(rs) != 1 {
			c.Und("R-const-in-U", "300-rule model "+optsName(o), "", strings.Join(probs, "; "))
			continue
		}
		tv := rs[0].TV
		switch {
		case tv.EmitErr != "":
			c.Und("R-const-in-U", "rule ids above 255 ["+optsName(o)+"]", "", tv.EmitErr)
		case len(tv.TypeErrs) > 0:
			ob := c.Bad("R-const-in-U", "rule ids above 255 ["+optsName(o)+"]", "", "a grammar with 300 rules does not compile: "+clip(strings.Join(tv.TypeErrs[:min(3, len(tv.TypeErrs))], " | "), 500))
			ob.Replay = strings.Join(tv.TypeErrs, "\n")
		default:
			c.OK("R-const-in-U", "rule ids above 255 ["+optsName(o)+"]", "", "the 300-rule model type-checks: no rule id literal is placed where the expected type is the type parameter U (type set includes uint8)")
		}
	}
}

// ruleTypeThresholds evaluates the PegRuleType selection for boundary node counts.
func ruleTypeThresholds(c *Check, r *Repo) {
	rg := findRegion(r)
	if len(rg.problems) > 0 {
		c.Und("R-ruletype", "Compile/PegRuleType", "", strings.Join(rg.problems, "; "))
		return
	}
	cases := []struct {
		n    int64
		want string
	}{{3, "uint8"}, {255, "uint8"}, {256, "uint16"}, {65535, "uint16"}, {65536, "uint32"}, {1<<32 - 1, "uint32"}, {1 << 32, "uint64"}}
	var bad []string
	for _, tc := range cases {
		func() {
			defer func() {
				if p := recover(); p != nil {
					bad = append(bad, fmt.Sprintf("n=%d: %v", tc.n, p))
				}
			}()
			it := newInterp(r)
			m := newModel(it, modelOpts{Ast: true})
			m.addRule("S", m.char("a"), 1)
			m.finish()
			// the number of rule constants is bounded by the tree's node count: force the count
			m.tree.field("node").v.(*Obj).field("length").v = tc.n
			em := m.run(rg)
			if em.Err != "" {
				bad = append(bad, fmt.Sprintf("n=%d: %s", tc.n, em.Err))
				return
			}
			got, _ := m.tree.field("PegRuleType").v.(string)
			if got != tc.want {
				bad = append(bad, fmt.Sprintf("with %d top-level nodes the rule constant type is %s, expected %s", tc.n, got, tc.want))
			}
		}()
	}
	c.Decide(len(bad) == 0, "R-ruletype", "Compile/PegRuleType thresholds", "", fmt.Sprintf("%d boundary node counts evaluated on the emitter's source: uint8 ≤255 < uint16 ≤65535 < uint32 ≤2^32-1 < uint64", len(cases)), strings.Join(bad, "; "))
}

// importsDedup: R-imports (static): de-duplication between the appends to
// t.Imports and template execution.
func importsDedup(c *Check, r *Repo, orderHolds bool) {
	f := r.ssaFunc("tree", "Tree.Compile")
	if f == nil {
		c.Und("R-imports", "Compile", "", "not found")
		return
	}
	var appends []ssa.Instruction
	dedupe := false
	var execPos token.Pos
	var scan func(g *ssa.Function)
	scan = func(g *ssa.Function) {
		instrsOf(g, func(in ssa.Instruction) {
			switch x := in.(type) {
			case *ssa.Store:
				if fa, ok := x.Addr.(*ssa.FieldAddr); ok {
					if st := derefStruct(fa.X.Type()); st != nil && st.Field(fa.Field).Name() == "Imports" {
						if call, ok := x.Val.(*ssa.Call); ok {
							switch n := calleeName(call); {
							case n == "builtin.append":
								appends = append(appends, in)
							case strings.HasPrefix(n, "slices.Compact"):
								dedupe = true
							}
						}
					}
				}
			case *ssa.Call:
				n := calleeName(x)
				if strings.HasPrefix(n, "slices.Contains") || strings.HasPrefix(n, "slices.Index") {
					for _, a := range x.Call.Args {
						if u, ok := a.(*ssa.UnOp); ok {
							if fa, ok := u.X.(*ssa.FieldAddr); ok {
								if st := derefStruct(fa.X.Type()); st != nil && st.Field(fa.Field).Name() == "Imports" {
									dedupe = true
								}
							}
						}
					}
				}
				if n == "(*text/template.Template).Execute" {
					execPos = x.Pos()
				}
			}
		})
		for _, af := range g.AnonFuncs {
			scan(af)
		}
	}
	scan(f)
	// the generator's own imports are added through AddImport (TypeImport nodes): count the call sites
	own := 0
	instrsOf(f, func(in ssa.Instruction) {
		if cl, ok := in.(*ssa.Call); ok && strings.HasSuffix(calleeName(cl), "Tree).AddImport") {
			own++
		}
	})
	pos := ""
	if len(appends) > 0 {
		pos = r.pos(appends[0].Pos())
	}
	if !(dedupe && len(appends) > 0) && orderHolds {
		// the imports are not collected by appending to t.Imports and compacting (a set, a helper type): that every
		// import is printed exactly once is what R-import-order has just decided by evaluating the pass
		c.OK("R-imports", "Compile/t.Imports is de-duplicated before the template prints it", "", "the imports are not kept in the append-then-compact form this rule reads; decided by R-import-order")
		return
	}
	c.Decide(dedupe && len(appends) > 0, "R-imports", "Compile/t.Imports is de-duplicated before the template prints it", pos,
		fmt.Sprintf("%d append site(s); a de-duplication (slices.Compact after the sort, or a membership test) lies between them and template execution at %s", len(appends), r.pos(execPos)),
		fmt.Sprintf("the generator unconditionally adds %d imports of its own (fmt, slices, strconv, …) and appends every import of the grammar without any membership test or Compact before the template ranges over .Imports: a grammar that imports one of those packages yields a duplicate import declaration (\"fmt redeclared\")", own))
	c.Floor("R-imports", len(appends), 1)
}

// gofmtRule: R-gofmt.
func gofmtRule(c *Check, r *Repo) {
	fd, p := r.funcDecl("tree", "Tree.Compile")
	if fd == nil {
		c.Und("R-gofmt", "Compile", "", "not found")
		return
	}
	info := p.TypesInfo
	var bad []string
	sawParse, sawPrint := false, false
	// Compile and the functions of the package it calls (the tail may be split into helpers)
	bodies := &ast.BlockStmt{}
	{
		decls := map[*types.Func]*ast.FuncDecl{}
		for _, f := range p.Syntax {
			for _, d := range f.Decls {
				if d, ok := d.(*ast.FuncDecl); ok && d.Body != nil {
					if fn, ok := info.Defs[d.Name].(*types.Func); ok {
						decls[fn] = d
					}
				}
			}
		}
		seen := map[*ast.FuncDecl]bool{fd: true}
		work := []*ast.FuncDecl{fd}
		for len(work) > 0 {
			d := work[0]
			work = work[1:]
			bodies.List = append(bodies.List, d.Body)
			ast.Inspect(d.Body, func(n ast.Node) bool {
				if id, ok := n.(*ast.Ident); ok {
					if fn, ok := info.Uses[id].(*types.Func); ok {
						if cd := decls[fn.Origin()]; cd != nil && !seen[cd] {
							seen[cd] = true
							work = append(work, cd)
						}
					}
				}
				return true
			})
		}
	}
	ast.Inspect(bodies, func(n ast.Node) bool {
		switch x := n.(type) {
		case *ast.CallExpr:
			if se, ok := x.Fun.(*ast.SelectorExpr); ok {
				if fn, ok := info.Uses[se.Sel].(*types.Func); ok && (fn.FullName() == "go/format.Node" || fn.FullName() == "go/format.Source") {
					// go/format is gofmt's own formatting: parse with comments, sort imports, gofmt's printer configuration
					sawPrint = true
					if fn.Name() == "Source" {
						sawParse = true
					}
				}
				if fn, ok := info.Uses[se.Sel].(*types.Func); ok && fn.FullName() == "go/parser.ParseFile" && len(x.Args) == 4 {
					sawParse = true
					tv := info.Types[x.Args[3]]
					if tv.Value == nil {
						bad = append(bad, "parser mode is not constant")
					} else if v, _ := constant.Int64Val(tv.Value); v&4 == 0 { // parser.ParseComments
						bad = append(bad, "the buffer is parsed without parser.ParseComments: rule comments and the header would be dropped")
					}
				}
			}
		case *ast.CompositeLit:
			if t := info.Types[x].Type; t != nil && types.TypeString(t, nil) == "go/printer.Config" {
				sawPrint = true
				for _, el := range x.Elts {
					kv, ok := el.(*ast.KeyValueExpr)
					if !ok {
						continue
					}
					v, _ := constant.Int64Val(info.Types[kv.Value].Value)
					switch kv.Key.(*ast.Ident).Name {
					case "Mode":
						// gofmt prints with TabIndent|UseSpaces and, since Go 1.13, with number literals
						// normalised (0XFF → 0xFF, 1E3 → 1e3): go/format's configuration, bit 1<<30 of the mode
						if v&^(1<<30) != 6 {
							bad = append(bad, fmt.Sprintf("printer mode %d is not gofmt's TabIndent|UseSpaces", v))
						} else if v&(1<<30) == 0 {
							bad = append(bad, "the printer does not normalise number literals as gofmt does: user code with a literal like 0XFF or 1E3 is copied as it is and gofmt -l lists the generated file (go/format.Node prints with gofmt's full configuration)")
						}
					case "Tabwidth":
						if v != 8 {
							bad = append(bad, fmt.Sprintf("printer tab width %d is not gofmt's 8", v))
						}
					}
				}
			}
		}
		return true
	})
	if !sawParse {
		bad = append(bad, "Compile does not parse the generated text")
	}
	if !sawPrint {
		bad = append(bad, "Compile prints neither through go/format nor through go/printer.Config")
	}
	c.Decide(len(bad) == 0, "R-gofmt", "Compile/output is parsed with comments and printed with gofmt's configuration", r.pos(fd.Pos()),
		"parser.ParseFile(…, ParseComments|…), then go/format (or a printer.Config with gofmt's mode, number literals normalised, and tab width 8); both error paths return the error (C18 R-error-propagation)", strings.Join(bad, "; "))
}

// importOrder: R-import-order — the import block is emitted in gofmt order
// (sorted by import path), also when some imports carry an alias.
func importOrder(c *Check, r *Repo) (holds bool) {
	rg := findRegion(r)
	if len(rg.problems) > 0 {
		return false
	}
	type imp struct{ alias, path string }
	cases := [][]imp{
		{{"o", "os"}, {"", "os/exec"}},
		{{"", "go/ast"}, {"g", "go"}, {"", "go-x/y"}},
		{{"z", "a/b"}, {"", "a"}, {"y", "a.b"}},
		{{"", "net/http"}, {"", "bufio"}, {"str", "strings"}},
		// one path under several names, among them packages the runtime imports itself
		{{"b", "bytes"}, {"", "bytes"}},
		{{"", "bytes"}, {"b", "bytes"}},
		{{"str", "strconv"}},
		{{"g", "fmt"}, {"f", "fmt"}},
		{{"z", "os"}, {"", "os/exec"}, {"a", "os"}},
		// repeated imports
		{{"", "os"}, {"", "os"}},
		{{"x", "os"}, {"x", "os"}, {"", "fmt"}},
	}
	var bad []string
	for _, cs := range cases {
		func() {
			defer func() {
				if p := recover(); p != nil {
					bad = append(bad, fmt.Sprint(p))
				}
			}()
			fm := newFrontModel(r)
			for _, i := range cs {
				if i.alias != "" {
					fm.call("AddImportAlias", i.alias)
				}
				fm.call("AddImport", i.path)
			}
			fm.call("AddRule", "S")
			fm.call("AddDot")
			fm.call("AddExpression")
			em := fm.m.runFull(rg)
			if em.Err != "" {
				bad = append(bad, em.Err)
				return
			}
			// what the template prints for the list, whatever the representation of its elements
			var got []imp
			specs, err := printedImports(r, fm.it, fm.tree)
			if err != nil {
				bad = append(bad, err.Error())
				return
			}
			for _, sp := range specs {
				got = append(got, imp{sp[0], sp[1]})
			}
			show := func(l []imp) string {
				var out []string
				for _, i := range l {
					if i.alias != "" {
						out = append(out, i.alias+" "+strconv.Quote(i.path))
					} else {
						out = append(out, strconv.Quote(i.path))
					}
				}
				return strings.Join(out, ", ")
			}
			asked := func(l []imp) string { return "grammar imports [" + show(l) + "]: " }
			// gofmt's order: by path, then by name
			sorted := append([]imp{}, got...)
			sort.SliceStable(sorted, func(i, j int) bool {
				if sorted[i].path != sorted[j].path {
					return sorted[i].path < sorted[j].path
				}
				return sorted[i].alias < sorted[j].alias
			})
			if show(got) != show(sorted) {
				bad = append(bad, asked(cs)+fmt.Sprintf("imports are emitted in the order [%s]; gofmt sorts by path, then by name: [%s]", show(got), show(sorted)))
			}
			seen := map[imp]int{}
			for _, g := range got {
				seen[g]++
				if seen[g] == 2 {
					bad = append(bad, asked(cs)+"import "+show([]imp{g})+" is emitted twice")
				}
			}
			want := map[imp]bool{}
			for _, i := range cs {
				want[i] = true
				if seen[i] == 0 {
					bad = append(bad, asked(cs)+"import "+show([]imp{i})+" is not emitted (emitted: ["+show(got)+"])")
				}
			}
			for _, g := range got {
				if !want[g] && g.alias != "" {
					bad = append(bad, asked(cs)+"import "+show([]imp{g})+" is emitted but the grammar does not ask for it")
				}
			}
		}()
	}
	holds = len(bad) == 0
	c.Decide(len(bad) == 0, "R-import-order", "Compile/imports are emitted once each, with their names, in gofmt's order", "", fmt.Sprintf("%d import sets (aliases, nested paths, one path under several names, packages the runtime imports itself, repetitions) evaluated through the first pass: every import of the grammar is emitted once with its name, in gofmt's order (path, then name)", len(cases)), strings.Join(uniq(bad), "; "))
	return holds
}
