package main

// R-whole-semantics (C01, and C07 for -noast): a grammar given as the builder
// calls the front end makes is taken through ALL of Compile — first pass,
// link, the analyses, the template, the emission loop — and every rule
// function of the table it prints is compared (E2, typestate dataflow) with
// the PEG oracle evaluated on the same grammar built directly as a finished
// tree. The operator suite evaluates the emitter on finished trees; what an
// earlier pass does to a tree before it is emitted (a rewrite in the first
// pass, in link, in a builder method) is seen only here.

import (
	"fmt"
	"math/rand"
	"sort"
	"strings"
)

type semCase struct {
	name  string
	rules []struct {
		n string
		e *gexpr
	}
}

func sc(name string, kv ...any) semCase {
	c := semCase{name: name}
	for i := 0; i+1 < len(kv); i += 2 {
		c.rules = append(c.rules, struct {
			n string
			e *gexpr
		}{kv[i].(string), kv[i+1].(*gexpr)})
	}
	return c
}

func gRange(lo, hi string) *gexpr { return &gexpr{Op: "range", S: lo + hi} }

// gD: a character of a double-quoted literal (either case of a letter).
func gD(s string) *gexpr { return &gexpr{Op: "dchar", S: s} }

func wholeSemanticCases() []semCase {
	eof := func() *gexpr { return gNot(gDot()) }
	return []semCase{
		sc("keywords: a literal of several characters next to a choice of literals with a common prefix",
			"S", gSeq(gLit("if"), gAlt(gLit("then"), gLit("the"), gLit("t")), eof())),
		sc("nested sequences and choices as the builder nests them",
			"S", gSeq(gC("a"), gSeq(gC("b"), gAlt(gSeq(gC("c"), gC("d")), gAlt(gC("c"), gC("e")))), gC("f"), eof())),
		sc("a choice whose alternatives are one-character classes and literals",
			"S", gSeq(gPlus(gAlt(gRange("a", "c"), gC("x"), gRange("0", "9"), gSeq(gC("y"), gC("z")))), eof())),
		sc("rules calling rules: identifiers, spacing, a list",
			"S", gSeq(gN("Item"), gStar(gSeq(gC(","), gN("Sp"), gN("Item"))), eof()),
			"Item", gSeq(gPush(gPlus(gRange("a", "z"))), gN("Sp")),
			"Sp", gStar(gC(" "))),
		sc("lookaheads: a comment up to its end, a keyword not followed by a letter",
			"S", gSeq(gN("Kw"), gN("Cm"), eof()),
			"Kw", gSeq(gLit("do"), gNot(gRange("a", "z"))),
			"Cm", gSeq(gLit("/*"), gStar(gSeq(gNot(gLit("*/")), gDot())), gLit("*/"))),
		sc("captures and actions in a repetition, an optional tail",
			"S", gSeq(gPlus(gSeq(gPush(gRange("0", "9")), gActS("__act0()"))), gQ(gSeq(gC("."), gPush(gPlus(gRange("0", "9"))), gActS("__act1()"))), eof())),
		sc("a predicate and a state change between terminals, an empty alternative",
			"S", gSeq(gC("a"), gPredS("__pred0()"), &gexpr{Op: "state", S: "__st0()"}, gAlt(gC("b"), gNil()), gC("c"))),
		sc("case-insensitive letters at the start of alternatives next to plain literals",
			"S", gSeq(gAlt(gSeq(gD("k"), gC("g")), gSeq(gC("m"), gD("x")), gSeq(gRange("0", "9"), gC("y")), gSeq(gC("z"), gD("w"))), eof())),
		sc("order of a choice with overlapping prefixes; possessive repetition in front of what it swallowed",
			"S", gSeq(gAlt(gC("a"), gLit("ab"), gC("b")), gC("c"), gQ(gC("d")), gC("d"), gAlt(gSeq(gStar(gC("e")), gC("e")), gC("f")), eof())),
		sc("lookaheads of lookaheads, a negated class as the builder makes it, empty literals inside a sequence",
			"S", gSeq(gNot(gNot(gC("a"))), gAnd(gNot(gC("b"))), gSeq(gNot(gRange("x", "z")), gDot()), gNil(), gQ(gSeq(gNil(), gC("q"))), gC("r"), eof())),
		sc("repetition of a choice, a repetition followed by its own operand, an optional rule call in front of a literal it can start with",
			"S", gSeq(gPlus(gAlt(gLit("ab"), gC("a"))), gN("T"), gQ(gN("T")), gLit("ac"), eof()),
			"T", gSeq(gC("a"), gC("c"))),
		sc("alternatives with a common tail, a lookahead-only alternative in front of another, e followed by a repetition of something almost e",
			"S", gSeq(gN("T"), gN("Sep"), gN("R"), eof()),
			"R", gSeq(gC("x"), gRange("0", "9"), gStar(gSeq(gC("x"), gRange("a", "z")))),
			"T", gAlt(gSeq(gC("<"), gC(">")), gSeq(gC("<"), gC("/"), gC(">"))),
			"Sep", gAlt(gAnd(gC(")")), gC(","))),
		sc("a capture inside a lookahead in front of an action, a capture directly around a capture",
			"S", gSeq(gAnd(gSeq(gPush(gPlus(gRange("a", "z"))), gC("="))), gActS("__act0(text)"), gN("K"), gC("="), gPush(gPush(gPlus(gRange("0", "9")))), gActS("__act1(text)"), gC(";")),
			"K", gPlus(gRange("a", "z"))),
		sc("recursion through a parenthesised expression",
			"E", gSeq(gN("T"), gStar(gSeq(gC("+"), gN("T")))),
			"T", gAlt(gSeq(gC("("), gN("E"), gC(")")), gPlus(gRange("0", "9")))),
	}
}

// gexprToModel builds the finished-tree form of a grammar expression.
func gexprToModel(m *model, e *gexpr) *Obj {
	kids := func() []*Obj {
		var out []*Obj
		for _, k := range e.Kids {
			out = append(out, gexprToModel(m, k))
		}
		return out
	}
	switch e.Op {
	case "seq":
		return m.seq(kids()...)
	case "alt":
		return m.alt(kids()...)
	case "query":
		return m.query(kids()[0])
	case "star":
		return m.star(kids()[0])
	case "plus":
		return m.plus(kids()[0])
	case "and":
		return m.peekFor(kids()[0])
	case "not":
		return m.peekNot(kids()[0])
	case "push":
		return m.push(kids()[0])
	case "char":
		return m.char(e.S)
	case "dchar":
		// what the documentation says a double-quoted letter is: either case
		if lo, up := strings.ToLower(e.S), strings.ToUpper(e.S); lo != up {
			return m.alt(m.char(lo), m.char(up))
		}
		return m.char(e.S)
	case "range":
		r := []rune(e.S)
		return m.rng(string(r[0]), string(r[1]))
	case "dot":
		return m.dot()
	case "name":
		return m.name(e.S)
	case "act":
		return m.action(e.S)
	case "pred":
		return m.predicate(e.S)
	case "state":
		return m.state(e.S)
	case "nil":
		return m.nilNode()
	}
	panic(undecided{"grammar expression " + e.Op + " has no finished-tree form"})
}

func countRefs(e *gexpr, into map[string]int) {
	if e.Op == "name" {
		into[e.S]++
	}
	for _, k := range e.Kids {
		countRefs(k, into)
	}
}

// wholeSemantics runs the comparison for one option set; rule is the obligation's rule name.
func wholeSemantics(c *Check, r *Repo, rule string, opts modelOpts) {
	rg := findRegion(r)
	if len(rg.problems) > 0 {
		c.Und(rule, "tree.(*Tree).Compile", "", strings.Join(rg.problems, "; "))
		return
	}
	ti := loadTemplate(r)
	cases := wholeSemanticCases()
	if c.Tier == "thorough" && opts.Ast {
		// default options under C01; -inline and -switch under C02 (other grammars: the seed is shifted)
		shift := int64(31)
		if opts.Inline {
			shift += 1000
		}
		if opts.Switch {
			shift += 2000
		}
		cases = append(cases, randomSemCases(c.Seed+shift, 200)...)
	}
	type res struct {
		bad, und []string
		n        int
		skipped  int
	}
	out := make([]res, len(cases))
	parallelChunks(len(cases), func(lo, hi int) {
		for i := lo; i < hi; i++ {
			cs := cases[i]
			func() {
				defer func() {
					if p := recover(); p != nil {
						if u, ok := p.(undecided); ok {
							out[i].und = append(out[i].und, u.msg)
							return
						}
						out[i].und = append(out[i].und, fmt.Sprint(p))
					}
				}()
				// A: the grammar through the builder and all of Compile
				fm := newFrontModelOpts(r, opts)
				fm.call("AddPackage", "p")
				fm.call("AddPeg", "P")
				fm.call("AddState", "")
				b := &gb{fm}
				for _, rl := range cs.rules {
					fm.call("AddRule", rl.n)
					b.emitTree(rl.e)
					fm.call("AddExpression")
				}
				em := fm.m.runFull(rg)
				if em.Err != "" {
					out[i].und = append(out[i].und, em.Err)
					return
				}
				if len(em.Warnings) > 0 {
					out[i].und = append(out[i].und, "the grammar is not clean: "+strings.Join(em.Warnings, "; "))
					return
				}
				// B: the same grammar as a finished tree, for the oracle
				refs := map[string]int{}
				for _, rl := range cs.rules {
					countRefs(rl.e, refs)
				}
				mB := newModel(newInterp(r), opts)
				for k, rl := range cs.rules {
					uses := refs[rl.n]
					if k == 0 {
						uses++
					}
					mB.addRule(rl.n, gexprToModel(mB, rl.e), uses)
				}
				mB.finish()
				for ri, rl := range cs.rules {
					tv := checkModelEm(r, ti, mB, ri, cs.name+" / "+rl.n+" ["+optsName(opts)+"]", em)
					out[i].n++
					if tv.Skipped != "" {
						continue
					}
					if len(tv.Und) > 0 || tv.EmitErr != "" {
						if d := tv.detail(); strings.HasPrefix(cs.name, "random #") && (strings.Contains(d, "state explosion") || strings.Contains(d, "step limit") || strings.Contains(d, "fuel")) {
							// a random grammar whose paths are too many to enumerate within the bounds: not examined
							out[i].skipped++
							continue
						}
						out[i].und = append(out[i].und, fmt.Sprintf("%s, rule %s: %s", cs.name, rl.n, clip(tv.detail(), 300)))
						continue
					}
					// the outcome sets are compared per class of inputs (which characters were read where):
					// two alternatives that end at the same position are different outcomes
					var msgs []string
					if len(tv.TypeErrs) > 0 {
						msgs = append(msgs, "generated code does not compile: "+clip(strings.Join(tv.TypeErrs[:min(2, len(tv.TypeErrs))], " | "), 300))
					} else {
						missing, extra := tv.project(projEquivRaw)
						for k, x := range extra {
							if k >= 2 {
								msgs = append(msgs, fmt.Sprintf("(+%d more)", len(extra)-2))
								break
							}
							msgs = append(msgs, "the generated parser can "+x+" — the grammar as written cannot")
						}
						for k, x := range missing {
							if k >= 2 {
								msgs = append(msgs, fmt.Sprintf("(+%d more)", len(missing)-2))
								break
							}
							msgs = append(msgs, "the grammar as written can "+x+" — the generated parser cannot")
						}
						msgs = append(msgs, tv.Flags...)
						msgs = append(msgs, tv.Contracts...)
					}
					if len(msgs) > 0 {
						out[i].bad = append(out[i].bad, fmt.Sprintf("%s, rule %s: %s", cs.name, rl.n, clip(strings.Join(msgs, "; "), 500)))
					}
				}
			}()
		}
	})
	var bad, und []string
	n, skipped := 0, 0
	for _, o := range out {
		bad = append(bad, o.bad...)
		und = append(und, o.und...)
		n += o.n
		skipped += o.skipped
	}
	if skipped*20 > n {
		und = append(und, fmt.Sprintf("%d of %d rule functions of random grammars have too many paths to enumerate", skipped, n))
	}
	sort.Strings(bad)
	construct := "Compile as a whole/the rule functions it prints have the PEG outcomes of the grammar as written [" + optsName(opts) + "]"
	switch {
	case len(bad) > 0:
		c.Bad(rule, construct, "", clip(strings.Join(bad, " || "), 1500))
	case len(und) > 0:
		c.Und(rule, construct, "", clip(strings.Join(uniq(und), " || "), 1200))
	default:
		c.OK(rule, construct, "", fmt.Sprintf("%d rule functions of %d grammars (keywords, nested choices and sequences, classes, rule calls, lookaheads, captures and actions, predicates, recursion) built through the builder API and taken through all of Compile: outcome sets (verdict, position, tokens, events) equal the oracle's for the grammar as written (%d rule functions of random grammars not examined: too many paths)", n-skipped, len(cases), skipped))
	}
	c.Floor(rule, n, 21)
}

// randomSemCases: seeded random well-formed grammars over concrete leaves —
// rules refer to later rules only (no recursion), repetitions are over
// expressions that must consume — for the thorough tier.
func randomSemCases(seed int64, n int) []semCase {
	rng := rand.New(rand.NewSource(seed))
	chars := []string{"a", "b", "c", "x", "y"}
	var genC, genAny func(depth int, later []string, acts *int) *gexpr
	genC = func(depth int, later []string, acts *int) *gexpr {
		if depth == 0 || rng.Intn(3) == 0 {
			switch k := rng.Intn(6); {
			case k <= 2:
				return gC(chars[rng.Intn(len(chars))])
			case k == 3:
				lo, hi := chars[rng.Intn(3)], chars[rng.Intn(3)]
				if lo > hi {
					lo, hi = hi, lo
				}
				return gRange(lo, hi)
			case k == 4 && len(later) > 0:
				return gN(later[rng.Intn(len(later))])
			default:
				return gDot()
			}
		}
		switch rng.Intn(6) {
		case 0, 1:
			return gSeq(genC(depth-1, later, acts), genAny(depth-1, later, acts))
		case 2:
			return gSeq(genAny(depth-1, later, acts), genC(depth-1, later, acts))
		case 3:
			return gAlt(genC(depth-1, later, acts), genC(depth-1, later, acts))
		case 4:
			return gPlus(genC(depth-1, later, acts))
		default:
			return gPush(genC(depth-1, later, acts))
		}
	}
	genAny = func(depth int, later []string, acts *int) *gexpr {
		if depth == 0 {
			return genC(0, later, acts)
		}
		switch rng.Intn(9) {
		case 0:
			return gQ(genC(depth-1, later, acts))
		case 1:
			return gStar(genC(depth-1, later, acts))
		case 2:
			return gAnd(genC(depth-1, later, acts))
		case 3:
			return gNot(genC(depth-1, later, acts))
		case 4:
			*acts++
			return gActS(fmt.Sprintf("__act%d()", *acts))
		case 5:
			*acts++
			return gPredS(fmt.Sprintf("__pred%d()", *acts))
		case 6:
			return gAlt(genC(depth-1, later, acts), gNil())
		default:
			return genC(depth, later, acts)
		}
	}
	var out []semCase
	for i := 0; i < n; i++ {
		names := []string{"S", "A", "B"}[:2+rng.Intn(2)]
		acts := 0
		var kv []any
		var descr []string
		used := map[string]bool{}
		var bodies []*gexpr
		for k, nm := range names {
			e := genC(2+rng.Intn(2), names[k+1:], &acts)
			bodies = append(bodies, e)
			refs := map[string]int{}
			countRefs(e, refs)
			for r := range refs {
				used[r] = true
			}
			_ = nm
		}
		// every rule but the first must be used: S calls the unused ones in front of its body
		for k := len(names) - 1; k >= 1; k-- {
			if !used[names[k]] {
				bodies[0] = gSeq(gQ(gN(names[k])), bodies[0])
				used[names[k]] = true
			}
		}
		for k, nm := range names {
			kv = append(kv, nm, bodies[k])
			descr = append(descr, nm+" <- "+gString(bodies[k]))
		}
		out = append(out, sc(fmt.Sprintf("random #%d %s", i, strings.Join(descr, "; ")), kv...))
	}
	return out
}
