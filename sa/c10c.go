package main

// C10, third part: lexical rules of peg.peg compared, string by string over
// small abstract alphabets, with the documented syntax (the independent
// reader). peg.peg is data: it is evaluated with the PEG semantics of this
// file (ordered choice, greedy repetition, lookahead, actions recorded on the
// successful derivation only), not with peg's front end.

import (
	"fmt"
	"sort"
	"strings"
)

type gact struct{ code, text string }

type gmatch struct {
	g     *pgrammar
	src   []rune
	trace []gact
	text  string
	depth int
}

func (m *gmatch) rule(name string, pos int) (int, bool) {
	rl, ok := m.g.ByName[name]
	if !ok {
		panic(undecided{"rule " + name + " is not defined in peg.peg"})
	}
	m.depth++
	defer func() { m.depth-- }()
	if m.depth > 200 {
		panic(undecided{"rule nesting too deep while evaluating peg.peg (left recursion?)"})
	}
	return m.eval(rl.Expr, pos)
}

func (m *gmatch) eval(e *pexpr, pos int) (int, bool) {
	save := func() (int, string) { return len(m.trace), m.text }
	restore := func(n int, t string) { m.trace, m.text = m.trace[:n], t }
	switch e.Op {
	case "lit", "class", "dot":
		return pmatch(e, m.src, pos)
	case "name":
		return m.rule(e.S, pos)
	case "seq":
		n, t := save()
		p := pos
		for _, k := range e.Kids {
			np, ok := m.eval(k, p)
			if !ok {
				restore(n, t)
				return pos, false
			}
			p = np
		}
		return p, true
	case "alt":
		for _, k := range e.Kids {
			n, t := save()
			if np, ok := m.eval(k, pos); ok {
				return np, true
			}
			restore(n, t)
		}
		return pos, false
	case "query":
		n, t := save()
		if np, ok := m.eval(e.Kids[0], pos); ok {
			return np, true
		}
		restore(n, t)
		return pos, true
	case "star", "plus":
		p, cnt := pos, 0
		for {
			n, t := save()
			np, ok := m.eval(e.Kids[0], p)
			if !ok || np == p {
				restore(n, t)
				break
			}
			p = np
			cnt++
		}
		return p, e.Op == "star" || cnt > 0
	case "capture":
		np, ok := m.eval(e.Kids[0], pos)
		if ok {
			m.text = string(m.src[pos:np])
		}
		return np, ok
	case "and", "not":
		n, t := save()
		_, ok := m.eval(e.Kids[0], pos)
		restore(n, t)
		return pos, ok == (e.Op == "and")
	case "action":
		m.trace = append(m.trace, gact{e.S, m.text})
		return pos, true
	case "nil":
		return pos, true
	}
	panic(undecided{"peg.peg uses " + e.Op + ", which this evaluation does not model"})
}

// runRule evaluates one rule of peg.peg on a string.
func runRule(g *pgrammar, rule, s string) (end int, ok bool, trace []gact, und string) {
	defer func() {
		if p := recover(); p != nil {
			if u, isU := p.(undecided); isU {
				und = u.msg
				return
			}
			panic(p)
		}
	}()
	m := &gmatch{g: g, src: []rune(s)}
	end, ok = m.rule(rule, 0)
	return end, ok, m.trace, ""
}

// calls renders a trace as builder calls with the captured text substituted.
func traceCalls(tr []gact) []string {
	var out []string
	for _, a := range tr {
		for _, cs := range actionCalls(a.code) {
			var args []string
			for _, x := range cs.Args {
				if strings.TrimSpace(x) == "text" {
					args = append(args, fmt.Sprintf("%q", a.text))
				} else {
					args = append(args, strings.TrimSpace(x))
				}
			}
			out = append(out, cs.Method+"("+strings.Join(args, ",")+")")
		}
	}
	return out
}

func allStrings(alphabet []rune, maxLen int) []string {
	out := []string{""}
	prev := []string{""}
	for l := 0; l < maxLen; l++ {
		var next []string
		for _, p := range prev {
			for _, r := range alphabet {
				next = append(next, p+string(r))
			}
		}
		out = append(out, next...)
		prev = next
	}
	return out
}

// ruleCalling: the rule whose own body (not through names) contains a call of method.
func ruleCalling(g *pgrammar, method string) *prule {
	return findRule(g, func(r *prule) bool { return hasCall(r.Expr, method) })
}

// lexicalDifferential: R-action-braces, R-import-routing, R-char-differential.
func lexicalDifferential(c *Check, g *pgrammar) {
	// ---- actions: '{' balanced text '}' ------------------------------------
	func() {
		// the action rule: referenced by the rule that calls AddAction, and starting with '{'
		var act *prule
		for _, rl := range g.Rules {
			if e := rl.Expr; e.Op == "seq" && len(e.Kids) >= 2 && (e.Kids[0].Op == "lit" && e.Kids[0].S == "{" || e.Kids[0].Op == "class" && len(e.Kids[0].Ranges) == 1 && e.Kids[0].Ranges[0] == [2]rune{'{', '{'}) {
				act = rl
				break
			}
		}
		if act == nil {
			c.Bad("R-action-braces", "peg.peg/action rule", "", "no rule starting with '{' was found")
			return
		}
		pos := fmt.Sprintf("peg.peg:%d", act.Line)
		var bad []string
		n := 0
		for _, s := range allStrings([]rune{'{', '}', 'x', ' '}, 7) {
			end, ok, tr, und := runRule(g, act.Name, s)
			if und != "" {
				c.Und("R-action-braces", "peg.peg/"+act.Name+" accepts exactly brace-balanced text", pos, und)
				return
			}
			_ = tr
			// documented: '{' … matching '}' with nested braces balanced; the action text is what lies between
			wantOK, wantText, wantEnd := false, "", 0
			rs := []rune(s)
			if len(rs) > 0 && rs[0] == '{' {
				depth := 0
				for i, r := range rs {
					if r == '{' {
						depth++
					} else if r == '}' {
						depth--
						if depth == 0 {
							wantOK, wantText, wantEnd = true, string(rs[1:i]), i+1
							break
						}
					}
				}
			}
			n++
			gotText := ""
			if ok {
				// the text the action rule captured
				m := &gmatch{g: g, src: rs}
				m.rule(act.Name, 0)
				gotText = m.text
				// trailing spacing belongs to the rule: compare up to it
				for end > wantEnd && wantOK && rs[end-1] == ' ' {
					end--
				}
			}
			if ok != wantOK || (ok && (gotText != wantText || end != wantEnd)) {
				bad = append(bad, fmt.Sprintf("%q: peg.peg %s (text %q, %d characters); documented: %s (text %q, %d characters)", s, map[bool]string{true: "accepts", false: "rejects"}[ok], gotText, end, map[bool]string{true: "accepted", false: "rejected"}[wantOK], wantText, wantEnd))
			}
		}
		sort.Slice(bad, func(i, j int) bool { return len(bad[i]) < len(bad[j]) })
		if len(bad) > 4 {
			bad = append(bad[:4], fmt.Sprintf("… %d more", len(bad)-4))
		}
		c.Decide(len(bad) == 0 && n > 1000, "R-action-braces", "peg.peg/"+act.Name+" accepts exactly brace-balanced text", pos,
			fmt.Sprintf("%d strings of at most 7 characters over {'{', '}', other, space}: accepted iff they start with a brace-balanced group; the captured action text is what lies between the outer braces", n), strings.Join(bad, "; "))
	}()

	// ---- imports: alias? "path" ---------------------------------------------
	func() {
		rl := ruleCalling(g, "AddImport")
		if rl == nil {
			c.Bad("R-import-routing", "peg.peg/import rule", "", "no rule calls AddImport: imports written in a grammar are dropped")
			return
		}
		pos := fmt.Sprintf("peg.peg:%d", rl.Line)
		var bad []string
		n := 0
		isPath := func(r rune) bool {
			return r >= '0' && r <= '9' || r >= 'a' && r <= 'z' || r >= 'A' && r <= 'Z' || r == '_' || r == '/' || r == '.' || r == '-'
		}
		for _, s := range allStrings([]rune{'a', 'Z', '_', '1', '"', '/', '.', '-', ' '}, 6) {
			end, ok, tr, und := runRule(g, rl.Name, s)
			if und != "" {
				c.Und("R-import-routing", "peg.peg/"+rl.Name+" reads alias and quoted path", pos, und)
				return
			}
			_ = end
			// documented: [alias spacing] '"' path '"' with alias an identifier and path = [0-9a-zA-Z_/.-]+
			rs := []rune(s)
			i := 0
			alias := ""
			if i < len(rs) && isIdentStart(rs[i]) {
				j := i
				for j < len(rs) && isIdentCont(rs[j]) {
					j++
				}
				alias = string(rs[i:j])
				i = j
				for i < len(rs) && rs[i] == ' ' {
					i++
				}
			}
			wantOK := false
			path := ""
			if i < len(rs) && rs[i] == '"' {
				j := i + 1
				for j < len(rs) && isPath(rs[j]) {
					j++
				}
				if j > i+1 && j < len(rs) && rs[j] == '"' {
					wantOK, path = true, string(rs[i+1:j])
				}
			}
			n++
			var want []string
			if wantOK {
				if alias != "" {
					want = append(want, fmt.Sprintf("AddImportAlias(%q)", alias))
				}
				want = append(want, fmt.Sprintf("AddImport(%q)", path))
			}
			got := traceCalls(tr)
			if !ok {
				got = nil
			}
			if ok != wantOK || strings.Join(got, " ") != strings.Join(want, " ") {
				bad = append(bad, fmt.Sprintf("%q: peg.peg %s with [%s]; documented: %s with [%s]", s, map[bool]string{true: "accepts", false: "rejects"}[ok], strings.Join(got, " "), map[bool]string{true: "accepted", false: "rejected"}[wantOK], strings.Join(want, " ")))
			}
		}
		sort.Slice(bad, func(i, j int) bool { return len(bad[i]) < len(bad[j]) })
		if len(bad) > 4 {
			bad = append(bad[:4], fmt.Sprintf("… %d more", len(bad)-4))
		}
		c.Decide(len(bad) == 0 && n > 10000, "R-import-routing", "peg.peg/"+rl.Name+" reads alias and quoted path", pos,
			fmt.Sprintf("%d strings of at most 6 characters over {letters, _, digit, quote, / . -, space}: an optional identifier alias then a double-quoted path of [0-9a-zA-Z_/.-]+ is accepted, the alias is passed first and the path is exactly the text between the quotes; everything else is rejected", n), strings.Join(bad, "; "))
	}()
}
