package main

// E1 — an abstract interpreter for the subset of Go used by the emitter part
// of (*Tree).Compile (DESIGN §2 E1). It evaluates the type-checked AST of
// package tree over *model* trees whose leaves may be opaque holes; emitted
// text is collected, no peg code is compiled or run. Anything outside the
// supported subset raises `undecided`, which fails the check.

import (
	"fmt"
	"go/ast"
	"go/constant"
	"go/token"
	"go/types"
	"sort"
	"strings"
)

type Value any

type Nil struct{}

type Cell struct{ v Value }

type Obj struct {
	t      types.Type // named or struct type
	st     *types.Struct
	fields []*Cell
}

type Ptr struct{ cell *Cell } // pointer to a variable / field cell

type SliceV struct{ elems []Value }

type MapV struct{ m map[any]Value }

type Closure struct {
	name string
	typ  *ast.FuncType
	body *ast.BlockStmt
	lit  ast.Node // *ast.FuncLit or *ast.FuncDecl
	env  *Env
	recv Value
	decl *ast.FuncDecl
}

type Native struct {
	name string
	fn   func(it *Interp, args []Value) []Value
}

type Ext struct{ desc string }

type Unknown struct{ why string }

type Env struct {
	vars   map[types.Object]*Cell
	parent *Env
}

func (e *Env) lookup(o types.Object) *Cell {
	for x := e; x != nil; x = x.parent {
		if c, ok := x.vars[o]; ok {
			return c
		}
	}
	return nil
}

func (e *Env) define(o types.Object, v Value) *Cell {
	c := &Cell{v}
	if o != nil {
		e.vars[o] = c
	}
	return c
}

func newEnv(parent *Env) *Env { return &Env{vars: map[types.Object]*Cell{}, parent: parent} }

type undecided struct{ msg string }

type ctrl int

const (
	cNone ctrl = iota
	cBreak
	cContinue
	cReturn
	cFallthrough
)

type Interp struct {
	info    *types.Info
	callAt  ast.Node // the call expression of the library call being evaluated
	fset    *token.FileSet
	pkg     *types.Package
	decls   map[*types.Func]*ast.FuncDecl
	globals map[types.Object]*Cell
	inits   map[types.Object]ast.Expr // initialisers of the package's own variables, evaluated on first use
	initing map[types.Object]bool
	out     *strings.Builder
	steps   int
	hooks   map[ast.Node]func(it *Interp, cl *Closure, args []Value) ([]Value, bool)
	natives map[string]func(it *Interp, args []Value) []Value
	retVals []Value
	label   string
	posOf   func(token.Pos) string
	// observation hooks for contract checks
	onCall       func(cl *Closure, args []Value)
	onRet        func(cl *Closure, args []Value, res []Value)
	nilPanics    bool
	stepLimit    int              // when > 0: exceeding it is reported as non-termination (goPanic)
	extVars      map[string]Value // package-level variables of other packages (identity, or a model value)
	builders     map[*Ext]*strings.Builder
	loopLabel    string      // label attached to the loop/switch about to start
	branchLabel  string      // label of a labelled break/continue in flight
	defers       *[]deferred // deferred calls of the function being executed
	templateData *Obj        // the data object the template was executed on (set by the Execute model)
}

func (it *Interp) fail(n ast.Node, format string, a ...any) {
	pos := ""
	if n != nil && it.posOf != nil {
		pos = it.posOf(n.Pos()) + ": "
	}
	panic(undecided{pos + fmt.Sprintf(format, a...)})
}

func newInterp(r *Repo) *Interp { return newInterpFor(r, "tree") }

// nilDeref is raised instead of undecided when nilPanics is set and the
// interpreted code dereferences a nil pointer: the real code would panic.
type deferred struct {
	fn   Value
	args []Value
	at   ast.Node
}

type nilDeref struct{ pos string }

// goPanic: another run-time panic of the interpreted code (index or slice
// bounds, nil map write), raised only when nilPanics is set.
type goPanic struct{ pos, msg string }

func (it *Interp) panics(n ast.Node, format string, a ...any) {
	if it.nilPanics {
		pos := ""
		if n != nil && it.posOf != nil {
			pos = it.posOf(n.Pos())
		}
		panic(goPanic{pos, fmt.Sprintf(format, a...)})
	}
	it.fail(n, format+": the emitter would panic on this model", a...)
}

func newInterpFor(r *Repo, sub string) *Interp {
	p := r.pkg(sub)
	return newInterpRaw(p.TypesInfo, p.Types, p.Syntax, r.Fset, r.pos)
}

// newInterpRaw: an interpreter over any type-checked package (the repository's
// packages, or an instantiation of the runtime template).
func newInterpRaw(info *types.Info, pkg *types.Package, files []*ast.File, fset *token.FileSet, posOf func(token.Pos) string) *Interp {
	it := &Interp{info: info, fset: fset, pkg: pkg, decls: map[*types.Func]*ast.FuncDecl{}, globals: map[types.Object]*Cell{},
		out: &strings.Builder{}, hooks: map[ast.Node]func(*Interp, *Closure, []Value) ([]Value, bool){}, natives: map[string]func(*Interp, []Value) []Value{}, posOf: posOf}
	it.inits, it.initing = map[types.Object]ast.Expr{}, map[types.Object]bool{}
	for _, f := range files {
		for _, d := range f.Decls {
			if fd, ok := d.(*ast.FuncDecl); ok {
				if o, ok := info.Defs[fd.Name].(*types.Func); ok {
					it.decls[o] = fd
				}
			}
			if gd, ok := d.(*ast.GenDecl); ok && gd.Tok == token.VAR {
				for _, sp := range gd.Specs {
					if vs, ok := sp.(*ast.ValueSpec); ok && len(vs.Values) == len(vs.Names) {
						for i, id := range vs.Names {
							if o := info.Defs[id]; o != nil {
								it.inits[o] = vs.Values[i]
							}
						}
					}
				}
			}
		}
	}
	installNatives(it)
	return it
}

// ---------------------------------------------------------------------------
// zero values and struct objects

func (it *Interp) zero(t types.Type) Value {
	if tp, ok := types.Unalias(t).(*types.TypeParam); ok {
		// a type parameter constrained to integer types (the runtime's U): zero is 0
		if iface, ok := tp.Constraint().Underlying().(*types.Interface); ok {
			for i := 0; i < iface.NumEmbeddeds(); i++ {
				if un, ok := iface.EmbeddedType(i).(*types.Union); ok && un.Len() > 0 {
					if b, ok := un.Term(0).Type().Underlying().(*types.Basic); ok && b.Info()&types.IsNumeric != 0 {
						return int64(0)
					}
				}
				if nm, ok := iface.EmbeddedType(i).(*types.Named); ok {
					if in2, ok := nm.Underlying().(*types.Interface); ok {
						for j := 0; j < in2.NumEmbeddeds(); j++ {
							if un, ok := in2.EmbeddedType(j).(*types.Union); ok && un.Len() > 0 {
								if b, ok := un.Term(0).Type().Underlying().(*types.Basic); ok && b.Info()&types.IsNumeric != 0 {
									return int64(0)
								}
							}
						}
					}
				}
			}
		}
	}
	switch u := t.Underlying().(type) {
	case *types.Basic:
		switch {
		case u.Info()&types.IsBoolean != 0:
			return false
		case u.Info()&types.IsString != 0:
			return ""
		case u.Info()&types.IsNumeric != 0:
			return int64(0)
		}
		return Nil{}
	case *types.Struct:
		if named, ok := t.(*types.Named); ok && named.Obj().Pkg() != nil && named.Obj().Pkg() != it.pkg && named.Obj().Pkg().Path() != "p" {
			// a struct of another package (bytes.Buffer, sync.WaitGroup …) is opaque
			if _, std := it.natives["("+"*"+named.Obj().Pkg().Path()+"."+named.Obj().Name()+").WriteString"]; std || named.Obj().Pkg().Path() == "bytes" || named.Obj().Pkg().Path() == "sync" || named.Obj().Pkg().Path() == "strings" {
				return &Ext{named.Obj().Pkg().Name() + "." + named.Obj().Name()}
			}
		}
		return it.newObj(t)
	case *types.Array:
		s := &SliceV{}
		for i := int64(0); i < u.Len(); i++ {
			s.elems = append(s.elems, it.zero(u.Elem()))
		}
		return s
	}
	return Nil{}
}

func (it *Interp) newObj(t types.Type) *Obj {
	st, _ := t.Underlying().(*types.Struct)
	if st == nil {
		it.fail(nil, "newObj of non-struct %s", t)
	}
	o := &Obj{t: t, st: st}
	for i := 0; i < st.NumFields(); i++ {
		o.fields = append(o.fields, &Cell{it.zero(st.Field(i).Type())})
	}
	return o
}

func (o *Obj) field(name string) *Cell {
	for i := 0; i < o.st.NumFields(); i++ {
		if o.st.Field(i).Name() == name {
			return o.fields[i]
		}
	}
	return nil
}

func (it *Interp) copyStruct(v Value) Value {
	o, ok := v.(*Obj)
	if !ok || o == nil {
		return v
	}
	c := &Obj{t: o.t, st: o.st}
	for i, f := range o.fields {
		fv := f.v
		if _, isStruct := o.st.Field(i).Type().Underlying().(*types.Struct); isStruct {
			fv = it.copyStruct(fv)
		}
		c.fields = append(c.fields, &Cell{fv})
	}
	return c
}

func isStructType(t types.Type) bool {
	if t == nil {
		return false
	}
	_, ok := t.Underlying().(*types.Struct)
	return ok
}

// ---------------------------------------------------------------------------
// statements

func (it *Interp) execBlock(stmts []ast.Stmt, env *Env) ctrl {
	for _, s := range stmts {
		if c := it.exec(s, env); c != cNone {
			return c
		}
	}
	return cNone
}

func (it *Interp) exec(s ast.Stmt, env *Env) ctrl {
	it.steps++
	if it.stepLimit > 0 && it.steps > it.stepLimit {
		// a small budget was set by the caller: the evaluated code loops on this input
		pos := ""
		if it.posOf != nil {
			pos = it.posOf(s.Pos())
		}
		panic(goPanic{pos, fmt.Sprintf("no result after %d statements (the code does not terminate on this input)", it.stepLimit)})
	}
	if it.steps > 2_000_000 {
		it.fail(s, "step limit exceeded")
	}
	switch x := s.(type) {
	case *ast.ExprStmt:
		it.eval(x.X, env)
	case *ast.EmptyStmt:
	case *ast.BlockStmt:
		return it.execBlock(x.List, newEnv(env))
	case *ast.DeclStmt:
		gd, ok := x.Decl.(*ast.GenDecl)
		if !ok || gd.Tok != token.VAR {
			if ok && (gd.Tok == token.TYPE || gd.Tok == token.CONST) {
				return cNone
			}
			it.fail(s, "declaration not modelled")
		}
		for _, sp := range gd.Specs {
			vs := sp.(*ast.ValueSpec)
			for i, id := range vs.Names {
				obj := it.info.Defs[id]
				var v Value
				if i < len(vs.Values) {
					v = it.evalCopy(vs.Values[i], env)
				} else if obj != nil {
					v = it.zeroVar(obj.Type())
				}
				env.define(obj, v)
			}
		}
	case *ast.AssignStmt:
		it.assign(x, env)
	case *ast.IncDecStmt:
		n, ok := it.eval(x.X, env).(int64)
		if !ok {
			it.fail(s, "++/-- on a non-integer")
		}
		if x.Tok == token.INC {
			it.store(x.X, env, it.wrapInt(x.X, n+1))
		} else {
			it.store(x.X, env, it.wrapInt(x.X, n-1))
		}
	case *ast.GoStmt:
		// the spawned call is evaluated at once: the analyses that use the
		// interpreter ask what the tasks compute, not how they interleave
		// (non-interference of concurrently running tasks is C09's subject)
		fn := it.eval(x.Call.Fun, env)
		var args []Value
		for _, a := range x.Call.Args {
			args = append(args, it.evalCopy(a, env))
		}
		saved := it.retVals
		it.callValue(x, fn, args)
		it.retVals = saved
	case *ast.DeferStmt:
		if it.defers == nil {
			it.fail(s, "defer outside a function the interpreter entered")
		}
		if id, ok := ast.Unparen(x.Call.Fun).(*ast.Ident); ok {
			if b, ok := it.info.Uses[id].(*types.Builtin); ok {
				// defer delete(m, k): the operands are evaluated now, the deletion happens at the exit
				if b.Name() == "delete" && len(x.Call.Args) == 2 {
					mv, _ := it.eval(x.Call.Args[0], env).(*MapV)
					key := it.keyOf(x.Call.Args[1], it.eval(x.Call.Args[1], env))
					fn := &Native{"deferred delete", func(it *Interp, _ []Value) []Value {
						if mv != nil {
							delete(mv.m, key)
						}
						return nil
					}}
					*it.defers = append(*it.defers, deferred{fn, nil, x})
					break
				}
				it.fail(s, "deferred call of builtin %s not modelled", b.Name())
			}
		}
		fn := it.eval(x.Call.Fun, env)
		var args []Value
		for _, a := range x.Call.Args {
			args = append(args, it.evalCopy(a, env))
		}
		*it.defers = append(*it.defers, deferred{fn, args, x})
	case *ast.IfStmt:
		e := newEnv(env)
		if x.Init != nil {
			it.exec(x.Init, e)
		}
		if it.truth(x.Cond, e) {
			return it.execBlock(x.Body.List, newEnv(e))
		} else if x.Else != nil {
			return it.exec(x.Else, e)
		}
	case *ast.LabeledStmt:
		it.loopLabel = x.Label.Name
		return it.exec(x.Stmt, env)
	case *ast.ForStmt:
		my := it.loopLabel
		it.loopLabel = ""
		e := newEnv(env)
		if x.Init != nil {
			it.exec(x.Init, e)
		}
		for {
			if x.Cond != nil && !it.truth(x.Cond, e) {
				break
			}
			c := it.execBlock(x.Body.List, newEnv(e))
			if c == cReturn {
				return c
			}
			if act := it.loopCtl(c, my); act == 1 {
				break
			} else if act == 2 {
				return c
			}
			if x.Post != nil {
				it.exec(x.Post, e)
			}
		}
	case *ast.RangeStmt:
		return it.execRange(x, env)
	case *ast.SwitchStmt:
		return it.execSwitch(x, env)
	case *ast.ReturnStmt:
		it.retVals = nil
		if len(x.Results) == 1 {
			v := it.eval(x.Results[0], env)
			if tup, ok := v.([]Value); ok {
				it.retVals = tup
			} else {
				it.retVals = []Value{v}
			}
		} else {
			for _, r := range x.Results {
				it.retVals = append(it.retVals, it.eval(r, env))
			}
		}
		if len(x.Results) == 0 {
			it.retVals = nil // named results are read by the caller
		}
		return cReturn
	case *ast.BranchStmt:
		if x.Label != nil {
			if x.Tok != token.BREAK && x.Tok != token.CONTINUE {
				it.fail(s, "goto is not modelled")
			}
			it.branchLabel = x.Label.Name
		}
		switch x.Tok {
		case token.BREAK:
			return cBreak
		case token.CONTINUE:
			return cContinue
		case token.FALLTHROUGH:
			return cFallthrough
		}
		it.fail(s, "branch %s not modelled", x.Tok)
	default:
		it.fail(s, "statement %T not modelled", s)
	}
	return cNone
}

func (it *Interp) zeroVar(t types.Type) Value {
	if named, ok := t.(*types.Named); ok && named.Obj().Pkg() != nil && named.Obj().Pkg() != it.pkg {
		if _, isStruct := t.Underlying().(*types.Struct); isStruct {
			return &Ext{named.Obj().Pkg().Name() + "." + named.Obj().Name()}
		}
	}
	return it.zero(t)
}

func (it *Interp) truth(e ast.Expr, env *Env) bool {
	v := it.eval(e, env)
	b, ok := v.(bool)
	if !ok {
		it.fail(e, "branch on a value that is not a known boolean (%s)", describe(v))
	}
	return b
}

func describe(v Value) string {
	switch x := v.(type) {
	case *Unknown:
		return "unknown: " + x.why
	case *Ext:
		return "external " + x.desc
	}
	return fmt.Sprintf("%T", v)
}

func (it *Interp) assign(x *ast.AssignStmt, env *Env) {
	if x.Tok != token.ASSIGN && x.Tok != token.DEFINE {
		// op-assign
		if len(x.Lhs) != 1 {
			it.fail(x, "op-assign arity")
		}
		lv := it.eval(x.Lhs[0], env)
		rv := it.eval(x.Rhs[0], env)
		op := map[token.Token]token.Token{token.ADD_ASSIGN: token.ADD, token.SUB_ASSIGN: token.SUB, token.MUL_ASSIGN: token.MUL, token.OR_ASSIGN: token.OR, token.AND_ASSIGN: token.AND,
			token.QUO_ASSIGN: token.QUO, token.REM_ASSIGN: token.REM, token.XOR_ASSIGN: token.XOR, token.SHL_ASSIGN: token.SHL, token.SHR_ASSIGN: token.SHR, token.AND_NOT_ASSIGN: token.AND_NOT}[x.Tok]
		if op == 0 {
			it.fail(x, "assignment operator %s not modelled", x.Tok)
		}
		it.store(x.Lhs[0], env, it.binop(x, op, lv, rv))
		return
	}
	var vals []Value
	if len(x.Rhs) == 1 && len(x.Lhs) > 1 {
		v := it.eval(x.Rhs[0], env)
		tup, ok := v.([]Value)
		if !ok {
			// comma-ok forms
			if ie, isIdx := ast.Unparen(x.Rhs[0]).(*ast.IndexExpr); isIdx {
				tup = it.mapIndexOK(ie, env)
			} else {
				it.fail(x, "multi-value assignment from %T", v)
			}
		}
		vals = tup
	} else {
		for _, r := range x.Rhs {
			vals = append(vals, it.evalCopy(r, env))
		}
	}
	if len(vals) != len(x.Lhs) {
		it.fail(x, "assignment count mismatch %d vs %d", len(x.Lhs), len(vals))
	}
	if x.Tok == token.ASSIGN {
		for i, l := range x.Lhs {
			it.store(l, env, vals[i])
		}
		return
	}
	for i, l := range x.Lhs {
		id, ok := l.(*ast.Ident)
		if !ok {
			it.fail(x, "define of non-identifier")
		}
		if id.Name == "_" {
			continue
		}
		if obj := it.info.Defs[id]; obj != nil {
			env.define(obj, vals[i])
		} else if obj := it.info.Uses[id]; obj != nil {
			c := env.lookup(obj)
			if c == nil {
				it.fail(x, "assignment to unknown variable %s", id.Name)
			}
			c.v = vals[i]
		}
	}
}

// store assigns v to the l-value l.
func (it *Interp) store(l ast.Expr, env *Env, v Value) {
	l = ast.Unparen(l)
	if id, ok := l.(*ast.Ident); ok && id.Name == "_" {
		return
	}
	if ie, ok := l.(*ast.IndexExpr); ok {
		base := it.eval(ie.X, env)
		if p, ok := base.(*Ptr); ok {
			base = p.cell.v
		}
		idx := it.eval(ie.Index, env)
		switch b := base.(type) {
		case *MapV:
			if b == nil {
				it.panics(l, "assignment to entry in nil map")
			}
			b.m[it.keyOf(ie.Index, idx)] = v
			return
		case *SliceV:
			i, ok := idx.(int64)
			if ok && (b == nil || i < 0 || int(i) >= len(b.elems)) {
				it.panics(l, "index %d out of range (len %d) in a store", i, lenOf(b))
			}
			if !ok {
				it.fail(l, "slice index not concrete")
			}
			b.elems[i] = v
			return
		}
		it.fail(l, "indexed store into %s", describe(base))
	}
	it.lvalue(l, env).v = v
}

func (it *Interp) mapIndexOK(ie *ast.IndexExpr, env *Env) []Value {
	m, ok := it.eval(ie.X, env).(*MapV)
	if !ok {
		it.fail(ie, "comma-ok index on non-map")
	}
	k := it.keyOf(ie.Index, it.eval(ie.Index, env))
	v, has := m.m[k]
	if !has {
		v = it.zero(it.info.Types[ie].Type)
		if tup, ok := it.info.Types[ie].Type.(*types.Tuple); ok {
			v = it.zero(tup.At(0).Type())
		}
	}
	return []Value{v, has}
}

// keyOf: the map key for a value; struct-typed keys compare by value.
func (it *Interp) keyOf(e ast.Expr, v Value) any {
	if o, ok := v.(*Obj); ok && o != nil {
		if tv, ok := it.info.Types[e]; ok && tv.Type != nil {
			if _, isStruct := tv.Type.Underlying().(*types.Struct); isStruct {
				return structKey(o)
			}
		}
	}
	return mapKey(v)
}

func structKey(o *Obj) string {
	var sb strings.Builder
	sb.WriteString("{")
	for i, f := range o.fields {
		if i > 0 {
			sb.WriteString(",")
		}
		switch x := f.v.(type) {
		case *Obj:
			if _, isStruct := o.st.Field(i).Type().Underlying().(*types.Struct); isStruct {
				sb.WriteString(structKey(x))
			} else {
				fmt.Fprintf(&sb, "%p", x)
			}
		default:
			fmt.Fprintf(&sb, "%T:%v", x, x)
		}
	}
	sb.WriteString("}")
	return sb.String()
}

func mapKey(v Value) any {
	switch x := v.(type) {
	case int64, string, bool:
		return x
	case *Obj:
		return x
	}
	panic(undecided{fmt.Sprintf("map key of type %T not modelled", v)})
}

// loopCtl: what a loop does with the control signal of its body: 0 go on,
// 1 leave this loop, 2 hand the signal to the enclosing loop (labelled branch
// aimed at an outer statement).
func (it *Interp) loopCtl(c ctrl, my string) int {
	if c != cBreak && c != cContinue {
		return 0
	}
	if it.branchLabel != "" && it.branchLabel != my {
		return 2
	}
	it.branchLabel = ""
	if c == cBreak {
		return 1
	}
	return 0
}

func (it *Interp) execSwitch(x *ast.SwitchStmt, env *Env) ctrl {
	my := it.loopLabel
	it.loopLabel = ""
	e := newEnv(env)
	if x.Init != nil {
		it.exec(x.Init, e)
	}
	var tag Value = true
	if x.Tag != nil {
		tag = it.eval(x.Tag, e)
	}
	if _, unk := tag.(*Unknown); unk {
		it.fail(x, "switch on unknown value")
	}
	clauses := x.Body.List
	match := -1
	def := -1
	for i, cs := range clauses {
		cc := cs.(*ast.CaseClause)
		if cc.List == nil {
			def = i
			continue
		}
		for _, ce := range cc.List {
			cv := it.eval(ce, e)
			if _, unk := cv.(*Unknown); unk {
				it.fail(ce, "case on unknown value")
			}
			if valuesEqual(tag, cv) {
				match = i
				break
			}
		}
		if match >= 0 {
			break
		}
	}
	if match < 0 {
		match = def
	}
	for i := match; i >= 0 && i < len(clauses); i++ {
		cc := clauses[i].(*ast.CaseClause)
		c := it.execBlock(cc.Body, newEnv(e))
		switch c {
		case cFallthrough:
			continue
		case cBreak:
			if it.branchLabel != "" && it.branchLabel != my {
				return c
			}
			it.branchLabel = ""
			return cNone
		case cNone:
			return cNone
		default:
			return c
		}
	}
	return cNone
}

func valuesEqual(a, b Value) bool {
	switch x := a.(type) {
	case int64:
		y, ok := b.(int64)
		return ok && x == y
	case string:
		y, ok := b.(string)
		return ok && x == y
	case bool:
		y, ok := b.(bool)
		return ok && x == y
	case Nil:
		switch y := b.(type) {
		case Nil:
			return true
		case *Obj:
			return y == nil
		case *SliceV:
			return y == nil
		case *MapV:
			return y == nil
		}
		return false
	case *Obj:
		if _, isNil := b.(Nil); isNil {
			return x == nil
		}
		y, ok := b.(*Obj)
		return ok && x == y
	case *SliceV:
		if _, isNil := b.(Nil); isNil {
			return x == nil || x.elems == nil
		}
	case *Closure:
		if _, isNil := b.(Nil); isNil {
			return x == nil
		}
	case *Native:
		if _, isNil := b.(Nil); isNil {
			return x == nil
		}
	case *Ext:
		if _, isNil := b.(Nil); isNil {
			return false
		}
	}
	panic(undecided{fmt.Sprintf("comparison of %T and %T not modelled", a, b)})
}

func (it *Interp) execRange(x *ast.RangeStmt, env *Env) ctrl {
	my := it.loopLabel
	it.loopLabel = ""
	coll := it.eval(x.X, env)
	if p, ok := coll.(*Ptr); ok {
		coll = p.cell.v // range over *[N]T
	}
	bind := func(e *Env, ex ast.Expr, v Value) {
		if ex == nil {
			return
		}
		id, ok := ex.(*ast.Ident)
		if !ok {
			it.fail(x, "range variable is not an identifier")
		}
		if id.Name == "_" {
			return
		}
		if x.Tok == token.DEFINE {
			e.define(it.info.Defs[id], v)
		} else {
			it.lvalue(id, e).v = v
		}
	}
	body := func(k, v Value) ctrl {
		e := newEnv(env)
		bind(e, x.Key, k)
		bind(e, x.Value, v)
		return it.execBlock(x.Body.List, newEnv(e))
	}
	switch c := coll.(type) {
	case *SliceV:
		var elems []Value
		if c != nil {
			elems = c.elems
		}
		for i, el := range elems {
			c := body(int64(i), el)
			if c == cReturn {
				return cReturn
			}
			if act := it.loopCtl(c, my); act == 1 {
				return cNone
			} else if act == 2 {
				return c
			}
		}
	case int64:
		if members, ok := it.sparseMembers(x, env, c); ok {
			for _, i := range members {
				c := body(int64(i), nil)
				if c == cReturn {
					return cReturn
				}
				if act := it.loopCtl(c, my); act == 1 {
					return cNone
				} else if act == 2 {
					return c
				}
			}
			return cNone
		}
		for i := int64(0); i < c; i++ {
			c := body(i, nil)
			if c == cReturn {
				return cReturn
			}
			if act := it.loopCtl(c, my); act == 1 {
				return cNone
			} else if act == 2 {
				return c
			}
		}
	case *Closure, *Native:
		// range-over-func: call the iterator with a yield that runs the body
		result := cNone
		var bodyRet []Value
		yield := &Native{"yield", func(it *Interp, args []Value) []Value {
			var k, v Value
			if len(args) > 0 {
				k = args[0]
			}
			if len(args) > 1 {
				v = args[1]
			}
			c := body(k, v)
			if c == cReturn {
				result = cReturn
				bodyRet = it.retVals
				return []Value{false}
			}
			if act := it.loopCtl(c, my); act == 1 {
				return []Value{false}
			} else if act == 2 {
				result = c
				return []Value{false}
			}
			return []Value{true}
		}}
		it.callValue(x, coll, []Value{yield})
		if result == cReturn {
			it.retVals = bodyRet
		}
		return result
	case string:
		for i, r := range c {
			c := body(int64(i), int64(r))
			if c == cReturn {
				return cReturn
			}
			if act := it.loopCtl(c, my); act == 1 {
				return cNone
			} else if act == 2 {
				return c
			}
		}
	case *MapV:
		// the order of a map iteration is not fixed; whether the result may depend on it is C09's question
		// (R-determinism: a range over a map must be of the collect-then-sort form). Here the keys are
		// visited in ascending order.
		if c == nil {
			return cNone
		}
		keys := make([]any, 0, len(c.m))
		for k := range c.m {
			keys = append(keys, k)
		}
		sort.Slice(keys, func(i, j int) bool {
			switch a := keys[i].(type) {
			case string:
				if b, ok := keys[j].(string); ok {
					return a < b
				}
			case int64:
				if b, ok := keys[j].(int64); ok {
					return a < b
				}
			}
			return fmt.Sprint(keys[i]) < fmt.Sprint(keys[j])
		})
		for _, k := range keys {
			v, still := c.m[k]
			if !still {
				continue
			}
			var kv Value
			switch kk := k.(type) {
			case string:
				kv = kk
			case int64:
				kv = kk
			case bool:
				kv = kk
			case Value:
				kv = kk
			default:
				it.fail(x, "range over a map with keys the evaluation does not model")
			}
			cc := body(kv, v)
			if cc == cReturn {
				return cReturn
			}
			if act := it.loopCtl(cc, my); act == 1 {
				return cNone
			} else if act == 2 {
				return cc
			}
		}
	case Nil:
		// a nil slice, map or function-less iterator: no iteration
		if tv, ok := it.info.Types[x.X]; ok {
			switch tv.Type.Underlying().(type) {
			case *types.Slice, *types.Map:
				return cNone
			}
		}
		it.fail(x, "range over nil")
	default:
		it.fail(x, "range over %s not modelled", describe(coll))
	}
	return cNone
}

// ---------------------------------------------------------------------------
// l-values

func (it *Interp) lvalue(e ast.Expr, env *Env) *Cell {
	switch x := ast.Unparen(e).(type) {
	case *ast.Ident:
		obj := it.info.Uses[x]
		if obj == nil {
			obj = it.info.Defs[x]
		}
		if c := env.lookup(obj); c != nil {
			return c
		}
		if c, ok := it.globals[obj]; ok {
			return c
		}
		it.fail(e, "unknown variable %s", x.Name)
	case *ast.SelectorExpr:
		sel := it.info.Selections[x]
		if sel == nil || sel.Kind() != types.FieldVal {
			it.fail(e, "selector l-value not a field")
		}
		base := it.eval(x.X, env)
		return it.fieldCell(e, base, sel.Index())
	case *ast.IndexExpr:
		base := it.eval(x.X, env)
		idx := it.eval(x.Index, env)
		switch b := base.(type) {
		case *SliceV:
			i, ok := idx.(int64)
			if !ok || b == nil || i < 0 || int(i) >= len(b.elems) {
				it.fail(e, "slice index out of range / not concrete")
			}
			_ = i
			it.fail(e, "address of a slice element is not modelled")
		case *MapV:
			it.fail(e, "map element as addressable l-value")
		}
		it.fail(e, "index l-value on %s", describe(base))
	case *ast.StarExpr:
		p := it.eval(x.X, env)
		switch q := p.(type) {
		case *Ptr:
			return q.cell
		}
		it.fail(e, "deref l-value of %s", describe(p))
	}
	it.fail(e, "l-value %T not modelled", e)
	return nil
}

func (it *Interp) fieldCell(at ast.Node, base Value, path []int) *Cell {
	cur := base
	var cell *Cell
	for _, i := range path {
		if p, ok := cur.(*Ptr); ok {
			cur = p.cell.v
		}
		o, ok := cur.(*Obj)
		if _, isNil := cur.(Nil); isNil && it.nilPanics {
			pos := ""
			if at != nil && it.posOf != nil {
				pos = it.posOf(at.Pos())
			}
			panic(nilDeref{pos})
		}
		if !ok || o == nil {
			it.fail(at, "field access on %s (nil pointer dereference in the emitter on this model?)", describe(cur))
		}
		cell = o.fields[i]
		cur = cell.v
	}
	return cell
}

// ---------------------------------------------------------------------------
// expressions

func (it *Interp) evalCopy(e ast.Expr, env *Env) Value {
	v := it.eval(e, env)
	if tv, ok := it.info.Types[e]; ok && isStructType(tv.Type) {
		if _, isLit := ast.Unparen(e).(*ast.CompositeLit); !isLit {
			return it.copyStruct(v)
		}
	}
	return v
}

func constValue(tv types.TypeAndValue) (Value, bool) {
	if tv.Value == nil {
		return nil, false
	}
	switch tv.Value.Kind() {
	case constant.Bool:
		return constant.BoolVal(tv.Value), true
	case constant.String:
		return constant.StringVal(tv.Value), true
	case constant.Int:
		if i, ok := constant.Int64Val(tv.Value); ok {
			return i, true
		}
		if u, ok := constant.Uint64Val(tv.Value); ok {
			return int64(u), true
		}
	}
	return nil, false
}

func (it *Interp) eval(e ast.Expr, env *Env) Value {
	if tv, ok := it.info.Types[e]; ok {
		if v, ok := constValue(tv); ok {
			return v
		}
		if tv.IsNil() {
			return Nil{}
		}
	}
	switch x := e.(type) {
	case *ast.ParenExpr:
		return it.eval(x.X, env)
	case *ast.Ident:
		obj := it.info.Uses[x]
		if obj == nil {
			obj = it.info.Defs[x]
		}
		switch o := obj.(type) {
		case *types.Var:
			if c := env.lookup(o); c != nil {
				return c.v
			}
			if c, ok := it.globals[o]; ok {
				return c.v
			}
			if o.Pkg() == it.pkg && o.Parent() == it.pkg.Scope() {
				// a table of the package itself (composite literals of plain data): its initialiser is
				// evaluated once, on first use; anything the interpreter cannot evaluate stays opaque
				if init, ok := it.inits[o]; ok && !it.initing[o] {
					_, isLit := ast.Unparen(init).(*ast.CompositeLit)
					_, isCall := ast.Unparen(init).(*ast.CallExpr) // a value built by a constructor: strings.NewReplacer(…), newTable(…)
					if isLit || isCall {
						it.initing[o] = true
						var val Value
						func() {
							defer func() {
								if p := recover(); p != nil {
									if _, und := p.(undecided); !und {
										panic(p)
									}
									val = nil
								}
							}()
							val = it.eval(init, newEnv(nil))
						}()
						it.initing[o] = false
						if val != nil {
							it.globals[o] = &Cell{val}
							return val
						}
					}
				}
				return &Ext{"package variable " + o.Name()}
			}
			it.fail(e, "variable %s has no value in the model environment", x.Name)
		case *types.Func:
			if fd, ok := it.decls[o.Origin()]; ok {
				return &Closure{name: o.Name(), typ: fd.Type, body: fd.Body, lit: fd, decl: fd, env: newEnv(nil)}
			}
			return &Native{o.FullName(), nil}
		case *types.Nil:
			return Nil{}
		}
		it.fail(e, "identifier %s (%T) not modelled", x.Name, obj)
	case *ast.FuncLit:
		return &Closure{name: "func@" + it.posOf(x.Pos()), typ: x.Type, body: x.Body, lit: x, env: env}
	case *ast.CompositeLit:
		return it.compositeLit(x, env)
	case *ast.SelectorExpr:
		return it.selector(x, env)
	case *ast.IndexListExpr:
		return it.eval(x.X, env) // explicit instantiation of a generic function
	case *ast.IndexExpr:
		if tv, ok := it.info.Types[x.Index]; ok && tv.IsType() {
			return it.eval(x.X, env) // explicit instantiation of a generic function: f[T]
		}
		base := it.eval(x.X, env)
		if p, ok := base.(*Ptr); ok {
			base = p.cell.v // pointer to array: automatic dereference
		}
		idx := it.eval(x.Index, env)
		switch b := base.(type) {
		case *SliceV:
			i, ok := idx.(int64)
			if !ok {
				if _, unk := idx.(*Unknown); unk {
					return &Unknown{"element at unknown index"}
				}
				it.fail(e, "index is not concrete")
			}
			if b == nil || i < 0 || int(i) >= len(b.elems) {
				it.panics(e, "index %d out of range (len %d)", i, lenOf(b))
			}
			return b.elems[i]
		case *MapV:
			if b == nil {
				return it.zero(it.info.Types[e].Type)
			}
			if v, ok := b.m[it.keyOf(x.Index, idx)]; ok {
				return v
			}
			return it.zero(it.info.Types[e].Type)
		case string:
			i, ok := idx.(int64)
			if !ok || i < 0 || int(i) >= len(b) {
				it.fail(e, "string index out of range")
			}
			return int64(b[i])
		case *Unknown:
			return &Unknown{"index of " + b.why}
		case Nil:
			// reading a nil map yields the zero value
			if tv, ok := it.info.Types[x.X]; ok {
				if _, isMap := tv.Type.Underlying().(*types.Map); isMap {
					return it.zero(it.info.Types[e].Type)
				}
			}
		}
		it.fail(e, "index on %s", describe(base))
	case *ast.SliceExpr:
		base := it.eval(x.X, env)
		lo, hi := int64(0), int64(-1)
		if x.Low != nil {
			lo = it.intOf(x.Low, env)
		}
		if x.High != nil {
			hi = it.intOf(x.High, env)
		}
		switch b := base.(type) {
		case *SliceV:
			n := int64(lenOf(b))
			if hi < 0 {
				hi = n
			}
			if b != nil && hi > n && hi <= int64(cap(b.elems)) && lo >= 0 && lo <= hi {
				// within the capacity a library call reserved (slices.Grow): the new slots are unset
				return &SliceV{b.elems[lo:hi:cap(b.elems)]}
			}
			if lo < 0 || hi > n || lo > hi {
				it.panics(e, "slice bounds [%d:%d] out of range (len %d)", lo, hi, n)
			}
			// the capacity behind hi stays: an append to the result writes into the array it shares with
			// the operand, as in Go (a slice reused after [:0] aliases whoever still holds the old one)
			return &SliceV{b.elems[lo:hi]}
		case string:
			n := int64(len(b))
			if hi < 0 {
				hi = n
			}
			if lo < 0 || hi > n || lo > hi {
				it.panics(e, "string slice bounds [%d:%d] out of range (len %d)", lo, hi, n)
			}
			return b[lo:hi]
		}
		if _, isNil := base.(Nil); isNil {
			// slicing a nil slice: only [0:0] is in range
			if lo == 0 && hi <= 0 {
				return &SliceV{elems: []Value{}}
			}
			it.panics(e, "slice bounds [%d:%d] out of range (nil slice)", lo, hi)
		}
		it.fail(e, "slice of %s", describe(base))
	case *ast.StarExpr:
		p := it.eval(x.X, env)
		if q, ok := p.(*Ptr); ok {
			return q.cell.v
		}
		if o, ok := p.(*Obj); ok {
			return o
		}
		it.fail(e, "deref of %s", describe(p))
	case *ast.UnaryExpr:
		switch x.Op {
		case token.NOT:
			v := it.eval(x.X, env)
			b, ok := v.(bool)
			if !ok {
				return &Unknown{"negation of " + describe(v)}
			}
			return !b
		case token.SUB:
			return -it.intOf(x.X, env)
		case token.AND:
			if cl, ok := ast.Unparen(x.X).(*ast.CompositeLit); ok {
				return it.compositeLit(cl, env) // &T{…}: the object itself is the pointer
			}
			if ie, ok := ast.Unparen(x.X).(*ast.IndexExpr); ok && isStructType(it.info.Types[x.X].Type) {
				if o, ok := it.eval(ie, env).(*Obj); ok {
					return o // &slice[i] of a struct element: the element object
				}
			}
			c := it.lvalue(x.X, env)
			if o, ok := c.v.(*Obj); ok && isStructType(it.info.Types[x.X].Type) {
				return o // pointer to a struct variable: the object
			}
			return &Ptr{c}
		}
		it.fail(e, "unary %s not modelled", x.Op)
	case *ast.BinaryExpr:
		if x.Op == token.LAND {
			l := it.eval(x.X, env)
			lb, ok := l.(bool)
			if !ok {
				return &Unknown{"&& on " + describe(l)}
			}
			if !lb {
				return false
			}
			return it.eval(x.Y, env)
		}
		if x.Op == token.LOR {
			l := it.eval(x.X, env)
			lb, ok := l.(bool)
			if !ok {
				return &Unknown{"|| on " + describe(l)}
			}
			if lb {
				return true
			}
			return it.eval(x.Y, env)
		}
		return it.wrapInt(e, it.binop(e, x.Op, it.eval(x.X, env), it.eval(x.Y, env)))
	case *ast.CallExpr:
		return it.call(x, env)
	case *ast.TypeAssertExpr:
		return it.eval(x.X, env)
	}
	it.fail(e, "expression %T not modelled", e)
	return nil
}

func lenOf(s *SliceV) int {
	if s == nil {
		return 0
	}
	return len(s.elems)
}

func (it *Interp) intOf(e ast.Expr, env *Env) int64 {
	v := it.eval(e, env)
	i, ok := v.(int64)
	if !ok {
		it.fail(e, "integer expected, got %s", describe(v))
	}
	return i
}

func (it *Interp) binop(at ast.Node, op token.Token, a, b Value) Value {
	if _, u := a.(*Unknown); u {
		return &Unknown{"operation on unknown"}
	}
	if _, u := b.(*Unknown); u {
		return &Unknown{"operation on unknown"}
	}
	if op == token.EQL || op == token.NEQ {
		// struct values compare field by field (pointers to structs by identity)
		if be, ok := at.(*ast.BinaryExpr); ok {
			if tv, ok := it.info.Types[be.X]; ok && tv.Type != nil {
				if _, isStruct := tv.Type.Underlying().(*types.Struct); isStruct {
					eq := it.structEqual(a, b)
					return eq == (op == token.EQL)
				}
			}
		}
	}
	switch op {
	case token.EQL:
		return valuesEqual(a, b)
	case token.NEQ:
		return !valuesEqual(a, b)
	}
	switch x := a.(type) {
	case int64:
		y, ok := b.(int64)
		if !ok {
			it.fail(at, "int %s %T", op, b)
		}
		switch op {
		case token.ADD:
			return x + y
		case token.SUB:
			return x - y
		case token.MUL:
			return x * y
		case token.QUO:
			if y == 0 {
				it.fail(at, "division by zero")
			}
			return x / y
		case token.REM:
			return x % y
		case token.LSS:
			return x < y
		case token.LEQ:
			return x <= y
		case token.GTR:
			return x > y
		case token.GEQ:
			return x >= y
		case token.AND:
			return x & y
		case token.OR:
			return x | y
		case token.SHL:
			return x << uint(y)
		case token.SHR:
			return x >> uint(y)
		case token.XOR:
			return x ^ y
		case token.AND_NOT:
			return x &^ y
		}
	case string:
		y, ok := b.(string)
		if !ok {
			it.fail(at, "string %s %T", op, b)
		}
		switch op {
		case token.ADD:
			return x + y
		case token.LSS:
			return x < y
		case token.GTR:
			return x > y
		case token.LEQ:
			return x <= y
		case token.GEQ:
			return x >= y
		}
	case bool:
		y, ok := b.(bool)
		if ok {
			switch op {
			case token.LAND:
				return x && y
			case token.LOR:
				return x || y
			}
		}
	}
	it.fail(at, "binary %s on %T,%T not modelled", op, a, b)
	return nil
}

func (it *Interp) compositeLit(x *ast.CompositeLit, env *Env) Value {
	t := it.info.Types[x].Type
	switch u := t.Underlying().(type) {
	case *types.Struct:
		o := it.newObj(t)
		for i, el := range x.Elts {
			if kv, ok := el.(*ast.KeyValueExpr); ok {
				name := kv.Key.(*ast.Ident).Name
				c := o.field(name)
				if c == nil {
					it.fail(x, "no field %s", name)
				}
				c.v = it.evalCopy(kv.Value, env)
			} else {
				o.fields[i].v = it.evalCopy(el, env)
			}
		}
		return o
	case *types.Slice:
		s := &SliceV{elems: []Value{}}
		next := 0
		for _, el := range x.Elts {
			val := el
			if kv, ok := el.(*ast.KeyValueExpr); ok {
				// keyed element: the index is a constant
				k, ok := it.eval(kv.Key, env).(int64)
				if !ok || k < 0 || k > 1<<20 {
					it.fail(x, "keyed slice literal with a key that is not a small constant")
				}
				next, val = int(k), kv.Value
			}
			for len(s.elems) <= next {
				s.elems = append(s.elems, it.zero(u.Elem()))
			}
			s.elems[next] = it.evalCopy(val, env)
			next++
		}
		return s
	case *types.Array:
		s := it.zero(t).(*SliceV)
		next := 0
		for _, el := range x.Elts {
			val := el
			if kv, ok := el.(*ast.KeyValueExpr); ok {
				k, ok := it.eval(kv.Key, env).(int64)
				if !ok || k < 0 || int(k) >= len(s.elems) {
					it.fail(x, "keyed array literal with a key outside the array")
				}
				next, val = int(k), kv.Value
			}
			if next >= len(s.elems) {
				it.fail(x, "array literal longer than the array")
			}
			s.elems[next] = it.evalCopy(val, env)
			next++
		}
		return s
	case *types.Map:
		m := &MapV{map[any]Value{}}
		for _, el := range x.Elts {
			kv := el.(*ast.KeyValueExpr)
			m.m[it.keyOf(kv.Key, it.eval(kv.Key, env))] = it.evalCopy(kv.Value, env)
		}
		return m
	default:
		_ = u
	}
	it.fail(x, "composite literal of %s not modelled", t)
	return nil
}

func (it *Interp) selector(x *ast.SelectorExpr, env *Env) Value {
	if sel := it.info.Selections[x]; sel != nil {
		switch sel.Kind() {
		case types.FieldVal:
			base := it.eval(x.X, env)
			if _, unk := base.(*Unknown); unk {
				return &Unknown{"field of unknown"}
			}
			return it.fieldCell(x, base, sel.Index()).v
		case types.MethodVal:
			// a pointer-receiver method on an addressable operand that is neither a pointer nor a struct
			// (a named slice, map or basic type kept in a variable or field): the receiver is its address
			if fn, ok := sel.Obj().(*types.Func); ok && len(sel.Index()) == 1 {
				if sig, ok := fn.Type().(*types.Signature); ok && sig.Recv() != nil {
					if _, ptrRecv := sig.Recv().Type().(*types.Pointer); ptrRecv {
						if tv, ok := it.info.Types[x.X]; ok && tv.Type != nil && tv.Addressable() {
							if _, isPtr := tv.Type.Underlying().(*types.Pointer); !isPtr && !isStructType(tv.Type) {
								return it.methodValue(x, &Ptr{it.lvalue(x.X, env)}, sel)
							}
						}
					}
				}
			}
			base := it.eval(x.X, env)
			return it.methodValue(x, base, sel)
		}
		it.fail(x, "selection kind not modelled")
	}
	// qualified identifier pkg.Name
	obj := it.info.Uses[x.Sel]
	switch o := obj.(type) {
	case *types.Func:
		if fd, ok := it.decls[o]; ok {
			return &Closure{name: o.Name(), typ: fd.Type, body: fd.Body, lit: fd, decl: fd, env: newEnv(nil)}
		}
		return &Native{o.FullName(), nil}
	case *types.Var:
		key := o.Pkg().Name() + "." + o.Name()
		if v, ok := it.extVars[key]; ok {
			return v
		}
		if it.extVars == nil {
			it.extVars = map[string]Value{}
		}
		e := &Ext{key}
		it.extVars[key] = e // one value per package variable (os.Stdout is os.Stdout)
		return e
	}
	it.fail(x, "qualified identifier %s not modelled", x.Sel.Name)
	return nil
}

func (it *Interp) methodValue(at ast.Node, base Value, sel *types.Selection) Value {
	idx := sel.Index()
	recv := base
	if len(idx) > 1 {
		c := it.fieldCell(at, base, idx[:len(idx)-1])
		recv = c.v
	}
	fn := sel.Obj().(*types.Func).Origin()
	if fd, ok := it.decls[fn]; ok {
		// value receivers get a copy
		if fd.Recv != nil && len(fd.Recv.List) == 1 {
			if _, isPtr := fd.Recv.List[0].Type.(*ast.StarExpr); !isPtr {
				recv = it.copyStruct(recv)
			}
		}
		return &Closure{name: fn.FullName(), typ: fd.Type, body: fd.Body, lit: fd, decl: fd, env: newEnv(nil), recv: recv}
	}
	return &Native{fn.FullName(), func(it *Interp, args []Value) []Value {
		if h, ok := it.natives[fn.FullName()]; ok {
			return h(it, append([]Value{recv}, args...))
		}
		return unknownResults(fn.Type().(*types.Signature), fn.FullName())
	}}
}

func unknownResults(sig *types.Signature, name string) []Value {
	var out []Value
	for i := 0; i < sig.Results().Len(); i++ {
		if isErrorType(sig.Results().At(i).Type()) {
			out = append(out, Nil{}) // library calls on the emission path are assumed not to fail
		} else {
			out = append(out, &Unknown{"result of " + name})
		}
	}
	return out
}

// ---------------------------------------------------------------------------
// calls

func (it *Interp) call(x *ast.CallExpr, env *Env) Value {
	// conversion?
	if tv, ok := it.info.Types[x.Fun]; ok && tv.IsType() {
		if len(x.Args) != 1 {
			it.fail(x, "conversion arity")
		}
		return it.convert(x, tv.Type, it.eval(x.Args[0], env))
	}
	// builtin?
	if id, ok := ast.Unparen(x.Fun).(*ast.Ident); ok {
		if b, ok := it.info.Uses[id].(*types.Builtin); ok {
			return it.builtin(x, b.Name(), env)
		}
	}
	fn := it.eval(x.Fun, env)
	var args []Value
	for _, a := range x.Args {
		v := it.evalCopy(a, env)
		if tup, ok := v.([]Value); ok && len(x.Args) == 1 {
			args = append(args, tup...)
		} else {
			args = append(args, v)
		}
	}
	if x.Ellipsis.IsValid() && len(args) > 0 {
		// f(a, xs...) : spread the final slice
		if s, ok := args[len(args)-1].(*SliceV); ok {
			args = append(args[:len(args)-1], &variadic{s})
		}
	}
	res := it.callValue(x, fn, args)
	switch len(res) {
	case 0:
		return nil
	case 1:
		return res[0]
	}
	return res
}

type variadic struct{ s *SliceV }

func (it *Interp) callValue(at ast.Node, fn Value, args []Value) []Value {
	switch f := fn.(type) {
	case *Native:
		if f.fn != nil {
			return f.fn(it, expandVariadic(args))
		}
		it.callAt = at
		if h, ok := it.natives[f.name]; ok {
			return h(it, expandVariadic(args))
		}
		if res, ok := it.callPure(f.name, expandVariadic(args)); ok {
			return res
		}
		it.fail(at, "call of library function %s is not modelled", f.name)
	case *Closure:
		if f == nil {
			it.fail(at, "call of nil function")
		}
		if h, ok := it.hooks[f.lit]; ok {
			if res, handled := h(it, f, args); handled {
				return res
			}
		}
		return it.invoke(at, f, args)
	case *Unknown:
		it.fail(at, "call of an unknown function value (%s)", f.why)
	}
	it.fail(at, "call of %s", describe(fn))
	return nil
}

func expandVariadic(args []Value) []Value {
	if len(args) > 0 {
		if v, ok := args[len(args)-1].(*variadic); ok {
			out := append([]Value{}, args[:len(args)-1]...)
			if v.s != nil {
				out = append(out, v.s.elems...)
			}
			return out
		}
	}
	return args
}

func (it *Interp) invoke(at ast.Node, f *Closure, args []Value) []Value {
	env := newEnv(f.env)
	if f.decl != nil && f.decl.Recv != nil && len(f.decl.Recv.List) == 1 && len(f.decl.Recv.List[0].Names) == 1 {
		env.define(it.info.Defs[f.decl.Recv.List[0].Names[0]], f.recv)
	}
	// parameters
	var params []*ast.Ident
	variadicLast := false
	if f.typ.Params != nil {
		for _, fld := range f.typ.Params.List {
			_, isEll := fld.Type.(*ast.Ellipsis)
			if len(fld.Names) == 0 {
				params = append(params, nil)
			}
			for _, n := range fld.Names {
				params = append(params, n)
			}
			variadicLast = isEll
		}
	}
	if variadicLast {
		n := len(params) - 1
		var rest *SliceV
		if len(args) > n {
			if v, ok := args[len(args)-1].(*variadic); ok && len(args) == n+1 {
				rest = v.s
			} else {
				rest = &SliceV{append([]Value{}, expandVariadic(args[n:])...)}
			}
		} else {
			rest = &SliceV{}
		}
		args = append(append([]Value{}, args[:n]...), rest)
	} else {
		args = expandVariadic(args)
	}
	if len(args) != len(params) {
		it.fail(at, "call of %s with %d arguments, expected %d", f.name, len(args), len(params))
	}
	for i, p := range params {
		if p != nil && p.Name != "_" {
			env.define(it.info.Defs[p], args[i])
		}
	}
	// named results
	var results []*ast.Ident
	if f.typ.Results != nil {
		for _, fld := range f.typ.Results.List {
			for _, n := range fld.Names {
				results = append(results, n)
				env.define(it.info.Defs[n], it.zero(it.info.Defs[n].Type()))
			}
		}
	}
	if it.onCall != nil {
		it.onCall(f, args)
	}
	saved := it.retVals
	savedDefers := it.defers
	var frame []deferred
	it.defers = &frame
	it.retVals = nil
	c := it.execBlock(f.body.List, env)
	var res []Value
	if c == cReturn && it.retVals != nil {
		res = it.retVals
	} else if len(results) > 0 {
		for _, n := range results {
			res = append(res, env.lookup(it.info.Defs[n]).v)
		}
	}
	if len(frame) > 0 {
		// return values are stored into named results, deferred calls run last-in
		// first-out and may change them
		if len(results) > 0 && len(res) == len(results) {
			for i, n := range results {
				env.lookup(it.info.Defs[n]).v = res[i]
			}
		}
		it.runDefers(&frame)
		if len(results) > 0 {
			res = nil
			for _, n := range results {
				res = append(res, env.lookup(it.info.Defs[n]).v)
			}
		}
	}
	it.defers = savedDefers
	it.retVals = saved
	if it.onRet != nil {
		it.onRet(f, args, res)
	}
	return res
}

func (it *Interp) runDefers(frame *[]deferred) {
	for len(*frame) > 0 {
		d := (*frame)[len(*frame)-1]
		*frame = (*frame)[:len(*frame)-1]
		saved := it.retVals
		it.retVals = nil
		it.callValue(d.at, d.fn, d.args)
		it.retVals = saved
	}
}

// wrapInt: fixed-size integer arithmetic wraps around (the interpreter
// computes in int64).
func (it *Interp) wrapInt(e ast.Expr, v Value) Value {
	i, ok := v.(int64)
	if !ok {
		return v
	}
	tv, ok := it.info.Types[e]
	if !ok || tv.Type == nil {
		return v
	}
	b, ok := tv.Type.Underlying().(*types.Basic)
	if !ok {
		return v
	}
	switch b.Kind() {
	case types.Int8:
		return int64(int8(i))
	case types.Int16:
		return int64(int16(i))
	case types.Int32:
		return int64(int32(i))
	case types.Uint8:
		return int64(uint8(i))
	case types.Uint16:
		return int64(uint16(i))
	case types.Uint32:
		return int64(uint32(i))
	}
	return v
}

func (it *Interp) convert(at ast.Node, t types.Type, v Value) Value {
	if _, u := v.(*Unknown); u {
		return v
	}
	switch u := t.Underlying().(type) {
	case *types.Basic:
		switch {
		case u.Info()&types.IsInteger != 0:
			if i, ok := v.(int64); ok {
				switch u.Kind() {
				case types.Uint8:
					return int64(uint8(i))
				case types.Uint16:
					return int64(uint16(i))
				case types.Uint32:
					return int64(uint32(i))
				case types.Int32:
					return int64(int32(i))
				}
				return i
			}
		case u.Info()&types.IsString != 0:
			switch x := v.(type) {
			case string:
				return x
			case int64:
				return string(rune(x))
			case *SliceV:
				var sb strings.Builder
				for _, e := range x.elems {
					sb.WriteRune(rune(e.(int64)))
				}
				return sb.String()
			}
		}
	case *types.Slice:
		if s, ok := v.(string); ok {
			if b, ok := u.Elem().Underlying().(*types.Basic); ok {
				out := &SliceV{elems: []Value{}}
				if b.Kind() == types.Int32 { // []rune
					for _, r := range s {
						out.elems = append(out.elems, int64(r))
					}
					return out
				}
				if b.Kind() == types.Uint8 {
					for i := 0; i < len(s); i++ {
						out.elems = append(out.elems, int64(s[i]))
					}
					return out
				}
			}
		}
		return v
	case *types.Signature, *types.Pointer, *types.Struct, *types.Interface, *types.Map:
		return v
	}
	it.fail(at, "conversion of %s to %s not modelled", describe(v), t)
	return nil
}

func (it *Interp) builtin(x *ast.CallExpr, name string, env *Env) Value {
	switch name {
	case "len":
		v := it.eval(x.Args[0], env)
		switch c := v.(type) {
		case *SliceV:
			return int64(lenOf(c))
		case string:
			return int64(len(c))
		case *MapV:
			if c == nil {
				return int64(0)
			}
			return int64(len(c.m))
		case Nil:
			return int64(0)
		case *Unknown:
			return &Unknown{"len of unknown"}
		}
		it.fail(x, "len of %s", describe(v))
	case "append":
		base := it.eval(x.Args[0], env)
		var s *SliceV
		switch b := base.(type) {
		case *SliceV:
			s = b
		case Nil:
			s = nil
		default:
			it.fail(x, "append to %s", describe(base))
		}
		var elems []Value
		if s != nil {
			elems = s.elems
		}
		if x.Ellipsis.IsValid() {
			more := it.eval(x.Args[1], env)
			switch m := more.(type) {
			case *SliceV:
				if m != nil {
					elems = append(elems, m.elems...)
				}
			case string:
				for i := 0; i < len(m); i++ {
					elems = append(elems, int64(m[i]))
				}
			}
		} else {
			for _, a := range x.Args[1:] {
				elems = append(elems, it.evalCopy(a, env))
			}
		}
		return &SliceV{elems}
	case "make":
		t := it.info.Types[x.Args[0]].Type
		switch u := t.Underlying().(type) {
		case *types.Map:
			return &MapV{map[any]Value{}}
		case *types.Slice:
			n := it.eval(x.Args[1], env)
			ni, ok := n.(int64)
			if !ok {
				it.fail(x, "make with non-concrete length")
			}
			s := &SliceV{elems: []Value{}}
			for i := int64(0); i < ni; i++ {
				s.elems = append(s.elems, it.zero(u.Elem()))
			}
			return s
		}
		it.fail(x, "make of %s", t)
	case "cap":
		if s, ok := it.eval(x.Args[0], env).(*SliceV); ok {
			return int64(lenOf(s))
		}
		return int64(0)
	case "copy":
		dst, _ := it.eval(x.Args[0], env).(*SliceV)
		var n int
		switch src := it.eval(x.Args[1], env).(type) {
		case *SliceV:
			if dst != nil && src != nil {
				n = copy(dst.elems, src.elems)
			}
		case string:
			for n < len(src) && dst != nil && n < len(dst.elems) {
				dst.elems[n] = int64(src[n])
				n++
			}
		}
		return int64(n)
	case "delete":
		if m, ok := it.eval(x.Args[0], env).(*MapV); ok && m != nil {
			delete(m.m, it.keyOf(x.Args[1], it.eval(x.Args[1], env)))
		}
		return nil
	case "clear":
		switch c := it.eval(x.Args[0], env).(type) {
		case *MapV:
			if c != nil {
				c.m = map[any]Value{}
			}
		case *SliceV:
			if c != nil {
				t := it.info.Types[x.Args[0]].Type
				for i := range c.elems {
					if sl, ok := t.Underlying().(*types.Slice); ok {
						c.elems[i] = it.zero(sl.Elem())
					}
				}
			}
		}
		return nil
	case "new":
		t := it.info.Types[x.Args[0]].Type
		if isStructType(t) {
			return it.newObj(t)
		}
		return &Ptr{&Cell{it.zero(t)}}
	case "panic":
		it.fail(x, "the emitter panics on this model: %v", it.eval(x.Args[0], env))
	case "min", "max":
		a, b := it.intOf(x.Args[0], env), it.intOf(x.Args[1], env)
		if (name == "min") == (a < b) {
			return a
		}
		return b
	}
	it.fail(x, "builtin %s not modelled", name)
	return nil
}

// ---------------------------------------------------------------------------

func sortedKeys(m map[any]Value) []any {
	var ks []any
	for k := range m {
		ks = append(ks, k)
	}
	sort.Slice(ks, func(i, j int) bool { return fmt.Sprint(ks[i]) < fmt.Sprint(ks[j]) })
	return ks
}

// sparseMembers: `for d := range N { if S.Has(d) { … } }` over a huge N with a
// modelled set S only has effects for members of S; iterate those.
func (it *Interp) sparseMembers(x *ast.RangeStmt, env *Env, n int64) ([]rune, bool) {
	if n < 1<<16 || len(x.Body.List) != 1 || x.Key == nil {
		return nil, false
	}
	is, ok := x.Body.List[0].(*ast.IfStmt)
	if !ok || is.Init != nil || is.Else != nil {
		return nil, false
	}
	cond := is.Cond
	if be, ok := cond.(*ast.BinaryExpr); ok && be.Op == token.LAND {
		cond = be.X // S.Has(d) && …: still only members of S can have an effect
	}
	call, ok := cond.(*ast.CallExpr)
	if !ok || len(call.Args) != 1 {
		return nil, false
	}
	se, ok := call.Fun.(*ast.SelectorExpr)
	if !ok || se.Sel.Name != "Has" {
		return nil, false
	}
	key, ok := x.Key.(*ast.Ident)
	arg, ok2 := call.Args[0].(*ast.Ident)
	if !ok || !ok2 || it.info.Defs[key] == nil || it.info.Uses[arg] != it.info.Defs[key] {
		return nil, false
	}
	e := newEnv(env)
	e.define(it.info.Defs[key], int64(0))
	s, ok := it.eval(se.X, e).(*NSet)
	if !ok {
		return nil, false
	}
	var out []rune
	for _, r := range s.members() {
		if int64(r) < n {
			out = append(out, r)
		}
	}
	return out, true
}

// elemEqual: equality of the elements of the slice handed to the library call being evaluated —
// struct values compare field by field, everything else as ==.
func (it *Interp) elemEqual(a, b Value) bool {
	if ce, ok := it.callAt.(*ast.CallExpr); ok && len(ce.Args) > 0 {
		if tv, ok := it.info.Types[ce.Args[0]]; ok && tv.Type != nil {
			if sl, ok := tv.Type.Underlying().(*types.Slice); ok {
				if _, isStruct := sl.Elem().Underlying().(*types.Struct); isStruct {
					return it.structEqual(a, b)
				}
			}
		}
	}
	return valuesEqual(a, b)
}

func (it *Interp) structEqual(a, b Value) bool {
	x, ok1 := a.(*Obj)
	y, ok2 := b.(*Obj)
	if !ok1 || !ok2 || x == nil || y == nil {
		return valuesEqual(a, b)
	}
	if x == y {
		return true
	}
	if len(x.fields) != len(y.fields) {
		return false
	}
	for i := range x.fields {
		fa, fb := x.fields[i].v, y.fields[i].v
		if x.st != nil {
			if _, isStruct := x.st.Field(i).Type().Underlying().(*types.Struct); isStruct {
				if !it.structEqual(fa, fb) {
					return false
				}
				continue
			}
		}
		if !valuesEqual(fa, fb) {
			return false
		}
	}
	return true
}

// zeroLike: the zero value of the same kind as v.
func (it *Interp) zeroLike(v Value) Value {
	switch x := v.(type) {
	case *Obj:
		if x != nil && x.t != nil {
			return it.newObj(x.t)
		}
	case int64:
		return int64(0)
	case string:
		return ""
	case bool:
		return false
	}
	return Nil{}
}
