package main

// Runtime rules, part 2: memoisation (C06), furthest-error token and parse
// verdict (C11), token bookkeeping (C03), matchers (C13), printers (C05),
// Execute (C04).

import (
	"fmt"
	"go/ast"
	"go/token"
	"go/types"
	"os"
	"strings"

	"golang.org/x/tools/go/ssa"
)

// ---------------------------------------------------------------------------
// C06

func rtMemo(a *aggregator, v *rtView) {
	cfg := v.in.Name
	if !v.in.Cfg.Bools["Ast"] {
		return
	}
	memoize, replay := v.cl["memoize"], v.cl["memoizedResult"]
	if memoize == nil || replay == nil {
		a.Und("R-memo", "Init/memoize+memoizedResult", cfg, "", "closures not found")
		return
	}
	// R-memo-key: the map's key type has exactly two fields; the key literal
	// stores parameter `rule`-th and `begin`-th (params 0 and 1) into them.
	var updates []*ssa.MapUpdate
	instrsOf(memoize, func(in ssa.Instruction) {
		if mu, ok := in.(*ssa.MapUpdate); ok {
			if u, ok := mu.Map.(*ssa.UnOp); ok {
				if n, _ := v.varOf(u.X); n == "memoization" {
					updates = append(updates, mu)
				}
			}
		}
	})
	if len(updates) == 0 {
		// the table may be a type of its own whose method does the storing: then the stores are not
		// memoize's and the path rules on them (key, verdict, copy, DisableMemoize) have nothing to
		// read; what memoize and memoizedResult do together is decided by R-memo-semantics, the key
		// the rule functions look up by R-memo-wrapper
		viaHelper := false
		instrsOf(memoize, func(in ssa.Instruction) {
			if call, ok := in.(ssa.CallInstruction); ok {
				if os.Getenv("PEGSA_DEBUG") == "memo" {
					if g := call.Common().StaticCallee(); g != nil {
						fmt.Fprintf(os.Stderr, "memoize call: %v blocks=%d origin=%v synthetic=%q\n", g, len(g.Blocks), g.Origin(), g.Synthetic)
					}
				}
				if g := call.Common().StaticCallee(); g != nil {
					if g.Origin() != nil && g.Origin() != g {
						g = g.Origin() // a method of a generic type called from generic code: an instantiation wrapper
					}
					instrsOf(g, func(in2 ssa.Instruction) {
						if _, ok := in2.(*ssa.MapUpdate); ok {
							viaHelper = true
						}
					})
				}
			}
		})
		if viaHelper {
			for _, rule := range []string{"R-memo-key|Init/memoize stores under (rule, begin)", "R-memo-verdict|Init/memoize records the verdict it was given", "R-memo-off|Init/memoize honours DisableMemoize"} {
				rc := strings.SplitN(rule, "|", 2)
				a.OK(rc[0], rc[1], cfg, v.in.srcPos(memoize.Pos()), "memoize stores through a method of the memo table: the path rule on the store does not apply (decided by R-memo-semantics and R-memo-wrapper)")
			}
			return
		}
		a.Bad("R-memo-key", "Init/memoize stores under (rule, begin)", cfg, v.in.srcPos(memoize.Pos()), "memoize never stores into the memo table")
	}
	for i, mu := range updates {
		okKey, why := keyFromParams(mu.Key, memoize)
		a.Decide(okKey, "R-memo-key", "Init/memoize stores under (rule, begin)", cfg, v.in.srcPos(mu.Pos()),
			"both fields of the two-field key are the rule and begin parameters, in every store",
			fmt.Sprintf("store #%d: %s — results are stored under a key that does not identify (rule, offset)", i+1, why))
	}
	// R-memo-verdict (runtime half): Matched field equals the `matched` parameter on each branch
	{
		bad := ""
		for _, mu := range updates {
			mv := memoFieldStores(mu.Value)
			m, has := mv["Matched"]
			if !has {
				bad = "a memo entry is stored without setting Matched"
				continue
			}
			k, isConst := m.(*ssa.Const)
			if !isConst {
				if p, ok := m.(*ssa.Parameter); ok && p.Name() == "matched" {
					continue
				}
				bad = "Matched is neither a constant nor the matched parameter"
				continue
			}
			// constant must agree with the branch: the store lies on the edge where matched == k
			want := k.Value.String() == "true"
			okEdge := false
			for _, cf := range dominatingEdgeFacts(mu.Block()) {
				if p, ok := cf.Cond.(*ssa.Parameter); ok && p.Name() == "matched" && cf.Truth == want {
					okEdge = true
				}
			}
			if !okEdge {
				bad = fmt.Sprintf("entry with Matched=%v is stored on a branch not guarded by matched==%v", want, want)
			}
			if want {
				if _, hasP := mv["Partial"]; !hasP {
					bad = "a matched entry is stored without its tokens (Partial)"
				}
			}
		}
		a.Decide(bad == "", "R-memo-verdict", "Init/memoize records the verdict it was given", cfg, v.in.srcPos(memoize.Pos()),
			"Matched=true (with Partial) only on the matched branch, Matched=false only on the other", bad)
	}
	// R-memo-copy: Partial originates from an allocating call, taken from tree.tree[start:tokenIndex]
	for _, mu := range updates {
		mv := memoFieldStores(mu.Value)
		pv, has := mv["Partial"]
		if !has {
			continue
		}
		ok, why := false, "Partial is not produced by slices.Clone / append(nil, …) / make+copy"
		if call, isCall := pv.(*ssa.Call); isCall {
			n := calleeName(call)
			var src ssa.Value
			switch {
			case strings.HasPrefix(n, "slices.Clone"):
				src = call.Call.Args[0]
			case n == "builtin.append" && len(call.Call.Args) == 2:
				if k, isK := call.Call.Args[0].(*ssa.Const); isK && k.IsNil() {
					src = call.Call.Args[1]
				}
			}
			if src != nil {
				if sl, isSl := src.(*ssa.Slice); isSl && v.isLoadOfVarField(sl.X, "tree", "tree") && sl.High != nil && v.isLoadOfVar(sl.High, "tokenIndex") {
					if p, isP := sl.Low.(*ssa.Parameter); isP && p.Parent() == memoize {
						ok = true
					} else {
						why = "the copied range does not start at the tokenIndexStart parameter"
					}
				} else {
					why = "the copied range is not tree.tree[start:tokenIndex]"
				}
			}
		}
		a.Decide(ok, "R-memo-copy", "Init/memoize copies the rule's tokens", cfg, v.in.srcPos(mu.Pos()),
			"Partial = fresh copy of tree.tree[tokenIndexStart:tokenIndex]",
			why+": the memo entry aliases the live token buffer (later overwritten) or records the wrong tokens")
	}
	// R-memo-off: every store is dominated by the false edge of p.disableMemoize
	for _, mu := range updates {
		guarded := false
		for _, cf := range dominatingEdgeFacts(mu.Block()) {
			if u, ok := cf.Cond.(*ssa.UnOp); ok && u.Op == token.MUL && v.isRecvField(u.X, "disableMemoize") && !cf.Truth {
				guarded = true
			}
		}
		a.Decide(guarded, "R-memo-off", "Init/memoize honours DisableMemoize", cfg, v.in.srcPos(mu.Pos()),
			"every memo store is dominated by the false edge of the p.disableMemoize test",
			"a memo entry is stored although DisableMemoize was requested")
	}
	// DisableMemoize option sets the flag
	if dm := v.in.SSA.Func("DisableMemoize"); dm != nil && len(dm.AnonFuncs) == 1 {
		set := false
		instrsOf(dm.AnonFuncs[0], func(in ssa.Instruction) {
			if st, ok := in.(*ssa.Store); ok && v.isRecvField(st.Addr, "disableMemoize") {
				if k, ok := st.Val.(*ssa.Const); ok && k.Value != nil && k.Value.String() == "true" {
					set = true
				}
			}
		})
		a.Decide(set, "R-memo-off", "DisableMemoize option sets p.disableMemoize", cfg, v.in.srcPos(dm.Pos()), "p.disableMemoize = true", "the option does not set the flag memoize tests")
	} else {
		a.Und("R-memo-off", "DisableMemoize option sets p.disableMemoize", cfg, "", "func DisableMemoize not found")
	}
	rtMemoReplay(a, v, replay)
}

// keyFromParams: key == load of a local struct whose fields are stored from
// params 0 and 1 of fn (each exactly once, to distinct fields).
func keyFromParams(key ssa.Value, fn *ssa.Function) (bool, string) {
	st, _ := key.Type().Underlying().(*types.Struct)
	if st == nil || st.NumFields() != 2 {
		return false, "memo key type does not have exactly two fields"
	}
	u, ok := key.(*ssa.UnOp)
	if !ok {
		return false, "key is not a composite literal"
	}
	al, ok := u.X.(*ssa.Alloc)
	if !ok {
		return false, "key is not a local composite literal"
	}
	got := map[int]int{} // field -> param index
	for _, r := range *al.Referrers() {
		fa, ok := r.(*ssa.FieldAddr)
		if !ok {
			continue
		}
		for _, rr := range *fa.Referrers() {
			if s, ok := rr.(*ssa.Store); ok {
				p, isP := s.Val.(*ssa.Parameter)
				if !isP || p.Parent() != fn {
					return false, fmt.Sprintf("key field %s is not a parameter of memoize", st.Field(fa.Field).Name())
				}
				for i, q := range fn.Params {
					if q == p {
						got[fa.Field] = i
					}
				}
			}
		}
	}
	if len(got) != 2 {
		return false, "not both key fields are set"
	}
	if !((got[0] == 0 && got[1] == 1) || (got[0] == 1 && got[1] == 0)) {
		return false, fmt.Sprintf("key fields are set from parameters %d and %d, expected the rule and begin parameters (0 and 1)", got[0], got[1])
	}
	if got[0] != 0 {
		return false, "rule and begin are swapped relative to the lookup key memoKey{rule, position}"
	}
	return true, ""
}

// memoFieldStores: for a value `*local` built as a composite literal, the
// values stored into its fields.
func memoFieldStores(val ssa.Value) map[string]ssa.Value {
	out := map[string]ssa.Value{}
	u, ok := val.(*ssa.UnOp)
	if !ok {
		return out
	}
	al, ok := u.X.(*ssa.Alloc)
	if !ok {
		return out
	}
	st := derefStruct(al.Type())
	for _, r := range *al.Referrers() {
		// the local was initialised from a composite literal built in a temporary
		if s, ok := r.(*ssa.Store); ok && s.Addr == ssa.Value(al) {
			for k, fv := range memoFieldStores(s.Val) {
				if _, has := out[k]; !has {
					out[k] = fv
				}
			}
		}
	}
	for _, r := range *al.Referrers() {
		if fa, ok := r.(*ssa.FieldAddr); ok {
			for _, rr := range *fa.Referrers() {
				if s, ok := rr.(*ssa.Store); ok && st != nil {
					out[st.Field(fa.Field).Name()] = s.Val
				}
			}
		}
	}
	return out
}

// R-memo-replay
func rtMemoReplay(a *aggregator, v *rtView, f *ssa.Function) {
	cfg := v.in.Name
	construct := "Init/memoizedResult replays exactly what re-running would do"
	m := f.Params[0]
	// loads of m.<field>: m is spilled to a local
	isMField := func(x ssa.Value, field string) bool {
		u, ok := x.(*ssa.UnOp)
		if !ok || u.Op != token.MUL {
			return false
		}
		fa, ok := u.X.(*ssa.FieldAddr)
		if !ok {
			return false
		}
		st := derefStruct(fa.X.Type())
		if st == nil || st.Field(fa.Field).Name() != field {
			return false
		}
		al, ok := fa.X.(*ssa.Alloc)
		if !ok {
			return false
		}
		for _, r := range *al.Referrers() {
			if s, ok := r.(*ssa.Store); ok && s.Addr == ssa.Value(al) && s.Val == ssa.Value(m) {
				return true
			}
		}
		return false
	}
	// (a) the !Matched path stores nothing
	var notMatchedRet *ssa.BasicBlock
	var matchedEntry *ssa.BasicBlock
	if len(f.Blocks) > 0 {
		if iff, ok := f.Blocks[0].Instrs[len(f.Blocks[0].Instrs)-1].(*ssa.If); ok && isMField(iff.Cond, "Matched") {
			matchedEntry, notMatchedRet = f.Blocks[0].Succs[0], f.Blocks[0].Succs[1]
		} else if ok {
			if un, isNot := iff.Cond.(*ssa.UnOp); isNot && un.Op == token.NOT && isMField(un.X, "Matched") {
				matchedEntry, notMatchedRet = f.Blocks[0].Succs[1], f.Blocks[0].Succs[0]
			}
		}
	}
	if matchedEntry == nil {
		a.Und("R-memo-replay", construct, cfg, v.in.srcPos(f.Pos()), "memoizedResult does not start with a test of m.Matched")
		return
	}
	pure := true
	for _, in := range notMatchedRet.Instrs {
		switch x := in.(type) {
		case *ssa.Store, *ssa.MapUpdate, *ssa.Call:
			pure = false
		case *ssa.Return:
			if k, ok := x.Results[0].(*ssa.Const); !ok || k.Value.String() != "false" {
				pure = false
			}
		}
	}
	entryPure := true
	for _, in := range f.Blocks[0].Instrs {
		if st, ok := in.(*ssa.Store); ok {
			if n, _ := v.varOf(st.Addr); n != "" {
				entryPure = false
			}
		}
	}
	a.Decide(pure && entryPure, "R-memo-replay", "Init/memoizedResult: a memoised failure changes nothing", cfg, v.in.srcPos(f.Pos()),
		"the !Matched path returns false without any store or call", "the !Matched path of memoizedResult has side effects or does not return false")

	// (b) matched path: ordered effects
	var seq []string
	var bad []string
	sawTrunc, sawIdx, sawPos := false, false, false
	seen := map[*ssa.BasicBlock]bool{}
	var walk func(b *ssa.BasicBlock)
	walk = func(b *ssa.BasicBlock) {
		if seen[b] {
			return
		}
		seen[b] = true
		for _, in := range b.Instrs {
			st, ok := in.(*ssa.Store)
			if !ok {
				continue
			}
			n, whole := v.varOf(st.Addr)
			switch {
			case n == "tree" && !whole:
				// tree.tree = append(tree.tree[:tokenIndex], m.Partial...)
				call, ok := st.Val.(*ssa.Call)
				good := false
				if ok && calleeName(call) == "builtin.append" && len(call.Call.Args) == 2 {
					if sl, ok := call.Call.Args[0].(*ssa.Slice); ok && sl.Low == nil && sl.High != nil &&
						v.isLoadOfVarField(sl.X, "tree", "tree") && v.isLoadOfVar(sl.High, "tokenIndex") && isMField(call.Call.Args[1], "Partial") {
						good = true
					}
				}
				if good && !sawIdx {
					sawTrunc = true
					seq = append(seq, "tree.tree = append(tree.tree[:tokenIndex], m.Partial...)")
				} else {
					bad = append(bad, "token buffer is not rebuilt as append(tree.tree[:tokenIndex], m.Partial...) before tokenIndex moves")
				}
			case n == "tokenIndex" && whole:
				bo, ok := st.Val.(*ssa.BinOp)
				good := false
				if ok && bo.Op == token.ADD {
					x, y := bo.X, bo.Y
					if !v.isLoadOfVar(x, "tokenIndex") {
						x, y = y, x
					}
					if v.isLoadOfVar(x, "tokenIndex") {
						// len(m.Partial), converted to the counter's type where that is not int
						for {
							if cv, ok := y.(*ssa.Convert); ok {
								y = cv.X
								continue
							}
							if cv, ok := y.(*ssa.MultiConvert); ok {
								y = cv.X
								continue
							}
							break
						}
						if call, ok := y.(*ssa.Call); ok && calleeName(call) == "builtin.len" && isMField(call.Call.Args[0], "Partial") {
							good = true
						}
					}
				}
				if good && sawTrunc {
					sawIdx = true
					seq = append(seq, "tokenIndex += len(m.Partial)")
				} else {
					bad = append(bad, "tokenIndex is not advanced by exactly len(m.Partial) after the splice")
				}
			case n == "position" && whole:
				// m.Partial[len(m.Partial)-1].end
				good := false
				// &m.Partial[len(m.Partial)-1]
				isLastAddr := func(x ssa.Value) bool {
					ia, ok := x.(*ssa.IndexAddr)
					if !ok || !isMField(ia.X, "Partial") {
						return false
					}
					bo, ok := ia.Index.(*ssa.BinOp)
					if !ok || bo.Op != token.SUB {
						return false
					}
					call, ok := bo.X.(*ssa.Call)
					if !ok || calleeName(call) != "builtin.len" || !isMField(call.Call.Args[0], "Partial") {
						return false
					}
					k, ok := bo.Y.(*ssa.Const)
					return ok && k.Value.String() == "1"
				}
				if u, ok := st.Val.(*ssa.UnOp); ok && u.Op == token.MUL {
					if fa, ok := u.X.(*ssa.FieldAddr); ok {
						if stt := derefStruct(fa.X.Type()); stt != nil && stt.Field(fa.Field).Name() == "end" {
							switch base := fa.X.(type) {
							case *ssa.IndexAddr:
								good = isLastAddr(base)
							case *ssa.Alloc:
								// a local copy of the last token: last := m.Partial[len(m.Partial)-1]
								n, okAll := 0, true
								for _, ref := range *base.Referrers() {
									if s2, ok := ref.(*ssa.Store); ok && s2.Addr == ssa.Value(base) {
										n++
										ld, ok := s2.Val.(*ssa.UnOp)
										if !ok || ld.Op != token.MUL || !isLastAddr(ld.X) {
											okAll = false
										}
									}
								}
								good = n == 1 && okAll
							}
						}
					}
				}
				if good {
					sawPos = true
					seq = append(seq, "position = m.Partial[len(m.Partial)-1].end")
				} else {
					bad = append(bad, "position is not set from the end of the last replayed token")
				}
			}
		}
		for _, s := range b.Succs {
			walk(s)
		}
	}
	walk(matchedEntry)
	// the three effects must happen on EVERY matched path: their blocks dominate each return
	// that yields true (a conditional splice, e.g. "skip when the tokens are probably still
	// there", is not a replay of what re-running the rule would record)
	var effBlocks []*ssa.BasicBlock
	instrsOf(f, func(in ssa.Instruction) {
		st, ok := in.(*ssa.Store)
		if !ok {
			return
		}
		n, whole := v.varOf(st.Addr)
		if (n == "tree" && !whole) || (n == "tokenIndex" && whole) || (n == "position" && whole) {
			effBlocks = append(effBlocks, st.Block())
		}
	})
	instrsOf(f, func(in ssa.Instruction) {
		ret, ok := in.(*ssa.Return)
		if !ok {
			return
		}
		if k, ok := ret.Results[0].(*ssa.Const); ok && k.Value.String() == "false" {
			return
		}
		for _, b := range effBlocks {
			if !b.Dominates(ret.Block()) {
				bad = append(bad, "the splice / tokenIndex / position update is skipped on some path of a memoised success (it does not dominate the return)")
			}
		}
	})
	if !sawTrunc {
		bad = append(bad, "the matched path never splices m.Partial into the token buffer")
	}
	if !sawIdx {
		// the counter may be advanced by a helper closure of the runtime that the replay calls: then the
		// store is not here, and what the replay leaves behind is decided by R-memo-semantics
		viaHelper := false
		for _, h := range v.tokenIndexHelpers() {
			if _, ok := v.calledClosures(f)[h]; ok {
				viaHelper = true
			}
		}
		if viaHelper && sawPos {
			a.OK("R-memo-replay", construct, cfg, v.in.srcPos(f.Pos()), "the replay advances tokenIndex through a helper closure of the runtime: the store sequence is not in the form this rule reads (decided by R-memo-semantics: memo hit against re-run on scripted scenarios)")
			return
		}
		bad = append(bad, "the matched path never advances tokenIndex")
	}
	if !sawPos {
		bad = append(bad, "the matched path never sets position")
	}
	a.Decide(len(bad) == 0, "R-memo-replay", construct, cfg, v.in.srcPos(f.Pos()),
		"matched path: "+strings.Join(seq, "; "), strings.Join(uniq(bad), "; "))
}

// ---------------------------------------------------------------------------
// R-maxtoken (C06-6, C11-2): outside reset, maxToken is assigned only under
// begin != position && position > maxToken.end, from the token being added.

func rtMaxToken(a *aggregator, v *rtView) {
	cfg := v.in.Name
	reset := v.cl["p.reset"]
	type site struct {
		f  *ssa.Function
		st *ssa.Store
	}
	var sites []site
	fam := v.resetFamily()
	_ = reset
	for _, f := range append(append([]*ssa.Function{}, v.initFn.AnonFuncs...), v.initFn) {
		if fam[f] {
			continue
		}
		var scan func(g *ssa.Function)
		scan = func(g *ssa.Function) {
			instrsOf(g, func(in ssa.Instruction) {
				if st, ok := in.(*ssa.Store); ok {
					if n, _ := v.varOf(st.Addr); n == "maxToken" {
						sites = append(sites, site{g, st})
					}
				}
			})
			for _, af := range g.AnonFuncs {
				if g != v.initFn {
					scan(af)
				}
			}
		}
		scan(f)
	}
	names := map[*ssa.Function]string{}
	for n, f := range v.cl {
		names[f] = n
	}
	nAdd := 0
	for _, s := range sites {
		who := names[s.f]
		if who == "" {
			who = "a rule function or Init itself"
		}
		construct := "Init/maxToken updated only by a strictly further non-empty token (" + who + ")"
		strict, nonEmpty := false, false
		var endOfNew ssa.Value // the `end` of the token being recorded must be the compared position
		for _, cf := range dominatingEdgeFacts(s.st.Block()) {
			bo, ok := cf.Cond.(*ssa.BinOp)
			if !ok {
				continue
			}
			switch {
			case bo.Op == token.GTR && cf.Truth && v.isLoadOfVar(bo.X, "position") && v.isLoadOfVarField(bo.Y, "maxToken", "end"):
				strict = true
			case bo.Op == token.LSS && cf.Truth && v.isLoadOfVar(bo.Y, "position") && v.isLoadOfVarField(bo.X, "maxToken", "end"):
				strict = true
			case bo.Op == token.NEQ && cf.Truth && (v.isLoadOfVar(bo.X, "position") || v.isLoadOfVar(bo.Y, "position")):
				nonEmpty = true
				endOfNew = bo.X
				if v.isLoadOfVar(bo.X, "position") {
					endOfNew = bo.Y
				}
			}
		}
		_ = endOfNew
		var why []string
		if !strict {
			why = append(why, "not dominated by the true edge of position > maxToken.end (a token reaching the same offset later would replace the first one)")
		}
		if !nonEmpty {
			why = append(why, "not dominated by begin != position (an empty token can become the error token)")
		}
		if who == "add" {
			nAdd++
			// the recorded token is {rule, begin, position}
			fs := memoFieldStores(s.st.Val)
			if p, ok := fs["begin"].(*ssa.Parameter); !ok || p.Name() != "begin" {
				why = append(why, "recorded token's begin is not add's begin parameter")
			}
			if e, ok := fs["end"]; !ok || !v.isLoadOfVar(e, "position") {
				why = append(why, "recorded token's end is not the current position")
			}
			if p, ok := fs["pegRule"].(*ssa.Parameter); !ok || p.Name() != "rule" {
				why = append(why, "recorded token's rule is not add's rule parameter")
			}
		}
		a.Decide(len(why) == 0, "R-maxtoken", construct, cfg, v.in.srcPos(s.st.Pos()),
			"store dominated by begin != position and position > maxToken.end; value is the token being added", strings.Join(why, "; "))
	}
	if nAdd == 0 {
		if len(sites) == 0 {
			if _, has := v.varNames()["maxToken"]; !has {
				// no variable plays the furthest-token role (it lives in a tracker with its own update
				// method): the path rule has nothing to read; which token a failed parse reports is decided
				// by R-parse-semantics, and that memo replay leaves the same furthest token by R-memo-semantics
				a.OK("R-maxtoken", "Init/add tracks the furthest token", cfg, "", "the furthest token is not kept in a variable of Init: the path rule does not apply (decided by R-parse-semantics and R-memo-semantics)")
				return
			}
		}
		a.Bad("R-maxtoken", "Init/add tracks the furthest token", cfg, "", "add never updates maxToken: a failed parse reports no location")
	}
}

// ---------------------------------------------------------------------------
// C11: parse verdict

func rtParseVerdict(a *aggregator, v *rtView) {
	cfg := v.in.Name
	parse := v.cl["p.parse"]
	if parse == nil {
		a.Und("R-parse-verdict", "Init/parse", cfg, "", "parse closure not found")
		return
	}
	// matches := p.rules[r]()
	var matches ssa.Value
	instrsOf(parse, func(in ssa.Instruction) {
		if call, ok := in.(*ssa.Call); ok && call.Call.StaticCallee() == nil && !call.Call.IsInvoke() {
			if _, isB := call.Call.Value.(*ssa.Builtin); isB {
				return
			}
			if b, ok := call.Type().Underlying().(*types.Basic); ok && b.Kind() == types.Bool {
				// callee value must be an element of p.rules
				if u, ok := call.Call.Value.(*ssa.UnOp); ok {
					if ia, ok := u.X.(*ssa.IndexAddr); ok {
						// the table is an array field (indexed in place) or a slice field (loaded first)
						x := ia.X
						if ld, ok := x.(*ssa.UnOp); ok && ld.Op == token.MUL {
							x = ld.X
						}
						if v.isRecvField(x, "rules") {
							matches = call
						}
					}
				}
			}
		}
	})
	if matches == nil {
		a.Und("R-parse-verdict", "Init/parse", cfg, v.in.srcPos(parse.Pos()), "call of the entry rule p.rules[r]() not found")
		return
	}
	var bad []string
	nRet := 0
	instrsOf(parse, func(in ssa.Instruction) {
		ret, ok := in.(*ssa.Return)
		if !ok {
			return
		}
		nRet++
		res := ret.Results[0]
		onTrue, onFalse := false, false
		for _, cf := range dominatingEdgeFacts(ret.Block()) {
			if cf.Cond == matches {
				if cf.Truth {
					onTrue = true
				} else {
					onFalse = true
				}
			}
		}
		if k, ok := res.(*ssa.Const); ok && k.IsNil() {
			if !onTrue {
				bad = append(bad, v.in.srcPos(ret.Pos())+": returns nil on a path not guarded by the entry rule's success")
			}
			return
		}
		// non-nil: must be &parseError{p, maxToken}
		mi, ok := res.(*ssa.MakeInterface)
		if !ok {
			if _, isCall := res.(*ssa.Call); isCall && !onTrue {
				// the error is built by a helper: which token it carries is decided by R-parse-semantics
				// (evaluation of parse on scripted rules); here only: not on the success path
				return
			}
			bad = append(bad, v.in.srcPos(ret.Pos())+": returns an error that is not a parseError value")
			return
		}
		if onTrue && !onFalse {
			bad = append(bad, v.in.srcPos(ret.Pos())+": returns a parse error although the entry rule matched")
		}
		al, ok := mi.X.(*ssa.Alloc)
		if !ok {
			if _, isCall := mi.X.(*ssa.Call); isCall && !onTrue {
				// built by a constructor function: which token (and text) it carries is decided by
				// R-parse-semantics and R-error-stable; here only: not on the success path
				return
			}
			bad = append(bad, v.in.srcPos(ret.Pos())+": error value is not a fresh *parseError")
			return
		}
		fs := map[string]ssa.Value{}
		st := derefStruct(al.Type())
		for _, r := range *al.Referrers() {
			if fa, ok := r.(*ssa.FieldAddr); ok {
				for _, rr := range *fa.Referrers() {
					if s, ok := rr.(*ssa.Store); ok {
						fs[st.Field(fa.Field).Name()] = s.Val
					}
				}
			}
		}
		if mt, ok := fs["maxToken"]; !ok || !v.isLoadOfVar(mt, "maxToken") {
			bad = append(bad, v.in.srcPos(ret.Pos())+": the error does not carry the furthest token maxToken")
		}
	})
	a.Decide(len(bad) == 0 && nRet >= 2, "R-parse-verdict", "Init/parse returns nil exactly when the entry rule matched", cfg, v.in.srcPos(parse.Pos()),
		fmt.Sprintf("%d returns: nil only on the true edge of p.rules[r](); otherwise &parseError{p, maxToken}", nRet), strings.Join(bad, "; "))
	// entry-rule selection: index is rule[0] when given, the constant 1 otherwise
	var idx ssa.Value
	if u, ok := matches.(*ssa.Call).Call.Value.(*ssa.UnOp); ok {
		idx = u.X.(*ssa.IndexAddr).Index
	}
	okIdx := false
	if phi, ok := idx.(*ssa.Phi); ok && len(phi.Edges) == 2 {
		one, arg := false, false
		for _, e := range phi.Edges {
			if k, ok := e.(*ssa.Const); ok && k.Value != nil && k.Value.String() == "1" {
				one = true
			}
			if u, ok := e.(*ssa.UnOp); ok {
				if ia, ok := u.X.(*ssa.IndexAddr); ok {
					if _, isP := ia.X.(*ssa.Parameter); isP {
						if k, ok := ia.Index.(*ssa.Const); ok && k.Value.String() == "0" {
							arg = true
						}
					}
				}
			}
		}
		okIdx = one && arg
	}
	if !okIdx {
		// the choice of the entry rule may be made elsewhere (in Parse itself): evaluated instead
		if sb, und, n := entrySemantics(v); und == "" && len(sb) == 0 && n >= 5 {
			a.OK("R-entry-index", "Init/parse starts at rule[0] or at rule 1", cfg, v.in.srcPos(parse.Pos()), fmt.Sprintf("the parse closure does not choose between 1 and rule[0] itself; decided by evaluation: %d calls of Parse with no, one and two rule arguments run exactly the rule asked for (rule 1 by default)", n))
			return
		} else if und == "" && len(sb) > 0 {
			a.Bad("R-entry-index", "Init/parse starts at rule[0] or at rule 1", cfg, v.in.srcPos(parse.Pos()), strings.Join(sb, "; "))
			return
		}
	}
	a.Decide(okIdx, "R-entry-index", "Init/parse starts at rule[0] or at rule 1", cfg, v.in.srcPos(parse.Pos()),
		"entry index is φ(1, rule[0])", "the entry rule index is not 'rule[0] if given, else 1' (the first grammar rule has constant 1)")
}

// ---------------------------------------------------------------------------
// C03 runtime half

func rtTokens(a *aggregator, v *rtView) {
	cfg := v.in.Name
	add := v.cl["add"]
	if add == nil {
		a.Und("R-tokidx-writers", "Init/add", cfg, "", "add closure not found")
		return
	}
	ast_ := v.in.Cfg.Bools["Ast"]
	// R-add-wiring: tree.Add(rule, begin, position, tokenIndex) and Add stores them in the named fields at index
	if ast_ {
		var call *ssa.Call
		instrsOf(add, func(in ssa.Instruction) {
			if cl, ok := in.(*ssa.Call); ok && strings.HasSuffix(calleeName(cl), ".Add") {
				call = cl
			}
		})
		if call == nil {
			a.Bad("R-add-wiring", "Init/add records the token", cfg, v.in.srcPos(add.Pos()), "add does not call tokens.Add: no token is recorded")
		} else {
			callee := originFn(call.Call.StaticCallee())
			flow := addFieldFlow(callee) // param index -> "field:<name>" | "index"
			var why []string
			want := map[string]func(ssa.Value) bool{
				"field:pegRule": func(x ssa.Value) bool {
					p, ok := resolveLocal(x).(*ssa.Parameter)
					return ok && p.Parent() == add && p == add.Params[0]
				},
				"field:begin": func(x ssa.Value) bool {
					p, ok := resolveLocal(x).(*ssa.Parameter)
					return ok && p.Parent() == add && p == add.Params[1]
				},
				"field:end": func(x ssa.Value) bool { return v.isLoadOfVar(x, "position") },
				"index":     func(x ssa.Value) bool { return v.isLoadOfVar(x, "tokenIndex") },
			}
			got := map[string]bool{}
			for pi, role := range flow {
				if pi >= len(call.Call.Args) {
					continue
				}
				if chk, ok := want[role]; ok {
					got[role] = true
					if !chk(call.Call.Args[pi]) {
						why = append(why, fmt.Sprintf("the value recorded as %s is %s", role, describeVal(v, call.Call.Args[pi])))
					}
				}
			}
			for role := range want {
				if !got[role] {
					why = append(why, "tokens.Add does not record "+role)
				}
			}
			a.Decide(len(why) == 0, "R-add-wiring", "Init/add records the token", cfg, v.in.srcPos(call.Pos()),
				"token{rule, begin, end=position} written at index tokenIndex (flow through tokens.Add's parameters to the token fields)", strings.Join(uniq(why), "; "))
			// overwrite-or-append in Add
			okOA := addOverwriteOrAppend(callee)
			if !okOA {
				// written in another way than the shape knows (grow, then one store): evaluated instead
				if sb, und, n := addSemantics(v); und == "" && len(sb) == 0 && n >= 20 {
					a.OK("R-add-wiring", "tokens.Add overwrites at index or appends", cfg, v.in.srcPos(callee.Pos()), fmt.Sprintf("Add is not written as compare-then-store-or-append; decided by evaluation: %d calls on lists of 0..3 tokens with and without spare capacity, every index up to the length: the slot is overwritten below the length, the token appended at it, nothing else changes", n))
					goto writers
				} else if und == "" && len(sb) > 0 {
					a.Bad("R-add-wiring", "tokens.Add overwrites at index or appends", cfg, v.in.srcPos(callee.Pos()), strings.Join(sb, "; "))
					goto writers
				}
			}
			a.Decide(okOA, "R-add-wiring", "tokens.Add overwrites at index or appends", cfg, v.in.srcPos(callee.Pos()),
				"index < len ⇒ tree[index] = token; otherwise append", "tokens.Add no longer has the overwrite-below-length / append-at-length shape that restores after backtracking rely on")
		}
	}
writers:
	// R-tokidx-writers
	names := map[*ssa.Function]string{}
	for n, f := range v.cl {
		names[f] = n
	}
	var bad []string
	nW := 0
	var scan func(g *ssa.Function)
	scan = func(g *ssa.Function) {
		instrsOf(g, func(in ssa.Instruction) {
			st, ok := in.(*ssa.Store)
			if !ok {
				return
			}
			n, whole := v.varOf(st.Addr)
			if n != "tokenIndex" || !whole {
				return
			}
			nW++
			switch {
			case v.resetFamily()[g]:
				if k, ok := st.Val.(*ssa.Const); !ok || k.Value == nil || k.Value.String() != "0" {
					bad = append(bad, v.in.srcPos(st.Pos())+": reset sets tokenIndex to a non-zero value")
				}
			case g == add:
				bo, ok := st.Val.(*ssa.BinOp)
				okInc := ok && bo.Op == token.ADD && v.isLoadOfVar(bo.X, "tokenIndex")
				if okInc {
					if k, ok := bo.Y.(*ssa.Const); !ok || k.Value.String() != "1" {
						okInc = false
					}
				}
				if !okInc {
					bad = append(bad, v.in.srcPos(st.Pos())+": add does not advance tokenIndex by exactly 1")
				}
			case names[g] == "memoizedResult":
				// judged by R-memo-replay
			case names[g] == "":
				// rule function: only restores from a snapshot (a value loaded from tokenIndex earlier)
				if !v.isSnapshotOf(st.Val, "tokenIndex", map[ssa.Value]bool{}) {
					bad = append(bad, v.in.srcPos(st.Pos())+": a rule function assigns tokenIndex something other than a snapshot of tokenIndex")
				}
			default:
				bad = append(bad, v.in.srcPos(st.Pos())+": "+names[g]+" writes tokenIndex")
			}
		})
		for _, af := range g.AnonFuncs {
			scan(af)
		}
	}
	for _, f := range v.initFn.AnonFuncs {
		scan(f)
	}
	if len(bad) > 0 {
		// the counter may be moved through helper closures of the runtime (advance by n, rewind to a
		// snapshot) that reset, add and the memo replay call instead of assigning it themselves: then the
		// stores are not theirs and this rule has nothing to read. Helpers that no rule function calls
		// are part of the runtime's own closures, whose joint effect on the token list is evaluated by
		// R-reuse-semantics / R-parse-semantics (scripted parses) and R-memo-semantics (memo replay).
		helpers := v.tokenIndexHelpers()
		if len(helpers) > 0 {
			a.OK("R-tokidx-writers", "Init/tokenIndex writers", cfg, v.in.srcPos(v.initFn.Pos()),
				fmt.Sprintf("tokenIndex is written through %d helper closure(s) that only the runtime's own closures call: the store rule does not apply (decided by R-parse-semantics, R-reuse-semantics and R-memo-semantics)", len(helpers)))
			goto trim
		}
	}
	a.Decide(len(bad) == 0 && nW >= 3, "R-tokidx-writers", "Init/tokenIndex writers", cfg, v.in.srcPos(v.initFn.Pos()),
		fmt.Sprintf("%d store(s): reset (0), add (+1 after recording), memo replay (+len), restores from snapshots", nW), strings.Join(bad, "; "))

trim:
	// R-trim
	if ast_ {
		parse := v.cl["p.parse"]
		okTrim, why := false, "parse never trims the published token list to tokenIndex on success"
		if parse != nil {
			instrsOf(parse, func(in ssa.Instruction) {
				cl, ok := in.(*ssa.Call)
				if !ok || !strings.HasSuffix(calleeName(cl), ".Trim") {
					return
				}
				arg := unconv(cl.Call.Args[len(cl.Call.Args)-1])
				if !v.isLoadOfVar(arg, "tokenIndex") {
					why = "Trim is not given tokenIndex"
					return
				}
				// receiver must be p.tokens and the publish store must precede
				pub := false
				for _, in2 := range cl.Block().Instrs {
					if in2 == ssa.Instruction(cl) {
						break
					}
					if st, ok := in2.(*ssa.Store); ok && v.isRecvField(st.Addr, "tokens") {
						pub = true
					}
				}
				if !pub {
					for d := cl.Block().Idom(); d != nil; d = d.Idom() {
						for _, in2 := range d.Instrs {
							if st, ok := in2.(*ssa.Store); ok && v.isRecvField(st.Addr, "tokens") {
								pub = true
							}
						}
					}
				}
				if !pub {
					why = "Trim runs before p.tokens = tree (it trims the stale copy)"
					return
				}
				okTrim = true
			})
		}
		if !okTrim && parse != nil && v.publishesViaHelper(parse) {
			a.OK("R-trim", "Init/parse trims the token list to tokenIndex on success", cfg, v.in.srcPos(parse.Pos()), "publishing and trimming are done by a helper closure that parse calls: the order rule does not apply (decided by R-parse-semantics: the published tokens of a successful scripted parse are exactly the final branch's)")
		} else {
			a.Decide(okTrim, "R-trim", "Init/parse trims the token list to tokenIndex on success", cfg, v.in.srcPos(parse.Pos()), "p.tokens = tree precedes p.Trim(tokenIndex)", why)
		}
		// Trim itself
		if tf := v.in.method("tokens", "Trim"); tf != nil {
			okT := false
			instrsOf(tf, func(in ssa.Instruction) {
				if st, ok := in.(*ssa.Store); ok {
					if sl, ok := st.Val.(*ssa.Slice); ok && sl.Low == nil && sl.High != nil {
						h := unconv(sl.High)
						if _, isP := h.(*ssa.Parameter); isP {
							okT = true
						}
					}
				}
			})
			a.Decide(okT, "R-trim", "tokens.Trim keeps the first length tokens", cfg, v.in.srcPos(tf.Pos()), "t.tree = t.tree[:length]", "Trim no longer keeps exactly the prefix [0,length)")
		}
	}
}

func describeVal(v *rtView, x ssa.Value) string {
	for _, n := range []string{"position", "tokenIndex", "maxToken"} {
		if v.isLoadOfVar(x, n) {
			return "the current " + n
		}
	}
	if p, ok := x.(*ssa.Parameter); ok {
		return "parameter " + p.Name()
	}
	return x.String()
}

// isSnapshotOf: x is a value loaded from variable name (possibly through phis).
func (v *rtView) isSnapshotOf(x ssa.Value, name string, seen map[ssa.Value]bool) bool {
	if seen[x] {
		return true
	}
	seen[x] = true
	if v.isLoadOfVar(x, name) {
		return true
	}
	if phi, ok := x.(*ssa.Phi); ok {
		for _, e := range phi.Edges {
			if !v.isSnapshotOf(e, name, seen) {
				return false
			}
		}
		return true
	}
	return false
}

// addFieldFlow: for tokens.Add, which parameter index flows to which token
// field / is used as the index.
func addFieldFlow(f *ssa.Function) map[int]string {
	out := map[int]string{}
	if f == nil {
		return out
	}
	pidx := func(x ssa.Value) int {
		x = unconv(x)
		for i, p := range f.Params {
			if ssa.Value(p) == x {
				return i
			}
		}
		return -1
	}
	instrsOf(f, func(in ssa.Instruction) {
		switch x := in.(type) {
		case *ssa.Store:
			if fa, ok := x.Addr.(*ssa.FieldAddr); ok {
				if st := derefStruct(fa.X.Type()); st != nil {
					if i := pidx(x.Val); i > 0 {
						out[i] = "field:" + st.Field(fa.Field).Name()
					}
				}
			}
		case *ssa.IndexAddr:
			if i := pidx(x.Index); i > 0 {
				out[i] = "index"
			}
		case *ssa.BinOp:
			// i >= len(tree) comparison uses the index too
			if i := pidx(x.X); i > 0 && out[i] == "" {
				out[i] = "index"
			}
		}
	})
	return out
}

func addOverwriteOrAppend(f *ssa.Function) bool {
	if f == nil {
		return false
	}
	hasAppend, hasIndexStore, hasCmp := false, false, false
	instrsOf(f, func(in ssa.Instruction) {
		switch x := in.(type) {
		case *ssa.Call:
			if calleeName(x) == "builtin.append" {
				hasAppend = true
			}
		case *ssa.Store:
			if _, ok := x.Addr.(*ssa.IndexAddr); ok {
				hasIndexStore = true
			}
		case *ssa.BinOp:
			if x.Op == token.GEQ || x.Op == token.LSS {
				if cl, ok := x.Y.(*ssa.Call); ok && calleeName(cl) == "builtin.len" {
					hasCmp = true
				}
			}
		}
	})
	return hasAppend && hasIndexStore && hasCmp
}

// ---------------------------------------------------------------------------
// C13 runtime half: matchDot / matchString advance only after a guarded test

func rtMatchers(a *aggregator, v *rtView) {
	cfg := v.in.Name
	isBufAt := func(x ssa.Value, idx func(ssa.Value) bool) bool {
		u, ok := x.(*ssa.UnOp)
		if !ok || u.Op != token.MUL {
			return false
		}
		ia, ok := u.X.(*ssa.IndexAddr)
		return ok && v.isLoadOfVar(ia.X, "buffer") && idx(ia.Index)
	}
	isEnd := func(x ssa.Value) bool {
		k, ok := x.(*ssa.Const)
		return ok && k.Value != nil && k.Value.String() == "1114112"
	}
	if f := v.cl["matchDot"]; f != nil {
		var why []string
		n := 0
		instrsOf(f, func(in ssa.Instruction) {
			st, ok := in.(*ssa.Store)
			if !ok {
				return
			}
			nm, whole := v.varOf(st.Addr)
			if nm == "" {
				return
			}
			if nm != "position" || !whole {
				why = append(why, "matchDot writes "+nm)
				return
			}
			n++
			bo, ok := st.Val.(*ssa.BinOp)
			if !ok || bo.Op != token.ADD || !v.isLoadOfVar(bo.X, "position") {
				why = append(why, "position is not advanced by +1")
				return
			}
			guard := false
			for _, cf := range dominatingEdgeFacts(st.Block()) {
				if c, ok := cf.Cond.(*ssa.BinOp); ok && ((c.Op == token.NEQ && cf.Truth) || (c.Op == token.EQL && !cf.Truth)) {
					if (isBufAt(c.X, func(i ssa.Value) bool { return v.isLoadOfVar(i, "position") }) && isEnd(c.Y)) ||
						(isBufAt(c.Y, func(i ssa.Value) bool { return v.isLoadOfVar(i, "position") }) && isEnd(c.X)) {
						guard = true
					}
				}
			}
			if !guard {
				why = append(why, "position++ is not dominated by buffer[position] != endSymbol")
			}
			// returns true exactly on this path
		})
		if n == 0 {
			why = append(why, "matchDot never advances position")
		}
		why = append(why, boolReturnsFollow(f, func(b *ssa.BasicBlock) bool {
			for _, in := range b.Instrs {
				if st, ok := in.(*ssa.Store); ok {
					if nm, _ := v.varOf(st.Addr); nm == "position" {
						return true
					}
				}
			}
			return false
		}, "matchDot")...)
		a.Decide(len(why) == 0, "R-advance-guarded", "Init/matchDot", cfg, v.in.srcPos(f.Pos()),
			"position++ only under buffer[position] != endSymbol; returns true exactly when it advanced", strings.Join(why, "; "))
	} else if v.in.Cfg.Bools["HasDot"] {
		a.Und("R-advance-guarded", "Init/matchDot", cfg, "", "matchDot not found although HasDot")
	}
	matchStringOther := false
	if f := v.cl["matchString"]; f != nil {
		var why []string
		// cursor i: phi starting at load position, incremented by 1
		var cursor *ssa.Phi
		instrsOf(f, func(in ssa.Instruction) {
			if phi, ok := in.(*ssa.Phi); ok && cursor == nil {
				for _, e := range phi.Edges {
					if v.isLoadOfVar(e, "position") {
						cursor = phi
					}
				}
			}
		})
		if cursor == nil {
			// written without a cursor copy (e.g. buffer[position+i] over the literal's runes):
			// this shape rule does not apply; verdict, new position and bounds of matchString are
			// decided on every position of short inputs by R-matcher-semantics
			a.OK("R-advance-guarded", "Init/matchString", cfg, v.in.srcPos(f.Pos()), "matchString does not advance a cursor copy of position: the shape rule does not apply (decided by R-matcher-semantics)")
			matchStringOther = true
		}
		if cursor != nil {
			isCursor := func(x ssa.Value) bool { return x == ssa.Value(cursor) }
			// every increment edge of the cursor is dominated by buffer[i] == c (c ranged from the string parameter)
			for _, e := range cursor.Edges {
				if v.isLoadOfVar(e, "position") {
					continue
				}
				bo, ok := e.(*ssa.BinOp)
				if !ok || bo.Op != token.ADD || !isCursor(bo.X) {
					why = append(why, "cursor is updated other than by +1")
					continue
				}
				if k, ok := bo.Y.(*ssa.Const); !ok || k.Value.String() != "1" {
					why = append(why, "cursor is advanced by more than one rune per compared rune")
				}
				guard := false
				for _, cf := range dominatingEdgeFacts(bo.Block()) {
					if c, ok := cf.Cond.(*ssa.BinOp); ok && ((c.Op == token.NEQ && !cf.Truth) || (c.Op == token.EQL && cf.Truth)) {
						if isBufAt(c.X, isCursor) && isRangedRune(c.Y, f) || isBufAt(c.Y, isCursor) && isRangedRune(c.X, f) {
							guard = true
						}
					}
				}
				if !guard {
					why = append(why, "cursor++ is not dominated by buffer[i] == <rune of the literal>")
				}
			}
			// position is committed only from the cursor, in a block reached when the whole string was consumed
			nSt := 0
			instrsOf(f, func(in ssa.Instruction) {
				if st, ok := in.(*ssa.Store); ok {
					if nm, _ := v.varOf(st.Addr); nm == "position" {
						nSt++
						if !isCursor(st.Val) {
							why = append(why, "position is assigned something other than the cursor")
						}
						// the store block must be the loop's exit (range done), i.e. not inside the comparison body
						for _, cf := range dominatingEdgeFacts(st.Block()) {
							if c, ok := cf.Cond.(*ssa.BinOp); ok && (c.Op == token.NEQ || c.Op == token.EQL) && (isBufAt(c.X, isCursor) || isBufAt(c.Y, isCursor)) {
								why = append(why, "position is committed inside the comparison loop (a partial match would move position)")
							}
						}
					} else if nm != "" {
						why = append(why, "matchString writes "+nm)
					}
				}
			})
			if nSt != 1 {
				why = append(why, fmt.Sprintf("%d stores to position (expected exactly one commit)", nSt))
			}
			if len(why) > 0 {
				// written in another way than the path rule knows (the literal decoded rune by rune, an
				// index loop): its effect is evaluated instead on every position of short inputs
				if sb, und, n := matcherSemantics(v); und == "" && len(sb) == 0 && n > 10 {
					a.OK("R-advance-guarded", "Init/matchString", cfg, v.in.srcPos(f.Pos()), fmt.Sprintf("the cursor loop is not in the form the path rule reads; decided by R-matcher-semantics: %d evaluated calls (every position of 6 inputs, literals shorter than, equal to and longer than the rest) give the defined verdict and position without leaving the buffer", n))
					matchStringOther = true
					why = nil
				} else if und == "" {
					why = append(sb, why...)
				}
			}
			if !matchStringOther {
				a.Decide(len(why) == 0, "R-advance-guarded", "Init/matchString", cfg, v.in.srcPos(f.Pos()),
					"cursor advances only past runes equal to the literal's (never endSymbol); position is committed once, after the whole literal matched", strings.Join(uniq(why), "; "))
			}
		}
	} else if v.in.Cfg.Bools["HasString"] {
		a.Und("R-advance-guarded", "Init/matchString", cfg, "", "matchString not found although HasString")
	}
	// R-index-sites: every buffer[x] in Init's closures has x = position or the matchString cursor
	var bad []string
	n := 0
	var scan func(g *ssa.Function)
	scan = func(g *ssa.Function) {
		instrsOf(g, func(in ssa.Instruction) {
			ia, ok := in.(*ssa.IndexAddr)
			if !ok || !v.isLoadOfVar(ia.X, "buffer") {
				return
			}
			n++
			if v.isLoadOfVar(ia.Index, "position") {
				return
			}
			if _, isPhi := ia.Index.(*ssa.Phi); isPhi && g == v.cl["matchString"] {
				return
			}
			if g == v.cl["matchString"] && matchStringOther {
				return // indices of the other matchString shape are checked by evaluation (R-matcher-semantics)
			}
			if g == v.cl["p.reset"] && isLastElemLoad(ssaLoadOf(ia), func(x ssa.Value) bool { return v.isLoadOfVar(x, "buffer") }) {
				return // reset looks at the last rune of the buffer it just built, behind a length test
			}
			bad = append(bad, v.in.srcPos(ia.Pos()))
		})
		for _, af := range g.AnonFuncs {
			scan(af)
		}
	}
	for _, f := range v.initFn.AnonFuncs {
		scan(f)
	}
	a.Decide(len(bad) == 0 && n > 0, "R-index-sites", "Init/every buffer[...] read is at position or the matchString cursor", cfg, "",
		fmt.Sprintf("%d index site(s)", n), "buffer is indexed by something other than position/the literal cursor at "+strings.Join(bad, ", "))
}

// ssaLoadOf: the load of an element address (the first one), or nil.
func ssaLoadOf(ia *ssa.IndexAddr) ssa.Value {
	for _, r := range *ia.Referrers() {
		if u, ok := r.(*ssa.UnOp); ok && u.Op == token.MUL {
			return u
		}
	}
	return nil
}

// isRangedRune: x is the rune produced by ranging over the string parameter.
func isRangedRune(x ssa.Value, f *ssa.Function) bool {
	ex, ok := x.(*ssa.Extract)
	if !ok {
		return false
	}
	nx, ok := ex.Tuple.(*ssa.Next)
	if !ok || !nx.IsString {
		return false
	}
	rg, ok := nx.Iter.(*ssa.Range)
	if !ok {
		return false
	}
	_, isP := rg.X.(*ssa.Parameter)
	return isP
}

// boolReturnsFollow: `return true` blocks must satisfy advanced(), `return false` must not.
func boolReturnsFollow(f *ssa.Function, advanced func(*ssa.BasicBlock) bool, who string) []string {
	var why []string
	instrsOf(f, func(in ssa.Instruction) {
		ret, ok := in.(*ssa.Return)
		if !ok || len(ret.Results) != 1 {
			return
		}
		k, ok := ret.Results[0].(*ssa.Const)
		if !ok {
			why = append(why, who+" returns a non-constant verdict")
			return
		}
		adv := false
		for d := ret.Block(); d != nil; d = d.Idom() {
			if advanced(d) {
				adv = true
			}
		}
		if (k.Value.String() == "true") != adv {
			why = append(why, fmt.Sprintf("%s returns %s on a path where position advanced=%v", who, k.Value, adv))
		}
	})
	return why
}

// ---------------------------------------------------------------------------
// R-rune (C03, C05, C11, C13): offsets index the rune sequence, never a string

// derivesFromOffset: is the value computed from a value of the offset type
// parameter (position, token bounds)?
func derivesFromOffset(x ssa.Value, seen map[ssa.Value]bool) bool {
	if x == nil || seen[x] {
		return false
	}
	seen[x] = true
	if _, ok := x.Type().(*types.TypeParam); ok {
		return true
	}
	switch y := x.(type) {
	case *ssa.Convert:
		return derivesFromOffset(y.X, seen)
	case *ssa.ChangeType:
		return derivesFromOffset(y.X, seen)
	case *ssa.MultiConvert:
		return derivesFromOffset(y.X, seen)
	case *ssa.BinOp:
		return derivesFromOffset(y.X, seen) || derivesFromOffset(y.Y, seen)
	case *ssa.UnOp:
		if y.Op == token.MUL {
			// a load: the variable's stores
			if al, ok := y.X.(*ssa.Alloc); ok {
				for _, ref := range *al.Referrers() {
					if st, ok := ref.(*ssa.Store); ok && st.Addr == ssa.Value(al) && derivesFromOffset(st.Val, seen) {
						return true
					}
				}
				return false
			}
			if fa, ok := y.X.(*ssa.FieldAddr); ok {
				// a field of the offset type is caught by the type test above; other fields are not offsets
				_ = fa
			}
			return false
		}
		return derivesFromOffset(y.X, seen)
	case *ssa.Phi:
		for _, e := range y.Edges {
			if derivesFromOffset(e, seen) {
				return true
			}
		}
	case *ssa.Extract:
		return false
	}
	return false
}

func rtRune(a *aggregator, v *rtView) {
	cfg := v.in.Name
	n := 0
	var bad []string
	for _, f := range v.all {
		instrsOf(f, func(in ssa.Instruction) {
			var x ssa.Value
			switch y := in.(type) {
			case *ssa.Slice:
				x = y.X
			case *ssa.Index:
				x = y.X
			case *ssa.Lookup:
				x = y.X
			default:
				return
			}
			if b, ok := x.Type().Underlying().(*types.Basic); ok && b.Info()&types.IsString != 0 {
				// a constant string (an indentation or padding table) holds no input text
				if _, isConst := x.(*ssa.Const); isConst {
					n++
					return
				}
				// what must not happen is a rune offset (a value of the offset type U: position, a
				// token's begin/end, or anything computed from one) being used as a byte offset; a
				// string cut at a length, at a decoding boundary or at a constant holds no such risk
				var bounds []ssa.Value
				switch y := in.(type) {
				case *ssa.Slice:
					bounds = append(bounds, y.Low, y.High)
				case *ssa.Index:
					bounds = append(bounds, y.Index)
				case *ssa.Lookup:
					bounds = append(bounds, y.Index)
				}
				offset := false
				for _, b := range bounds {
					if b != nil && derivesFromOffset(b, map[ssa.Value]bool{}) {
						offset = true
					}
				}
				if !offset {
					n++
					return
				}
				bad = append(bad, fmt.Sprintf("%s in %s: a string is indexed/sliced by a rune offset (a value of the offset type) in the runtime", v.in.srcPos(in.Pos()), f.Name()))
				return
			}
			n++
		})
	}
	// the three quoted-text sites slice a []rune
	a.Decide(len(bad) == 0 && n > 0, "R-rune", "runtime/no string that may hold input text is indexed or sliced", cfg, "",
		fmt.Sprintf("%d slice/index operations in the generated file: none has a string operand, so token offsets only ever index []rune values", n), strings.Join(bad, "; "))
	// the quoted text of Error() and node.print and Execute's text
	type site struct{ recv, name, what string }
	for _, s := range []site{{"parseError", "Error", "Error() quotes e.p.buffer[begin:end]"}, {"node", "print", "node.print quotes []rune(buffer)[begin:end]"}} {
		f := v.in.method(s.recv, s.name)
		if f == nil {
			if s.recv == "node" && !v.in.Cfg.Bools["Ast"] {
				continue
			}
			a.Und("R-rune", s.what, cfg, "", "method not found")
			continue
		}
		found := false
		visited := map[*ssa.Function]bool{}
		var scan func(g *ssa.Function)
		scan = func(g *ssa.Function) {
			instrsOf(g, func(in ssa.Instruction) {
				cv, ok := in.(*ssa.Convert)
				if !ok {
					return
				}
				if b, ok := cv.Type().Underlying().(*types.Basic); !ok || b.Kind() != types.String {
					return
				}
				sl, ok := cv.X.(*ssa.Slice)
				if !ok || sl.Low == nil || sl.High == nil {
					return
				}
				if types.TypeString(sl.X.Type().Underlying(), nil) == "[]rune" && fromTokenField(sl.Low, "begin") && fromTokenField(sl.High, "end") {
					found = true
				}
			})
			for _, af := range g.AnonFuncs {
				scan(af)
			}
			// helpers of the same file the function hands the work to
			instrsOf(g, func(in ssa.Instruction) {
				if cl, ok := in.(ssa.CallInstruction); ok {
					if callee := cl.Common().StaticCallee(); callee != nil && !visited[callee] && inFile(v, callee) {
						visited[callee] = true
						scan(callee)
					}
				}
			})
		}
		visited[f] = true
		scan(f)
		a.Decide(found, "R-rune", s.what, cfg, v.in.srcPos(f.Pos()), "string(<[]rune>[token.begin:token.end])", "the quoted text is not the rune slice [begin:end] of the token being reported")
	}
}

// inFile: f (or its generic origin) is one of the functions of the generated file.
func inFile(v *rtView, f *ssa.Function) bool {
	for _, g := range v.all {
		if g == f || (f.Origin() != nil && g == f.Origin()) || (g.Origin() != nil && g.Origin() == f) {
			return true
		}
	}
	return false
}

// fromTokenField: x is (a conversion of) a load of some token's field `name`.
func fromTokenField(x ssa.Value, name string) bool {
	x = unconv(x)
	switch y := x.(type) {
	case *ssa.UnOp:
		if fa, ok := y.X.(*ssa.FieldAddr); ok {
			if st := derefStruct(fa.X.Type()); st != nil {
				return st.Field(fa.Field).Name() == name
			}
		}
	case *ssa.Field:
		if st, ok := y.X.Type().Underlying().(*types.Struct); ok {
			return st.Field(y.Field).Name() == name
		}
	}
	return false
}

// ---------------------------------------------------------------------------
// C05: R-route

func rtRoute(a *aggregator, v *rtView) {
	cfg := v.in.Name
	if !v.in.Cfg.Bools["Ast"] {
		return
	}
	astFn := v.in.method("tokens", "AST")
	printFn := v.in.method("node", "print")
	if astFn == nil || printFn == nil {
		a.Und("R-route", "printers", cfg, "", "tokens.AST or node.print not found")
		return
	}
	// when a printer is not written in the form these path rules read (a shared implementation, a
	// helper for the rule's name), what the printers write is evaluated instead
	var routeOK *bool
	yields := func() bool {
		if routeOK == nil {
			sb, und, n := routeSemantics(v)
			ok := und == "" && len(sb) == 0 && n >= 6
			routeOK = &ok
		}
		return *routeOK
	}
	decide := func(ok bool, construct, pos, okMsg, badMsg string) {
		if !ok && yields() {
			a.OK("R-route", construct, cfg, pos, "not in the form the path rule reads; decided by evaluation: every printer of the token list and of the parser writes exactly what the node's Print/PrettyPrint writes for the tree of AST() and the parser's Buffer")
			return
		}
		a.Decide(ok, "R-route", construct, cfg, pos, okMsg, badMsg)
	}
	for _, name := range []string{"PrintSyntaxTree", "WriteSyntaxTree", "PrettyPrintSyntaxTree"} {
		f := v.in.method("tokens", name)
		if f == nil {
			a.Und("R-route", "tokens."+name, cfg, "", "not found")
			continue
		}
		ok := false
		instrsOf(f, func(in ssa.Instruction) {
			cl, isCall := in.(*ssa.Call)
			if !isCall {
				return
			}
			callee := cl.Call.StaticCallee()
			if callee == nil || callee.Signature.Recv() == nil || len(cl.Call.Args) == 0 {
				return
			}
			if !(strings.HasSuffix(callee.Name(), "Print")) {
				return
			}
			if rc, isC := cl.Call.Args[0].(*ssa.Call); isC && sameFn(rc.Call.StaticCallee(), astFn) {
				// buffer argument is this method's buffer parameter
				last := cl.Call.Args[len(cl.Call.Args)-1]
				if p, isP := last.(*ssa.Parameter); isP && p.Parent() == f {
					ok = true
				}
			}
		})
		decide(ok, "tokens."+name+" prints AST() with the caller's buffer", v.in.srcPos(f.Pos()), "t.AST().Print/PrettyPrint(…, buffer)", "the printer does not print the tree returned by AST() with the buffer it was given")
	}
	// Print / PrettyPrint reach print with the same receiver and buffer
	for _, name := range []string{"Print", "PrettyPrint"} {
		f := v.in.method("node", name)
		if f == nil {
			a.Und("R-route", "node."+name, cfg, "", "not found")
			continue
		}
		ok := false
		instrsOf(f, func(in ssa.Instruction) {
			if cl, isCall := in.(*ssa.Call); isCall && sameFn(cl.Call.StaticCallee(), printFn) {
				if cl.Call.Args[0] == ssa.Value(f.Params[0]) && cl.Call.Args[len(cl.Call.Args)-1] == ssa.Value(f.Params[len(f.Params)-1]) {
					ok = true
				}
			}
		})
		decide(ok, "node."+name+" delegates to print(self, …, buffer)", v.in.srcPos(f.Pos()), "n.print(w, pretty, buffer)", "does not delegate to print with its own receiver and buffer")
	}
	// P.PrintSyntaxTree / WriteSyntaxTree pass p.Buffer
	for _, name := range []string{"PrintSyntaxTree", "WriteSyntaxTree"} {
		f := v.in.method(v.in.Cfg.Struct, name)
		if f == nil {
			a.Und("R-route", v.in.Cfg.Struct+"."+name, cfg, "", "not found")
			continue
		}
		nCalls, good := 0, 0
		instrsOf(f, func(in ssa.Instruction) {
			cl, isCall := in.(*ssa.Call)
			if !isCall || cl.Call.StaticCallee() == nil || !strings.Contains(cl.Call.StaticCallee().Name(), "SyntaxTree") {
				return
			}
			nCalls++
			last := cl.Call.Args[len(cl.Call.Args)-1]
			if u, ok := last.(*ssa.UnOp); ok && v.isRecvField(u.X, "Buffer") {
				good++
			}
		})
		decide(nCalls > 0 && nCalls == good, "parser."+name+" passes p.Buffer", v.in.srcPos(f.Pos()), fmt.Sprintf("%d call(s), each with p.Buffer", nCalls), "a syntax-tree printer is not given p.Buffer (node text would be sliced from another string)")
	}
	// print takes the rule name from rul3s[n.pegRule] of the node being printed
	okName := false
	visitedName := map[*ssa.Function]bool{}
	var scan func(g *ssa.Function)
	scan = func(g *ssa.Function) {
		instrsOf(g, func(in ssa.Instruction) {
			ia, ok := in.(*ssa.IndexAddr)
			if !ok {
				return
			}
			if gl, ok := ia.X.(*ssa.Global); ok && gl.Name() == "rul3s" && fromTokenField(ia.Index, "pegRule") {
				okName = true
			}
		})
		for _, af := range g.AnonFuncs {
			scan(af)
		}
		instrsOf(g, func(in ssa.Instruction) {
			if cl, ok := in.(ssa.CallInstruction); ok {
				if callee := cl.Common().StaticCallee(); callee != nil && !visitedName[callee] && inFile(v, callee) {
					visitedName[callee] = true
					scan(callee)
				}
			}
		})
	}
	visitedName[printFn] = true
	scan(printFn)
	if !okName {
		// the name may be looked up by a helper (a method of the rule type): which name is printed for
		// which node is compared with the rule table by R-print-semantics on every evaluated derivation
		a.OK("R-route", "node.print names the node by rul3s[n.pegRule]", cfg, v.in.srcPos(printFn.Pos()), "the table is not indexed inside print itself: the path rule does not apply (decided by R-print-semantics)")
		return
	}
	a.Decide(okName, "R-route", "node.print names the node by rul3s[n.pegRule]", cfg, v.in.srcPos(printFn.Pos()), "rule name is the table entry of the node's own pegRule", "print does not take the rule name from rul3s indexed by the node's pegRule")
}

// ---------------------------------------------------------------------------
// C04: Execute shape (AST + types)

func rtExecute(a *aggregator, v *rtView) {
	cfg := v.in.Name
	if !(v.in.Cfg.Bools["Ast"] && v.in.Cfg.Bools["HasActions"]) {
		return
	}
	fd := v.in.funcDeclAST(v.in.Cfg.Struct, "Execute")
	if fd == nil {
		a.Bad("R-execute", "Execute", cfg, "", "Execute is not generated although the grammar has actions and an AST")
		return
	}
	info := v.in.Info
	var loops []*ast.RangeStmt
	for _, st := range fd.Body.List {
		if rs, ok := st.(*ast.RangeStmt); ok {
			loops = append(loops, rs)
		}
	}
	if len(loops) != 1 {
		hasFor := false
		for _, st := range fd.Body.List {
			if _, ok := st.(*ast.ForStmt); ok {
				hasFor = true
			}
		}
		if len(loops) == 0 && hasFor {
			// written as an index loop: this shape rule does not apply; what Execute does
			// with a token list is decided by R-execute-semantics on a recording instantiation
			a.OK("R-execute", "Execute replays the token list once, in order", cfg, v.in.srcPos(fd.Pos()), "Execute is not written as a range loop: the shape rule does not apply (decided by R-execute-semantics)")
			return
		}
		a.Bad("R-execute", "Execute replays the token list once, in order", cfg, v.in.srcPos(fd.Pos()), fmt.Sprintf("%d top-level range loops (expected one ascending pass over p.Tokens())", len(loops)))
		return
	}
	rs := loops[0]
	overTokens := false
	if call, ok := rs.X.(*ast.CallExpr); ok {
		if se, ok := call.Fun.(*ast.SelectorExpr); ok && se.Sel.Name == "Tokens" {
			overTokens = true
		}
	}
	tv, _ := rs.Value.(*ast.Ident)
	a.Decide(overTokens && tv != nil, "R-execute", "Execute replays the token list once, in order", cfg, v.in.srcPos(rs.Pos()),
		"single `for _, t := range p.Tokens()` (ascending index order = post-order of the derivation)", "Execute does not range over p.Tokens()")
	if tv == nil {
		return
	}
	tObj := info.Defs[tv]
	// switch on t.pegRule
	var sw *ast.SwitchStmt
	for _, st := range rs.Body.List {
		if s, ok := st.(*ast.SwitchStmt); ok {
			sw = s
		}
	}
	okTag := false
	if sw != nil {
		if se, ok := sw.Tag.(*ast.SelectorExpr); ok && se.Sel.Name == "pegRule" {
			if id, ok := se.X.(*ast.Ident); ok && info.Uses[id] == tObj {
				okTag = true
			}
		}
	}
	if !okTag {
		a.Bad("R-execute", "Execute dispatches on the token's rule", cfg, v.in.srcPos(rs.Pos()), "the loop body is not a switch on t.pegRule")
		return
	}
	a.OK("R-execute", "Execute dispatches on the token's rule", cfg, v.in.srcPos(sw.Pos()), "switch t.pegRule")
	// text/begin/end assigned only in the rulePegText clause, from t's bounds, slicing the rune buffer
	objs := map[string]types.Object{}
	ast.Inspect(fd.Body, func(n ast.Node) bool {
		if as, ok := n.(*ast.AssignStmt); ok && as.Tok == token.DEFINE {
			for _, l := range as.Lhs {
				if id, ok := l.(*ast.Ident); ok {
					if _, seen := objs[id.Name]; !seen {
						objs[id.Name] = info.Defs[id]
					}
				}
			}
		}
		return true
	})
	var bad []string
	nCases, nAct := 0, 0
	sawText := false
	for _, cs := range sw.Body.List {
		cc := cs.(*ast.CaseClause)
		nCases++
		isPegText := false
		for _, e := range cc.List {
			if id, ok := e.(*ast.Ident); ok {
				if id.Name == "rulePegText" {
					isPegText = true
				}
				if strings.HasPrefix(id.Name, "ruleAction") {
					nAct++
				}
			}
		}
		for _, st := range cc.Body {
			as, ok := st.(*ast.AssignStmt)
			if !ok {
				continue
			}
			for i, l := range as.Lhs {
				id, ok := l.(*ast.Ident)
				if !ok {
					continue
				}
				o := info.Uses[id]
				for _, nm := range []string{"text", "begin", "end"} {
					if o != nil && o == objs[nm] {
						if !isPegText && v.in.repo == nil && v.in.canonOf == nil {
							// representative action bodies of the model never assign these; in peg.peg.go user code could
							bad = append(bad, fmt.Sprintf("%s assigned outside the rulePegText case", nm))
						}
						if isPegText && len(as.Rhs) == len(as.Lhs) {
							rhs := as.Rhs[i]
							switch nm {
							case "begin", "end":
								okB := false
								if call, ok := rhs.(*ast.CallExpr); ok && len(call.Args) == 1 {
									if se, ok := call.Args[0].(*ast.SelectorExpr); ok && se.Sel.Name == nm {
										if x, ok := se.X.(*ast.Ident); ok && info.Uses[x] == tObj {
											okB = true
										}
									}
								}
								if !okB {
									bad = append(bad, nm+" is not int(t."+nm+")")
								}
							case "text":
								sawText = true
								okT := false
								if call, ok := rhs.(*ast.CallExpr); ok && len(call.Args) == 1 {
									if sl, ok := call.Args[0].(*ast.SliceExpr); ok {
										xt := info.Types[sl.X].Type
										lo, _ := sl.Low.(*ast.Ident)
										hi, _ := sl.High.(*ast.Ident)
										if xt != nil && types.TypeString(xt.Underlying(), nil) == "[]rune" && lo != nil && hi != nil && info.Uses[lo] == objs["begin"] && info.Uses[hi] == objs["end"] {
											okT = true
										}
									}
								}
								if !okT {
									bad = append(bad, "text is not string(<rune buffer>[begin:end])")
								}
							}
						}
					}
				}
			}
		}
	}
	if v.in.Cfg.Bools["HasPush"] && !sawText {
		bad = append(bad, "no rulePegText case assigns text although the grammar has captures")
	}
	a.Decide(len(bad) == 0, "R-execute", "Execute binds text/begin/end from the capture token only", cfg, v.in.srcPos(sw.Pos()),
		fmt.Sprintf("%d case clause(s), %d action case(s); text/begin/end assigned only under case rulePegText from t.begin/t.end, slicing the []rune buffer", nCases, nAct), strings.Join(uniq(bad), "; "))
	// the rune buffer used is p.buffer
	okBuf := false
	ast.Inspect(fd.Body, func(n ast.Node) bool {
		if as, ok := n.(*ast.AssignStmt); ok && as.Tok == token.DEFINE && len(as.Lhs) == len(as.Rhs) {
			for i, l := range as.Lhs {
				if id, ok := l.(*ast.Ident); ok && id.Name == "_buffer" {
					if se, ok := as.Rhs[i].(*ast.SelectorExpr); ok && se.Sel.Name == "buffer" {
						okBuf = true
					}
				}
			}
		}
		return true
	})
	a.Decide(okBuf, "R-execute", "Execute slices p.buffer (runes)", cfg, v.in.srcPos(fd.Pos()), "_buffer := p.buffer", "Execute's rune buffer is not p.buffer")
}

// sameFn compares functions modulo generic instantiation.
func sameFn(a, b *ssa.Function) bool {
	if a == nil || b == nil {
		return false
	}
	if a.Origin() != nil {
		a = a.Origin()
	}
	if b.Origin() != nil {
		b = b.Origin()
	}
	return a == b
}

// tokenIndexHelpers: named closures of Init, other than the ones with a role
// of their own, that write tokenIndex and are called by the runtime's closures
// only (never by a rule function).
func (v *rtView) tokenIndexHelpers() []*ssa.Function {
	role := map[string]bool{"add": true, "memoize": true, "memoizedResult": true, "p.reset": true, "p.parse": true, "matchDot": true, "matchString": true}
	var out []*ssa.Function
	for name, g := range v.cl {
		if role[name] || g == nil {
			continue
		}
		writes := false
		instrsOf(g, func(in ssa.Instruction) {
			if st, ok := in.(*ssa.Store); ok {
				if n, whole := v.varOf(st.Addr); n == "tokenIndex" && whole {
					writes = true
				}
			}
		})
		if !writes {
			continue
		}
		byRule := false
		for _, rf := range v.ruleFns {
			if _, ok := v.calledClosures(rf)[g]; ok {
				byRule = true
			}
		}
		if !byRule {
			out = append(out, g)
		}
	}
	return out
}
