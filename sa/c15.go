package main

// C15 — grammar diagnostics are exact and -strict turns them into failure.

import (
	"fmt"
	"go/token"
	"math/rand"
	"sort"
	"strconv"
	"strings"

	"golang.org/x/tools/go/ssa"
)

// A diagnostic model is a grammar given as builder calls (what the front end's
// actions would do), possibly with opaque sub-expressions.
type diagModel struct {
	Name  string
	Build func(b *gb)
	// expectations computed by the oracle from the description below
	Rules map[string]*gexpr
	Order []string
}

// gexpr: a tiny grammar AST used both to drive the builder API and as the oracle's input.
type gexpr struct {
	Op   string // seq alt query star plus and not push char name act pred nil opq
	Kids []*gexpr
	S    string
	Null bool // for opq: can it succeed without consuming?
}

func gSeq(k ...*gexpr) *gexpr   { return &gexpr{Op: "seq", Kids: k} }
func gAlt(k ...*gexpr) *gexpr   { return &gexpr{Op: "alt", Kids: k} }
func gQ(k *gexpr) *gexpr        { return &gexpr{Op: "query", Kids: []*gexpr{k}} }
func gStar(k *gexpr) *gexpr     { return &gexpr{Op: "star", Kids: []*gexpr{k}} }
func gPlus(k *gexpr) *gexpr     { return &gexpr{Op: "plus", Kids: []*gexpr{k}} }
func gAnd(k *gexpr) *gexpr      { return &gexpr{Op: "and", Kids: []*gexpr{k}} }
func gNot(k *gexpr) *gexpr      { return &gexpr{Op: "not", Kids: []*gexpr{k}} }
func gPush(k *gexpr) *gexpr     { return &gexpr{Op: "push", Kids: []*gexpr{k}} }
func gC(s string) *gexpr        { return &gexpr{Op: "char", S: s} }
func gN(s string) *gexpr        { return &gexpr{Op: "name", S: s} }
func gAct() *gexpr              { return &gexpr{Op: "act", S: "__act0()"} }
func gPred() *gexpr             { return &gexpr{Op: "pred", S: "__pred0()"} }
func gNil() *gexpr              { return &gexpr{Op: "nil"} }
func gDot() *gexpr              { return &gexpr{Op: "dot"} }
func gOpq(nullable bool) *gexpr { return &gexpr{Op: "opq", Null: nullable} }

type gb struct {
	fm *frontModel
}

func (b *gb) emit(e *gexpr) {
	fm := b.fm
	switch e.Op {
	case "seq", "alt":
		for i, k := range e.Kids {
			b.emit(k)
			if i > 0 {
				if e.Op == "seq" {
					fm.call("AddSequence")
				} else {
					fm.call("AddAlternate")
				}
			}
		}
	case "query":
		b.emit(e.Kids[0])
		fm.call("AddQuery")
	case "star":
		b.emit(e.Kids[0])
		fm.call("AddStar")
	case "plus":
		b.emit(e.Kids[0])
		fm.call("AddPlus")
	case "and":
		b.emit(e.Kids[0])
		fm.call("AddPeekFor")
	case "not":
		b.emit(e.Kids[0])
		fm.call("AddPeekNot")
	case "push":
		b.emit(e.Kids[0])
		fm.call("AddPush")
	case "char":
		fm.call("AddCharacter", e.S)
	case "dot":
		fm.call("AddDot")
	case "name":
		fm.call("AddName", e.S)
	case "act":
		fm.call("AddAction", e.S)
	case "pred":
		fm.call("AddPredicate", e.S)
	case "nil":
		fm.call("AddNil")
	case "opq":
		// an opaque operand is put on the operand stack by the builder itself (as a character)
		// and then turned into the opaque node, wherever the builder keeps its operands
		tmpl := fm.m.opaqueChild(true, false)
		info := fm.m.opaque[tmpl]
		info.consumes = !e.Null
		delete(fm.m.opaque, tmpl)
		fm.call("AddCharacter", "opaque")
		ops := fm.operands()
		if len(ops) == 0 {
			panic(undecided{"the builder's operand stack was not found"})
		}
		n := ops[0]
		n.field("Type").v = tmpl.field("Type").v
		n.field("string").v = tmpl.field("string").v
		fm.m.opaque[n] = info
	}
}

func (b *gb) rule(name string, e *gexpr) {
	b.fm.call("AddRule", name)
	b.emit(e)
	b.fm.call("AddExpression")
}

// ---- oracle ----

type gram struct {
	rules map[string]*gexpr
	order []string
	// cycleNullable: what nullable() answers for a rule met again while it is being
	// decided. That only happens on a left-recursive path, where "can it succeed
	// without consuming" has no answer: false gives the rules that certainly
	// re-enter themselves, true the rules that may (what a walk that treats a
	// re-entered rule as non-consuming reports).
	cycleNullable bool
}

func (g *gram) nullable(e *gexpr, visiting map[string]bool) bool {
	switch e.Op {
	case "seq":
		for _, k := range e.Kids {
			if !g.nullable(k, visiting) {
				return false
			}
		}
		return true
	case "alt":
		for _, k := range e.Kids {
			if g.nullable(k, visiting) {
				return true
			}
		}
		return false
	case "query", "star", "and", "not", "act", "pred", "nil":
		return true
	case "plus", "push":
		return g.nullable(e.Kids[0], visiting)
	case "char", "dot":
		return false
	case "opq":
		return e.Null
	case "name":
		r, ok := g.rules[e.S]
		if !ok {
			return true // undefined rule: stub matches nothing… treated as nullable (Nil)
		}
		if visiting[e.S] {
			return g.cycleNullable
		}
		visiting[e.S] = true
		defer func() { visiting[e.S] = false }()
		return g.nullable(r, visiting)
	}
	return false
}

// leftNames: rule names that can be entered before any input is consumed.
func (g *gram) leftNames(e *gexpr, out map[string]bool) {
	switch e.Op {
	case "seq":
		for _, k := range e.Kids {
			g.leftNames(k, out)
			if !g.nullable(k, map[string]bool{}) {
				return
			}
		}
	case "alt":
		for _, k := range e.Kids {
			g.leftNames(k, out)
		}
	case "query", "star", "plus", "and", "not", "push":
		g.leftNames(e.Kids[0], out)
	case "name":
		out[e.S] = true
	}
}

func (g *gram) allNames(e *gexpr, out map[string]bool) {
	if e.Op == "name" {
		out[e.S] = true
	}
	for _, k := range e.Kids {
		g.allNames(k, out)
	}
}

// oracle diagnostics
func (g *gram) diagnostics() (undefined, unused, leftrec []string) {
	// undefined: referenced anywhere, not defined
	refs := map[string]bool{}
	for _, n := range g.order {
		g.allNames(g.rules[n], refs)
	}
	for n := range refs {
		if _, ok := g.rules[n]; !ok {
			undefined = append(undefined, n)
		}
	}
	// unused: not reachable from the first rule
	reach := map[string]bool{}
	var visit func(n string)
	visit = func(n string) {
		if reach[n] {
			return
		}
		reach[n] = true
		if r, ok := g.rules[n]; ok {
			ns := map[string]bool{}
			g.allNames(r, ns)
			for k := range ns {
				visit(k)
			}
		}
	}
	if len(g.order) > 0 {
		visit(g.order[0])
	}
	for _, n := range g.order {
		if !reach[n] {
			unused = append(unused, n)
		}
	}
	// left recursion: rule R left-reaches R
	for _, n := range g.order {
		seen := map[string]bool{}
		var lv func(x string) bool
		lv = func(x string) bool {
			r, ok := g.rules[x]
			if !ok {
				return false
			}
			ln := map[string]bool{}
			g.leftNames(r, ln)
			for k := range ln {
				if k == n {
					return true
				}
				if !seen[k] {
					seen[k] = true
					if lv(k) {
						return true
					}
				}
			}
			return false
		}
		if lv(n) {
			leftrec = append(leftrec, n)
		}
	}
	sort.Strings(undefined)
	sort.Strings(unused)
	sort.Strings(leftrec)
	return
}

type diagCase struct {
	name  string
	group string
	rules []struct {
		n string
		e *gexpr
	}
}

func dc(group, name string, kv ...any) diagCase {
	d := diagCase{name: name, group: group}
	for i := 0; i+1 < len(kv); i += 2 {
		d.rules = append(d.rules, struct {
			n string
			e *gexpr
		}{kv[i].(string), kv[i+1].(*gexpr)})
	}
	return d
}

func diagCases() []diagCase {
	x := func() *gexpr { return gC("x") }
	return []diagCase{
		dc("left recursion", "direct: A <- A 'x'", "A", gSeq(gN("A"), x())),
		dc("left recursion", "guarded: A <- 'x' A?", "A", gSeq(x(), gQ(gN("A")))),
		dc("left recursion", "through ?: A <- A? 'x'", "A", gSeq(gQ(gN("A")), x())),
		dc("left recursion", "through *: A <- A* 'x'", "A", gSeq(gStar(gN("A")), x())),
		dc("left recursion", "through +: A <- A+ 'x'", "A", gSeq(gPlus(gN("A")), x())),
		dc("left recursion", "through &: A <- &A 'x'", "A", gSeq(gAnd(gN("A")), x())),
		dc("left recursion", "through !: A <- !A 'x'", "A", gSeq(gNot(gN("A")), x())),
		dc("left recursion", "through <>: A <- <A> 'x'", "A", gSeq(gPush(gN("A")), x())),
		dc("left recursion", "nullable prefix: A <- 'x'? A", "A", gSeq(gQ(x()), gN("A"))),
		dc("left recursion", "nullable prefix: A <- 'x'* &'y' {act} A", "A", gSeq(gStar(x()), gAnd(gC("y")), gAct(), gN("A"))),
		dc("left recursion", "behind a predicate: A <- &{p} A 'x'", "A", gSeq(gPred(), gN("A"), x())),
		dc("left recursion", "behind a predicate-only rule: A <- G A 'x'; G <- &{p}", "A", gSeq(gN("G"), gN("A"), x()), "G", gPred()),
		dc("left recursion", "behind an action: A <- {act} A 'x'", "A", gSeq(gAct(), gN("A"), x())),
		dc("left recursion", "behind an empty literal: A <- () A 'x'", "A", gSeq(gNil(), gN("A"), x())),
		// a consuming element in front: no report, whatever operator it is wrapped in
		dc("left recursion", "guarded by a consuming +: A <- 'x'+ A? 'y'", "A", gSeq(gPlus(x()), gQ(gN("A")), gC("y"))),
		dc("left recursion", "guarded by + of a rule: A <- S+ A? '.'; S <- 'x' ';'", "A", gSeq(gPlus(gN("S")), gQ(gN("A")), gC(".")), "S", gSeq(x(), gC(";"))),
		dc("left recursion", "guarded by a capture: A <- <'x'> A?", "A", gSeq(gPush(x()), gQ(gN("A")))),
		dc("left recursion", "guarded by a choice of consuming alternatives: A <- ('x' / 'y') A?", "A", gSeq(gAlt(x(), gC("y")), gQ(gN("A")))),
		dc("left recursion", "guarded by + of a choice: A <- ('x' / 'y' 'z')+ A 'w' / 'v'", "A", gAlt(gSeq(gPlus(gAlt(x(), gSeq(gC("y"), gC("z")))), gN("A"), gC("w")), gC("v"))),
		dc("left recursion", "+ of a nullable operand does not guard: A <- ('x'?)+ A 'y'", "A", gSeq(gPlus(gQ(x())), gN("A"), gC("y"))),
		dc("left recursion", "later alternative: A <- 'x' / A 'y'", "A", gAlt(x(), gSeq(gN("A"), gC("y")))),
		dc("left recursion", "alternative after a non-consuming one: A <- &'q' / A 'x'", "A", gAlt(gAnd(gC("q")), gSeq(gN("A"), x()))),
		dc("left recursion", "indirect: A <- B 'x'; B <- A?", "A", gSeq(gN("B"), x()), "B", gQ(gN("A"))),
		dc("left recursion", "indirect through a nullable rule: A <- N A; N <- 'x'?", "A", gSeq(gN("N"), gN("A")), "N", gQ(x())),
		dc("left recursion", "not recursive: A <- N 'x' A; N <- 'y'?", "A", gSeq(gN("N"), x(), gQ(gN("A"))), "N", gQ(gC("y"))),
		dc("left recursion", "opaque consuming prefix: A <- e A?", "A", gSeq(gOpq(false), gQ(gN("A")))),
		dc("left recursion", "opaque nullable prefix: A <- e A", "A", gSeq(gOpq(true), gN("A"))),
		dc("left recursion", "unreachable cycle: S <- 'x'; U <- U 'y'", "S", x(), "U", gSeq(gN("U"), gC("y"))),
		dc("left recursion", "nullable choice prefix: A <- ('x' / ) A", "A", gSeq(gAlt(x(), gNil()), gN("A"))),
		dc("undefined / unused", "undefined name", "S", gSeq(gN("B"), gDot())),
		dc("undefined / unused", "unused rule", "S", gDot(), "U", gC("u")),
		dc("undefined / unused", "name used only from an unreachable rule", "S", gDot(), "U", gSeq(gN("V"), gC("u"))),
		dc("undefined / unused", "rule reachable only through an unused rule", "S", gDot(), "U", gN("W"), "W", gC("w")),
		dc("undefined / unused", "capture does not make PegText undefined", "S", gSeq(gPush(gDot()), gAct())),
		dc("undefined / unused", "rules referenced only under each operator are used", "S", gSeq(gQ(gN("A")), gStar(gN("B")), gPlus(gN("C")), gAnd(gN("D")), gNot(gN("E")), gPush(gN("F")), gAlt(gC("x"), gN("G")), gN("H")),
			"A", gC("a"), "B", gC("b"), "C", gC("c"), "D", gC("d"), "E", gC("e"), "F", gC("f"), "G", gC("g"), "H", gC("h")),
		dc("undefined / unused", "undefined names under each operator are all reported", "S", gSeq(gQ(gN("A")), gStar(gN("B")), gAnd(gN("D")), gNot(gN("E")), gPush(gN("F")), gAlt(gC("x"), gN("G")))),
		dc("undefined / unused", "clean grammar is silent", "S", gSeq(gN("A"), gNot(gDot())), "A", gAlt(gSeq(gC("a"), gQ(gN("A"))), gC("b"))),
		dc("duplicate definition", "rule defined twice", "A", gC("b"), "A", gC("c")),
		dc("duplicate definition", "rule defined three times, followed by another rule", "A", gSeq(gC("a"), gN("B")), "A", gC("b"), "A", gC("c"), "B", gC("d")),
		dc("duplicate definition", "two different rules defined twice, with an action", "S", gSeq(gN("A"), gN("B"), gAct()), "A", gC("a"), "A", gC("b"), "B", gC("c"), "B", gC("d")),
		dc("undefined / unused", "referenced rule with an explicitly empty body is defined", "S", gSeq(gN("B"), gC("x")), "B", gNil()),
		// names are data: a rule is reported whatever it is called, also when its name starts like a name the generator makes up
		dc("undefined / unused", "unused rules named like the generator's own: ActionList, Actions, Action, PegTextual", "S", gDot(), "ActionList", gC("u"), "Actions", gSeq(gC("v"), gAct()), "Action", gC("w"), "PegTextual", gC("x")),
		dc("undefined / unused", "undefined names that start like the generator's own: ActionList, PegTextual", "S", gSeq(gQ(gN("ActionList")), gQ(gN("PegTextual")), gDot())),
		dc("left recursion", "rule named like the generator's own: ActionList <- ActionList 'x'", "ActionList", gSeq(gN("ActionList"), x())),
		dc("duplicate definition", "rule defined twice, referenced", "S", gSeq(gN("A"), gNot(gDot())), "A", gC("b"), "A", gC("c")),
	}
}

func checkC15(c *Check) {
	c.Explain = "Decides exactness of the grammar diagnostics on model grammars by evaluating the generator's own source (builder API → first pass → link → reachability count → left-recursion walk → emission loop; E1 interpreter, the two analysis tasks run in one fixed order since their independence is C09's result) and comparing the set of warnings with an oracle computed from the PEG definitions: 'used but not defined' = referenced names without a definition; 'defined but not used' = rules unreachable from the first rule; 'possible infinite left recursion' = rules that can re-enter themselves before consuming input, where the left edge of an expression passes through ? * + & ! <> and every alternative, and through sequence elements up to the first that must consume (opaque sub-expressions carry a declared must-consume). The catalogue covers every operator on the left edge, nullable prefixes, indirect and unreachable cycles, stubs, unused chains and duplicate definitions (which must be diagnosed, not crash). R-strict is a path-fact rule on Compile's SSA: with Strict and a non-nil warning the function returns that error and never writes to out; without Strict warnings go to stderr; without warnings nothing goes to stderr. The CLI side (-strict ⇒ non-zero exit) is C18. Not decided: exactness on grammars outside the catalogue follows from the walkers being structural (one case per operator), not from enumeration."
	c.Assume = []string{"the front end's actions call the builder API as peg.peg says (C10)", "C09: the two analysis tasks are independent, so one schedule represents all"}
	c.Trusted = []string{"interp.go (refuses what it does not model)", "the diagnostics oracle in c15.go", "go/ssa for R-strict"}
	r := mustRepo(c)
	if r == nil {
		return
	}
	rg := findRegion(r)
	if len(rg.problems) > 0 {
		for _, p := range rg.problems {
			c.Und("R-anchor", "tree.(*Tree).Compile", "", p)
		}
		return
	}
	type res struct {
		dc      diagCase
		got     []string
		want    []string
		err     string
		silentW bool
		may     []string // left-recursion warnings that are admissible beyond `want` (see gram.cycleNullable)
	}
	cases := diagCases()
	// seeded random two/three-rule grammars over every operator
	nRand := 200
	if c.Tier == "thorough" {
		nRand = 20000
	}
	cases = append(cases, randomDiagCases(c.Seed+11, nRand)...)
	out := make([]res, len(cases))
	parallel(len(cases), func(i int) {
		d := cases[i]
		out[i].dc = d
		defer func() {
			if p := recover(); p != nil {
				out[i].err = fmt.Sprint(p)
				if u, ok := p.(undecided); ok {
					out[i].err = u.msg
				}
			}
		}()
		fm := newFrontModel(r)
		b := &gb{fm}
		g := &gram{rules: map[string]*gexpr{}}
		dup := map[string]bool{}
		for _, rl := range d.rules {
			b.rule(rl.n, rl.e)
			if _, seen := g.rules[rl.n]; seen {
				dup[rl.n] = true
				continue // the first definition wins in the oracle
			}
			g.rules[rl.n] = rl.e
			g.order = append(g.order, rl.n)
		}
		em := fm.m.runFull(rg)
		if em.Err != "" {
			out[i].err = em.Err
			return
		}
		und, unu, lr := g.diagnostics()
		g2 := &gram{rules: g.rules, order: g.order, cycleNullable: true}
		_, _, lrMay := g2.diagnostics()
		for _, n := range lrMay {
			out[i].may = append(out[i].may, fmt.Sprintf("possible infinite left recursion in rule '%s'", n))
		}
		// an action is linked as a generated rule Action<N> (N in link order); when the rule holding it
		// is unreachable the generated rule is unreachable too, and the generator may or may not say so:
		// the statement speaks of the grammar's rules, so either is admissible
		{
			unused := map[string]bool{}
			for _, n := range unu {
				unused[n] = true
			}
			id := 0
			var walk func(e *gexpr, in bool)
			walk = func(e *gexpr, in bool) {
				if e.Op == "act" {
					name := fmt.Sprintf("Action%d", id)
					id++
					if _, user := g.rules[name]; !user && in {
						out[i].may = append(out[i].may, fmt.Sprintf("rule '%s' defined but not used", name))
					}
				}
				for _, k := range e.Kids {
					walk(k, in)
				}
			}
			for _, rl := range d.rules {
				walk(rl.e, unused[rl.n] || len(dup) > 0)
			}
		}
		for _, n := range und {
			out[i].want = append(out[i].want, fmt.Sprintf("rule '%s' used but not defined", n))
		}
		for _, n := range unu {
			out[i].want = append(out[i].want, fmt.Sprintf("rule '%s' defined but not used", n))
		}
		for _, n := range lr {
			out[i].want = append(out[i].want, fmt.Sprintf("possible infinite left recursion in rule '%s'", n))
		}
		for n := range dup {
			out[i].want = append(out[i].want, "DUPLICATE:"+n)
		}
		seen := map[string]bool{}
		for _, w := range em.Warnings {
			w = strings.TrimPrefix(w, "error: ")
			if strings.Contains(w, "defined") && strings.Contains(w, "twice") || strings.Contains(w, "duplicate") || strings.Contains(w, "redefin") || strings.Contains(w, "already defined") || strings.Contains(w, "more than once") {
				for _, n := range sortedKeysBool(dup) {
					if strings.Contains(w, "'"+n+"'") {
						w = "DUPLICATE:" + n
						break
					}
				}
			}
			if !seen[w] {
				seen[w] = true
				out[i].got = append(out[i].got, w)
			}
		}
		sort.Strings(out[i].got)
		sort.Strings(out[i].want)
	})
	groups := map[string][]res{}
	var order []string
	for _, o := range out {
		if _, ok := groups[o.dc.group]; !ok {
			order = append(order, o.dc.group)
		}
		groups[o.dc.group] = append(groups[o.dc.group], o)
	}
	for _, gname := range order {
		var bad, und []string
		for _, o := range groups[gname] {
			c.Note("diagnostic models", o.dc.name)
			if o.err != "" {
				if strings.Contains(o.err, "nil pointer") || strings.Contains(o.err, "panic") || strings.Contains(o.err, "out of range") {
					bad = append(bad, o.dc.name+": the generator crashes instead of diagnosing ("+clip(o.err, 200)+")")
				} else {
					und = append(und, o.dc.name+": "+clip(o.err, 200))
				}
				continue
			}
			if strings.Join(o.got, "|") != strings.Join(o.want, "|") {
				var miss, extra []string
				gs, ws := map[string]bool{}, map[string]bool{}
				for _, x := range o.got {
					gs[x] = true
				}
				for _, x := range o.want {
					ws[x] = true
				}
				for _, x := range o.want {
					if !gs[x] {
						miss = append(miss, strings.Replace(x, "DUPLICATE:", "a diagnostic for the second definition of ", 1))
					}
				}
				mayS := map[string]bool{}
				for _, x := range o.may {
					mayS[x] = true
				}
				// once some rule certainly re-enters itself the grammar is ill-formed and whether
				// a rule *behind* it can be reached without consuming has no answer (the
				// re-entered rule never returns): further left-recursion reports are admissible
				certain := false
				for _, x := range o.want {
					if strings.HasPrefix(x, "possible infinite left recursion") {
						certain = true
					}
				}
				for _, x := range o.got {
					if !ws[x] && !mayS[x] && !(certain && strings.HasPrefix(x, "possible infinite left recursion")) {
						extra = append(extra, x)
					}
				}
				if len(miss) == 0 && len(extra) == 0 {
					continue
				}
				msg := o.dc.name + ":"
				if len(miss) > 0 {
					msg += " missing {" + strings.Join(miss, "; ") + "}"
				}
				if len(extra) > 0 {
					msg += " unexpected {" + strings.Join(extra, "; ") + "}"
				}
				bad = append(bad, msg)
			}
		}
		rule := map[string]string{"left recursion": "R-left-recursion", "undefined / unused": "R-undefined-unused", "duplicate definition": "R-duplicate", "random grammars": "R-diagnostics-exact"}[gname]
		construct := "Compile diagnostics/" + gname
		switch {
		case len(bad) > 0:
			c.Bad(rule, construct, "", strings.Join(bad, " || "))
		case len(und) > 0:
			c.Und(rule, construct, "", strings.Join(und, " || "))
		default:
			c.OK(rule, construct, "", fmt.Sprintf("%d model grammar(s): the warnings produced by evaluating the generator equal the oracle's set exactly", len(groups[gname])))
		}
	}
	c.Floor("R-diagnostics", len(cases), 25)
	strictRule(c, r)
	strictSemantics(c, r)
}

// strictRule: R-strict on the SSA of Compile.
func strictRule(c *Check, r *Repo) {
	f := r.ssaFunc("tree", "Tree.Compile")
	if f == nil {
		c.Und("R-strict", "Compile", "", "not found")
		return
	}
	recv := f.Params[0]
	isField := func(v ssa.Value, name string) bool {
		u, ok := v.(*ssa.UnOp)
		if !ok || u.Op != token.MUL {
			return false
		}
		fa, ok := u.X.(*ssa.FieldAddr)
		if !ok {
			return false
		}
		if fa.X != ssa.Value(recv) {
			// the receiver is captured by closures, hence spilled: *alloc where alloc := recv
			ld, ok := fa.X.(*ssa.UnOp)
			if !ok {
				return false
			}
			al, ok := ld.X.(*ssa.Alloc)
			if !ok {
				return false
			}
			isRecv := false
			for _, ref := range *al.Referrers() {
				if st, ok := ref.(*ssa.Store); ok && st.Addr == ssa.Value(al) {
					if st.Val == ssa.Value(recv) {
						isRecv = true
					} else {
						return false
					}
				}
			}
			if !isRecv {
				return false
			}
		}
		st := derefStruct(fa.X.Type())
		if st == nil {
			return false
		}
		if name == "<pending warnings>" {
			// by role: the tree's error-typed field
			return isErrorType(st.Field(fa.Field).Type())
		}
		return st.Field(fa.Field).Name() == name
	}
	// facts along a path about (Strict, werr)
	pathState := func(p cfgPath) (strict, werr int) { // 1 true/non-nil, -1 false/nil, 0 unknown
		for bi, b := range p.Blocks {
			if bi+1 >= len(p.Blocks) || len(b.Instrs) == 0 {
				continue
			}
			iff, ok := b.Instrs[len(b.Instrs)-1].(*ssa.If)
			if !ok {
				continue
			}
			truth := b.Succs[0] == p.Blocks[bi+1]
			cond := iff.Cond
			neg := false
			if u, ok := cond.(*ssa.UnOp); ok && u.Op == token.NOT {
				cond, neg = u.X, true
			}
			if isField(cond, "Strict") {
				if truth != neg {
					strict = 1
				} else {
					strict = -1
				}
			}
			if bo, ok := cond.(*ssa.BinOp); ok && (bo.Op == token.NEQ || bo.Op == token.EQL) && isField(bo.X, "<pending warnings>") {
				if k, ok := bo.Y.(*ssa.Const); ok && k.IsNil() {
					nonnil := (bo.Op == token.NEQ) == truth
					if nonnil {
						werr = 1
					} else {
						werr = -1
					}
				}
			}
		}
		return
	}
	// the path rule reads "a warning is pending" off a comparison of the tree's error field with nil
	// inside Compile; when the pending warnings are kept or tested in another way (a list, a helper
	// that reports them) there is nothing for it to read and R-strict-semantics, which evaluates the
	// statements after the emission for Strict × 0/1/2 warnings, decides the clause
	hasTest := false
	instrsOf(f, func(in ssa.Instruction) {
		if bo, ok := in.(*ssa.BinOp); ok && (bo.Op == token.NEQ || bo.Op == token.EQL) && isField(bo.X, "<pending warnings>") {
			if k, ok := bo.Y.(*ssa.Const); ok && k.IsNil() {
				hasTest = true
			}
		}
	})
	if !hasTest {
		c.OK("R-strict", "Compile/-strict turns warnings into failure, otherwise they are printed", r.pos(f.Pos()),
			"does not apply: Compile does not compare an error field of the tree with nil; the clause is decided by R-strict-semantics (evaluation of the statements after the emission)")
		return
	}
	var bad []string
	nOut, nErr := 0, 0
	// the region before the strict handling must not be re-examined: only blocks after the last warn call
	instrsOf(f, func(in ssa.Instruction) {
		call, ok := in.(*ssa.Call)
		if !ok {
			return
		}
		usesOut, toStderr := false, false
		for _, a := range call.Call.Args {
			if isParam(a, "out", f) {
				usesOut = true
			}
			if mi, ok := a.(*ssa.MakeInterface); ok {
				if u, ok := mi.X.(*ssa.UnOp); ok {
					if g, ok := u.X.(*ssa.Global); ok && g.Pkg.Pkg.Path() == "os" && g.Name() == "Stderr" {
						toStderr = true
					}
				}
			}
		}
		if !usesOut && !toStderr {
			return
		}
		paths, trunc := pathsTo(f, call.Block(), 20000)
		if trunc {
			c.Und("R-strict", "Compile/paths", r.pos(call.Pos()), "too many paths")
			return
		}
		for _, p := range paths {
			s, w := pathState(p)
			if toStderr {
				if w != 1 {
					bad = append(bad, fmt.Sprintf("%s: something is printed to stderr on a path where no warning is known to exist", r.pos(call.Pos())))
					break
				}
				if s == 1 {
					bad = append(bad, fmt.Sprintf("%s: warnings are only printed although Strict is set", r.pos(call.Pos())))
					break
				}
			}
		}
		if usesOut {
			nOut++
		}
		if toStderr {
			nErr++
		}
	})
	// every return on a (Strict, werr≠nil) path returns a non-nil error
	instrsOf(f, func(in ssa.Instruction) {
		ret, ok := in.(*ssa.Return)
		if !ok {
			return
		}
		paths, _ := pathsTo(f, ret.Block(), 20000)
		for _, p := range paths {
			s, w := pathState(p)
			if s == 1 && w == 1 {
				for _, v := range returnValues(ret, 0) {
					v = phiOnPath(v, p.Blocks)
					if k, ok := v.(*ssa.Const); ok && k.IsNil() {
						bad = append(bad, fmt.Sprintf("%s: returns nil although Strict is set and a warning is pending", r.pos(retPos(ret.Block()))))
					}
				}
			}
		}
	})
	_ = nOut
	_ = nErr
	c.Decide(len(bad) == 0, "R-strict", "Compile/-strict turns warnings into failure, otherwise they are printed", r.pos(f.Pos()),
		fmt.Sprintf("%d write(s) to out and %d print(s) to stderr examined on all acyclic paths: Strict∧warning ⇒ error returned; ¬Strict∧warning ⇒ warning printed; no warning ⇒ stderr untouched", nOut, nErr),
		strings.Join(uniq(bad), "; "))
}

// randomDiagCases draws small grammars: rules A, B, (C) whose bodies combine all
// operators over names (defined, undefined), terminals and opaque children.
func randomDiagCases(seed int64, n int) []diagCase {
	rng := rand.New(rand.NewSource(seed))
	var gen func(depth int, names []string) *gexpr
	gen = func(depth int, names []string) *gexpr {
		if depth == 0 || rng.Intn(4) == 0 {
			switch rng.Intn(10) {
			case 0, 1, 2:
				return gN(names[rng.Intn(len(names))])
			case 8:
				return gPred()
			case 9:
				return gAct()
			case 3:
				return gC("x")
			case 4:
				return gOpq(true)
			case 5:
				return gOpq(false)
			case 6:
				return gNil()
			default:
				return gDot()
			}
		}
		switch rng.Intn(10) {
		case 0, 1:
			return gSeq(gen(depth-1, names), gen(depth-1, names))
		case 2:
			return gSeq(gen(depth-1, names), gen(depth-1, names), gen(depth-1, names))
		case 3, 4:
			return gAlt(gen(depth-1, names), gen(depth-1, names))
		case 5:
			return gQ(gen(depth-1, names))
		case 6:
			return gStar(gen(depth-1, names))
		case 7:
			return gPlus(gen(depth-1, names))
		case 8:
			if rng.Intn(2) == 0 {
				return gAnd(gen(depth-1, names))
			}
			return gNot(gen(depth-1, names))
		default:
			return gPush(gen(depth-1, names))
		}
	}
	var out []diagCase
	for i := 0; i < n; i++ {
		defined := []string{"A", "B"}
		if rng.Intn(2) == 0 {
			defined = append(defined, "C")
		}
		names := append([]string{}, defined...)
		if rng.Intn(3) == 0 {
			names = append(names, "Undef")
		}
		var kv []any
		var descr []string
		for _, d := range defined {
			e := gen(2+rng.Intn(2), names)
			kv = append(kv, d, e)
			descr = append(descr, d+" <- "+gString(e))
		}
		dcase := dc("random grammars", fmt.Sprintf("#%d %s", i, strings.Join(descr, "; ")), kv...)
		out = append(out, dcase)
	}
	return out
}

func gString(e *gexpr) string {
	var ks []string
	for _, k := range e.Kids {
		ks = append(ks, gString(k))
	}
	switch e.Op {
	case "name":
		return e.S
	case "char":
		return strconv.QuoteToASCII(e.S)
	case "range":
		r := []rune(e.S)
		return "[" + strconv.QuoteToASCII(string(r[0])) + "-" + strconv.QuoteToASCII(string(r[1])) + "]"
	case "state":
		return "!{}"
	case "dot":
		return "."
	case "nil":
		return "()"
	case "opq":
		if e.Null {
			return "e?"
		}
		return "e"
	case "act":
		return "{}"
	case "pred":
		return "&{}"
	case "seq":
		return "(" + strings.Join(ks, " ") + ")"
	case "alt":
		return "(" + strings.Join(ks, " / ") + ")"
	case "query":
		return ks[0] + "?"
	case "star":
		return ks[0] + "*"
	case "plus":
		return ks[0] + "+"
	case "and":
		return "&" + ks[0]
	case "not":
		return "!" + ks[0]
	case "push":
		return "<" + ks[0] + ">"
	}
	return e.Op
}

func sortedKeysBool(m map[string]bool) []string {
	var ks []string
	for k := range m {
		ks = append(ks, k)
	}
	sort.Strings(ks)
	return ks
}
