package main

// C03 (token stream), C04 (actions), C13 (in-bounds invariant): the suite's
// token / flag components plus the runtime rules.

import (
	"fmt"
	"strings"
)

func projTokens(o outcome) string {
	if o.Kind == "memo" {
		return ""
	}
	var ev []string
	for _, e := range o.Hist {
		if strings.HasPrefix(e, "memo") {
			continue
		}
		ev = append(ev, e)
	}
	s := fmt.Sprintf("return %s with tokens %s (position %s) after [%s]", o.Kind, o.Tok, o.Pos, strings.Join(ev, " ; "))
	s = reLoop.ReplaceAllString(s, "loop")
	return rePD.ReplaceAllString(s, "$1")
}

func tokenSuite() []modelSpec {
	s := coreSuite()
	add := func(op, name string, b func(m *model) *Obj) {
		s = append(s, modelSpec{Op: op, Name: name, Build: func(m *model) int {
			m.addRule("S", b(m), 1)
			return 0
		}})
	}
	f := true
	add("backtracking", "action and capture inside an alternative that later fails", func(m *model) *Obj {
		return m.alt(m.seq(m.push(m.opaqueChild(f, false)), m.action("__act0()"), m.opaqueChild(f, false)), m.opaqueChild(f, false))
	})
	add("backtracking", "action inside a repetition whose last iteration is abandoned", func(m *model) *Obj {
		return m.star(m.seq(m.action("__act0()"), m.opaqueChild(f, false), m.push(m.opaqueChild(f, false))))
	})
	add("backtracking", "capture and action inside positive lookahead", func(m *model) *Obj {
		return m.seq(m.peekFor(m.seq(m.push(m.opaqueChild(f, false)), m.action("__act0()"))), m.opaqueChild(f, false))
	})
	add("backtracking", "capture and action inside negative lookahead", func(m *model) *Obj {
		return m.seq(m.peekNot(m.seq(m.push(m.opaqueChild(f, false)), m.action("__act0()"))), m.opaqueChild(f, false))
	})
	add("backtracking", "nested captures", func(m *model) *Obj {
		return m.push(m.seq(m.opaqueChild(f, false), m.push(m.opaqueChild(f, false)), m.action("__act0()")))
	})
	add("backtracking", "optional capture followed by an action", func(m *model) *Obj {
		return m.seq(m.query(m.push(m.opaqueChild(f, false))), m.action("__act0()"))
	})
	// actions next to concrete terminals: when an action is reached (and, with the AST, which
	// action tokens survive) must not depend on what kind of element follows or precedes it
	add("backtracking", "alternatives opening with an action before a terminal", func(m *model) *Obj {
		return m.alt(m.seq(m.action("__act0()"), m.char("a"), m.opaqueChild(f, false)), m.seq(m.action("__act1()"), m.opaqueChild(f, false)))
	})
	add("backtracking", "two leading actions before a class", func(m *model) *Obj {
		return m.seq(m.action("__act0()"), m.action("__act1()"), m.rng("a", "f"), m.opaqueChild(f, false))
	})
	add("backtracking", "repetition of an action before any character", func(m *model) *Obj {
		return m.seq(m.star(m.seq(m.action("__act0()"), m.dot())), m.action("__act1()"))
	})
	add("backtracking", "action between two terminals", func(m *model) *Obj {
		return m.alt(m.seq(m.char("a"), m.action("__act0()"), m.char("b")), m.seq(m.char("a"), m.action("__act1()")))
	})
	add("backtracking", "action as the whole of an optional part before a terminal", func(m *model) *Obj {
		return m.seq(m.query(m.seq(m.action("__act0()"), m.char("a"))), m.char("b"), m.action("__act1()"))
	})
	add("backtracking", "alternatives sharing a prefix with captures", func(m *model) *Obj {
		return m.alt(m.seq(m.push(m.char("a")), m.char("c")), m.seq(m.push(m.char("a")), m.rng("b", "y")), m.push(m.dot()))
	})
	return s
}

func checkC03(c *Check) {
	c.Explain = "Decides that the token stream is the post-order record of the successful derivation only, as structural conditions: (a) E1/E2 on the model suite (every operator, all child flavours, backtracking-heavy compositions with captures and actions inside failing alternatives, abandoned iterations and both lookaheads): the symbolic token trace at every exit of every emitted rule function — including the trace in force at each child attempt — equals the PEG oracle's: children's tokens in order, then the rule's/capture's own token with begin = the position snapshot taken before the child; every failure label, & and ! restore tokenIndex from a snapshot taken together with the position snapshot; (b) runtime rules on all template instantiations and peg.peg.go: R-tokidx-writers (tokenIndex is written only by reset, add (+1 right after recording), memo replay and restores from snapshots), R-add-wiring (add records token{rule, begin, end=position} at index tokenIndex; tokens.Add overwrites below length / appends at length), R-trim (on success the published list is cut at tokenIndex), R-rune (no string is indexed by an offset: offsets count runes). Not decided: nothing beyond the assumptions of C01."
	c.Assume = []string{"assumptions of C01", "tokenIndex ≤ len(tree.tree) invariant follows from R-tokidx-writers and R-add-wiring"}
	c.Trusted = []string{"interp.go, e2.go, spec.go", "go/types, go/cfg, go/ssa", "text/template/parse"}
	r := mustRepo(c)
	if r == nil {
		return
	}
	specs := tokenSuite()
	if c.Tier == "thorough" {
		specs = append(specs, thoroughSpecs(c.Seed, 2400)...)
	}
	rs, probs := runSuite(r, specs, []modelOpts{{Ast: true}})
	for _, p := range probs {
		c.Und("R-anchor", "tree.(*Tree).Compile/emission region", "", p)
	}
	if rs != nil {
		reportSuite(c, "R-token-trace", rs, projTokens, "token trace at every exit and at every child attempt equals the oracle's post-order trace", nil)
		c.Floor("R-token-trace", len(rs), 55)
	}
	forEachRuntime(c, func(a *aggregator, v *rtView) {
		rtTokens(a, v)
		rtRune(a, v)
	})
}

func checkC04(c *Check) {
	c.Explain = "Decides: (a) on the model suite (E1/E2, default options), an action occurrence is emitted as a call of its own rule ActionN whose rule function adds exactly one zero-width token add(ruleActionN, position) and nothing else, a <capture> adds its rulePegText token after its child's tokens with begin = the entry snapshot, and — by the token-trace equality with the oracle — tokens of actions/captures inside failed alternatives, abandoned iterations and lookaheads never survive (so Execute, which replays the token list, runs exactly the actions of the successful derivation, once each, in derivation order); (b) R-action-id: evaluating link's source on a model shows the id formatted into the rule name ActionN, the id stored in the copy placed in t.Actions and the per-type counter agree, and the template pairs `case ruleAction{{.GetID}}` with `{{.String}}` of the same element; (c) R-execute on every instantiation with actions: a single ascending range over p.Tokens(), a switch on the token's rule, text/begin/end assigned only in the rulePegText case from that token's bounds slicing the []rune buffer. Not decided: the effect of user action code."
	c.Assume = []string{"assumptions of C01 and C03", "user action code does not assign text/begin/end"}
	c.Trusted = []string{"interp.go, e2.go, spec.go", "go/types, go/cfg, go/ssa", "text/template/parse"}
	r := mustRepo(c)
	if r == nil {
		return
	}
	var specs []modelSpec
	for _, s := range tokenSuite() {
		if s.Op == "backtracking" || s.Op == "TypeAction" || s.Op == "TypePush" {
			specs = append(specs, s)
		}
	}
	rs, probs := runSuite(r, specs, []modelOpts{{Ast: true}})
	for _, p := range probs {
		c.Und("R-anchor", "tree.(*Tree).Compile/emission region", "", p)
	}
	if rs != nil {
		reportSuite(c, "R-action-tokens", rs, projTokens, "action and capture tokens appear exactly as in the oracle's post-order trace", nil)
		c.Floor("R-action-tokens", len(rs), 10)
	}
	actionIDs(c, r)
	executeSemantics(c, r)
	forEachRuntime(c, func(a *aggregator, v *rtView) {
		rtExecute(a, v)
		// Execute ranges over the whole published token list: it must hold the derivation and nothing else
		rtTokens(a, v)
		if v.in.Cfg.Bools["Ast"] {
			// Execute replays the token list: a memo hit must leave exactly the tokens a re-run would
			if f := v.cl["memoizedResult"]; f != nil {
				rtMemoReplay(a, v, f)
			}
		}
	})
}

func checkC13(c *Check) {
	c.Explain = "Decides the inductive in-bounds invariant 0 ≤ position ≤ len(buffer)-1 with buffer[len-1]==endSymbol: R-sentinel (every path through reset re-establishes the sentinel; endSymbol is outside the range of []rune(string)), R-advance-guarded (in every emitted operator template of the model suite — default options — and in matchDot/matchString of every template instantiation, position only advances on a path on which buffer[position] was successfully tested against a set that excludes endSymbol, with no change of position in between; otherwise position is assigned only snapshots of itself or the end of a recorded token), R-index-sites (buffer is only indexed at position or at the matchString cursor), R-rune (offsets never index a string), and that no emitted rule function can fall off its end. The -switch configurations, where the first test of a case is skipped, are judged by C02's R-skip. Not decided: termination and stack depth on long inputs (resource bounds); panics inside user actions."
	c.Assume = []string{"children keep the invariant (induction)", "rune literals are ≤ unicode.MaxRune < endSymbol"}
	c.Trusted = []string{"interp.go, e2.go", "go/types, go/cfg, go/ssa", "text/template/parse"}
	r := mustRepo(c)
	if r == nil {
		return
	}
	specs13 := tokenSuite()
	if c.Tier == "thorough" {
		specs13 = append(specs13, thoroughSpecs(c.Seed, 1600)...)
	}
	rs, probs := runSuite(r, specs13, []modelOpts{{Ast: true}, {Ast: false}, {Ast: true, Inline: true}})
	for _, p := range probs {
		c.Und("R-anchor", "tree.(*Tree).Compile/emission region", "", p)
	}
	if rs != nil {
		reportSuite(c, "R-advance-guarded", rs, func(o outcome) string {
			if o.Kind == "falls-off-end" || o.Kind == "loop-back-edge" || o.Kind == "?" {
				return "exit of kind " + o.Kind
			}
			return ""
		}, "every position++ is preceded on its path by a successful test excluding endSymbol; position is otherwise assigned snapshots only; no path falls off the end", func(sr *suiteResult) []string {
			var out []string
			for _, f := range sr.TV.Flags {
				if strings.Contains(f, "position++") {
					out = append(out, f)
				}
			}
			return out
		})
		c.Floor("R-advance-guarded", len(rs), 150)
	}
	forEachRuntime(c, func(a *aggregator, v *rtView) {
		rtSentinel(a, v)
		rtMatchers(a, v)
		rtRune(a, v)
		if rtEvalHere(v) {
			rtMatcherSemantics(a, v)
			rtBufferSemantics(a, v)
		}
	})
}
