package main

import (
	"fmt"
	"strings"
)

// C12 (reuse after Reset) and C14 (instance confinement): drivers over all
// template configurations and peg.peg.go.

func forEachRuntime(c *Check, fn func(a *aggregator, v *rtView)) {
	r := mustRepo(c)
	if r == nil {
		return
	}
	insts := runtimeInstances(c, r)
	a := newAgg()
	n := 0
	for _, in := range insts {
		v, why := newRtView(in)
		if v == nil {
			c.Und("R-anchor", in.Name+"/Init", "", why)
			continue
		}
		n++
		fn(a, v)
	}
	a.flush(c)
	c.Floor("R-instances", n, 33)
}

func checkC12(c *Check) {
	c.Explain = "Decides, on every one of the 2^5 instantiations of tree/peg.go.tmpl (all valuations of .Ast .HasActions .HasPush .HasDot .HasString, walked over the template's parse tree) and on the checked-in peg.peg.go: R-reset-complete — every variable declared in Init that any closure other than reset may write (interprocedural write sets, rule functions included) is assigned by reset in a block dominating all its returns, from constants/fresh allocations/p.Buffer only; the single listed exception is the token buffer, for which R-tree-bounded shows every read is bounded by tokenIndex (stale tail entries are dead); R-sentinel — every path through reset recomputes the rune buffer from p.Buffer, re-establishes the end sentinel and re-synchronises the captured buffer; R-republish — parse stores the captured token buffer back into p.tokens on every path and the Size option only installs an empty buffer; R-U-generic — no U-typed offset is narrowed except the listed Trim(uint32). These are the structural conditions under which Reset+Parse equals a fresh parser; equality of observable results itself is implied, not observed."
	c.Assume = []string{"rule functions only touch parse state through the closures and variables the template declares (checked for the emitted fragments by E2)", "Go closure semantics: each Init call allocates a fresh set of captured variables"}
	c.Trusted = []string{"text/template/parse", "go/types, go/ssa (x/tools v0.50.0)", "the template instantiator in e3.go (model data affects names only)"}
	forEachRuntime(c, func(a *aggregator, v *rtView) {
		rtResetComplete(a, v)
		rtTreeBounded(a, v)
		rtSentinel(a, v)
		rtRepublish(a, v)
		rtUGeneric(a, v)
		rtUOffsets(a, v)
		// the published token list must end at tokenIndex: the tail of a reused buffer holds an earlier input's tokens
		rtTokens(a, v)
		if rtEvalHere(v) {
			rtReuseSemantics(a, v, "R-reuse-semantics", "Init/Reset then Parse on a used instance equals a fresh instance")
		}
	})
}

func checkC14(c *Check) {
	c.Explain = "Decides instance confinement on every instantiation of the runtime template and on peg.peg.go: R-no-shared-write — no function of the generated file stores to, appends to or updates a package-level variable; R-state-is-local — the only package-level variables are value tables without references (the rule-name array), used by element load only, so every mutable location a parser touches is a closure variable allocated by its own Init call or is reached from its receiver. Two instances therefore share no mutable location, which is sufficient for data-race freedom and independence of results (user state and actions excluded). The emitted rule fragments are covered by E2's R-fragments-closed when C01/C08 run; here the synthetic rule function stands for them."
	c.Assume = []string{"user-supplied state and action code is outside the property", "Go closure semantics"}
	c.Trusted = []string{"text/template/parse", "go/types, go/ssa (x/tools v0.50.0)"}
	forEachRuntime(c, func(a *aggregator, v *rtView) {
		rtConfinement(a, v)
	})
	// R-fragments-closed: identifiers of the emitted rule functions
	r := mustRepo(c)
	if r == nil {
		return
	}
	rs, probs := runSuite(r, tokenSuite(), []modelOpts{{Ast: true}, {Ast: false}, {Ast: true, Inline: true}, {Ast: false, Inline: true}})
	for _, p := range probs {
		c.Und("R-anchor", "tree.(*Tree).Compile/emission region", "", p)
	}
	if rs != nil {
		reportSuite(c, "R-fragments-closed", rs, func(outcome) string { return "" }, "every identifier in the emitted rule functions resolves to a variable declared in Init, the receiver, a constant, a type, a builtin or a child stub — never to a package-level variable", func(sr *suiteResult) []string {
			var out []string
			for _, g := range uniq(sr.TV.Globals) {
				if g != "rul3s" {
					out = append(out, "emitted rule function refers to package-level variable "+g)
				}
			}
			return out
		})
		c.Floor("R-fragments-closed", len(rs), 200)
	}
}

func checkC06(c *Check) {
	c.Explain = "Decides, on all 16 AST-enabled instantiations of the runtime template and on peg.peg.go, the structural conditions under which a memo hit is indistinguishable from re-running the rule: R-memo-key (entries are stored under a two-field key built from memoize's rule and begin parameters, in that order), R-memo-verdict (Matched=true with tokens only on the matched branch), R-memo-copy (the stored tokens are a fresh copy of tree.tree[tokenIndexStart:tokenIndex], never an alias of the live buffer), R-memo-replay (a memoised failure has no effect; a memoised success truncates the live buffer at tokenIndex, splices the stored tokens, advances tokenIndex by their count and sets position from the last one, in that order), R-maxtoken (outside reset the furthest-error token changes only under begin≠position ∧ position>maxToken.end, so a replay can never change it), R-memo-off (every store is guarded by DisableMemoize), plus C12's reset rule for the table. The wrapper half (lookup key, memoize call placement in emitted rule functions) is decided by E2 (see C01/C08 evidence). Not decided: side-effecting predicates (excluded by the property)."
	c.Assume = []string{"rules are deterministic functions of (position, buffer) — no side-effecting predicates", "emitted rule functions call memoize(id, entry position, entry tokenIndex, verdict) as checked by E2"}
	c.Trusted = []string{"text/template/parse", "go/types, go/ssa (x/tools v0.50.0)"}
	forEachRuntime(c, func(a *aggregator, v *rtView) {
		rtMemo(a, v)
		rtMaxToken(a, v)
		if v.in.Cfg.Bools["Ast"] {
			// memo table is per instance and re-made by reset
			rtResetComplete(a, v)
			if rtEvalHere(v) {
				rtMemoSemantics(a, v)
			}
		}
	})
	// wrapper half: lookup key, memoize placement and verdicts in the emitted rule functions
	r := mustRepo(c)
	if r == nil {
		return
	}
	rs, probs := runSuite(r, coreSuite(), []modelOpts{{Ast: true}, {Ast: true, Inline: true}})
	for _, p := range probs {
		c.Und("R-anchor", "tree.(*Tree).Compile/emission region", "", p)
	}
	if rs != nil {
		reportSuite(c, "R-memo-wrapper", rs, func(o outcome) string {
			var ev []string
			for _, e := range o.Hist {
				if strings.HasPrefix(e, "memo") {
					ev = append(ev, e)
				}
			}
			return fmt.Sprintf("return %s with memo events [%s]", o.Kind, strings.Join(ev, " ; "))
		}, "lookup with key (rule id, entry position) before anything else; a hit returns memoizedResult; memoize(id, entry position, entry tokenIndex, true) only on the success path after the rule's own token, memoize(…, false) only on the failure path", nil)
		c.Floor("R-memo-wrapper", len(rs), 100)
	}
}

func checkC11(c *Check) {
	c.Explain = "Decides on all 32 instantiations of the runtime template and peg.peg.go: R-parse-verdict (parse returns nil only on the true edge of the entry rule's result and otherwise &parseError{p, maxToken}; the entry index is rule[0] or 1), R-maxtoken (the error token is replaced only by a non-empty token that reaches strictly further, hence it is the first token reaching the furthest offset, built from add's own arguments and the current position), R-cursor (in translatePositions every advance of the cursor over the sorted offsets is dominated by the store of that offset's translation or by equality with the key just stored, and the function returns only after the sweep — so both the begin and the end offset of the error are translated), R-rune (Error() quotes the []rune buffer sliced by the token's begin/end; no string is ever indexed by an offset). R-linecol-order (the line and column recorded for an offset are those of the character at that offset: computed from values defined before that iteration's newline test). NOT decided (value-level): the remaining line/column arithmetic (initial values, increments) and bounds of the slice in Error(). R-translate-domain: every caller passes the sentinel-terminated p.buffer whole and the loop ranges over the parameter whole, so offsets 0..len(input) all have a translation. E5 (abstract evaluation of the instantiated source by the Go-subset interpreter; nil dereference and bounds errors are reported as panics): R-linecol-semantics — translatePositions on every text of at most 5 runes over {newline, other} plus the end symbol and every offset pair yields the definitional 1-based line and column; R-error-message — parseError.Error() on every input of at most 3 runes over {x, newline, a 3-byte rune, a quote}, every token begin ≤ end ≤ len (empty input, offset 0, end of input), Pretty on/off: rule name, line/column of both ends and exactly the runes between them quoted, no panic. The code compares runes only with newline and offsets only with each other, so the evaluated texts stand for all texts with the same newline pattern; bounded in text length."
	c.Assume = []string{"position never exceeds the sentinel index (C13)", "positions passed to translatePositions are the begin/end of maxToken"}
	c.Trusted = []string{"text/template/parse", "go/types, go/ssa (x/tools v0.50.0)", "the ==/!= union-find fact engine (pathfacts.go)", "interp.go"}
	forEachRuntime(c, func(a *aggregator, v *rtView) {
		rtParseVerdict(a, v)
		rtMaxToken(a, v)
		rtCursor(a, v)
		rtLineCol(a, v)
		rtTranslateDomain(a, v)
		if rtEvalHere(v) {
			rtLineColSemantics(a, v, 5)
			rtErrorSemantics(a, v, 3)
			rtReuseSemantics(a, v, "R-parse-semantics", "Init/parse: nil exactly on a match with the final tokens published, else the first non-empty token that reached furthest")
			rtEntrySemantics(a, v)
			rtErrorStable(a, v)
		}
		rtRune(a, v)
	})
}

func checkC05(c *Check) {
	c.Explain = "R-ast-semantics and R-print-semantics (E5): the instantiated source of tokens.AST and of the node printer is evaluated by the Go-subset interpreter (nil dereference and bounds errors reported as panics, anything unmodelled as undecided) on the post-order token list of every derivation shape of at most 5 nodes (thorough: 6) — leaves of width 0 or 1, optional gaps before, between and after children, parent and child with equal spans — plus parents of 9 to 130 siblings (first child at the parent's begin or behind it, empty tokens between siblings, alone or under a root) and chains 12, 70 and 300 deep, and the returned node graph / printed text is compared with the tree of non-empty tokens (children directly nested, in input order; one line per node in pre-order, indented by depth, rule name and the quoted runes [begin,end) of a text with multi-byte runes). AST() touches offsets only through comparisons, so each shape stands for all token lists with the same order pattern of bounds. Structural rules on the 16 AST-enabled instantiations and peg.peg.go: R-rune (node.print quotes string([]rune(buffer)[n.begin:n.end]); no string is indexed by an offset anywhere in the runtime), R-route (PrintSyntaxTree/WriteSyntaxTree/PrettyPrintSyntaxTree print exactly the tree returned by AST(), with the parser's own Buffer, naming each node by rul3s[its own pegRule]), R-adopt-condition (the adoption test decided over all orderings of the four offsets it compares). NOT decided: derivations outside the small scope and the listed wide and deep families (no induction over depth/width)."
	c.Assume = []string{"the token list is the post-order record of the derivation (C03)"}
	c.Trusted = []string{"text/template/parse", "go/types, go/ssa (x/tools v0.50.0)", "interp.go"}
	forEachRuntime(c, func(a *aggregator, v *rtView) {
		rtRune(a, v)
		rtRoute(a, v)
		rtAdopt(a, v)
		if rtEvalHere(v) {
			budget := 5
			if c.Tier == "thorough" {
				budget = 6
			}
			rtASTSemantics(a, v, budget)
			rtPrintSemantics(a, v, budget-1)
		}
	})
}
