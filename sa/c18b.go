package main

// C18 R-destination: where the parser is written to and where the grammar is
// read from, as value shapes on the SSA form of main.go.

import (
	"fmt"
	"go/constant"
	"go/token"
	"go/types"
	"strings"

	"golang.org/x/tools/go/ssa"
)

func constString(v ssa.Value) (string, bool) {
	k, ok := v.(*ssa.Const)
	if !ok || k.Value == nil || k.Value.Kind() != constant.String {
		return "", false
	}
	return constant.StringVal(k.Value), true
}

// isGrammarArg: flag.Arg(0) or flag.Args()[0].
func isGrammarArg(v ssa.Value) bool {
	switch x := v.(type) {
	case *ssa.Call:
		if calleeName(x) == "flag.Arg" && len(x.Call.Args) == 1 {
			if k, ok := x.Call.Args[0].(*ssa.Const); ok && k.Value != nil {
				if i, ok := constant.Int64Val(k.Value); ok && i == 0 {
					return true
				}
			}
		}
	case *ssa.UnOp:
		if x.Op == token.MUL {
			if ia, ok := x.X.(*ssa.IndexAddr); ok {
				if cl, ok := ia.X.(*ssa.Call); ok && calleeName(cl) == "flag.Args" {
					if k, ok := ia.Index.(*ssa.Const); ok && k.Value != nil {
						if i, ok := constant.Int64Val(k.Value); ok && i == 0 {
							return true
						}
					}
				}
			}
		}
	case *ssa.Phi:
		for _, e := range x.Edges {
			if !isGrammarArg(e) {
				return false
			}
		}
		return len(x.Edges) > 0
	}
	return false
}

// destinationShape describes v as a destination name: "" when it is the
// -output flag's value or <grammar argument> + ".go" (possibly through
// filepath.Clean or a phi of such), else a description of the offending part.
// unresolvedShape: the value comes from a parameter or from a function of
// package main; following it needs the evaluation of main (R-cli-semantics).
const unresolvedShape = "\x00unresolved"

func isMainLocal(v ssa.Value) bool {
	switch x := v.(type) {
	case *ssa.Parameter, *ssa.FreeVar:
		return true
	case *ssa.Call:
		if f := x.Call.StaticCallee(); f != nil && f.Pkg != nil && f.Pkg.Pkg.Name() == "main" {
			return true
		}
	case *ssa.Extract:
		return isMainLocal(x.Tuple)
	case *ssa.UnOp:
		if fa, ok := x.X.(*ssa.FieldAddr); ok {
			_ = fa
			return true // a field of a struct of package main (an options or streams value)
		}
	}
	return false
}

func destinationShape(v ssa.Value, fg map[*ssa.Global]string, depth int) string {
	if depth > 8 {
		return "a value derived too deeply to follow"
	}
	if flagOfValue(v, fg) != "output" && isMainLocal(v) {
		return unresolvedShape
	}
	if flagOfValue(v, fg) == "output" {
		return ""
	}
	switch x := v.(type) {
	case *ssa.BinOp:
		if x.Op == token.ADD {
			if s, ok := constString(x.Y); ok && s == ".go" && isGrammarArg(x.X) {
				return ""
			}
			return fmt.Sprintf("the concatenation %s (expected <grammar file name> + \".go\")", describeValue(x))
		}
	case *ssa.Call:
		switch calleeName(x) {
		case "path/filepath.Clean":
			return destinationShape(x.Call.Args[0], fg, depth+1)
		case "fmt.Sprintf":
			if f, ok := constString(x.Call.Args[0]); ok && (f == "%s.go" || f == "%v.go") {
				if args := varargValues(x.Call.Args[1]); len(args) == 1 && isGrammarArg(args[0]) {
					return ""
				}
			}
		}
		return fmt.Sprintf("the result of %s", calleeName(x))
	case *ssa.Phi:
		for _, e := range x.Edges {
			if d := destinationShape(e, fg, depth+1); d != "" {
				return d
			}
		}
		return ""
	}
	return describeValue(v)
}

func describeValue(v ssa.Value) string {
	switch x := v.(type) {
	case *ssa.BinOp:
		return describeValue(x.X) + " " + x.Op.String() + " " + describeValue(x.Y)
	case *ssa.Const:
		return x.String()
	case *ssa.Call:
		var as []string
		for _, a := range x.Call.Args {
			as = append(as, describeValue(a))
		}
		return calleeName(x) + "(" + strings.Join(as, ", ") + ")"
	case *ssa.UnOp:
		return x.Op.String() + describeValue(x.X)
	case *ssa.Global:
		return x.Name()
	case *ssa.MakeInterface:
		return describeValue(x.X)
	case *ssa.ChangeInterface:
		return describeValue(x.X)
	case *ssa.Extract:
		return describeValue(x.Tuple)
	}
	return v.Name() + " (" + fmt.Sprintf("%T", v) + ")"
}

// varargValues: the elements stored into the slice literal passed as a variadic argument.
func varargValues(a ssa.Value) []ssa.Value {
	sl, ok := a.(*ssa.Slice)
	if !ok {
		return nil
	}
	al, ok := sl.X.(*ssa.Alloc)
	if !ok {
		return nil
	}
	var out []ssa.Value
	for _, ref := range *al.Referrers() {
		ia, ok := ref.(*ssa.IndexAddr)
		if !ok {
			continue
		}
		for _, r2 := range *ia.Referrers() {
			if st, ok := r2.(*ssa.Store); ok {
				v := st.Val
				if mi, ok := v.(*ssa.MakeInterface); ok {
					v = mi.X
				}
				out = append(out, v)
			}
		}
	}
	return out
}

// streamSources: the leaves a returned stream value is made of.
func streamSources(v ssa.Value, seen map[ssa.Value]bool, out *[]ssa.Value) {
	if seen[v] {
		return
	}
	seen[v] = true
	switch x := v.(type) {
	case *ssa.Phi:
		for _, e := range x.Edges {
			streamSources(e, seen, out)
		}
	case *ssa.MakeInterface:
		streamSources(x.X, seen, out)
	case *ssa.ChangeInterface:
		streamSources(x.X, seen, out)
	case *ssa.ChangeType:
		streamSources(x.X, seen, out)
	default:
		*out = append(*out, v)
	}
}

func destination(c *Check, r *Repo) {
	fg := flagGlobals(r)
	hasOutput := false
	for _, n := range fg {
		if n == "output" {
			hasOutput = true
		}
	}
	if !hasOutput {
		c.OK("R-destination", "main.go/-output flag", "", "-output is not a package-level variable filled by flag.String in the initialiser: this value-shape rule does not apply (decided by R-cli-semantics)")
		return
	}
	// when main.go moves files (the parser is generated beside the destination and renamed), the
	// file opened for writing is by design not the destination: where the text ends up is decided
	// by R-cli-semantics, which follows renames and removals
	moves := false
	for _, f := range r.allFuncs("") {
		if strings.HasSuffix(r.Fset.Position(f.Pos()).Filename, "/main.go") {
			instrsOf(f, func(in ssa.Instruction) {
				if call, ok := in.(*ssa.Call); ok && calleeName(call) == "os.Rename" {
					moves = true
				}
			})
		}
	}
	// a value-shape rule that does not recognise how main.go computes a name yields when the
	// evaluation of main on the modelled command lines (R-cli-semantics) shows source and
	// destination to be the requested ones
	yield := func(ok bool, construct, pos, okMsg, badMsg string) {
		if !ok {
			if res := cliVerdict(r); res.und == "" && len(res.bad) == 0 && res.n >= 60 {
				c.OK("R-destination", construct, pos, "the name is not computed in the form this rule reads ("+clip(badMsg, 120)+"); decided by R-cli-semantics")
				return
			}
		}
		c.Decide(ok, "R-destination", construct, pos, okMsg, badMsg)
	}
	nOpen := 0
	for _, f := range r.allFuncs("") {
		if !strings.HasSuffix(r.Fset.Position(f.Pos()).Filename, "/main.go") {
			continue
		}
		f := f
		var writeOpens, readOpens []*ssa.Call
		instrsOf(f, func(in ssa.Instruction) {
			switch x := in.(type) {
			case *ssa.Call:
				switch calleeName(x) {
				case "os.OpenFile", "os.Create":
					nOpen++
					writeOpens = append(writeOpens, x)
					d := destinationShape(x.Call.Args[0], fg, 0)
					if moves && d != "" {
						c.OK("R-destination", fnName(f)+"/file opened for writing is named by -output or <grammar>.go", r.pos(x.Pos()), "main.go renames files: the file written need not be the destination; the shape rule does not apply (the final location is decided by R-cli-semantics)")
					} else if strings.Contains(d, unresolvedShape) {
						c.OK("R-destination", fnName(f)+"/file opened for writing is named by -output or <grammar>.go", r.pos(x.Pos()), "the name is computed by other functions of package main: the shape rule does not apply (decided by R-cli-semantics)")
					} else {
						yield(d == "", fnName(f)+"/file opened for writing is named by -output or <grammar>.go", r.pos(x.Pos()),
							"the name is the value of the -output flag variable", "the destination is named by "+d)
					}
				case "os.Open":
					nOpen++
					readOpens = append(readOpens, x)
					if !isGrammarArg(x.Call.Args[0]) && isMainLocal(x.Call.Args[0]) {
						c.OK("R-destination", fnName(f)+"/file opened for reading is the grammar argument", r.pos(x.Pos()), "the name is computed by other functions of package main: the shape rule does not apply (decided by R-cli-semantics)")
					} else {
						yield(isGrammarArg(x.Call.Args[0]), fnName(f)+"/file opened for reading is the grammar argument", r.pos(x.Pos()),
							"os.Open(flag.Arg(0))", "the grammar is read from "+describeValue(x.Call.Args[0])+", not from the first command-line argument")
					}
				}
			case *ssa.Store:
				// *outputFile = v
				if u, ok := x.Addr.(*ssa.UnOp); ok && u.Op == token.MUL {
					if g, ok := u.X.(*ssa.Global); ok && fg[g] == "output" {
						d := ""
						if b, ok := x.Val.(*ssa.BinOp); ok && b.Op == token.ADD {
							if s, ok2 := constString(b.Y); !ok2 || s != ".go" || !isGrammarArg(b.X) {
								d = "the concatenation " + describeValue(b)
							}
						} else {
							d = destinationShape(x.Val, fg, 0)
							if flagOfValue(x.Val, fg) == "output" {
								d = ""
							}
						}
						if strings.Contains(d, unresolvedShape) {
							c.OK("R-destination", fnName(f)+"/default destination is <grammar>.go", r.pos(x.Pos()), "the default is computed by another function of package main: the shape rule does not apply (decided by R-cli-semantics)")
							return
						}
						yield(d == "", fnName(f)+"/default destination is <grammar>.go", r.pos(x.Pos()),
							"the -output variable is defaulted to flag.Arg(0) + \".go\"", "the default destination is "+d+" — not the grammar's own path with .go appended")
					}
				}
			}
		})
		if len(writeOpens) == 0 {
			continue
		}
		// the streams this function hands out
		badLeaves := map[bool][]string{}
		nLeaves := map[bool]int{}
		defer func() {
			for _, w := range []bool{true, false} {
				if nLeaves[w] == 0 {
					continue
				}
				what := map[bool]string{true: "output stream is os.Stdout or the opened destination", false: "input stream is os.Stdin or the opened grammar"}[w]
				yield(len(badLeaves[w]) == 0, fnName(f)+"/"+what, r.pos(f.Pos()), fmt.Sprintf("%d returned values: each is one of the two (or nil beside an error)", nLeaves[w]), strings.Join(uniq(badLeaves[w]), "; "))
			}
		}()
		instrsOf(f, func(in ssa.Instruction) {
			ret, ok := in.(*ssa.Return)
			if !ok {
				return
			}
			for i := range ret.Results {
				rt := f.Signature.Results().At(i).Type()
				named, ok := rt.(*types.Named)
				if !ok || named.Obj().Pkg() == nil || named.Obj().Pkg().Path() != "io" {
					continue
				}
				isWriter := named.Obj().Name() == "Writer"
				isReader := named.Obj().Name() == "Reader"
				if !isWriter && !isReader {
					continue
				}
				for _, rv := range returnValues(ret, i) {
					var leaves []ssa.Value
					streamSources(rv, map[ssa.Value]bool{}, &leaves)
					for _, l := range leaves {
						okLeaf := false
						if k, ok := l.(*ssa.Const); ok && k.IsNil() {
							okLeaf = true
						}
						if u, ok := l.(*ssa.UnOp); ok && u.Op == token.MUL {
							if g, ok := u.X.(*ssa.Global); ok && g.Pkg != nil && g.Pkg.Pkg.Path() == "os" {
								okLeaf = (isWriter && g.Name() == "Stdout") || (isReader && g.Name() == "Stdin")
							}
						}
						if ex, ok := l.(*ssa.Extract); ok && ex.Index == 0 {
							if cl, ok := ex.Tuple.(*ssa.Call); ok {
								for _, w := range writeOpens {
									if isWriter && w == cl {
										okLeaf = true
									}
								}
								for _, w := range readOpens {
									if isReader && w == cl {
										okLeaf = true
									}
								}
							}
						}
						nLeaves[isWriter]++
						if !okLeaf {
							badLeaves[isWriter] = append(badLeaves[isWriter], r.pos(ret.Pos())+": the stream can be "+describeValue(l))
						}
					}
				}
			}
		})
	}
	c.Floor("R-destination", nOpen, 2)
}
