package main

// Evaluating set/set.go itself on small universes (C16 R-set-semantics).
//
// The set code touches code points only through comparisons, ±1, max and (in
// Len/String) interval lengths, so its behaviour on a history depends only on
// the order-and-adjacency type of the values involved (R-order-invariant
// checks exactly that, on the typed syntax). Every such type for histories of
// up to K insertions is realised over a small universe; the evaluation below
// enumerates all of them and compares each observer with the set of integers.

import (
	"fmt"
	"go/ast"
	"go/types"
	"sort"
	"strings"
)

type setExec struct {
	it      *Interp
	methods map[string]*ast.FuncDecl
	newSet  *ast.FuncDecl
}

func newSetExec(r *Repo) (*setExec, error) {
	it := newInterpFor(r, "set")
	it.nilPanics = true
	it.stepLimit = 20000 // the evaluated sets have at most a handful of intervals over a tiny universe
	se := &setExec{it: it, methods: map[string]*ast.FuncDecl{}}
	for fn, fd := range it.decls {
		if fd.Recv == nil {
			if fn.Name() == "NewSet" {
				se.newSet = fd
			}
			continue
		}
		if st, ok := fd.Recv.List[0].Type.(*ast.StarExpr); ok {
			if id, ok := st.X.(*ast.Ident); ok && id.Name == "Set" {
				se.methods[fn.Name()] = fd
			}
		}
	}
	if se.newSet == nil {
		return nil, fmt.Errorf("set.NewSet not found")
	}
	for _, m := range []string{"Add", "AddRange", "Has", "Len", "Copy", "Union", "Intersects", "Complement", "Equal", "String"} {
		if se.methods[m] == nil {
			return nil, fmt.Errorf("method (*Set).%s not found", m)
		}
	}
	return se, nil
}

func (se *setExec) fresh() Value {
	fd := se.newSet
	se.it.steps = 0
	res := se.it.invoke(nil, &Closure{name: "NewSet", typ: fd.Type, body: fd.Body, lit: fd, decl: fd, env: newEnv(nil)}, nil)
	return res[0]
}

func (se *setExec) call(recv Value, m string, args ...Value) Value {
	fd := se.methods[m]
	se.it.steps = 0
	res := se.it.invoke(nil, &Closure{name: m, typ: fd.Type, body: fd.Body, lit: fd, decl: fd, env: newEnv(nil), recv: recv}, args)
	if len(res) == 0 {
		return nil
	}
	return res[0]
}

// shape: the list invariant of the representation named by the property's
// anchors (head/tail sentinels, doubly linked, sorted disjoint intervals).
// Returns "" when it holds or when the representation has other field names.
func (se *setExec) shape(s Value) string {
	so, ok := s.(*Obj)
	if !ok || so == nil || so.field("Head") == nil || so.field("Tail") == nil {
		return ""
	}
	head, _ := so.field("Head").v.(*Obj)
	tail, _ := so.field("Tail").v.(*Obj)
	if head == nil || tail == nil || head.field("Forward") == nil || head.field("Backward") == nil {
		return ""
	}
	var fwd []*Obj
	seen := map[*Obj]bool{}
	cur, _ := head.field("Forward").v.(*Obj)
	if cur == nil {
		if b, _ := tail.field("Backward").v.(*Obj); b != nil {
			return "Head.Forward is nil but Tail.Backward is not"
		}
		return ""
	}
	for cur != nil && cur != tail {
		if seen[cur] {
			return "the forward chain has a cycle"
		}
		seen[cur] = true
		fwd = append(fwd, cur)
		cur, _ = cur.field("Forward").v.(*Obj)
	}
	if cur != tail {
		return "the forward chain does not end at the tail sentinel"
	}
	var bwd []*Obj
	cur, _ = tail.field("Backward").v.(*Obj)
	steps := 0
	for cur != nil && cur != head && steps < 1000 {
		bwd = append(bwd, cur)
		cur, _ = cur.field("Backward").v.(*Obj)
		steps++
	}
	if cur != head {
		return "the backward chain does not end at the head sentinel"
	}
	if len(bwd) != len(fwd) {
		return fmt.Sprintf("the forward chain has %d intervals, the backward chain %d", len(fwd), len(bwd))
	}
	for i := range fwd {
		if fwd[i] != bwd[len(bwd)-1-i] {
			return "the backward chain visits other nodes than the forward chain"
		}
	}
	prevEnd := int64(-1 << 40)
	for _, nd := range fwd {
		b, _ := nd.field("Begin").v.(int64)
		e, _ := nd.field("End").v.(int64)
		if b > e {
			return fmt.Sprintf("an interval [%d,%d] is empty", b, e)
		}
		if b <= prevEnd {
			return fmt.Sprintf("intervals are not sorted and disjoint (…%d] then [%d…)", prevEnd, b)
		}
		prevEnd = e
	}
	return ""
}

// mathematical side: bit sets over [0, 63]
type bits uint64

func (b bits) has(x int) bool { return x >= 0 && x < 64 && b&(1<<uint(x)) != 0 }
func (b bits) len() int {
	n := 0
	for x := 0; x < 64; x++ {
		if b.has(x) {
			n++
		}
	}
	return n
}
func (b bits) str() string {
	var p []string
	for x := 0; x < 64; x++ {
		if b.has(x) {
			p = append(p, fmt.Sprint(x))
		}
	}
	return "[" + strings.Join(p, " ") + "]"
}
func rangeBits(a, b int) bits {
	if a > b {
		return 0 // an inverted range denotes no code point
	}
	var r bits
	for x := a; x <= b; x++ {
		r |= 1 << uint(x)
	}
	return r
}

type setOp struct{ b, e int } // AddRange(b,e); Add(b) when single

func histName(h []setOp) string {
	var p []string
	for _, o := range h {
		if o.b > o.e {
			p = append(p, fmt.Sprintf("AddRange(%d,%d)", o.b, o.e))
			continue
		}
		if o.b == o.e {
			p = append(p, fmt.Sprintf("Add(%d)", o.b))
		} else {
			p = append(p, fmt.Sprintf("AddRange(%d,%d)", o.b, o.e))
		}
	}
	if len(p) == 0 {
		return "NewSet()"
	}
	return "NewSet()." + strings.Join(p, ".")
}

func (se *setExec) build(h []setOp) (Value, bits) {
	s := se.fresh()
	var m bits
	for _, o := range h {
		if o.b == o.e {
			se.call(s, "Add", int64(o.b))
		} else {
			se.call(s, "AddRange", int64(o.b), int64(o.e))
		}
		m |= rangeBits(o.b, o.e)
	}
	return s, m
}

// histories of at most k insertions over [0,n]
func histories(n, k int) [][]setOp {
	var ops []setOp
	for b := 0; b <= n; b++ {
		for e := b; e <= n; e++ {
			ops = append(ops, setOp{b, e})
		}
	}
	out := [][]setOp{{}}
	prev := [][]setOp{{}}
	for i := 0; i < k; i++ {
		var next [][]setOp
		for _, h := range prev {
			for _, o := range ops {
				nh := append(append([]setOp{}, h...), o)
				next = append(next, nh)
			}
		}
		out = append(out, next...)
		prev = next
	}
	return out
}

// bridgingHistories: every set of exactly k disjoint, non-touching intervals
// over [0,n] (inserted in ascending and in descending order) followed by
// `extra` arbitrary insertions — the shapes in which a new range bridges or
// lands between several existing intervals.
func bridgingHistories(n, k, extra int) [][]setOp {
	var bases [][]setOp
	var gen func(start int, cur []setOp)
	gen = func(start int, cur []setOp) {
		if len(cur) == k {
			bases = append(bases, append([]setOp{}, cur...))
			return
		}
		for b := start; b <= n; b++ {
			for e := b; e <= n; e++ {
				gen(e+2, append(cur, setOp{b, e}))
			}
		}
	}
	gen(0, nil)
	var ops []setOp
	for b := 0; b <= n; b++ {
		for e := b; e <= n; e++ {
			ops = append(ops, setOp{b, e})
		}
	}
	var out [][]setOp
	var ext func(h []setOp, left int)
	ext = func(h []setOp, left int) {
		if left == 0 {
			out = append(out, h)
			return
		}
		for _, o := range ops {
			ext(append(append([]setOp{}, h...), o), left-1)
		}
	}
	for _, b := range bases {
		ext(b, extra)
		rev := make([]setOp, len(b))
		for i := range b {
			rev[len(b)-1-i] = b[i]
		}
		ext(rev, extra)
	}
	return out
}

// invertedHistories: insertions of ranges whose begin lies above their end
// (they denote nothing), alone, before and after proper insertions.
func invertedHistories(n int) [][]setOp {
	var inv, ok []setOp
	for b := 1; b <= n; b++ {
		for e := 0; e < b; e++ {
			inv = append(inv, setOp{b, e})
		}
	}
	for b := 0; b <= n; b += 2 {
		ok = append(ok, setOp{b, b}, setOp{b, min(b+1, n)})
	}
	var out [][]setOp
	for _, i := range inv {
		out = append(out, []setOp{i})
		for _, o := range ok {
			out = append(out, []setOp{i, o}, []setOp{o, i}, []setOp{o, i, o})
		}
	}
	return out
}

type setFinding struct {
	Key  string // observer + failure kind (stable)
	What string // first witness
}

// observe compares every unary observer on the set built by h.
func (se *setExec) observe(h []setOp, n int, report func(key, what string)) {
	name := histName(h)
	guard := func(op string, f func()) {
		defer func() {
			if p := recover(); p != nil {
				switch x := p.(type) {
				case nilDeref:
					report(op+" panics", fmt.Sprintf("%s.%s dereferences a nil pointer at %s", name, op, x.pos))
				case goPanic:
					report(op+" panics", fmt.Sprintf("%s.%s: %s at %s", name, op, x.msg, x.pos))
				case undecided:
					report("undecided", x.msg)
				default:
					panic(p)
				}
			}
		}()
		f()
	}
	var s Value
	var m bits
	guard("AddRange", func() { s, m = se.build(h) })
	if s == nil {
		return
	}
	if sh := se.shape(s); sh != "" {
		report("AddRange corrupts the list", fmt.Sprintf("after %s: %s", name, sh))
	}
	guard("Has", func() {
		for x := -1; x <= n+1; x++ {
			got, _ := se.call(s, "Has", int64(x)).(bool)
			if got != m.has(x) {
				report("Has wrong", fmt.Sprintf("%s.Has(%d) = %v, the set is %s", name, x, got, m.str()))
				return
			}
		}
	})
	// the same set as both operands: a set intersects itself exactly when it has an element, equals itself, and is its own union
	guard("Intersects", func() {
		if got, _ := se.call(s, "Intersects", s).(bool); got != (m != 0) {
			report("Intersects wrong", fmt.Sprintf("s=%s: s.Intersects(s) = %v, the set is %s", name, got, m.str()))
		}
	})
	guard("Equal", func() {
		if got, _ := se.call(s, "Equal", s).(bool); !got {
			report("Equal wrong", fmt.Sprintf("s=%s: s.Equal(s) = false", name))
		}
	})
	guard("Union", func() {
		u := se.call(s, "Union", s)
		if sh := se.shape(u); sh != "" {
			report("Union corrupts the list", fmt.Sprintf("s=%s: s.Union(s): %s", name, sh))
		} else if got, _ := se.call(u, "String").(string); got != m.str() {
			report("Union wrong", fmt.Sprintf("s=%s: s.Union(s) holds %s, expected %s", name, got, m.str()))
		}
		if got, _ := se.call(s, "String").(string); got != m.str() {
			report("binary operation mutates", fmt.Sprintf("s=%s: after s.Union(s) s holds %s", name, got))
		}
	})
	guard("Len", func() {
		if got, _ := se.call(s, "Len").(int64); int(got) != m.len() {
			report("Len wrong", fmt.Sprintf("%s.Len() = %d, the set %s has %d elements", name, got, m.str(), m.len()))
		}
	})
	guard("String", func() {
		if got, _ := se.call(s, "String").(string); got != m.str() {
			report("String wrong", fmt.Sprintf("%s.String() = %q, the set is %s", name, got, m.str()))
		}
	})
	guard("Copy", func() {
		cp := se.call(s, "Copy")
		if sh := se.shape(cp); sh != "" {
			report("Copy corrupts the list", fmt.Sprintf("%s.Copy(): %s", name, sh))
		}
		if got, _ := se.call(cp, "String").(string); got != m.str() {
			report("Copy wrong", fmt.Sprintf("%s.Copy() holds %s, the set is %s", name, got, m.str()))
		}
		if eq, _ := se.call(cp, "Equal", s).(bool); !eq {
			report("Copy not Equal", fmt.Sprintf("%s.Copy() is not Equal to its original", name))
		}
		// the copy is independent
		se.call(cp, "AddRange", int64(0), int64(n))
		if got, _ := se.call(s, "String").(string); got != m.str() {
			report("Copy shares", fmt.Sprintf("adding to %s.Copy() changed the original to %s", name, got))
		}
	})
	for limit := 0; limit <= n+1; limit++ {
		limit := limit
		guard("Complement", func() {
			want := rangeBits(0, limit) &^ m
			cs := se.call(s, "Complement", int64(limit))
			if sh := se.shape(cs); sh != "" {
				report("Complement corrupts the list", fmt.Sprintf("%s.Complement(%d): %s", name, limit, sh))
				return
			}
			if got, _ := se.call(cs, "String").(string); got != want.str() {
				report("Complement wrong", fmt.Sprintf("%s.Complement(%d) holds %s, expected %s", name, limit, got, want.str()))
				return
			}
			for x := -1; x <= limit+1; x++ {
				if got, _ := se.call(cs, "Has", int64(x)).(bool); got != want.has(x) {
					report("Complement Has wrong", fmt.Sprintf("%s.Complement(%d).Has(%d) = %v, the complement is %s", name, limit, x, got, want.str()))
					return
				}
			}
			if got, _ := se.call(cs, "Len").(int64); int(got) != want.len() {
				report("Complement Len wrong", fmt.Sprintf("%s.Complement(%d).Len() = %d, the complement is %s", name, limit, got, want.str()))
				return
			}
			// usable as a set afterwards: complement twice
			cc := se.call(cs, "Complement", int64(limit))
			if got, _ := se.call(cc, "String").(string); got != (m & rangeBits(0, limit)).str() {
				report("Complement twice wrong", fmt.Sprintf("%s.Complement(%d).Complement(%d) holds %s, expected %s", name, limit, limit, got, (m&rangeBits(0, limit)).str()))
				return
			}
			if got, _ := se.call(s, "String").(string); got != m.str() {
				report("Complement mutates", fmt.Sprintf("%s.Complement(%d) changed its receiver to %s", name, limit, got))
			}
		})
	}
}

// observe2 compares the binary observers on a pair of histories.
func (se *setExec) observe2(h1, h2 []setOp, n int, report func(key, what string)) {
	n1, n2 := histName(h1), histName(h2)
	defer func() {
		if p := recover(); p != nil {
			switch x := p.(type) {
			case nilDeref:
				report("binary operation panics", fmt.Sprintf("an operation on a=%s, b=%s dereferences a nil pointer at %s", n1, n2, x.pos))
			case goPanic:
				report("binary operation panics", fmt.Sprintf("an operation on a=%s, b=%s: %s at %s", n1, n2, x.msg, x.pos))
			case undecided:
				report("undecided", x.msg)
			default:
				panic(p)
			}
		}
	}()
	a, ma := se.build(h1)
	b, mb := se.build(h2)
	u := se.call(a, "Union", b)
	if sh := se.shape(u); sh != "" {
		report("Union corrupts the list", fmt.Sprintf("a=%s, b=%s: a.Union(b): %s", n1, n2, sh))
	}
	if got, _ := se.call(u, "String").(string); got != (ma | mb).str() {
		report("Union wrong", fmt.Sprintf("a=%s, b=%s: a.Union(b) holds %s, expected %s", n1, n2, got, (ma|mb).str()))
	} else if got, _ := se.call(u, "Len").(int64); int(got) != (ma | mb).len() {
		report("Union Len wrong", fmt.Sprintf("a=%s, b=%s: a.Union(b).Len() = %d, expected %d", n1, n2, got, (ma|mb).len()))
	}
	if got, _ := se.call(a, "Intersects", b).(bool); got != (ma&mb != 0) {
		report("Intersects wrong", fmt.Sprintf("a=%s, b=%s: a.Intersects(b) = %v, a=%s b=%s", n1, n2, got, ma.str(), mb.str()))
	}
	if got, _ := se.call(a, "Equal", b).(bool); got != (ma == mb) {
		report("Equal wrong", fmt.Sprintf("a=%s, b=%s: a.Equal(b) = %v, a=%s b=%s", n1, n2, got, ma.str(), mb.str()))
	}
	// sets obtained by Complement are sets too: they must behave as operands
	{
		cb := se.call(b, "Complement", int64(n))
		mc := rangeBits(0, n) &^ mb
		nc := n2 + fmt.Sprintf(".Complement(%d)", n)
		if got, _ := se.call(a, "Intersects", cb).(bool); got != (ma&mc != 0) {
			report("Intersects wrong", fmt.Sprintf("a=%s, c=%s: a.Intersects(c) = %v, a=%s c=%s", n1, nc, got, ma.str(), mc.str()))
		}
		if got, _ := se.call(cb, "Intersects", a).(bool); got != (ma&mc != 0) {
			report("Intersects wrong", fmt.Sprintf("a=%s, c=%s: c.Intersects(a) = %v, a=%s c=%s", n1, nc, got, ma.str(), mc.str()))
		}
		u2 := se.call(a, "Union", cb)
		if got, _ := se.call(u2, "String").(string); got != (ma | mc).str() {
			report("Union wrong", fmt.Sprintf("a=%s, c=%s: a.Union(c) holds %s, expected %s", n1, nc, got, (ma|mc).str()))
		}
		if got, _ := se.call(a, "Equal", cb).(bool); got != (ma == mc) {
			report("Equal wrong", fmt.Sprintf("a=%s, c=%s: a.Equal(c) = %v, a=%s c=%s", n1, nc, got, ma.str(), mc.str()))
		}
		if got, _ := se.call(cb, "Intersects", b).(bool); got {
			report("Intersects wrong", fmt.Sprintf("b=%s: b.Complement(%d).Intersects(b) = true", n2, n))
		}
	}
	if got, _ := se.call(a, "String").(string); got != ma.str() {
		report("binary operation mutates", fmt.Sprintf("a=%s, b=%s: after Union/Intersects/Equal a holds %s", n1, n2, got))
	}
	if got, _ := se.call(b, "String").(string); got != mb.str() {
		report("binary operation mutates", fmt.Sprintf("a=%s, b=%s: after Union/Intersects/Equal b holds %s", n1, n2, got))
	}
}

// setSemantics runs the enumeration in parallel; returns findings keyed by
// observer/failure kind with the smallest witness, and the number of
// evaluations.
func setSemantics(r *Repo, n, k, k2 int) (map[string]string, int, error) {
	if _, err := newSetExec(r); err != nil {
		return nil, 0, err
	}
	hs := histories(n, k)
	hs = append(hs, bridgingHistories(n+2, 3, 1)...)
	hs = append(hs, invertedHistories(n)...)
	if n >= 6 {
		hs = append(hs, bridgingHistories(n, 3, 2)...)
		hs = append(hs, bridgingHistories(n+3, 4, 1)...)
	}
	hs2 := histories(n, k2)
	type job struct{ i, j int }
	var jobs []job
	for i := range hs {
		jobs = append(jobs, job{i, -1})
	}
	for i := range hs2 {
		for j := range hs2 {
			jobs = append(jobs, job{i, j})
		}
	}
	type res struct {
		key, what string
		ord       int
	}
	out := make([][]res, len(jobs))
	parallelChunks(len(jobs), func(lo, hi int) {
		se, _ := newSetExec(r)
		for x := lo; x < hi; x++ {
			jb := jobs[x]
			rep := func(key, what string) { out[x] = append(out[x], res{key, what, x}) }
			if jb.j < 0 {
				nn := n
				for _, o := range hs[jb.i] {
					if o.e > nn {
						nn = o.e
					}
				}
				se.observe(hs[jb.i], nn, rep)
			} else {
				se.observe2(hs2[jb.i], hs2[jb.j], n, rep)
			}
		}
	})
	found := map[string]string{}
	// the int32 limits: lengths that do not fit 32 bits, the largest code point
	func() {
		se, _ := newSetExec(r)
		defer func() {
			if p := recover(); p != nil {
				switch x := p.(type) {
				case nilDeref:
					found["Len panics"] = "at the int32 limits: nil dereference at " + x.pos
				case goPanic:
					found["Len panics"] = "at the int32 limits: " + x.msg + " at " + x.pos
				case undecided:
					found["undecided"] = x.msg
				default:
					panic(p)
				}
			}
		}()
		const maxI = int64(1<<31 - 1)
		type probe struct {
			name string
			mk   func() Value
			len  int64
		}
		probes := []probe{
			{"NewSet().AddRange(0,MaxInt32)", func() Value { s := se.fresh(); se.call(s, "AddRange", int64(0), maxI); return s }, maxI + 1},
			{"NewSet().Complement(MaxInt32)", func() Value { return se.call(se.fresh(), "Complement", maxI) }, maxI + 1},
			{"NewSet().AddRange(1,MaxInt32)", func() Value { s := se.fresh(); se.call(s, "AddRange", int64(1), maxI); return s }, maxI},
			{"NewSet().Add(0).Complement(MaxInt32)", func() Value { s := se.fresh(); se.call(s, "Add", int64(0)); return se.call(s, "Complement", maxI) }, maxI},
			{"NewSet().AddRange(0,MaxInt32-1).Add(MaxInt32)", func() Value {
				s := se.fresh()
				se.call(s, "AddRange", int64(0), maxI-1)
				se.call(s, "Add", maxI)
				return s
			}, maxI + 1},
		}
		// small sets at the upper limit: every observer, String included
		type small struct {
			name string
			mk   func() Value
			str  string
			len  int64
		}
		smalls := []small{
			{"NewSet().Add(MaxInt32)", func() Value { s := se.fresh(); se.call(s, "Add", maxI); return s }, fmt.Sprintf("[%d]", maxI), 1},
			{"NewSet().AddRange(MaxInt32-1,MaxInt32)", func() Value { s := se.fresh(); se.call(s, "AddRange", maxI-1, maxI); return s }, fmt.Sprintf("[%d %d]", maxI-1, maxI), 2},
			{"NewSet().Add(0).Add(MaxInt32)", func() Value { s := se.fresh(); se.call(s, "Add", int64(0)); se.call(s, "Add", maxI); return s }, fmt.Sprintf("[0 %d]", maxI), 2},
			{"NewSet().AddRange(0,MaxInt32-1).Complement(MaxInt32)", func() Value {
				s := se.fresh()
				se.call(s, "AddRange", int64(0), maxI-1)
				return se.call(s, "Complement", maxI)
			}, fmt.Sprintf("[%d]", maxI), 1},
		}
		for _, sm := range smalls {
			func() {
				defer func() {
					if p := recover(); p != nil {
						switch x := p.(type) {
						case goPanic:
							found["String at the limit"] = sm.name + ".String(): " + x.msg + " at " + x.pos
						case nilDeref:
							found["String at the limit"] = sm.name + ".String(): nil dereference at " + x.pos
						default:
							panic(p)
						}
					}
				}()
				s := sm.mk()
				if got, _ := se.call(s, "Len").(int64); got != sm.len {
					found["Len wrong"] = fmt.Sprintf("%s.Len() = %d, the set has %d elements", sm.name, got, sm.len)
				}
				if got, _ := se.call(s, "String").(string); got != sm.str {
					found["String wrong"] = fmt.Sprintf("%s.String() = %q, the elements are %s", sm.name, clip(got, 60), sm.str)
				}
			}()
		}
		for _, pr := range probes {
			s := pr.mk()
			if got, _ := se.call(s, "Len").(int64); got != pr.len {
				found["Len wrong"] = fmt.Sprintf("%s.Len() = %d, the set has %d elements", pr.name, got, pr.len)
			}
			if got, _ := se.call(s, "Has", maxI).(bool); !got {
				found["Has wrong"] = fmt.Sprintf("%s.Has(MaxInt32) = false", pr.name)
			}
			cp := se.call(s, "Copy")
			if eq, _ := se.call(cp, "Equal", s).(bool); !eq {
				found["Equal wrong"] = fmt.Sprintf("%s is not Equal to its Copy", pr.name)
			}
		}
	}()
	for _, rs := range out {
		for _, x := range rs {
			if _, ok := found[x.key]; !ok {
				found[x.key] = x.what // jobs are ordered by history size: the first witness is a smallest one
			}
		}
	}
	return found, len(jobs), nil
}

func sortedFindingKeys(m map[string]string) []string {
	var ks []string
	for k := range m {
		ks = append(ks, k)
	}
	sort.Strings(ks)
	return ks
}

var _ = types.Typ

func parallelChunks(n int, f func(lo, hi int)) {
	chunks := 64
	if n < chunks {
		chunks = n
	}
	if chunks == 0 {
		return
	}
	parallel(chunks, func(i int) {
		f(i*n/chunks, (i+1)*n/chunks)
	})
}
