package main

// C08, R-whole-compile (random part): seeded random grammars over concrete
// leaves only — characters (some hostile), classes as ranges, dot, names
// (defined and undefined), predicates, actions, state changes, captures and
// empty literals — taken through all of Compile under the eight option sets.
// Whatever the generator says about such a grammar (unused rules, undefined
// names, left recursion are warnings without -strict), the file it writes
// must parse and type-check.

import (
	"fmt"
	"math/rand"
	"strings"
)

func randomWholeCases(seed int64, n int) []wholeCase {
	rng := rand.New(rand.NewSource(seed))
	chars := []string{"a", "b", "x", "*", "/", "%", "'", "\"", "\\", "\n", "é", "\U0010FFFF", "\x00"}
	var gen func(depth int, names []string, acts *int) *gexpr
	gen = func(depth int, names []string, acts *int) *gexpr {
		if depth == 0 || rng.Intn(4) == 0 {
			switch rng.Intn(12) {
			case 0, 1, 2:
				return gN(names[rng.Intn(len(names))])
			case 3, 4:
				return gC(chars[rng.Intn(len(chars))])
			case 5:
				lo, hi := chars[rng.Intn(3)], chars[rng.Intn(3)]
				if lo > hi {
					// an inverted range next to a dot makes -switch write a case label for every code point
					// (a 15 MB file from the real generator, more steps than the evaluation allows)
					lo, hi = hi, lo
				}
				return &gexpr{Op: "range", S: lo + hi}
			case 6:
				return gDot()
			case 7:
				return gNil()
			case 8:
				*acts++
				return gPredS(fmt.Sprintf("__pred%d()", *acts))
			case 9:
				*acts++
				return gActS(fmt.Sprintf("__act%d(text)", *acts))
			case 10:
				*acts++
				return &gexpr{Op: "state", S: fmt.Sprintf("__st%d()", *acts)}
			default:
				return gLit([]string{"ab", "*/", "/*", "%d", "package"}[rng.Intn(5)])
			}
		}
		switch rng.Intn(11) {
		case 0, 1:
			return gSeq(gen(depth-1, names, acts), gen(depth-1, names, acts))
		case 2:
			return gSeq(gen(depth-1, names, acts), gen(depth-1, names, acts), gen(depth-1, names, acts))
		case 3, 4:
			return gAlt(gen(depth-1, names, acts), gen(depth-1, names, acts))
		case 5:
			return gAlt(gen(depth-1, names, acts), gen(depth-1, names, acts), gen(depth-1, names, acts))
		case 6:
			return gQ(gen(depth-1, names, acts))
		case 7:
			return gStar(gen(depth-1, names, acts))
		case 8:
			return gPlus(gen(depth-1, names, acts))
		case 9:
			if rng.Intn(2) == 0 {
				return gAnd(gen(depth-1, names, acts))
			}
			return gNot(gen(depth-1, names, acts))
		default:
			return gPush(gen(depth-1, names, acts))
		}
	}
	var out []wholeCase
	for i := 0; i < n; i++ {
		defined := []string{"S", "A"}
		if rng.Intn(2) == 0 {
			defined = append(defined, "B")
		}
		names := append([]string{}, defined...)
		if rng.Intn(5) == 0 {
			names = append(names, "Undef")
		}
		acts := 0
		var kv []any
		var descr []string
		for _, d := range defined {
			e := gen(2+rng.Intn(2), names, &acts)
			kv = append(kv, d, e)
			descr = append(descr, d+" <- "+gString(e))
		}
		if rng.Intn(6) == 0 {
			// a duplicate definition
			kv = append(kv, "A", gC("q"))
			descr = append(descr, "A <- 'q'")
		}
		w := wc("random grammars", fmt.Sprintf("#%d %s", i, strings.Join(descr, "; ")), kv...)
		w.anyWarnings = true
		out = append(out, w)
	}
	return out
}
