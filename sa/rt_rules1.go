package main

// Runtime rules, part 1: reset/reuse (C12), instance confinement (C14),
// sentinel (C13).

import (
	"fmt"
	"go/ast"
	"go/constant"
	"go/token"
	"go/types"
	"sort"
	"strings"

	"golang.org/x/tools/go/ssa"
)

// R-reset-complete: every Init-level variable written by a closure other than
// reset is re-assigned by reset on every path, from values independent of the
// per-parse state. `tree` is the listed exception (see R-tree-bounded).
func rtResetComplete(a *aggregator, v *rtView) {
	cfg := v.in.Name
	reset := v.cl["p.reset"]
	if reset == nil {
		a.Und("R-reset-complete", "Init/reset", cfg, "", "closure assigned to p.reset not found")
		return
	}
	S := map[string]token.Pos{}
	writers := map[string][]string{}
	fam := v.resetFamily()
	// the steps of reset: the helper closures it calls in a block every return of reset is behind
	type step struct {
		h   *ssa.Function
		blk *ssa.BasicBlock
	}
	var steps []step
	var gather func(f *ssa.Function, at *ssa.BasicBlock, depth int)
	gather = func(f *ssa.Function, at *ssa.BasicBlock, depth int) {
		if depth > 4 {
			return
		}
		for h, calls := range v.calledClosures(f) {
			if !fam[h] {
				continue
			}
			for _, c := range calls {
				if !allReturnsDominatedBy(f, c.Block()) {
					continue
				}
				blk := at
				if f == reset {
					blk = c.Block()
				}
				steps = append(steps, step{h, blk})
				gather(h, blk, depth+1)
			}
		}
	}
	gather(reset, nil, 0)
	consider := func(f *ssa.Function, label string) {
		if fam[f] {
			return
		}
		for n, p := range v.writtenVars(f) {
			if _, ok := S[n]; !ok {
				S[n] = p
			}
			writers[n] = append(writers[n], label)
		}
	}
	for n, f := range v.cl {
		consider(f, n)
	}
	for i, f := range v.ruleFns {
		consider(f, fmt.Sprintf("rule function #%d", i))
	}
	var names []string
	for n := range S {
		names = append(names, n)
	}
	sort.Strings(names)
	for _, n := range names {
		if n == "tree" {
			continue // token buffer: not cleared; dead tail proven by R-tree-bounded
		}
		construct := "Init/reset assigns " + n
		// whole-variable stores in reset
		var stores []*ssa.Store
		instrsOf(reset, func(in ssa.Instruction) {
			if st, ok := in.(*ssa.Store); ok {
				if nm, whole := v.varOf(st.Addr); nm == n && whole {
					stores = append(stores, st)
				}
			}
		})
		must := false
		for _, st := range stores {
			if allReturnsDominatedBy(reset, st.Block()) {
				must = true
			}
		}
		// … or in a step of reset, on every path through that step
		for _, sp := range steps {
			instrsOf(sp.h, func(in ssa.Instruction) {
				if st, ok := in.(*ssa.Store); ok {
					if nm, whole := v.varOf(st.Addr); nm == n && whole {
						stores = append(stores, st)
						if allReturnsDominatedBy(sp.h, st.Block()) && sp.blk != nil && allReturnsDominatedBy(reset, sp.blk) {
							must = true
						}
					}
				}
			})
		}
		if !must {
			sort.Strings(writers[n])
			a.Bad("R-reset-complete", construct, cfg, v.in.srcPos(reset.Pos()),
				fmt.Sprintf("closure variable %q is written by {%s} but reset does not assign it on every path: its value survives Reset and leaks into the next parse", n, strings.Join(uniq(writers[n]), ", ")))
			continue
		}
		// independence of the stored value from per-parse state
		dep := ""
		for _, st := range stores {
			if d := v.dependsOnState(st.Val, S, map[ssa.Value]bool{}); d != "" {
				dep = d
			}
		}
		a.Decide(dep == "", "R-reset-complete", construct, cfg, v.in.srcPos(stores[0].Pos()),
			"assigned in a block dominating every return of reset, from constants / fresh allocations / p.Buffer only",
			fmt.Sprintf("reset assigns %q from a value that depends on per-parse state (%s)", n, dep))
	}
	if len(names) < 2 {
		a.Und("R-reset-complete", "Init/state variables", cfg, "", fmt.Sprintf("only %d written state variables found (expected position, tokenIndex, …)", len(names)))
	}
}

func uniq(xs []string) []string {
	sort.Strings(xs)
	var out []string
	for i, x := range xs {
		if i == 0 || xs[i-1] != x {
			out = append(out, x)
		}
	}
	return out
}

// dependsOnState: does value x read one of the state variables in S?
func (v *rtView) dependsOnState(x ssa.Value, S map[string]token.Pos, seen map[ssa.Value]bool) string {
	if seen[x] {
		return ""
	}
	seen[x] = true
	switch y := x.(type) {
	case *ssa.UnOp:
		if y.Op == token.MUL {
			if n, _ := v.varOf(y.X); n != "" {
				if _, in := S[n]; in && n != "buffer" {
					return "reads " + n
				}
			}
		}
		return v.dependsOnState(y.X, S, seen)
	case *ssa.Const, *ssa.MakeMap, *ssa.MakeSlice, *ssa.Alloc, *ssa.Global, *ssa.FreeVar, *ssa.Parameter:
		return ""
	}
	if in, ok := x.(ssa.Instruction); ok {
		for _, op := range in.Operands(nil) {
			if op != nil && *op != nil {
				if d := v.dependsOnState(*op, S, seen); d != "" {
					return d
				}
			}
		}
	}
	return ""
}

// R-tree-bounded: every read of the token buffer `tree.tree` inside Init's
// closures is bounded above by tokenIndex, so entries beyond tokenIndex left by
// an earlier parse are dead. (AST + types: identifiers resolved to Init's
// variables.)
func rtTreeBounded(a *aggregator, v *rtView) {
	cfg := v.in.Name
	if !v.in.Cfg.Bools["Ast"] {
		return
	}
	fd := v.in.funcDeclAST(v.in.Cfg.Struct, "Init")
	if fd == nil {
		a.Und("R-tree-bounded", "Init", cfg, "", "Init not found")
		return
	}
	info := v.in.Info
	var treeObj, tokIdxObj types.Object
	ast.Inspect(fd.Body, func(n ast.Node) bool {
		if as, ok := n.(*ast.AssignStmt); ok && as.Tok == token.DEFINE && len(as.Lhs) == 1 {
			if id, ok := as.Lhs[0].(*ast.Ident); ok && id.Name == "tree" && treeObj == nil {
				treeObj = info.Defs[id]
			}
		}
		if vs, ok := n.(*ast.ValueSpec); ok {
			for _, id := range vs.Names {
				if id.Name == "tokenIndex" {
					tokIdxObj = info.Defs[id]
				}
			}
		}
		return true
	})
	if treeObj == nil || tokIdxObj == nil {
		a.Und("R-tree-bounded", "Init", cfg, "", "variables tree/tokenIndex not found in Init")
		return
	}
	isTreeTree := func(e ast.Expr) bool {
		se, ok := e.(*ast.SelectorExpr)
		if !ok || se.Sel.Name != "tree" {
			return false
		}
		id, ok := se.X.(*ast.Ident)
		return ok && info.Uses[id] == treeObj
	}
	isTokIdx := func(e ast.Expr) bool {
		id, ok := ast.Unparen(e).(*ast.Ident)
		return ok && info.Uses[id] == tokIdxObj
	}
	isTokIdxMinus1 := func(e ast.Expr) bool {
		be, ok := ast.Unparen(e).(*ast.BinaryExpr)
		if !ok || be.Op != token.SUB || !isTokIdx(be.X) {
			return false
		}
		tv := info.Types[be.Y]
		return tv.Value != nil && constant.Compare(tv.Value, token.EQL, constant.MakeInt64(1))
	}
	n, bad := 0, []string{}
	var stack []ast.Node
	ast.Inspect(fd.Body, func(nd ast.Node) bool {
		if nd == nil {
			stack = stack[:len(stack)-1]
			return true
		}
		stack = append(stack, nd)
		e, ok := nd.(ast.Expr)
		if !ok || !isTreeTree(e) {
			return true
		}
		parent := stack[len(stack)-2]
		n++
		switch p := parent.(type) {
		case *ast.SliceExpr:
			if p.X == e && p.High != nil && isTokIdx(p.High) {
				return true
			}
		case *ast.IndexExpr:
			if p.X == e && isTokIdxMinus1(p.Index) {
				return true
			}
		case *ast.AssignStmt:
			for _, l := range p.Lhs {
				if l == e {
					return true // assignment to tree.tree (write)
				}
			}
		}
		bad = append(bad, v.in.srcPos(e.Pos()))
		return true
	})
	a.Decide(len(bad) == 0 && n >= 2, "R-tree-bounded", "Init/reads of tree.tree", cfg, v.in.srcPos(fd.Pos()),
		fmt.Sprintf("%d use(s) of tree.tree: each is a write, a slice with upper bound tokenIndex, or the index tokenIndex-1", n),
		fmt.Sprintf("tree.tree is read without the tokenIndex bound at %s (of %d uses): tokens left by an earlier parse beyond tokenIndex become visible", strings.Join(bad, ", "), n))
}

// R-sentinel / R-reset-buffer: on every path through reset, the rune buffer is
// recomputed from p.Buffer, ends with endSymbol, and the captured `buffer` is
// the same slice as p.buffer.
func rtSentinel(a *aggregator, v *rtView) {
	cfg := v.in.Name
	reset := v.cl["p.reset"]
	if reset == nil {
		a.Und("R-sentinel", "Init/reset", cfg, "", "reset not found")
		return
	}
	endObj := v.in.Pkg.Scope().Lookup("endSymbol")
	var endVal constant.Value
	if k, ok := endObj.(*types.Const); ok {
		endVal = k.Val()
	}
	if endVal == nil {
		a.Und("R-sentinel", "endSymbol", cfg, "", "constant endSymbol not found")
		return
	}
	ev, _ := constant.Int64Val(endVal)
	a.Decide(ev > 0x10FFFF, "R-sentinel", "endSymbol outside the rune range", cfg, "tree/peg.go.tmpl:12",
		fmt.Sprintf("endSymbol = %#x > unicode.MaxRune, so []rune(string) can never contain it", ev),
		fmt.Sprintf("endSymbol = %#x is a value []rune(Buffer) can contain: input could be mistaken for end of input", ev))
	isEnd := func(x ssa.Value) bool {
		k, ok := x.(*ssa.Const)
		return ok && k.Value != nil && constant.Compare(k.Value, token.EQL, endVal)
	}
	isLoadPBuf := func(x ssa.Value) bool {
		u, ok := x.(*ssa.UnOp)
		return ok && u.Op == token.MUL && v.isRecvField(u.X, "buffer")
	}
	// abstract state along each acyclic path, for the two places the runes live in:
	// the parser's field (F) and the variable captured by the rule functions (C)
	type loc struct{ fromBuffer, lastIsEnd bool }
	isLoadCap := func(x ssa.Value) bool { return v.isLoadOfVar(x, "buffer") }
	whichLoad := func(x ssa.Value) int { // 0 F, 1 C, -1 neither
		if isLoadPBuf(x) {
			return 0
		}
		if isLoadCap(x) {
			return 1
		}
		return -1
	}
	var rets []*ssa.BasicBlock
	instrsOf(reset, func(in ssa.Instruction) {
		if _, ok := in.(*ssa.Return); ok {
			rets = append(rets, in.Block())
		}
	})
	nPaths := 0
	var bad []string
	for _, rb := range rets {
		paths, trunc := pathsTo(reset, rb, 200)
		if trunc {
			a.Und("R-sentinel", "Init/reset", cfg, "", "too many paths")
			return
		}
		for _, p := range paths {
			nPaths++
			var st [2]loc
			assigned := [2]bool{}
			for bi, b := range p.Blocks {
				for _, in := range b.Instrs {
					switch x := in.(type) {
					case *ssa.Store:
						dst := -1
						if v.isRecvField(x.Addr, "buffer") {
							dst = 0
						} else if n, whole := v.varOf(x.Addr); n == "buffer" && whole {
							dst = 1
						}
						if dst < 0 {
							continue
						}
						assigned[dst] = true
						switch val := x.Val.(type) {
						case *ssa.Convert:
							// []rune(p.Buffer)
							if u, ok := val.X.(*ssa.UnOp); ok && v.isRecvField(u.X, "Buffer") {
								st[dst] = loc{true, false}
							} else {
								st[dst] = loc{}
							}
						case *ssa.Call:
							if bi2, ok := val.Call.Value.(*ssa.Builtin); ok && bi2.Name() == "append" && len(val.Call.Args) == 2 && whichLoad(val.Call.Args[0]) >= 0 && appendsEnd(val.Call.Args[1], isEnd) {
								src := st[whichLoad(val.Call.Args[0])]
								st[dst] = loc{src.fromBuffer, true}
							} else {
								st[dst] = loc{}
							}
						default:
							if w := whichLoad(x.Val); w >= 0 {
								st[dst] = st[w] // a copy of the other place
							} else {
								st[dst] = loc{}
							}
						}
					case *ssa.If:
						if bi+1 < len(p.Blocks) {
							truth := b.Succs[0] == p.Blocks[bi+1]
							// X[len(X)-1] != endSymbol  (false edge => last is end), X a load of F or C
							if bo, ok := x.Cond.(*ssa.BinOp); ok && (bo.Op == token.NEQ || bo.Op == token.EQL) {
								for w, isL := range []func(ssa.Value) bool{isLoadPBuf, isLoadCap} {
									if isLastElemLoad(bo.X, isL) && isEnd(bo.Y) || isLastElemLoad(bo.Y, isL) && isEnd(bo.X) {
										if (bo.Op == token.NEQ) != truth {
											st[w].lastIsEnd = true
										}
									}
								}
							}
						}
					}
				}
			}
			okAll := assigned[0] && assigned[1] && st[0].fromBuffer && st[0].lastIsEnd && st[1].fromBuffer && st[1].lastIsEnd
			if !okAll {
				bad = append(bad, fmt.Sprintf("path %s ends with p.buffer{recomputed-from-Buffer=%v sentinel-last=%v} captured buffer{recomputed-from-Buffer=%v sentinel-last=%v}", p.String(), st[0].fromBuffer, st[0].lastIsEnd, assigned[1] && st[1].fromBuffer, assigned[1] && st[1].lastIsEnd))
			}
		}
	}
	o := "every path through reset recomputes p.buffer from []rune(p.Buffer), leaves endSymbol as its last element and copies it to the captured buffer"
	if len(bad) > 0 && nPaths > 0 {
		// reset is written in another way than the path rule knows: its effect is evaluated instead
		if sb, und, n := bufferSemantics(v); und == "" && len(sb) == 0 && n > 10 {
			a.OK("R-sentinel", "Init/reset re-establishes the sentinel", cfg, v.in.srcPos(reset.Pos()),
				fmt.Sprintf("the conversion is not the plain []rune(p.Buffer)+append form; decided by R-buffer-semantics: %d evaluated states of Init and reset leave []rune(Buffer)+endSymbol in both places", n))
			return
		} else if und == "" && len(sb) > 0 {
			bad = append(sb, bad...)
		}
	}
	a.Decide(len(bad) == 0 && nPaths > 0, "R-sentinel", "Init/reset re-establishes the sentinel", cfg, v.in.srcPos(reset.Pos()),
		fmt.Sprintf("%d path(s): %s", nPaths, o), strings.Join(bad, "; "))
}

func appendsEnd(arg ssa.Value, isEnd func(ssa.Value) bool) bool {
	// varargs: slice of a fresh array whose single element is endSymbol
	s, ok := arg.(*ssa.Slice)
	if !ok {
		return false
	}
	al, ok := s.X.(*ssa.Alloc)
	if !ok {
		return false
	}
	n, good := 0, true
	for _, r := range *al.Referrers() {
		if ia, ok := r.(*ssa.IndexAddr); ok {
			for _, rr := range *ia.Referrers() {
				if st, ok := rr.(*ssa.Store); ok {
					n++
					if !isEnd(st.Val) {
						good = false
					}
				}
			}
		}
	}
	// the last appended element must be the sentinel: accept only the single-element form
	return n == 1 && good
}

// isLastElemLoad: x == *(&B[len(B)-1]) with B a load of p.buffer.
func isLastElemLoad(x ssa.Value, isLoadPBuf func(ssa.Value) bool) bool {
	u, ok := x.(*ssa.UnOp)
	if !ok || u.Op != token.MUL {
		return false
	}
	ia, ok := u.X.(*ssa.IndexAddr)
	if !ok || !isLoadPBuf(ia.X) {
		return false
	}
	bo, ok := ia.Index.(*ssa.BinOp)
	if !ok || bo.Op != token.SUB {
		return false
	}
	k, ok := bo.Y.(*ssa.Const)
	if !ok || k.Value == nil || !constant.Compare(k.Value, token.EQL, constant.MakeInt64(1)) {
		return false
	}
	call, ok := bo.X.(*ssa.Call)
	if !ok {
		return false
	}
	b, ok := call.Call.Value.(*ssa.Builtin)
	return ok && b.Name() == "len" && isLoadPBuf(call.Call.Args[0])
}

// R-republish: parse stores the captured token buffer back into p.tokens on
// every path; the Size option only replaces p.tokens with an empty buffer.
func rtRepublish(a *aggregator, v *rtView) {
	cfg := v.in.Name
	if !v.in.Cfg.Bools["Ast"] {
		return
	}
	parse := v.cl["p.parse"]
	if parse == nil {
		a.Und("R-republish", "Init/parse", cfg, "", "parse closure not found")
		return
	}
	ok := false
	var pos token.Pos
	instrsOf(parse, func(in ssa.Instruction) {
		if st, isSt := in.(*ssa.Store); isSt && v.isRecvField(st.Addr, "tokens") && v.isLoadOfVar(st.Val, "tree") {
			if allReturnsDominatedBy(parse, st.Block()) {
				ok = true
				pos = st.Pos()
			}
		}
	})
	if !ok && v.publishesViaHelper(parse) {
		// parse hands the publishing to a helper closure of the runtime: the store is not in parse, and
		// what Tokens() holds after a parse is compared with the derivation by R-parse-semantics
		a.OK("R-republish", "Init/parse publishes tree to p.tokens", cfg, v.in.srcPos(parse.Pos()), "p.tokens is stored by a helper closure that parse calls: the dominance rule on the store does not apply (decided by R-parse-semantics and R-reuse-semantics: the published tokens of scripted parses)")
	} else {
		a.Decide(ok, "R-republish", "Init/parse publishes tree to p.tokens", cfg, v.in.srcPos(pos),
			"p.tokens = tree in a block dominating every return of parse",
			"parse does not store the captured token buffer into p.tokens on every path: Tokens()/AST()/Execute see a stale or empty buffer")
	}
	// Size
	size := v.in.SSA.Func("Size")
	if size == nil || len(size.AnonFuncs) != 1 {
		a.Und("R-republish", "Size option", cfg, "", "func Size or its closure not found")
		return
	}
	cl := size.AnonFuncs[0]
	var stores, good int
	instrsOf(cl, func(in ssa.Instruction) {
		st, isSt := in.(*ssa.Store)
		if !isSt {
			return
		}
		if _, local := st.Addr.(*ssa.Alloc); local {
			return
		}
		if fa, ok := st.Addr.(*ssa.FieldAddr); ok {
			if _, local := fa.X.(*ssa.Alloc); local {
				// building the tokens literal: tree: make([]token, 0, size)
				if ms, ok := st.Val.(*ssa.MakeSlice); ok {
					if k, ok := ms.Len.(*ssa.Const); ok && k.Value != nil && constant.Sign(k.Value) == 0 {
						good++
					}
				}
				return
			}
		}
		stores++
		if v.isRecvField(st.Addr, "tokens") {
			good++
		}
	})
	if stores == 1 && good == 1 {
		// the one external store is p.tokens, but its value is not the literal this rule reads (a
		// constructor builds it): that Size changes nothing but capacity is decided by R-reuse-semantics,
		// which runs the used instance with Size absent, 0, 1, 2 and 64
		storesCall := false
		instrsOf(cl, func(in ssa.Instruction) {
			if st, ok := in.(*ssa.Store); ok && v.isRecvField(st.Addr, "tokens") {
				val := st.Val
				if u, ok := val.(*ssa.UnOp); ok {
					val = u.X
				}
				if _, ok := val.(*ssa.Call); ok {
					storesCall = true
				}
			}
		})
		if storesCall {
			a.OK("R-republish", "Size option writes only an empty p.tokens", cfg, v.in.srcPos(cl.Pos()), "the option's only external store is p.tokens, built by a constructor: the literal rule does not apply (decided by R-reuse-semantics over the Size values)")
			return
		}
	}
	a.Decide(stores == 1 && good == 2, "R-republish", "Size option writes only an empty p.tokens", cfg, v.in.srcPos(cl.Pos()),
		"the option's only external store is p.tokens = tokens{tree: make([]token, 0, size)} (length 0)",
		fmt.Sprintf("the Size option does more than replace p.tokens by an empty buffer (%d external store(s), %d recognised)", stores, good))
}

// R-U-generic: no conversion narrows a U-typed value to a fixed type smaller
// than the largest member of U's type set, except the documented Trim(uint32).
func rtUGeneric(a *aggregator, v *rtView) {
	cfg := v.in.Name
	n := 0
	var bad []string
	for _, f := range v.all {
		instrsOf(f, func(in ssa.Instruction) {
			var cvX ssa.Value
			var cv ssa.Value
			switch y := in.(type) {
			case *ssa.Convert:
				cvX, cv = y.X, y
			case *ssa.MultiConvert:
				cvX, cv = y.X, y
			default:
				return
			}
			if _, isTP := cvX.Type().(*types.TypeParam); !isTP {
				return
			}
			n++
			b, ok := cv.Type().Underlying().(*types.Basic)
			if !ok {
				return
			}
			switch b.Kind() {
			case types.Int, types.Uint, types.Int64, types.Uint64, types.Uintptr:
				return
			}
			// listed exception: argument of Trim
			for _, r := range *cv.Referrers() {
				if call, ok := r.(*ssa.Call); ok && strings.HasSuffix(calleeName(call), ".Trim") {
					return
				}
			}
			bad = append(bad, fmt.Sprintf("%s: %s(%s) in %s", v.in.srcPos(in.Pos()), b.Name(), cvX.Name(), f.Name()))
		})
	}
	// arithmetic in the offset type: U may be as small as uint8, so a value computed in U must not
	// exceed what an offset or a token count can reach. The runtime only ever steps (x+1, x-1 for the
	// last token, x+U(len(…)) for a replayed run of tokens); products, shifts and sums of two offsets
	// wrap for small U long before the input does
	nA := 0
	var badA []string
	for _, f := range v.all {
		instrsOf(f, func(in ssa.Instruction) {
			bo, ok := in.(*ssa.BinOp)
			if !ok {
				return
			}
			if _, isTP := bo.Type().(*types.TypeParam); !isTP {
				return
			}
			nA++
			isOne := func(x ssa.Value) bool {
				k, ok := x.(*ssa.Const)
				return ok && k.Value != nil && k.Value.String() == "1"
			}
			isLen := func(x ssa.Value) bool {
				for {
					switch y := x.(type) {
					case *ssa.Convert:
						x = y.X
						continue
					case *ssa.MultiConvert:
						x = y.X
						continue
					case *ssa.ChangeType:
						x = y.X
						continue
					case *ssa.Call:
						if b, ok := y.Call.Value.(*ssa.Builtin); ok && b.Name() == "len" {
							return true
						}
					}
					return false
				}
			}
			// an integer that is not itself an offset (a length, an index into a literal), converted to U
			isPlainInt := func(x ssa.Value) bool {
				switch y := x.(type) {
				case *ssa.Convert:
					if _, tp := y.X.Type().(*types.TypeParam); tp {
						return false
					}
					return !derivesFromOffset(y.X, map[ssa.Value]bool{})
				case *ssa.MultiConvert:
					if _, tp := y.X.Type().(*types.TypeParam); tp {
						return false
					}
					return !derivesFromOffset(y.X, map[ssa.Value]bool{})
				}
				return false
			}
			switch bo.Op {
			case token.ADD:
				if isOne(bo.Y) || isOne(bo.X) || isLen(bo.Y) || isLen(bo.X) || isPlainInt(bo.Y) || isPlainInt(bo.X) {
					return
				}
			case token.SUB:
				if isOne(bo.Y) {
					return
				}
			}
			badA = append(badA, fmt.Sprintf("%s: %s %s %s in %s", v.in.srcPos(in.Pos()), bo.X.Name(), bo.Op, bo.Y.Name(), f.Name()))
		})
	}
	a.Decide(len(badA) == 0, "R-U-arith", "runtime/arithmetic in the offset type only steps", cfg, "",
		fmt.Sprintf("%d operation(s) with a result of type U: each is x+1, x-1 or x+U(n) for a length or index n that is not itself an offset", nA),
		"a value of the offset type is computed by an operation that can wrap for small U (uint8, uint16) on inputs those types can hold: "+strings.Join(badA, "; "))
	a.Decide(len(bad) == 0, "R-U-generic", "runtime/conversions of U-typed values", cfg, "",
		fmt.Sprintf("%d conversion(s) from U examined: all to int/uint/64-bit types, or the listed Trim(uint32(tokenIndex)) (differs only beyond 2^32 tokens)", n),
		"a U-typed offset is narrowed: "+strings.Join(bad, "; "))
}

// R-no-shared-write / R-state-is-local (C14)
func rtConfinement(a *aggregator, v *rtView) {
	cfg := v.in.Name
	file := v.in.Fset.Position(v.in.File.Pos()).Filename
	gs := globalStores(v.all, v.ea, v.in.srcPos)
	a.Decide(len(gs) == 0, "R-no-shared-write", "generated file/stores to package-level variables", cfg, "",
		fmt.Sprintf("%d functions of the generated file scanned: no store, map update, append, copy or delete targets a package-level variable", len(v.all)),
		strings.Join(gs, "; "))
	// package-level variables of the generated file: immutable value types only
	var bad []string
	nG := 0
	for _, m := range v.in.SSA.Members {
		g, ok := m.(*ssa.Global)
		if !ok || v.in.Fset.Position(g.Pos()).Filename != file {
			continue
		}
		nG++
		if gt := g.Type().(*types.Pointer).Elem(); hasPointers(gt, 0) {
			// a slice of reference-free elements that is only ever read (element
			// loads, len, range) is as good as an array: nobody can write its storage
			sl, isSlice := gt.Underlying().(*types.Slice)
			if !isSlice || hasPointers(sl.Elem(), 0) {
				bad = append(bad, fmt.Sprintf("%s %s holds references (shared mutable storage reachable by every instance)", g.Name(), gt))
			} else {
				for _, f := range v.all {
					if f.Name() == "init" {
						continue
					}
					instrsOf(f, func(in ssa.Instruction) {
						u, ok := in.(*ssa.UnOp)
						if !ok || u.Op != token.MUL || u.X != ssa.Value(g) {
							return
						}
						for _, r := range *u.Referrers() {
							switch x := r.(type) {
							case *ssa.IndexAddr:
								for _, rr := range *x.Referrers() {
									if l, ok := rr.(*ssa.UnOp); !ok || l.Op != token.MUL {
										bad = append(bad, fmt.Sprintf("%s: an element of the shared slice %s is addressed for something other than a load", v.in.srcPos(x.Pos()), g.Name()))
									}
								}
							case *ssa.Range, *ssa.DebugRef:
							case *ssa.Call:
								if n := calleeName(x); n != "builtin.len" && n != "builtin.cap" {
									bad = append(bad, fmt.Sprintf("%s: the shared slice %s is passed to %s", v.in.srcPos(x.Pos()), g.Name(), n))
								}
							default:
								bad = append(bad, fmt.Sprintf("%s: the shared slice %s is used other than by element load (%T): its storage may be written through the copy", v.in.srcPos(r.Pos()), g.Name(), r))
							}
						}
					})
				}
			}
		}
		// the address must not escape: only element loads
		for _, f := range v.all {
			instrsOf(f, func(in ssa.Instruction) {
				for _, op := range in.Operands(nil) {
					if op == nil || *op != ssa.Value(g) {
						continue
					}
					switch x := in.(type) {
					case *ssa.IndexAddr:
						for _, r := range *x.Referrers() {
							if u, ok := r.(*ssa.UnOp); !ok || u.Op != token.MUL {
								bad = append(bad, fmt.Sprintf("%s: address of an element of %s is taken", v.in.srcPos(in.Pos()), g.Name()))
							}
						}
					case *ssa.UnOp:
					default:
						if f.Name() != "init" {
							bad = append(bad, fmt.Sprintf("%s: %s is used other than by element load", v.in.srcPos(in.Pos()), g.Name()))
						}
					}
				}
			})
		}
	}
	// option constructors (functions returning func(*Parser) error): one option value may
	// be applied to many instances, so the closure it returns must not carry storage made
	// once by the constructor (a slice, map, pointer …) nor write its captured variables
	var badOpt []string
	nOpt := 0
	for _, f := range v.all {
		if f.Parent() != nil || f.Signature.Results().Len() != 1 {
			continue
		}
		if _, isFn := f.Signature.Results().At(0).Type().Underlying().(*types.Signature); !isFn || f.Signature.Recv() != nil {
			continue
		}
		instrsOf(f, func(in ssa.Instruction) {
			mc, ok := in.(*ssa.MakeClosure)
			if !ok {
				return
			}
			nOpt++
			fn := mc.Fn.(*ssa.Function)
			for bi, b := range mc.Bindings {
				t := b.Type()
				if al, ok := b.(*ssa.Alloc); ok {
					t = al.Type().(*types.Pointer).Elem() // a captured variable: judge what it holds
				}
				if pointerLike(t) {
					if _, isSig := t.Underlying().(*types.Signature); isSig {
						continue // another option or callback handed through
					}
					name := "a value"
					if bi < len(fn.FreeVars) {
						name = fn.FreeVars[bi].Name()
					}
					badOpt = append(badOpt, fmt.Sprintf("%s: the function returned by %s captures %s of type %s created when the option was built: every parser the option is applied to shares that storage", v.in.srcPos(mc.Pos()), f.Name(), name, t))
				}
			}
			instrsOf(fn, func(in2 ssa.Instruction) {
				if st, ok := in2.(*ssa.Store); ok {
					if fv, ok := st.Addr.(*ssa.FreeVar); ok {
						badOpt = append(badOpt, fmt.Sprintf("%s: the function returned by %s writes its captured variable %s, which all applications of the option share", v.in.srcPos(st.Pos()), f.Name(), fv.Name()))
					}
				}
			})
		})
	}
	if nOpt > 0 {
		a.Decide(len(badOpt) == 0, "R-option-fresh", "generated file/option functions allocate per application", cfg, "",
			fmt.Sprintf("%d option closure(s): none captures storage created by its constructor or writes a captured variable", nOpt), strings.Join(uniq(badOpt), "; "))
	}
	a.Decide(len(bad) == 0 && nG >= 1, "R-state-is-local", "generated file/package-level variables are read-only value tables", cfg, "",
		fmt.Sprintf("%d package-level variable(s): value types without references, only element loads; all other parse state is declared inside Init or reached from the receiver", nG),
		strings.Join(bad, "; "))
}

func hasPointers(t types.Type, depth int) bool {
	if depth > 6 {
		return true
	}
	switch u := t.Underlying().(type) {
	case *types.Basic:
		return u.Kind() == types.UnsafePointer
	case *types.Array:
		return hasPointers(u.Elem(), depth+1)
	case *types.Struct:
		for i := 0; i < u.NumFields(); i++ {
			if hasPointers(u.Field(i).Type(), depth+1) {
				return true
			}
		}
		return false
	}
	return true // pointer, slice, map, chan, func, interface
}

// R-U-offsets (C12): the offset type U is promised to be wide enough for the
// input, nothing else. A quantity kept in U that is stepped (x++, x += n) must
// therefore be an input offset: it has to belong to the class of values that
// are assigned to, compared with or passed as the cursor (the value indexing
// the rune buffer). A counter of another kind (tokens, depth, calls) grows
// with the derivation, not with the input, and wraps for a small U on inputs
// that fit it.
func rtUOffsets(a *aggregator, v *rtView) {
	cfg := v.in.Name
	info, file := v.in.Info, v.in.File
	if info == nil || file == nil {
		a.Und("R-U-offsets", "runtime/quantities kept in the offset type are input offsets", cfg, "", "no type information for this instance")
		return
	}
	isU := func(t types.Type) bool {
		_, ok := t.(*types.TypeParam)
		return ok
	}
	parent := map[types.Object]types.Object{}
	var find func(o types.Object) types.Object
	find = func(o types.Object) types.Object {
		p, ok := parent[o]
		if !ok || p == o {
			parent[o] = o
			return o
		}
		r := find(p)
		parent[o] = r
		return r
	}
	union := func(x, y types.Object) {
		if x == nil || y == nil {
			return
		}
		rx, ry := find(x), find(y)
		if rx != ry {
			parent[rx] = ry
		}
	}
	originVar := func(o types.Object) types.Object {
		if vr, ok := o.(*types.Var); ok {
			return vr.Origin()
		}
		return o
	}
	// the variable or field an expression of type U denotes (through x+1, x-1, x+U(n), parentheses)
	var entity func(e ast.Expr) types.Object
	entity = func(e ast.Expr) types.Object {
		switch x := e.(type) {
		case *ast.ParenExpr:
			return entity(x.X)
		case *ast.Ident:
			if o := info.Uses[x]; o != nil {
				if _, ok := o.(*types.Var); ok && isU(o.Type()) {
					return originVar(o)
				}
			}
			if o := info.Defs[x]; o != nil {
				if _, ok := o.(*types.Var); ok && isU(o.Type()) {
					return originVar(o)
				}
			}
		case *ast.SelectorExpr:
			if sel := info.Selections[x]; sel != nil && sel.Kind() == types.FieldVal && isU(sel.Obj().Type()) {
				return originVar(sel.Obj())
			}
			if o := info.Uses[x.Sel]; o != nil {
				if vr, ok := o.(*types.Var); ok && vr.IsField() {
					if tp := vr.Origin(); isU(tp.Type()) {
						return tp
					}
				}
			}
		case *ast.BinaryExpr:
			if tv, ok := info.Types[x]; ok && isU(tv.Type) && (x.Op == token.ADD || x.Op == token.SUB) {
				if o := entity(x.X); o != nil {
					return o
				}
				return entity(x.Y)
			}
		}
		return nil
	}
	fieldsOf := func(t types.Type) *types.Struct {
		if p, ok := t.(*types.Pointer); ok {
			t = p.Elem()
		}
		if n, ok := t.(*types.Named); ok {
			t = n.Origin().Underlying()
		}
		s, _ := t.Underlying().(*types.Struct)
		return s
	}
	var cursors []types.Object
	type step struct {
		o   types.Object
		pos token.Pos
		txt string
	}
	var steps []step
	ast.Inspect(file, func(n ast.Node) bool {
		switch x := n.(type) {
		case *ast.AssignStmt:
			if len(x.Lhs) == len(x.Rhs) {
				for i := range x.Lhs {
					union(entity(x.Lhs[i]), entity(x.Rhs[i]))
					if x.Tok == token.ASSIGN || x.Tok == token.DEFINE {
						// x = x + n
						if be, ok := x.Rhs[i].(*ast.BinaryExpr); ok && be.Op == token.ADD {
							if l, r := entity(x.Lhs[i]), entity(be); l != nil && l == r {
								steps = append(steps, step{l, x.Pos(), types.ExprString(x.Lhs[i]) + " = " + types.ExprString(x.Rhs[i])})
							}
						}
					}
				}
			}
			if x.Tok == token.ADD_ASSIGN && len(x.Lhs) == 1 {
				if o := entity(x.Lhs[0]); o != nil {
					steps = append(steps, step{o, x.Pos(), types.ExprString(x.Lhs[0]) + " += " + types.ExprString(x.Rhs[0])})
				}
			}
		case *ast.IncDecStmt:
			if o := entity(x.X); o != nil && x.Tok == token.INC {
				steps = append(steps, step{o, x.Pos(), types.ExprString(x.X) + "++"})
			}
		case *ast.ValueSpec:
			if len(x.Names) == len(x.Values) {
				for i := range x.Names {
					union(entity(x.Names[i]), entity(x.Values[i]))
				}
			}
		case *ast.BinaryExpr:
			switch x.Op {
			case token.EQL, token.NEQ, token.LSS, token.LEQ, token.GTR, token.GEQ:
				union(entity(x.X), entity(x.Y))
			}
		case *ast.CallExpr:
			if tv, ok := info.Types[x.Fun]; ok && !tv.IsType() {
				var sig *types.Signature
				if se, ok := x.Fun.(*ast.SelectorExpr); ok {
					if sel := info.Selections[se]; sel != nil {
						if fn, ok := sel.Obj().(*types.Func); ok {
							sig, _ = fn.Origin().Type().(*types.Signature)
						}
					}
				}
				if sig == nil {
					if id, ok := x.Fun.(*ast.Ident); ok {
						if fn, ok := info.Uses[id].(*types.Func); ok {
							sig, _ = fn.Origin().Type().(*types.Signature)
						}
					}
				}
				if sig == nil {
					sig, _ = tv.Type.Underlying().(*types.Signature)
				}
				if sig != nil {
					for i, arg := range x.Args {
						if i < sig.Params().Len() && !(sig.Variadic() && i >= sig.Params().Len()-1) {
							if p := sig.Params().At(i); isU(p.Type()) {
								union(entity(arg), originVar(p))
							}
						}
					}
				}
			}
		case *ast.CompositeLit:
			if tv, ok := info.Types[x]; ok {
				if st := fieldsOf(tv.Type); st != nil {
					for i, el := range x.Elts {
						if kv, ok := el.(*ast.KeyValueExpr); ok {
							if id, ok := kv.Key.(*ast.Ident); ok {
								for j := 0; j < st.NumFields(); j++ {
									if st.Field(j).Name() == id.Name && isU(st.Field(j).Type()) {
										union(entity(kv.Value), originVar(st.Field(j)))
									}
								}
							}
						} else if i < st.NumFields() && isU(st.Field(i).Type()) {
							union(entity(el), originVar(st.Field(i)))
						}
					}
				}
			}
		case *ast.IndexExpr:
			if tv, ok := info.Types[x.X]; ok {
				if sl, ok := tv.Type.Underlying().(*types.Slice); ok {
					if b, ok := sl.Elem().Underlying().(*types.Basic); ok && b.Kind() == types.Int32 {
						if o := entity(x.Index); o != nil {
							cursors = append(cursors, o)
						}
					}
				}
			}
		case *ast.SliceExpr:
			if tv, ok := info.Types[x.X]; ok {
				if sl, ok := tv.Type.Underlying().(*types.Slice); ok {
					if b, ok := sl.Elem().Underlying().(*types.Basic); ok && b.Kind() == types.Int32 {
						for _, ix := range []ast.Expr{x.Low, x.High} {
							if ix != nil {
								if o := entity(ix); o != nil {
									cursors = append(cursors, o)
								}
							}
						}
					}
				}
			}
		}
		return true
	})
	if len(cursors) == 0 {
		a.Und("R-U-offsets", "runtime/quantities kept in the offset type are input offsets", cfg, "", "no value of the offset type indexes the rune buffer: the cursor was not found")
		return
	}
	for _, c := range cursors[1:] {
		union(cursors[0], c)
	}
	root := find(cursors[0])
	var bad []string
	seen := map[string]bool{}
	for _, s := range steps {
		if find(s.o) == root {
			continue
		}
		k := s.o.Name()
		if seen[k] {
			continue
		}
		seen[k] = true
		bad = append(bad, fmt.Sprintf("%s: %s — %s has the offset type but is not an input offset (it is never assigned to, compared with or passed as the cursor)", v.in.srcPos(s.pos), s.txt, s.o.Name()))
	}
	sort.Strings(bad)
	a.Decide(len(bad) == 0 && len(steps) > 0, "R-U-offsets", "runtime/quantities kept in the offset type are input offsets", cfg, "",
		fmt.Sprintf("%d stepping statement(s) on values of type U: each steps a member of the cursor's class (the values assigned to, compared with or passed as the index into the rune buffer), which the end symbol bounds by the input length", len(steps)),
		"a counter that grows with the derivation, not with the input, is kept in the offset type: instantiated with a small unsigned type it wraps on inputs that type can hold, and the result depends on U: "+strings.Join(bad, "; "))
}

// publishesViaHelper: parse calls a named closure of Init that stores the
// receiver's token list.
func (v *rtView) publishesViaHelper(parse *ssa.Function) bool {
	for g := range v.calledClosures(parse) {
		found := false
		instrsOf(g, func(in ssa.Instruction) {
			if st, ok := in.(*ssa.Store); ok && v.isRecvField(st.Addr, "tokens") {
				found = true
			}
		})
		if found {
			return true
		}
	}
	return false
}
