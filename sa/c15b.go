package main

// C15 R-strict-semantics: the part of Compile that follows the emission (the
// -strict handling, formatting and writing) evaluated for the four
// combinations of Strict and "a warning is pending".

import (
	"fmt"
	"go/ast"
	"go/types"
	"strings"
)

func strictSemantics(c *Check, r *Repo) {
	rg := findRegion(r)
	if len(rg.problems) > 0 {
		c.Und("R-strict-semantics", "Compile/tail", "", strings.Join(rg.problems, "; "))
		return
	}
	construct := "Compile/after emission: fails exactly when Strict is set and a warning is pending"
	pos := r.pos(rg.fd.Pos())
	if len(rg.tail) > 0 {
		pos = r.pos(rg.tail[0].Pos())
	}
	var bad []string
	und := ""
	n := 0
	for _, strict := range []bool{false, true} {
		for _, nWarn := range []int{0, 1, 2} {
			func() {
				defer func() {
					if p := recover(); p != nil {
						if u, ok := p.(undecided); ok {
							und = u.msg
							return
						}
						panic(p)
					}
				}()
				it := newInterp(r)
				m := newModel(it, modelOpts{Ast: true})
				t := m.tree
				sf := t.field("Strict")
				if sf == nil {
					panic(undecided{"Tree has no field Strict"})
				}
				sf.v = strict
				for i := 0; i < nWarn; i++ {
					it.invoke(nil, m.method("warn", t), []Value{&Ext{fmt.Sprintf("error: rule 'R%d' used but not defined", i)}})
				}
				stderr := 0
				written := 0
				it.natives["fmt.Fprintln"] = func(it *Interp, args []Value) []Value {
					stderr++
					return []Value{int64(0), Nil{}}
				}
				it.natives["go/token.NewFileSet"] = func(it *Interp, args []Value) []Value { return []Value{&Ext{"fileset"}} }
				it.natives["go/parser.ParseFile"] = func(it *Interp, args []Value) []Value { return []Value{&Ext{"parsed file"}, Nil{}} }
				it.natives["(*go/printer.Config).Fprint"] = func(it *Interp, args []Value) []Value {
					written++
					return []Value{Nil{}}
				}
				it.natives["go/format.Node"] = it.natives["(*go/printer.Config).Fprint"]
				it.natives["(*bytes.Buffer).WriteTo"] = func(it *Interp, args []Value) []Value {
					written++
					return []Value{int64(0), Nil{}}
				}
				info := it.info
				env := newEnv(nil)
				env.define(info.Defs[rg.fd.Recv.List[0].Names[0]], t)
				for _, fld := range rg.fd.Type.Params.List {
					for _, nm := range fld.Names {
						var v Value = &Ext{"parameter " + nm.Name}
						if nm.Name == "file" {
							v = "model.peg"
						}
						env.define(info.Defs[nm], v)
					}
				}
				var results []*ast.Ident
				if rg.fd.Type.Results != nil {
					for _, fld := range rg.fd.Type.Results.List {
						for _, nm := range fld.Names {
							env.define(info.Defs[nm], Nil{})
							results = append(results, nm)
						}
					}
				}
				// locals of the earlier part that the tail reads
				if len(rg.tail) > 0 {
					start := rg.tail[0].Pos()
					for _, st := range rg.tail {
						ast.Inspect(st, func(nd ast.Node) bool {
							id, ok := nd.(*ast.Ident)
							if !ok {
								return true
							}
							v, ok := info.Uses[id].(*types.Var)
							if !ok || v.IsField() || v.Pos() >= start || v.Pos() < rg.fd.Body.Pos() || env.lookup(v) != nil {
								return true
							}
							if types.TypeString(v.Type(), nil) == "bytes.Buffer" {
								env.define(v, &Ext{"bytes.Buffer"})
							} else if _, isSig := v.Type().Underlying().(*types.Signature); isSig {
								env.define(v, &Native{"earlier closure " + v.Name(), func(*Interp, []Value) []Value { return nil }})
							} else {
								env.define(v, it.zero(v.Type()))
							}
							return true
						})
					}
				}
				var frame []deferred
				it.defers = &frame
				// deferred calls registered before the tail
				for _, st := range rg.fd.Body.List {
					if len(rg.tail) > 0 && st.Pos() >= rg.tail[0].Pos() {
						break
					}
					if ds, ok := st.(*ast.DeferStmt); ok {
						it.exec(ds, env)
					}
				}
				it.retVals = nil
				ctl := it.execBlock(rg.tail, env)
				var res []Value
				if ctl == cReturn && it.retVals != nil {
					res = it.retVals
				} else {
					for _, nm := range results {
						res = append(res, env.lookup(info.Defs[nm]).v)
					}
				}
				if len(frame) > 0 && len(results) == len(res) {
					for i, nm := range results {
						env.lookup(info.Defs[nm]).v = res[i]
					}
					it.runDefers(&frame)
					res = nil
					for _, nm := range results {
						res = append(res, env.lookup(info.Defs[nm]).v)
					}
				}
				it.defers = nil
				n++
				if len(res) != 1 {
					panic(undecided{"Compile does not return exactly one value"})
				}
				_, isNil := res[0].(Nil)
				failed := !isNil
				want := strict && nWarn > 0
				what := fmt.Sprintf("Strict=%v with %d warning(s)", strict, nWarn)
				if failed != want {
					if want {
						bad = append(bad, what+": Compile returns nil — -strict does not turn the diagnostics into a failure")
					} else {
						bad = append(bad, what+": Compile returns an error ("+describe(res[0])+") although nothing is wrong")
					}
				}
				if !strict && nWarn > 0 && stderr == 0 {
					bad = append(bad, what+": the diagnostics are not reported")
				}
				if nWarn == 0 && stderr > 0 {
					bad = append(bad, what+": something is printed although the grammar has no diagnostics")
				}
				if !want && written == 0 {
					bad = append(bad, what+": no output is written")
				}
			}()
		}
	}
	if und != "" {
		c.Und("R-strict-semantics", construct, pos, und)
		return
	}
	c.Decide(len(bad) == 0 && n == 6, "R-strict-semantics", construct, pos,
		"the statements after the emission, with deferred calls, evaluated for Strict ∈ {false,true} × 0/1/2 pending warnings (formatting and writing assumed to succeed): error returned iff Strict ∧ warnings; warnings reported when not strict; silent without warnings; output written otherwise",
		strings.Join(uniq(bad), "; "))
}
