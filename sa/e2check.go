package main

// Comparing what the emitter's operator template does (E1+E2) with what the
// PEG oracle admits, for one model.

import (
	"fmt"
	"go/ast"
	"go/types"
	"regexp"
	"sort"
	"strings"
)

type templateVerdict struct {
	Name      string
	EmitErr   string   // E1 undecided
	Contracts []string // emitter-side contract violations (labelLast)
	Warnings  []string
	TypeErrs  []string // R-frag-typecheck
	Und       []string // E2 / oracle undecided
	Missing   []string // admissible outcomes the code cannot produce
	Extra     []string // outcomes of the code the oracle does not admit
	Flags     []string // path flags (unguarded advance, …)
	NOut      int
	Src       string
	RuleText  string
	ChildUses map[int]int
	PD        map[int][2]bool
	gf        *genFile
	em        *emission
	Got, Want []outcome
	U         []string // the rune classes of the model's universe
	Skipped   string
	Globals   []string // package-level variables referenced from emitted rule functions
}

// project recomputes Missing/Extra under a projection of outcomes (each
// property looks at its own component of the abstract state).
func (tv *templateVerdict) project(proj0 func(outcome) string) (missing, extra []string) {
	// a repetition that was entered but completed no iteration leaves nothing but
	// its entry marker; whether the emitted code has a loop there at all depends on
	// whether its body is syntactically dead, so such markers are dropped and the
	// remaining repetitions numbered in order of appearance
	proj := func(o outcome) string {
		o.Hist = dropIdleLoops(o.Hist)
		k := proj0(o)
		if k == "" {
			return ""
		}
		return renumberLoops(k)
	}
	// Outcomes are compared per class of inputs: an outcome carries what its path learnt about
	// the rune at each position it tested (Know, and the sets inside A{…}(p) terms). Two sides
	// agree when, for every projected outcome, the inputs under which it can happen are the same.
	type rect struct {
		cons   map[string]map[string]bool
		sample string
	}
	collect := func(os []outcome) map[string][]rect {
		out := map[string][]rect{}
		for _, o := range os {
			k := proj(o)
			if k == "" {
				continue
			}
			key, cons := eraseSets(k, o.Know)
			out[key] = append(out[key], rect{cons, k})
		}
		return out
	}
	g, w := collect(tv.Got), collect(tv.Want)
	for k, rs := range w {
		if _, ok := g[k]; !ok {
			missing = append(missing, rs[0].sample)
		}
	}
	for k, rs := range g {
		if _, ok := w[k]; !ok {
			extra = append(extra, rs[0].sample)
		}
	}
	uni := tv.U
	for k, gr := range g {
		wr, ok := w[k]
		if !ok {
			continue
		}
		posSet := map[string]bool{}
		for _, r := range append(append([]rect{}, gr...), wr...) {
			for p := range r.cons {
				posSet[p] = true
			}
		}
		if len(posSet) == 0 || len(uni) == 0 {
			continue
		}
		var ps []string
		for p := range posSet {
			ps = append(ps, p)
		}
		sort.Strings(ps)
		size := 1
		for range ps {
			size *= len(uni)
			if size > 30000 {
				break
			}
		}
		if size > 30000 {
			continue // too many classes to enumerate: compared without the input condition
		}
		cover := func(rs []rect) map[string]bool {
			out := map[string]bool{}
			for _, r := range rs {
				cur := []string{""}
				for _, p := range ps {
					var opts []string
					if c, ok := r.cons[p]; ok {
						for _, u := range uni {
							if c[u] {
								opts = append(opts, u)
							}
						}
					} else {
						opts = uni
					}
					var next []string
					for _, pre := range cur {
						for _, o := range opts {
							next = append(next, pre+p+"="+o+" ")
						}
					}
					cur = next
				}
				for _, a := range cur {
					out[a] = true
				}
			}
			return out
		}
		gc, wc := cover(gr), cover(wr)
		nm, ne := 0, 0
		for a := range wc {
			if !gc[a] && nm < 2 {
				nm++
				missing = append(missing, wr[0].sample+" when the input has "+strings.TrimSpace(a))
			}
		}
		for a := range gc {
			if !wc[a] && ne < 2 {
				ne++
				extra = append(extra, gr[0].sample+" when the input has "+strings.TrimSpace(a))
			}
		}
	}
	sort.Strings(missing)
	sort.Strings(extra)
	return
}

func (tv *templateVerdict) ok() bool {
	return tv.EmitErr == "" && len(tv.Contracts) == 0 && len(tv.TypeErrs) == 0 && len(tv.Und) == 0 && len(tv.Missing) == 0 && len(tv.Extra) == 0 && len(tv.Flags) == 0
}

// checkModel runs the whole E1→E3→E2 pipeline on a finished model and
// compares rule number ri (index into m.rules) with the oracle.
func checkModel(r *Repo, ti *tmplInfo, rg *region, m *model, ri int, name string) *templateVerdict {
	return checkModelEm(r, ti, m, ri, name, m.run(rg))
}

// checkModelEm compares rule number ri of an emission with the oracle's
// outcomes for rule ri of model m. The emission is the emitter's output for m
// itself (checkModel) or what the whole of Compile printed for the same
// grammar given through the builder API (R-whole-semantics).
func checkModelEm(r *Repo, ti *tmplInfo, m *model, ri int, name string, em *emission) *templateVerdict {
	tv := &templateVerdict{Name: name}
	tv.em = em
	tv.Contracts, tv.Warnings, tv.ChildUses, tv.PD = em.Contracts, em.Warnings, em.ChildUses, em.Flags
	if em.Err != "" {
		tv.EmitErr = em.Err
		return tv
	}
	tv.RuleText = em.Text
	gf, errs := assemble(r, ti, m, em, name)
	tv.gf = gf
	if gf != nil && gf.in != nil {
		tv.Src = gf.in.Src
	}
	// user code (actions, predicates, state changes) is Go text of the grammar's author: it must
	// reach the generated file unchanged, whatever characters it contains
	if tv.Src != "" && gf != nil && gf.in != nil && gf.in.File != nil {
		// the rule comments quote the code too: they are cut out first (by the parsed file's comment positions)
		src := []byte(tv.Src)
		for _, cg := range gf.in.File.Comments {
			for _, cm := range cg.List {
				if !reRuleComment.MatchString(cm.Text) {
					continue // a comment of the user's own code
				}
				lo, hi := gf.in.Fset.Position(cm.Pos()).Offset, gf.in.Fset.Position(cm.End()).Offset
				for i := lo; i < hi && i < len(src); i++ {
					if src[i] != '\n' {
						src[i] = ' '
					}
				}
			}
		}
		code0 := string(src)
		for _, code := range m.userCodes() {
			if !strings.Contains(code0, code) {
				tv.Contracts = append(tv.Contracts, fmt.Sprintf("the user code %q is not in the generated file verbatim", clip(code, 80)))
			}
		}
	}
	if len(errs) > 0 {
		tv.TypeErrs = errs
		return tv
	}
	// the table is indexed by the rule constants, which follow the emission's own list of rule names
	// (the order in which link appended PegText and the action rules is the emission's, not the model's)
	tableIndex := func(name string) int {
		for i, n := range gf.in.Cfg.RuleNames {
			if n == name {
				return i + 1
			}
		}
		return -1
	}
	tix := ri
	if ri < len(m.rules) {
		if ti := tableIndex(m.strOf(m.rules[ri])); ti > 0 {
			tix = ti - 1
		}
	}
	if tix+1 < len(gf.rules) && gf.rules[tix+1] == nil && m.opts.Inline {
		tv.Skipped = "the rule under test is inlined at its only use under -inline: no function is emitted for it"
		return tv
	}
	if tix+1 >= len(gf.rules) || gf.rules[tix+1] == nil {
		tv.Und = append(tv.Und, fmt.Sprintf("rule function #%d not found in the emitted table (%d entries)", tix+1, len(gf.rules)))
		return tv
	}
	for _, rf := range gf.rules {
		if rf == nil {
			continue
		}
		ast.Inspect(rf.Body, func(n ast.Node) bool {
			if id, ok := n.(*ast.Ident); ok {
				if v, ok := gf.in.Info.Uses[id].(*types.Var); ok && v.Parent() == gf.in.Pkg.Scope() {
					tv.Globals = append(tv.Globals, id.Name)
				}
			}
			return true
		})
	}
	u := m.universe()
	fl := &flow{gf: gf, u: u, info: gf.in.Info}
	fl.childFirst = func(name string) *NSet {
		var idx int
		if _, err := fmt.Sscanf(strings.TrimPrefix(name, "__c"), "%d", &idx); err != nil {
			return nil
		}
		for _, oi := range m.opaque {
			if oi.idx == idx {
				return oi.first
			}
		}
		return nil
	}
	fl.ruleFirst = func(name string) *NSet { return m.ruleFirst(name) }
	fl.nilRule = func(name string) bool {
		if ti := tableIndex(name); ti > 0 && ti < len(gf.rules) {
			return gf.rules[ti] == nil
		}
		for i, rl := range m.rules {
			if m.strOf(rl) == name && i+1 < len(gf.rules) {
				return gf.rules[i+1] == nil
			}
		}
		return false
	}
	fl.ruleCanFail = func(name string) bool {
		rule, _ := m.tree.field("Rules").v.(*MapV).m[name].(*Obj)
		if rule == nil {
			return true
		}
		return m.canFail(rule, map[*Obj]bool{})
	}
	fl.analyse(gf.rules[tix+1])
	tv.Und = append(tv.Und, uniq(fl.und)...)
	sp := &specEval{m: m, u: u, ast: m.opts.Ast, fuel: 200000}
	want := sp.ruleOutcomes(m.rules[ri])
	tv.Und = append(tv.Und, uniq(sp.und)...)
	got := map[string]outcome{}
	wantN := map[string]outcome{}
	for _, o := range want {
		tv.Want = append(tv.Want, o)
		wantN[normOutcome(o)] = o
	}
	want = wantN
	for _, r := range u.all() {
		tv.U = append(tv.U, setStr([]rune{r}))
	}
	for _, o := range fl.outs {
		tv.Got = append(tv.Got, o)
		got[normOutcome(o)] = o
		for _, fgs := range o.Flags {
			tv.Flags = append(tv.Flags, fgs)
		}
	}
	tv.Flags = uniq(tv.Flags)
	tv.NOut = len(got)
	for k := range want {
		if _, ok := got[k]; !ok {
			tv.Missing = append(tv.Missing, k)
		}
	}
	for k := range got {
		if _, ok := want[k]; !ok {
			tv.Extra = append(tv.Extra, k)
		}
	}
	sort.Strings(tv.Missing)
	sort.Strings(tv.Extra)
	return tv
}

func (tv *templateVerdict) detail() string {
	var sb strings.Builder
	if tv.EmitErr != "" {
		sb.WriteString("emitter not evaluable on this model: " + tv.EmitErr + ". ")
	}
	for _, c := range tv.Contracts {
		sb.WriteString("emitter contract: " + c + ". ")
	}
	if len(tv.TypeErrs) > 0 {
		sb.WriteString("generated code does not type-check: " + strings.Join(tv.TypeErrs[:min(3, len(tv.TypeErrs))], " | ") + ". ")
	}
	if len(tv.Und) > 0 {
		sb.WriteString("not modelled: " + strings.Join(tv.Und[:min(3, len(tv.Und))], " | ") + ". ")
	}
	for _, f := range tv.Flags {
		sb.WriteString(f + ". ")
	}
	for i, x := range tv.Extra {
		if i >= 2 {
			sb.WriteString(fmt.Sprintf("(+%d more) ", len(tv.Extra)-2))
			break
		}
		sb.WriteString("the emitted code can " + x + " — not admitted by PEG semantics. ")
	}
	for i, x := range tv.Missing {
		if i >= 2 {
			sb.WriteString(fmt.Sprintf("(+%d more) ", len(tv.Missing)-2))
			break
		}
		sb.WriteString("PEG semantics requires " + x + " — the emitted code cannot do that. ")
	}
	return sb.String()
}

func (tv *templateVerdict) replay() string {
	var sb strings.Builder
	sb.WriteString("model: " + tv.Name + "\n--- emitted rule table ---\n" + tv.RuleText + "\n--- extra outcomes ---\n" + strings.Join(tv.Extra, "\n") + "\n--- missing outcomes ---\n" + strings.Join(tv.Missing, "\n") + "\n--- type errors ---\n" + strings.Join(tv.TypeErrs, "\n") + "\n")
	return sb.String()
}

// checkModelAgainst analyses the code emitted for m1 and compares it with the
// oracle evaluated on the reference model m0 (same construction, no rewrite).
func checkModelAgainst(r *Repo, ti *tmplInfo, rg *region, m1, m0 *model, ri int, name string) *templateVerdict {
	tv := checkModel(r, ti, rg, m1, ri, name)
	if tv.EmitErr != "" || len(tv.TypeErrs) > 0 || tv.Skipped != "" || tv.gf == nil {
		return tv
	}
	u := m1.universe()
	// the reference oracle needs the same universe (the rewrite only adds copies of existing literals)
	sp := &specEval{m: m0, u: u, ast: m0.opts.Ast, fuel: 400000}
	tv.Want = nil
	for _, o := range sp.ruleOutcomes(m0.rules[ri]) {
		tv.Want = append(tv.Want, o)
	}
	tv.Und = append(tv.Und, uniq(sp.und)...)
	return tv
}

func parallel(n int, f func(i int)) {
	sem := make(chan struct{}, 16)
	done := make(chan struct{}, n)
	for i := 0; i < n; i++ {
		sem <- struct{}{}
		go func(i int) {
			defer func() { <-sem; done <- struct{}{} }()
			f(i)
		}(i)
	}
	for i := 0; i < n; i++ {
		<-done
	}
}

// ruleFirst: FIRST set of a rule that must consume (else nil).
func (m *model) ruleFirst(name string) *NSet {
	rule, _ := m.tree.field("Rules").v.(*MapV).m[name].(*Obj)
	if rule == nil {
		return nil
	}
	has := false
	var walk func(x *Obj, d int)
	walk = func(x *Obj, d int) {
		if x == nil || d > 14 {
			return
		}
		if m.typeOf(x) == "TypeUnorderedAlternate" {
			has = true
		}
		for _, k := range m.kids(x) {
			if m.typeOf(k) != "TypeRule" {
				walk(k, d+1)
			}
		}
	}
	walk(rule, 0)
	if has {
		// a rule the -switch pass has rewritten: what it can start with is read off its
		// unrewritten twin (the callee's contract is the same for both sides of the comparison)
		if m.twin != nil {
			return m.twin.ruleFirst(name)
		}
		return nil
	}
	c, s := m.firstOracle(rule, map[*Obj]bool{})
	if !c {
		return nil
	}
	return s
}

var reLoopEntry = regexp.MustCompile(`^loop(?:#\d+)?\((\d+)\)from\(`)
var reLoopDone = regexp.MustCompile(`^loop(?:#\d+)?\((\d+)\)\+$`)

// dropIdleLoops removes the entry markers of repetitions that complete no iteration.
func dropIdleLoops(h []string) []string {
	done := map[string]bool{}
	for _, e := range h {
		if m := reLoopDone.FindStringSubmatch(e); m != nil {
			done[m[1]] = true
		}
	}
	var out []string
	for _, e := range h {
		if m := reLoopEntry.FindStringSubmatch(e); m != nil && !done[m[1]] {
			continue
		}
		out = append(out, e)
	}
	return out
}

// projectMulti is project for projections that expand one outcome into several.
func (tv *templateVerdict) projectMulti(proj func(outcome) []string) (missing, extra []string) {
	g, w := map[string]bool{}, map[string]bool{}
	for _, o := range tv.Got {
		for _, k := range proj(o) {
			g[k] = true
		}
	}
	for _, o := range tv.Want {
		for _, k := range proj(o) {
			w[k] = true
		}
	}
	for k := range w {
		if !g[k] {
			missing = append(missing, k)
		}
	}
	for k := range g {
		if !w[k] {
			extra = append(extra, k)
		}
	}
	sort.Strings(missing)
	sort.Strings(extra)
	return
}

// eraseSets removes the rune sets from the advance terms of a projected outcome
// (A{a,b}(p) becomes A(p)) and returns them, together with what the path knows
// about tested positions, as constraints keyed by the erased position term.
// Positions inside repetitions (invariant terms) are left out: they stand for
// an arbitrary iteration.
func eraseSets(s string, know map[string]string) (string, map[string]map[string]bool) {
	cons := map[string]map[string]bool{}
	add := func(pos, set string) {
		if strings.Contains(pos, "loop") || reLoopTag.MatchString(pos) {
			return
		}
		m := map[string]bool{}
		for _, x := range strings.Split(set, ",") {
			if x != "" {
				m[x] = true
			}
		}
		if old, ok := cons[pos]; ok {
			for x := range old {
				if !m[x] {
					delete(old, x)
				}
			}
			return
		}
		cons[pos] = m
	}
	erase := func(t string) string {
		for {
			i := strings.LastIndex(t, "A{")
			if i < 0 {
				return t
			}
			j := strings.IndexByte(t[i:], '}')
			if j < 0 || i+j+1 >= len(t) || t[i+j+1] != '(' {
				// not a well-formed advance term: neutralise it so the loop ends
				t = t[:i] + "A\u2039" + t[i+2:]
				continue
			}
			set := t[i+2 : i+j]
			depth, k := 0, i+j+1
			for ; k < len(t); k++ {
				if t[k] == '(' {
					depth++
				} else if t[k] == ')' {
					depth--
					if depth == 0 {
						break
					}
				}
			}
			if k >= len(t) {
				t = t[:i] + "A\u2039" + t[i+2:]
				continue
			}
			arg := t[i+j+2 : k]
			add(arg, set)
			full := t[i : k+1]
			t = strings.ReplaceAll(t, full, "A("+arg+")")
		}
	}
	key := erase(s)
	for p, set := range know {
		p = reLoop.ReplaceAllString(p, "loop")
		p = rePD.ReplaceAllString(p, "$1")
		add(erase(p), set)
	}
	return key, cons
}

var reRuleComment = regexp.MustCompile(`^/\* \d+ `)

// userCodes: the code of the model's actions, predicates and state changes (those that
// do not mention the runtime's variables, whose names the vocabulary may rewrite).
func (m *model) userCodes() []string {
	var out []string
	seen := map[*Obj]bool{}
	add := func(code string) {
		for _, w := range []string{"position", "tokenIndex", "buffer", "text", "begin", "end"} {
			if strings.Contains(code, w) {
				return
			}
		}
		if strings.TrimSpace(code) != "" {
			out = append(out, strings.TrimSpace(code))
		}
	}
	var walk func(n *Obj)
	walk = func(n *Obj) {
		if n == nil || seen[n] {
			return
		}
		seen[n] = true
		switch m.typeOf(n) {
		case "TypeAction", "TypePredicate", "TypeStateChange":
			add(m.strOf(n))
		}
		for _, k := range m.kids(n) {
			walk(k)
		}
	}
	for _, r := range m.rules {
		walk(r)
	}
	if acts, ok := m.tree.field("Actions").v.(*SliceV); ok && acts != nil {
		for _, a := range acts.elems {
			if o, ok := a.(*Obj); ok {
				add(m.strOf(o))
			}
		}
	}
	return uniq(out)
}
