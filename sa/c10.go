package main

// C10 — documented .peg syntax means what the docs say; malformed text is
// rejected: builder stack-effect typing of peg.peg, escape table, quoting /
// class routing, precedence stratification, spellings, rejection.

import (
	"fmt"
	"os"
	"path/filepath"
	"regexp"
	"sort"
	"strconv"
	"strings"
)

type eff struct{ net, min int }

type effSetG map[eff]bool

func (s effSetG) nets() []int {
	m := map[int]bool{}
	for e := range s {
		m[e.net] = true
	}
	var out []int
	for n := range m {
		out = append(out, n)
	}
	sort.Ints(out)
	return out
}

func (s effSetG) minMin() int {
	mn := 0
	for e := range s {
		if e.min < mn {
			mn = e.min
		}
	}
	return mn
}

func seqEff(a, b effSetG) effSetG {
	out := effSetG{}
	for x := range a {
		for y := range b {
			m := x.min
			if x.net+y.min < m {
				m = x.net + y.min
			}
			out[eff{x.net + y.net, m}] = true
		}
	}
	return out
}

// builderEffects: (pops, pushes to the stack side, pushes to the queue side) of
// every Add* method, obtained by evaluating its source on a marked tree.
type bEffect struct {
	pops, front, back int
	err               string
}

var reCall = regexp.MustCompile(`p\.(Add\w+)\(([^()]*)\)`)

func builderEffect(r *Repo, method string, nargs int) bEffect {
	var be bEffect
	func() {
		defer func() {
			if p := recover(); p != nil {
				be.err = fmt.Sprint(p)
				if u, ok := p.(undecided); ok {
					be.err = u.msg
				}
			}
		}()
		fm := newFrontModel(r)
		m := fm.m
		// three marked operands (m1 on top) put there by the builder itself, and a marked finished
		// item at the back of the tree's list
		mk := func(tag string) *Obj { return m.node("TypeCharacter", tag) }
		q := mk("q")
		for _, tag := range []string{"m3", "m2", "m1"} {
			fm.call("AddCharacter", tag)
		}
		fm.it.invoke(nil, m.method("PushBack", fm.tree), []Value{q})
		var args []Value
		for i := 0; i < nargs; i++ {
			args = append(args, "a")
		}
		fm.call(method, args...)
		isMark := func(n *Obj) int {
			if n == q {
				return 3
			}
			if m.typeOf(n) == "TypeCharacter" && len(m.kids(n)) == 0 {
				switch m.strOf(n) {
				case "m1":
					return 0
				case "m2":
					return 1
				case "m3":
					return 2
				}
			}
			return -1
		}
		list := m.kids(fm.tree.field("node").v.(*Obj))
		qi := -1
		for i, n := range list {
			if isMark(n) == 3 {
				qi = i
			}
		}
		if qi < 0 {
			be.err = "the method consumed the marker of the finished items"
			return
		}
		// the operand side: the builder's own stack, or what lies before the queue marker
		var stack []*Obj
		if fm.separateOperands() {
			stack = fm.operands()
			if qi != 0 {
				// finished items before the marker were put at the front of the list
				stack = append(append([]*Obj{}, list[:qi]...), stack...)
			}
		} else {
			stack = list[:qi]
		}
		remaining, firstMark := 0, -1
		for i, n := range stack {
			if k := isMark(n); k >= 0 && k < 3 {
				remaining++
				if firstMark < 0 {
					firstMark = i
				}
			}
		}
		if firstMark < 0 {
			firstMark = len(stack)
		}
		be.pops = 3 - remaining
		be.front = firstMark
		be.back = len(list) - 1 - qi
	}()
	return be
}

func checkC10(c *Check) {
	c.Explain = "peg.peg is read by an independent reader written from the documentation (pegreader.go). (1) R-syntax-differential and R-grammar-differential: peg.peg is evaluated as data with PEG semantics (ordered choice, greedy repetition, lookahead, actions recorded on the successful derivation only) on expression texts and on whole grammar files; the builder calls it records are executed on the builder's source by the E1 interpreter; the resulting tree is compared, in a normal form that ignores only the nesting of sequences and choices, with the tree the independent reader builds; texts the reader rejects must be rejected. Expression texts: a corpus of every documented construct, escape (letters, quotes, brackets, dash, backslash, octal, \\0x hex in both cases), quoting style, class form (ranges, ^, [[..]]), operator, precedence combination and spacing/comment spelling, well-formed and malformed, plus EVERY string of at most 3 (thorough 4) characters over 24 token characters. Grammar files: 19 well-formed (both arrows, both comment styles in every position incl. the last line without newline, CRLF, single/grouped/aliased imports, nested braces) and 20 malformed texts. (2) Lexical rules compared string by string over small alphabets with the documented definition: R-action-braces (every string ≤7 over {, }, other, space), R-import-routing (every string ≤6 over letters, _, digit, quote, / . -, space), R-escape-capture (numeric escape capture patterns on all short digit strings). (3) Builder: R-stack-effect (each Tree.Add* summarised by evaluating its source on a marked tree, the grammar typed with a least fixpoint: every rule has one net effect, never pops below its entry depth, the start rule is neutral — a statement about every parse of every grammar text), R-builder-shape, R-escape-range (decoders on every octal string and boundary hex strings), R-quote-routing (case-folding builders), R-import-alias (first pass + the template's formatImport literal evaluated on import lists). The first version's shape rules on the spelling of peg.peg (escape table, quote routing, precedence strata, spellings, operator routing, start rule ends in !.) raised alarms on behaviour-preserving rewrites of the grammar and were retired in favour of (1). NOT decided: texts beyond the corpus and the enumerated lengths; that each construct behaves as documented once built (C01 on the built tree); that peg.peg.go is the output for peg.peg (TestSame)."
	c.Assume = []string{"actions run once each in derivation order (C04)", "the .peg reader in pegreader.go reads peg.peg as documented"}
	c.Trusted = []string{"pegreader.go", "interp.go for the builder summaries", "strconv"}
	r := mustRepo(c)
	if r == nil {
		return
	}
	path := filepath.Join(r.Root, "peg.peg")
	b, err := os.ReadFile(path)
	if err != nil {
		c.Und("R-anchor", "peg.peg", "", err.Error())
		return
	}
	g, err := parsePeg("peg.peg", string(b))
	if err != nil {
		c.Und("R-anchor", "peg.peg", "", "the independent reader cannot read peg.peg: "+err.Error())
		return
	}
	c.Note("grammar files", "peg.peg")
	for _, rl := range g.Rules {
		c.Note("grammar rules", rl.Name)
	}
	stackEffects(c, r, g)
	escapeDecoders(c, r)
	escapeCaptures(c, r, g)
	caseFoldBuilders(c, r)
	builderShapes(c, r)
	// The shape rules of the first version (escape table, quote routing,
	// precedence strata, spellings, operator routing, start rule ends in !.)
	// matched the spelling of peg.peg and raised alarms on behaviour-preserving
	// rewrites of the grammar (self-test [equivalent] variants); what they stood
	// for is decided by R-syntax-differential and R-grammar-differential below.
	_ = escapeTableShape
	_ = quoteRoutingShape
	_ = precedence
	_ = spellings
	_ = operatorRouting
	_ = reject
	importAlias(c, r)
	lexicalDifferential(c, g)
	syntaxDifferential(c, r, g)
	grammarDifferential(c, r, g)
}

// builderShapes: each builder produces the node its name says, with operands in source order.
func builderShapes(c *Check, r *Repo) {
	type tc struct {
		name  string
		calls []callSite
		want  string
	}
	ch := func(s string) callSite { return callSite{"AddCharacter", []string{s}} }
	m := func(n string) callSite { return callSite{Method: n} }
	cases := []tc{
		{"AddSequence keeps order and flattens", []callSite{ch("x"), ch("y"), m("AddSequence"), ch("z"), m("AddSequence")}, `Sequence("",id=0)[Character("x",id=0) Character("y",id=0) Character("z",id=0)]`},
		{"AddAlternate keeps order and flattens", []callSite{ch("x"), ch("y"), m("AddAlternate"), ch("z"), m("AddAlternate")}, `Alternate("",id=0)[Character("x",id=0) Character("y",id=0) Character("z",id=0)]`},
		{"AddRange is [lower upper]", []callSite{ch("a"), ch("f"), m("AddRange")}, `Range("",id=0)[Character("a",id=0) Character("f",id=0)]`},
		{"AddQuery wraps the operand", []callSite{ch("x"), m("AddQuery")}, `Query("",id=0)[Character("x",id=0)]`},
		{"AddStar wraps the operand", []callSite{ch("x"), m("AddStar")}, `Star("",id=0)[Character("x",id=0)]`},
		{"AddPlus wraps the operand", []callSite{ch("x"), m("AddPlus")}, `Plus("",id=0)[Character("x",id=0)]`},
		{"AddPeekFor wraps the operand", []callSite{ch("x"), m("AddPeekFor")}, `PeekFor("",id=0)[Character("x",id=0)]`},
		{"AddPeekNot wraps the operand", []callSite{ch("x"), m("AddPeekNot")}, `PeekNot("",id=0)[Character("x",id=0)]`},
		{"AddPush wraps the operand", []callSite{ch("x"), m("AddPush")}, `Push("",id=0)[Character("x",id=0)]`},
		{"sequence inside alternate is not flattened into it", []callSite{ch("x"), ch("y"), m("AddSequence"), ch("z"), m("AddAlternate")}, `Alternate("",id=0)[Sequence("",id=0)[Character("x",id=0) Character("y",id=0)] Character("z",id=0)]`},
		{"AddDot / AddName / AddAction / AddPredicate / AddStateChange / AddNil make leaves", []callSite{m("AddDot"), {"AddName", []string{"R"}}, m("AddSequence"), {"AddAction", []string{"a"}}, m("AddSequence"), {"AddPredicate", []string{"p"}}, m("AddSequence"), {"AddStateChange", []string{"s"}}, m("AddSequence"), m("AddNil"), m("AddSequence")},
			`Sequence("",id=0)[Dot(".",id=0) Name("R",id=0) Action("a",id=0) Predicate("p",id=0) StateChange("s",id=0) Nil("<nil>",id=0)]`},
	}
	var bad []string
	for _, t := range cases {
		func() {
			defer func() {
				if p := recover(); p != nil {
					bad = append(bad, t.name+": "+fmt.Sprint(p))
				}
			}()
			fm := newFrontModel(r)
			for _, cs := range t.calls {
				var args []Value
				for _, a := range cs.Args {
					args = append(args, a)
				}
				fm.call(cs.Method, args...)
			}
			top := fm.operands()
			got := ""
			if len(top) == 1 {
				got = fm.m.dump(top[0], 0, map[*Obj]bool{})
			} else {
				got = fmt.Sprintf("%d nodes on the stack", len(top))
			}
			if got != t.want {
				bad = append(bad, fmt.Sprintf("%s: builds %s, expected %s", t.name, got, t.want))
			}
		}()
	}
	c.Decide(len(bad) == 0, "R-builder-shape", "Tree.Add*/each builder yields the node of its operator with operands in source order", "", fmt.Sprintf("%d builder call sequences evaluated on the builder's source", len(cases)), strings.Join(bad, "; "))
}

// operatorRouting: the punctuation of each operator is followed by the builder of that operator.
func operatorRouting(c *Check, g *pgrammar) {
	want := map[string][]string{"&": {"AddPeekFor", "AddPredicate"}, "!": {"AddPeekNot", "AddStateChange"}, "?": {"AddQuery"}, "*": {"AddStar"}, "+": {"AddPlus"},
		".": {"AddDot"}, "<": {"AddPush"}}
	punct := func(name string) string {
		rl, ok := g.ByName[name]
		if !ok {
			return ""
		}
		e := rl.Expr
		if e.Op == "seq" && len(e.Kids) == 2 && e.Kids[0].Op == "lit" && e.Kids[1].Op == "name" {
			return e.Kids[0].S
		}
		return ""
	}
	var bad []string
	n := 0
	var walk func(rl *prule, e *pexpr)
	walk = func(rl *prule, e *pexpr) {
		if e.Op == "seq" && len(e.Kids) >= 2 && e.Kids[0].Op == "name" {
			if p := punct(e.Kids[0].S); p != "" {
				if allowed, ok := want[p]; ok {
					last := e.Kids[len(e.Kids)-1]
					if last.Op == "action" {
						calls := actionCalls(last.S)
						if len(calls) == 1 {
							n++
							okm := false
							for _, a := range allowed {
								if calls[0].Method == a {
									okm = true
								}
							}
							if !okm {
								bad = append(bad, fmt.Sprintf("peg.peg:%d: in %s the operator %q is built with %s (expected %s)", e.Pos, rl.Name, p, calls[0].Method, strings.Join(allowed, " or ")))
							}
						}
					}
				}
			}
		}
		for _, k := range e.Kids {
			walk(rl, k)
		}
	}
	for _, rl := range g.Rules {
		walk(rl, rl.Expr)
	}
	// & with an action is a predicate, with an expression a lookahead (and likewise !)
	for _, rl := range g.Rules {
		if rl.Expr.Op != "alt" {
			continue
		}
		for _, alt := range rl.Expr.Kids {
			if alt.Op == "seq" && len(alt.Kids) == 3 && alt.Kids[0].Op == "name" && alt.Kids[2].Op == "action" {
				p := punct(alt.Kids[0].S)
				calls := actionCalls(alt.Kids[2].S)
				if (p == "&" || p == "!") && len(calls) == 1 && alt.Kids[1].Op == "name" {
					operandIsAction := false
					if orl, ok := g.ByName[alt.Kids[1].S]; ok {
						if orl.Expr.Op == "seq" && orl.Expr.Kids[0].Op == "lit" && orl.Expr.Kids[0].S == "{" {
							operandIsAction = true
						}
					}
					wantM := map[string]string{"&true": "AddPredicate", "&false": "AddPeekFor", "!true": "AddStateChange", "!false": "AddPeekNot"}[p+fmt.Sprint(operandIsAction)]
					if calls[0].Method != wantM {
						bad = append(bad, fmt.Sprintf("peg.peg:%d: %s followed by %s is built with %s, expected %s", alt.Pos, p, alt.Kids[1].S, calls[0].Method, wantM))
					}
				}
			}
		}
	}
	c.Decide(len(bad) == 0 && n >= 8, "R-operator-routing", "peg.peg/each operator's punctuation is followed by its builder", "", fmt.Sprintf("%d operator forms: & ! ? * + . < > route to PeekFor/Predicate, PeekNot/StateChange, Query, Star, Plus, Dot, Push", n), strings.Join(bad, "; "))
}

// ---------------------------------------------------------------------------

type callSite struct {
	Method string
	Args   []string
}

func stackEffects(c *Check, r *Repo, g *pgrammar) {
	// summaries
	sums := map[string]bEffect{}
	var walk func(e *pexpr)
	walk = func(e *pexpr) {
		if e.Op == "action" {
			for _, cs := range actionCalls(e.S) {
				if _, ok := sums[cs.Method]; !ok {
					sums[cs.Method] = builderEffect(r, cs.Method, len(cs.Args))
				}
			}
		}
		for _, k := range e.Kids {
			walk(k)
		}
	}
	for _, rl := range g.Rules {
		walk(rl.Expr)
	}
	var names []string
	for n := range sums {
		names = append(names, n)
	}
	sort.Strings(names)
	for _, n := range names {
		be := sums[n]
		if be.err != "" {
			c.Und("R-builder-summary", "Tree."+n, "", be.err)
		} else {
			c.OK("R-builder-summary", "Tree."+n, "", fmt.Sprintf("pops %d, pushes %d on the stack side and %d on the queue side", be.pops, be.front, be.back))
		}
	}
	c.Floor("R-builder-summary", len(names), 25)

	// typing
	rules := map[string]effSetG{}
	for _, rl := range g.Rules {
		rules[rl.Name] = effSetG{}
	}
	var problems []string
	note := func(s string) {
		for _, p := range problems {
			if p == s {
				return
			}
		}
		problems = append(problems, s)
	}
	zero := effSetG{eff{0, 0}: true}
	var ev func(e *pexpr, rule string, final bool) effSetG
	ev = func(e *pexpr, rule string, final bool) effSetG {
		switch e.Op {
		case "seq":
			cur := zero
			for _, k := range e.Kids {
				cur = seqEff(cur, ev(k, rule, final))
			}
			return cur
		case "alt":
			out := effSetG{}
			var nets [][]int
			for _, k := range e.Kids {
				s := ev(k, rule, final)
				nets = append(nets, s.nets())
				for x := range s {
					out[x] = true
				}
			}
			if final && len(out.nets()) > 1 {
				note(fmt.Sprintf("peg.peg:%d: rule %s: the alternatives of a choice have different net effects on the node stack %v", e.Pos, rule, nets))
			}
			return out
		case "query":
			s := ev(e.Kids[0], rule, final)
			out := effSetG{eff{0, 0}: true}
			for x := range s {
				out[x] = true
			}
			if final && len(out.nets()) > 1 {
				note(fmt.Sprintf("peg.peg:%d: rule %s: an optional part pushes %v node(s) when present and nothing when absent", e.Pos, rule, s.nets()))
			}
			return out
		case "star", "plus":
			s := ev(e.Kids[0], rule, final)
			mn := 0
			for x := range s {
				if x.net != 0 && final {
					note(fmt.Sprintf("peg.peg:%d: rule %s: a repetition body has net effect %+d on the node stack", e.Pos, rule, x.net))
				}
				if x.min < mn {
					mn = x.min
				}
			}
			return effSetG{eff{0, mn}: true}
		case "and", "not":
			return zero
		case "capture":
			return ev(e.Kids[0], rule, final)
		case "name":
			// callees are taken at their intended (largest) effect: a rule whose own structure
			// is not uniform is reported once, at the rule itself, not at every user
			if s, ok := rules[e.S]; ok && len(s) > 0 {
				best := eff{-1 << 30, 0}
				for x := range s {
					if x.net > best.net || (x.net == best.net && x.min < best.min) {
						best = x
					}
				}
				return effSetG{best: true}
			}
			if _, defined := rules[e.S]; defined {
				return effSetG{} // ⊥: no derivation known yet (least fixpoint through recursion)
			}
			return zero
		case "action":
			cur := zero
			for _, cs := range actionCalls(e.S) {
				be := sums[cs.Method]
				cur = seqEff(cur, effSetG{eff{be.front - be.pops, -be.pops}: true})
			}
			return cur
		}
		return zero
	}
	for iter := 0; iter < 30; iter++ {
		changed := false
		for _, rl := range g.Rules {
			s := ev(rl.Expr, rl.Name, false)
			if len(s) > 12 {
				c.Und("R-stack-effect", "peg.peg/"+rl.Name, fmt.Sprintf("peg.peg:%d", rl.Line), "effect set does not converge")
				return
			}
			if fmt.Sprint(keysOf(s)) != fmt.Sprint(keysOf(rules[rl.Name])) {
				rules[rl.Name] = s
				changed = true
			}
		}
		if !changed {
			break
		}
	}
	for _, rl := range g.Rules {
		ev(rl.Expr, rl.Name, true)
		if os.Getenv("PEGSA_DEBUG") != "" {
			fmt.Println("effect", rl.Name, keysOf(rules[rl.Name]))
		}
	}
	// root causes per rule
	perRule := map[string][]string{}
	for _, p := range problems {
		i := strings.Index(p, "rule ")
		j := strings.Index(p[i+5:], ":")
		perRule[p[i+5:i+5+j]] = append(perRule[p[i+5:i+5+j]], p)
	}
	nTyped := 0
	for _, rl := range g.Rules {
		s := rules[rl.Name]
		nets := s.nets()
		pos := fmt.Sprintf("peg.peg:%d", rl.Line)
		construct := "peg.peg/" + rl.Name
		nontrivial := false
		var hasAct func(e *pexpr) bool
		hasAct = func(e *pexpr) bool {
			if e.Op == "action" && len(actionCalls(e.S)) > 0 {
				return true
			}
			if e.Op == "name" {
				if s2 := rules[e.S]; len(s2) > 0 && !(len(s2) == 1 && s2[eff{0, 0}]) {
					return true
				}
			}
			for _, k := range e.Kids {
				if hasAct(k) {
					return true
				}
			}
			return false
		}
		nontrivial = hasAct(rl.Expr)
		if !nontrivial {
			continue
		}
		nTyped++
		switch {
		case len(perRule[rl.Name]) > 0:
			c.Bad("R-stack-effect", construct, pos, strings.Join(perRule[rl.Name], "; ")+fmt.Sprintf(" — the rule may leave %v node(s): a builder action that follows pops a node that belongs to an enclosing construct (or, from the queue side, a finished rule or the package node), and the tree silently differs from the grammar text", nets))
		case s.minMin() < 0:
			c.Bad("R-stack-effect", construct, pos, fmt.Sprintf("the rule pops %d node(s) below its entry depth", -s.minMin()))
		default:
			c.OK("R-stack-effect", construct, pos, fmt.Sprintf("net effect %+d on the node stack on every path, never below entry depth", nets[0]))
		}
	}
	c.Floor("R-stack-effect", nTyped, 15)
	if len(g.Rules) > 0 {
		s := rules[g.Rules[0].Name]
		okStart := len(s.nets()) == 1 && s.nets()[0] == 0
		{
			c.Decide(okStart && s.minMin() >= 0, "R-stack-effect", "peg.peg/start rule is neutral", fmt.Sprintf("peg.peg:%d", g.Rules[0].Line), "the start rule leaves the stack side as it found it: everything was moved to the queue side", fmt.Sprintf("the start rule has net effect %v / minimum %d", s.nets(), s.minMin()))
		}
	}
}

func keysOf(s effSetG) []string {
	var out []string
	for e := range s {
		out = append(out, fmt.Sprintf("%d/%d", e.net, e.min))
	}
	sort.Strings(out)
	return out
}

// ---------------------------------------------------------------------------

func findRule(g *pgrammar, pred func(*prule) bool) *prule {
	for _, r := range g.Rules {
		if pred(r) {
			return r
		}
	}
	return nil
}

func hasCall(e *pexpr, method string) bool {
	if e.Op == "action" {
		for _, cs := range actionCalls(e.S) {
			if cs.Method == method {
				return true
			}
		}
	}
	for _, k := range e.Kids {
		if hasCall(k, method) {
			return true
		}
	}
	return false
}

func escapeTableShape(c *Check, r *Repo, g *pgrammar) {
	esc := findRule(g, func(rl *prule) bool { return hasCall(rl.Expr, "AddHexaCharacter") })
	if esc == nil || esc.Expr.Op != "alt" {
		c.Und("R-escape-table", "peg.peg/escape rule", "", "the rule with the numeric escape actions was not found or is not a choice")
		return
	}
	want := map[rune]rune{'a': 7, 'b': 8, 'e': 27, 'f': 12, 'n': 10, 'r': 13, 't': 9, 'v': 11, '\'': '\'', '"': '"', '[': '[', ']': ']', '-': '-', '\\': '\\'}
	seen := map[rune]bool{}
	var bad []string
	for _, alt := range esc.Expr.Kids {
		ks := alt.Kids
		if alt.Op != "seq" || len(ks) != 2 || ks[0].Op != "lit" || ks[1].Op != "action" {
			continue
		}
		lit := []rune(ks[0].S)
		if len(lit) != 2 || lit[0] != '\\' {
			continue
		}
		calls := actionCalls(ks[1].S)
		if len(calls) != 1 || calls[0].Method != "AddCharacter" || len(calls[0].Args) != 1 {
			continue
		}
		val, err := strconv.Unquote(calls[0].Args[0])
		if err != nil {
			bad = append(bad, fmt.Sprintf("peg.peg:%d: argument %s is not a Go string literal", alt.Pos, calls[0].Args[0]))
			continue
		}
		letter := lit[1]
		seen[letter] = true
		w, ok := want[letter]
		if !ok {
			bad = append(bad, fmt.Sprintf("peg.peg:%d: escape \\%c is not in the documented table", alt.Pos, letter))
			continue
		}
		if []rune(val)[0] != w || len([]rune(val)) != 1 {
			bad = append(bad, fmt.Sprintf("peg.peg:%d: escape \\%c denotes %q, the convention says U+%04X", alt.Pos, letter, val, w))
		}
	}
	for l := range want {
		if !seen[l] {
			bad = append(bad, fmt.Sprintf("escape \\%c of the documented table has no alternative", l))
		}
	}
	sort.Strings(bad)
	c.Decide(len(bad) == 0, "R-escape-table", "peg.peg/"+esc.Name+" letter escapes", fmt.Sprintf("peg.peg:%d", esc.Line), fmt.Sprintf("%d letter escapes, each action argument decodes to the conventional code point", len(seen)), strings.Join(bad, "; "))

}

// escapeDecoders: R-escape-range — the builder's numeric decoders.
func escapeDecoders(c *Check, r *Repo) {
	// numeric escapes: evaluate the decoders
	type probe struct {
		method, text string
		want         rune
	}
	var probes []probe
	for a := 0; a <= 3; a++ {
		for b := 0; b <= 7; b++ {
			for d := 0; d <= 7; d++ {
				probes = append(probes, probe{"AddOctalCharacter", fmt.Sprintf("%d%d%d", a, b, d), rune(a*64 + b*8 + d)})
			}
		}
	}
	for a := 0; a <= 7; a++ {
		probes = append(probes, probe{"AddOctalCharacter", fmt.Sprintf("%d", a), rune(a)})
		for b := 0; b <= 7; b++ {
			probes = append(probes, probe{"AddOctalCharacter", fmt.Sprintf("%d%d", a, b), rune(a*8 + b)})
		}
	}
	for _, h := range []string{"0", "7f", "80", "ff", "FF", "100", "aB", "0041", "2190", "FFFF", "10000", "1F600", "10FFFF"} {
		v, _ := strconv.ParseInt(h, 16, 64)
		probes = append(probes, probe{"AddHexaCharacter", h, rune(v)})
	}
	badNum := map[string][]string{}
	und := ""
	for _, pr := range probes {
		func() {
			defer func() {
				if p := recover(); p != nil {
					und = fmt.Sprint(p)
				}
			}()
			fm := newFrontModel(r)
			fm.call(pr.method, pr.text)
			list := fm.operands()
			if len(list) != 1 {
				badNum[pr.method] = append(badNum[pr.method], pr.text+": pushes "+fmt.Sprint(len(list))+" nodes")
				return
			}
			got := []rune(fm.m.strOf(list[0]))
			if len(got) != 1 || got[0] != pr.want {
				badNum[pr.method] = append(badNum[pr.method], fmt.Sprintf("\\%s%s denotes U+%04X but the builder stores %q", map[string]string{"AddOctalCharacter": "", "AddHexaCharacter": "0x"}[pr.method], pr.text, pr.want, string(got)))
			}
		}()
	}
	if und != "" {
		c.Und("R-escape-range", "Tree.AddOctalCharacter/AddHexaCharacter", "", und)
		return
	}
	for _, m := range []string{"AddOctalCharacter", "AddHexaCharacter"} {
		b := badNum[m]
		detail := ""
		if len(b) > 0 {
			detail = fmt.Sprintf("%d of the probed escapes decode wrongly, e.g. %s", len(b), strings.Join(b[:min(4, len(b))], "; "))
		}
		c.Decide(len(b) == 0, "R-escape-range", "Tree."+m+" decodes every escape its capture pattern admits", "", "every string of the capture pattern (octal: exhaustive; hex: boundary values) yields the denoted code point", detail)
	}
}

// reach: rules reachable from an expression (through names), optionally cutting some edges.
func reachRules(g *pgrammar, e *pexpr, cut func(parent, ref *pexpr) bool, out map[string]bool) {
	var walk func(x *pexpr)
	walk = func(x *pexpr) {
		if x.Op == "name" {
			if !out[x.S] {
				out[x.S] = true
				if rl, ok := g.ByName[x.S]; ok {
					walk(rl.Expr)
				}
			}
			return
		}
		for _, k := range x.Kids {
			if cut != nil && cut(x, k) {
				continue
			}
			walk(k)
		}
	}
	walk(e)
}

func callsReachable(g *pgrammar, e *pexpr, cut func(parent, ref *pexpr) bool) map[string]bool {
	rs := map[string]bool{}
	reachRules(g, e, cut, rs)
	out := map[string]bool{}
	var collect func(x *pexpr)
	collect = func(x *pexpr) {
		if x.Op == "action" {
			for _, cs := range actionCalls(x.S) {
				out[cs.Method] = true
			}
		}
		for _, k := range x.Kids {
			if cut != nil && cut(x, k) {
				continue
			}
			collect(k)
		}
	}
	collect(e)
	for n := range rs {
		if rl, ok := g.ByName[n]; ok {
			collect(rl.Expr)
		}
	}
	return out
}

func quoteRoutingShape(c *Check, r *Repo, g *pgrammar) {
	// literal rule: a choice whose alternatives start with a quote class
	var bad []string
	n := 0
	for _, rl := range g.Rules {
		if rl.Expr.Op != "alt" {
			continue
		}
		for _, alt := range rl.Expr.Kids {
			first := alt
			for first.Op == "seq" && len(first.Kids) > 0 {
				first = first.Kids[0]
			}
			var opener string
			switch {
			case first.Op == "class" && len(first.Ranges) == 1 && first.Ranges[0][0] == first.Ranges[0][1]:
				opener = string(first.Ranges[0][0])
			case first.Op == "lit":
				opener = first.S
			}
			calls := callsReachable(g, alt, nil)
			folding := calls["AddDoubleCharacter"] || calls["AddDoubleRange"]
			switch opener {
			case "'", "[":
				n++
				if folding {
					bad = append(bad, fmt.Sprintf("peg.peg:%d: the %s…-form of %s can reach a case-folding builder: case-sensitive syntax would match case-insensitively", alt.Pos, opener, rl.Name))
				}
			case "\"", "[[":
				n++
				if !folding {
					bad = append(bad, fmt.Sprintf("peg.peg:%d: the %s…-form of %s never reaches AddDoubleCharacter/AddDoubleRange: documented case-insensitive syntax is matched case-sensitively", alt.Pos, opener, rl.Name))
				}
			}
		}
	}
	// class alternatives nested inside a group: look for literals '[[' and '[' anywhere
	var scan func(rl *prule, e *pexpr)
	scan = func(rl *prule, e *pexpr) {
		if e.Op == "seq" && len(e.Kids) > 0 && e.Kids[0].Op == "lit" && (e.Kids[0].S == "[[" || e.Kids[0].S == "[") {
			n++
			calls := callsReachable(g, e, nil)
			folding := calls["AddDoubleCharacter"] || calls["AddDoubleRange"]
			if e.Kids[0].S == "[[" && !folding {
				bad = append(bad, fmt.Sprintf("peg.peg:%d: [[…]] never reaches the case-folding builders", e.Pos))
			}
			if e.Kids[0].S == "[" && folding {
				bad = append(bad, fmt.Sprintf("peg.peg:%d: […] can reach a case-folding builder", e.Pos))
			}
			// negation: '^' X {AddPeekNot; AddDot; AddSequence}
			var neg func(x *pexpr)
			neg = func(x *pexpr) {
				if x.Op == "seq" && len(x.Kids) >= 3 && x.Kids[0].Op == "lit" && x.Kids[0].S == "^" {
					last := x.Kids[len(x.Kids)-1]
					var ms []string
					if last.Op == "action" {
						for _, cs := range actionCalls(last.S) {
							ms = append(ms, cs.Method)
						}
					}
					if strings.Join(ms, ";") != "AddPeekNot;AddDot;AddSequence" {
						bad = append(bad, fmt.Sprintf("peg.peg:%d: a negated class is not built as !(members) followed by '.' (actions: %v)", x.Pos, ms))
					}
				}
				for _, k := range x.Kids {
					neg(k)
				}
			}
			neg(e)
		}
		for _, k := range e.Kids {
			scan(rl, k)
		}
	}
	for _, rl := range g.Rules {
		scan(rl, rl.Expr)
	}
	// finer: inside a case-insensitive form every *directly* referenced rule that builds
	// members must be a case-folding one (a case-sensitive rule used for just the first
	// character, or for just the negated branch, is still wrong)
	memberBuilders := map[string]bool{"AddCharacter": true, "AddRange": true, "AddDoubleCharacter": true, "AddDoubleRange": true}
	buildsMembers := func(name string) (members, folding bool) {
		rl, ok := g.ByName[name]
		if !ok {
			return false, false
		}
		calls := callsReachable(g, rl.Expr, nil)
		for m := range calls {
			if memberBuilders[m] {
				members = true
			}
		}
		return members, calls["AddDoubleCharacter"] || calls["AddDoubleRange"]
	}
	var direct func(e *pexpr, insens bool, where string)
	direct = func(e *pexpr, insens bool, where string) {
		if e.Op == "name" {
			members, folding := buildsMembers(e.S)
			if members && insens && !folding {
				bad = append(bad, fmt.Sprintf("peg.peg:%d: the case-insensitive form %s uses the case-sensitive rule %s for some of its members", e.Pos, where, e.S))
			}
			if members && !insens && folding {
				bad = append(bad, fmt.Sprintf("peg.peg:%d: the case-sensitive form %s uses the case-folding rule %s", e.Pos, where, e.S))
			}
			return
		}
		for _, k := range e.Kids {
			direct(k, insens, where)
		}
	}
	var forms func(rl *prule, e *pexpr)
	forms = func(rl *prule, e *pexpr) {
		if e.Op == "seq" && len(e.Kids) > 0 {
			first := e.Kids[0]
			op := ""
			switch {
			case first.Op == "lit":
				op = first.S
			case first.Op == "class" && len(first.Ranges) == 1 && first.Ranges[0][0] == first.Ranges[0][1]:
				op = string(first.Ranges[0][0])
			}
			switch op {
			case "\"", "[[":
				direct(e, true, op+"…")
				return
			case "'", "[":
				direct(e, false, op+"…")
				return
			}
		}
		for _, k := range e.Kids {
			forms(rl, k)
		}
	}
	for _, rl := range g.Rules {
		forms(rl, rl.Expr)
	}
	c.Decide(len(bad) == 0 && n >= 4, "R-quote-routing", "peg.peg/quoting and class forms reach the right builders", "", fmt.Sprintf("%d quoting/class forms: '…' and […] never reach the case-folding builders, \"…\" and [[…]] do, negated classes are !(members) '.'", n), strings.Join(bad, "; "))
	// the case-folding builders themselves
}

// caseFoldBuilders: R-quote-routing (builder half).
func caseFoldBuilders(c *Check, r *Repo) {
	var bad2 []string
	func() {
		defer func() {
			if p := recover(); p != nil {
				bad2 = append(bad2, fmt.Sprint(p))
			}
		}()
		for _, ch := range []string{"a", "Z"} {
			fm := newFrontModel(r)
			fm.call("AddDoubleCharacter", ch)
			top := fm.operands()
			got := ""
			if len(top) == 1 {
				got = fm.m.dump(top[0], 0, map[*Obj]bool{})
			}
			lo, up := strings.ToLower(ch), strings.ToUpper(ch)
			if !(strings.HasPrefix(got, "Alternate") && strings.Contains(got, fmt.Sprintf("Character(%q", lo)) && strings.Contains(got, fmt.Sprintf("Character(%q", up))) {
				bad2 = append(bad2, fmt.Sprintf("AddDoubleCharacter(%q) builds %s, expected the choice of %q and %q", ch, got, lo, up))
			}
		}
		fm := newFrontModel(r)
		fm.call("AddCharacter", "b")
		fm.call("AddCharacter", "Y")
		fm.call("AddDoubleRange")
		top := fm.operands()
		got := ""
		if len(top) == 1 {
			got = fm.m.dump(top[0], 0, map[*Obj]bool{})
		}
		want := []string{`Range("",id=0)[Character("b",id=0) Character("y",id=0)]`, `Range("",id=0)[Character("B",id=0) Character("Y",id=0)]`}
		if !(strings.HasPrefix(got, "Alternate") && strings.Contains(got, want[0]) && strings.Contains(got, want[1])) {
			bad2 = append(bad2, "AddDoubleRange on b..Y builds "+got+", expected the choice of [b-y] and [B-Y]")
		}
	}()
	c.Decide(len(bad2) == 0, "R-quote-routing", "Tree.AddDoubleCharacter/AddDoubleRange build the lower/upper alternation", "", "evaluated on representative letters and a mixed-case range", strings.Join(bad2, "; "))
}

func precedence(c *Check, g *pgrammar) {
	level := map[string]int{"AddAlternate": 0, "AddSequence": 1, "AddPeekFor": 2, "AddPeekNot": 2, "AddPredicate": 2, "AddStateChange": 2, "AddQuery": 3, "AddStar": 3, "AddPlus": 3}
	// bracketed references: Open X Close / Begin X End — a name between two names whose rules only match punctuation
	isPunctRule := func(name string) bool {
		rl, ok := g.ByName[name]
		if !ok {
			return false
		}
		e := rl.Expr
		if e.Op == "seq" && len(e.Kids) == 2 && e.Kids[0].Op == "lit" && e.Kids[1].Op == "name" {
			s := e.Kids[0].S
			return s == "(" || s == ")" || s == "<" || s == ">"
		}
		return false
	}
	cut := func(parent, ref *pexpr) bool {
		if parent.Op != "seq" || ref.Op != "name" {
			return false
		}
		for i, k := range parent.Kids {
			if k == ref && i > 0 && i+1 < len(parent.Kids) {
				a, b := parent.Kids[i-1], parent.Kids[i+1]
				if a.Op == "name" && b.Op == "name" && isPunctRule(a.S) && isPunctRule(b.S) {
					return true
				}
			}
		}
		return false
	}
	// classes and literals use AddAlternate/AddSequence for their members: those rules are leaves of the expression grammar
	leafRule := func(name string) bool {
		rl, ok := g.ByName[name]
		if !ok {
			return false
		}
		calls := callsReachable(g, rl.Expr, cut)
		return (calls["AddCharacter"] || calls["AddRange"]) && !calls["AddName"]
	}
	var bad []string
	n := 0
	for _, rl := range g.Rules {
		if leafRule(rl.Name) {
			continue
		}
		own := map[string]bool{}
		var collect func(x *pexpr)
		collect = func(x *pexpr) {
			if x.Op == "action" {
				for _, cs := range actionCalls(x.S) {
					own[cs.Method] = true
				}
			}
			for _, k := range x.Kids {
				collect(k)
			}
		}
		collect(rl.Expr)
		lvl := -1
		for m := range own {
			if l, ok := level[m]; ok && (lvl < 0 || l < lvl) {
				lvl = l
			}
		}
		if lvl < 0 {
			continue
		}
		n++
		// operand rules: every rule referenced from this rule's body
		refs := map[string]bool{}
		var names func(x *pexpr)
		names = func(x *pexpr) {
			if x.Op == "name" {
				refs[x.S] = true
			}
			for _, k := range x.Kids {
				if cut(x, k) {
					continue
				}
				names(k)
			}
		}
		names(rl.Expr)
		for ref := range refs {
			if ref == rl.Name || leafRule(ref) {
				continue
			}
			rrl, ok := g.ByName[ref]
			if !ok {
				continue
			}
			for m := range callsReachable(g, rrl.Expr, func(p, k *pexpr) bool {
				if cut(p, k) {
					return true
				}
				return k.Op == "name" && leafRule(k.S)
			}) {
				if l, ok := level[m]; ok && l < lvl {
					bad = append(bad, fmt.Sprintf("rule %s applies an operator of precedence level %d to operands built by %s, which can apply %s (level %d) without parentheses", rl.Name, lvl, ref, m, l))
				}
			}
		}
	}
	sort.Strings(bad)
	c.Decide(len(bad) == 0 && n >= 4, "R-precedence", "peg.peg/alternation < sequence < prefix < suffix", "", fmt.Sprintf("%d operator rules: the operand rules of a level-ℓ operator cannot reach a lower-level operator action except through ( ) or < >", n), strings.Join(uniq(bad), "; "))
}

func spellings(c *Check, g *pgrammar) {
	var bad []string
	// arrow: a rule that is a choice of the literal "<-" and the single rune U+2190
	arrow := false
	comment := false
	for _, rl := range g.Rules {
		var lits []string
		var collect func(x *pexpr)
		collect = func(x *pexpr) {
			if x.Op == "lit" {
				lits = append(lits, x.S)
			}
			for _, k := range x.Kids {
				collect(k)
			}
		}
		collect(rl.Expr)
		has := func(s string) bool {
			for _, l := range lits {
				if l == s {
					return true
				}
			}
			return false
		}
		if has("<-") {
			if has("←") {
				arrow = true
			} else {
				bad = append(bad, fmt.Sprintf("peg.peg:%d: rule %s accepts <- but not the arrow U+2190", rl.Line, rl.Name))
			}
		}
		if has("#") && has("//") && rl.Expr.Op == "seq" {
			// both heads share one continuation: the heads are a choice that is the first element
			if first := rl.Expr.Kids[0]; first.Op == "alt" {
				comment = true
			}
		}
	}
	if !arrow {
		bad = append(bad, "no rule accepts both arrow spellings")
	}
	if !comment {
		bad = append(bad, "no comment rule offers # and // with a shared continuation")
	}
	c.Decide(len(bad) == 0, "R-spellings", "peg.peg/both comment and both arrow spellings", "", "('#' / '//') share one continuation; ('<-' / U+2190) share one rule", strings.Join(bad, "; "))
}

func reject(c *Check, r *Repo, g *pgrammar) {
	// the start rule ends with a rule equivalent to !.
	start := g.Rules[0]
	okEOF := false
	if start.Expr.Op == "seq" {
		last := start.Expr.Kids[len(start.Expr.Kids)-1]
		if last.Op == "name" {
			if rl, ok := g.ByName[last.S]; ok && rl.Expr.Op == "not" && rl.Expr.Kids[0].Op == "dot" {
				okEOF = true
			}
		}
		if last.Op == "not" && last.Kids[0].Op == "dot" {
			okEOF = true
		}
	}
	c.Decide(okEOF, "R-reject", "peg.peg/start rule requires end of input", fmt.Sprintf("peg.peg:%d", start.Line), "the start rule's last element is !. — trailing text that is not a grammar is a syntax error", "the start rule does not end with end-of-input: trailing garbage after a grammar would be accepted silently")
}
