package main

// rtView: resolved view of one runtime instantiation (or peg.peg.go): Init,
// its named closures, the captured parse-state variables, the rule functions,
// and interprocedural write sets. Plus an aggregator that folds the verdicts
// of one rule instance across configurations into a single obligation.

import (
	"fmt"
	"go/ast"
	"go/token"
	"go/types"
	"sort"
	"strings"

	"golang.org/x/tools/go/ssa"
)

type rtView struct {
	in      *inst
	initFn  *ssa.Function
	cl      map[string]*ssa.Function // "p.reset", "p.parse", "add", "memoize", …
	ruleFns []*ssa.Function
	vars    map[string]*ssa.Alloc
	ea      *effAnalysis
	all     []*ssa.Function // every function of the generated file
}

func newRtView(in *inst) (*rtView, string) {
	v := &rtView{in: in, vars: map[string]*ssa.Alloc{}}
	v.initFn, v.cl = in.initClosures()
	if v.initFn == nil {
		return nil, "method Init not found"
	}
	if in.repo != nil || in.canonOf != nil {
		// the checked-in instance: which optional closures exist is read off the file
		in.Cfg.Bools["HasDot"] = v.cl["matchDot"] != nil
		in.Cfg.Bools["HasString"] = v.cl["matchString"] != nil
	}
	named := map[*ssa.Function]bool{}
	for _, f := range v.cl {
		named[f] = true
	}
	for _, af := range v.initFn.AnonFuncs {
		if !named[af] {
			v.ruleFns = append(v.ruleFns, af)
		}
	}
	instrsOf(v.initFn, func(i ssa.Instruction) {
		if a, ok := i.(*ssa.Alloc); ok && a.Comment != "" && isCaptured(a) {
			v.vars[a.Comment] = a
		}
	})
	// all functions of this file
	file := in.Fset.Position(in.File.Pos()).Filename
	seen := map[*ssa.Function]bool{}
	var add func(f *ssa.Function)
	add = func(f *ssa.Function) {
		if f == nil || seen[f] || len(f.Blocks) == 0 {
			return
		}
		if in.Fset.Position(f.Pos()).Filename != file {
			return
		}
		seen[f] = true
		v.all = append(v.all, f)
		for _, a := range f.AnonFuncs {
			add(a)
		}
	}
	for _, m := range in.SSA.Members {
		switch x := m.(type) {
		case *ssa.Function:
			add(x)
		case *ssa.Type:
			nt, ok := x.Type().(*types.Named)
			if !ok {
				continue
			}
			for i := 0; i < nt.NumMethods(); i++ {
				add(in.SSA.Prog.FuncValue(nt.Method(i)))
			}
		}
	}
	sort.Slice(v.all, func(i, j int) bool { return v.all[i].Pos() < v.all[j].Pos() })
	v.ea = &effAnalysis{sum: map[*ssa.Function]*effects{}, spawns: map[*ssa.Function][]spawnSite{},
		inScope: func(f *ssa.Function) bool {
			if len(f.Blocks) == 0 {
				return false
			}
			return in.Fset.Position(f.Pos()).Filename == file
		}}
	v.ea.run(v.all)
	return v, ""
}

// writtenVars: Init-level captured variables (by name) that f may write,
// interprocedurally (through methods taking their address, nested closures).
func (v *rtView) writtenVars(f *ssa.Function) map[string]token.Pos {
	out := map[string]token.Pos{}
	pre := "V:" + fnName(v.initFn) + "."
	for l, p := range v.ea.summary(f).W {
		if strings.HasPrefix(l, pre) {
			out[l[len(pre):]] = p
		}
	}
	return out
}

// varOf resolves an address operand to the captured Init variable it names
// (directly or through field/index selection), "" if none.
func (v *rtView) varOf(addr ssa.Value) (name string, whole bool) {
	whole = true
	for {
		switch x := addr.(type) {
		case *ssa.FieldAddr:
			addr, whole = x.X, false
			continue
		case *ssa.IndexAddr:
			addr, whole = x.X, false
			continue
		case *ssa.FreeVar:
			rb := rootBinding(x)
			if a, ok := rb.(*ssa.Alloc); ok && a.Parent() == v.initFn {
				return a.Comment, whole
			}
			return "", false
		case *ssa.Alloc:
			if x.Parent() == v.initFn && x.Comment != "" {
				return x.Comment, whole
			}
			return "", false
		}
		return "", false
	}
}

// isLoadOfVar: v is `*<captured var name>` (a load of the whole variable).
func (v *rtView) isLoadOfVar(x ssa.Value, name string) bool {
	x = resolveLocal(x)
	u, ok := x.(*ssa.UnOp)
	if !ok || u.Op != token.MUL {
		return false
	}
	n, whole := v.varOf(u.X)
	return n == name && whole
}

// isLoadOfVarField: x is a load of <var>.<field>.
func (v *rtView) isLoadOfVarField(x ssa.Value, name, field string) bool {
	x = resolveLocal(x)
	u, ok := x.(*ssa.UnOp)
	if !ok || u.Op != token.MUL {
		return false
	}
	fa, ok := u.X.(*ssa.FieldAddr)
	if !ok {
		return false
	}
	st := derefStruct(fa.X.Type())
	if st == nil || st.Field(fa.Field).Name() != field {
		return false
	}
	n, whole := v.varOf(fa.X)
	return n == name && whole
}

// recvFieldAddr: addr is &p.<field> where p is the (captured or direct) receiver.
func (v *rtView) isRecvField(addr ssa.Value, field string) bool {
	fa, ok := addr.(*ssa.FieldAddr)
	if !ok {
		return false
	}
	st := derefStruct(fa.X.Type())
	if st == nil || st.Field(fa.Field).Name() != field {
		return false
	}
	x := fa.X
	if u, ok := x.(*ssa.UnOp); ok && u.Op == token.MUL {
		x = u.X
	}
	switch y := x.(type) {
	case *ssa.Parameter:
		return len(y.Parent().Params) > 0 && y.Parent().Params[0] == y
	case *ssa.FreeVar:
		rb := rootBinding(y)
		switch z := rb.(type) {
		case *ssa.Alloc:
			return z.Comment == "p"
		case *ssa.Parameter:
			return z.Parent().Params[0] == z
		}
	case *ssa.Alloc:
		return y.Comment == "p"
	}
	return false
}

func allReturnsDominatedBy(f *ssa.Function, b *ssa.BasicBlock) bool {
	ok := true
	instrsOf(f, func(in ssa.Instruction) {
		if r, isRet := in.(*ssa.Return); isRet {
			if r.Block() != f.Recover && !b.Dominates(r.Block()) {
				ok = false
			}
		}
	})
	return ok
}

// dominatingEdgeFacts collects the branch facts of all edges that dominate b.
func dominatingEdgeFacts(b *ssa.BasicBlock) (conds []struct {
	Cond  ssa.Value
	Truth bool
}) {
	for d := b; d != nil; d = d.Idom() {
		id := d.Idom()
		if id == nil {
			break
		}
		if len(id.Instrs) == 0 {
			continue
		}
		iff, ok := id.Instrs[len(id.Instrs)-1].(*ssa.If)
		if !ok {
			continue
		}
		for si, s := range id.Succs {
			if s == d && edgeDominates(id, s, b) && id.Succs[1-si] != d {
				conds = append(conds, struct {
					Cond  ssa.Value
					Truth bool
				}{iff.Cond, si == 0})
			}
		}
	}
	return
}

// ---------------------------------------------------------------------------
// cross-configuration aggregation

type aggEntry struct {
	rule, construct string
	ok, bad, und    []string // config names
	pos             string
	witness         string
	details         map[string]string
	replay          string
}

type aggregator struct {
	m     map[string]*aggEntry
	order []string
}

func newAgg() *aggregator { return &aggregator{m: map[string]*aggEntry{}} }

func (a *aggregator) get(rule, construct string) *aggEntry {
	k := rule + "|" + construct
	e := a.m[k]
	if e == nil {
		e = &aggEntry{rule: rule, construct: construct, details: map[string]string{}}
		a.m[k] = e
		a.order = append(a.order, k)
	}
	return e
}

func (a *aggregator) OK(rule, construct, cfg, pos, witness string) {
	e := a.get(rule, construct)
	e.ok = append(e.ok, cfg)
	if e.pos == "" {
		e.pos = pos
	}
	if e.witness == "" {
		e.witness = witness
	}
}

func (a *aggregator) Bad(rule, construct, cfg, pos, detail string) {
	e := a.get(rule, construct)
	e.bad = append(e.bad, cfg)
	if len(e.bad) == 1 {
		e.pos = pos
	}
	e.details[detail] = cfg
}

func (a *aggregator) Und(rule, construct, cfg, pos, detail string) {
	e := a.get(rule, construct)
	e.und = append(e.und, cfg)
	if len(e.bad) == 0 {
		e.pos = pos
	}
	e.details[detail] = cfg
}

func (a *aggregator) Decide(ok bool, rule, construct, cfg, pos, witness, detail string) {
	if ok {
		a.OK(rule, construct, cfg, pos, witness)
	} else {
		a.Bad(rule, construct, cfg, pos, detail)
	}
}

func (a *aggregator) flush(c *Check) {
	for _, k := range a.order {
		e := a.m[k]
		var ds []string
		for d := range e.details {
			ds = append(ds, d)
		}
		sort.Strings(ds)
		switch {
		case len(e.bad) > 0:
			o := c.Bad(e.rule, e.construct, e.pos, fmt.Sprintf("%s  [violated in %d configuration(s): %s; holds in %d]", strings.Join(ds, " | "), len(e.bad), clip(strings.Join(e.bad, " "), 300), len(e.ok)))
			o.Replay = e.replay
		case len(e.und) > 0:
			c.Und(e.rule, e.construct, e.pos, fmt.Sprintf("%s  [undecided in %d configuration(s): %s]", strings.Join(ds, " | "), len(e.und), clip(strings.Join(e.und, " "), 300)))
		default:
			c.OK(e.rule, e.construct, e.pos, fmt.Sprintf("%s  [%d configuration(s)]", e.witness, len(e.ok)))
		}
	}
}

// findFuncDeclAST finds a method/func declaration in the instantiation's file.
func (in *inst) funcDeclAST(recv, name string) *ast.FuncDecl {
	for _, d := range in.File.Decls {
		fd, ok := d.(*ast.FuncDecl)
		if !ok || fd.Name.Name != name {
			continue
		}
		if recv == "" && fd.Recv == nil {
			return fd
		}
		if recv != "" && fd.Recv != nil && recvTypeName(fd.Recv.List[0].Type) == recv {
			return fd
		}
	}
	return nil
}

// calledClosures: the Init-level closures f calls through their variables.
func (v *rtView) calledClosures(f *ssa.Function) map[*ssa.Function][]ssa.CallInstruction {
	out := map[*ssa.Function][]ssa.CallInstruction{}
	instrsOf(f, func(in ssa.Instruction) {
		call, ok := in.(ssa.CallInstruction)
		if !ok || call.Common().IsInvoke() || call.Common().StaticCallee() != nil {
			return
		}
		if u, ok := call.Common().Value.(*ssa.UnOp); ok && u.Op == token.MUL {
			if n, whole := v.varOf(u.X); n != "" && whole {
				if g := v.cl[n]; g != nil {
					out[g] = append(out[g], call)
				}
			}
		}
	})
	return out
}

// resetFamily: reset and the helper closures only reset (or another of its
// helpers) calls — "what reset does" when it is split into named steps.
func (v *rtView) resetFamily() map[*ssa.Function]bool {
	fam := map[*ssa.Function]bool{}
	reset := v.cl["p.reset"]
	if reset == nil {
		return fam
	}
	fam[reset] = true
	all := append([]*ssa.Function{}, v.ruleFns...)
	for _, f := range v.cl {
		all = append(all, f)
	}
	if v.initFn != nil {
		all = append(all, v.initFn)
	}
	for changed := true; changed; {
		changed = false
		for _, cand := range v.cl {
			if fam[cand] {
				continue
			}
			calledByFam, calledElsewhere := false, false
			for _, f := range all {
				if f == nil || f == cand {
					continue
				}
				if _, ok := v.calledClosures(f)[cand]; ok {
					if fam[f] {
						calledByFam = true
					} else {
						calledElsewhere = true
					}
				}
			}
			if calledByFam && !calledElsewhere {
				fam[cand] = true
				changed = true
			}
		}
	}
	return fam
}

// varNames: the names of Init's own (heap-allocated, captured) variables.
func (v *rtView) varNames() map[string]bool {
	out := map[string]bool{}
	if v.initFn == nil {
		return out
	}
	instrsOf(v.initFn, func(in ssa.Instruction) {
		if a, ok := in.(*ssa.Alloc); ok && a.Comment != "" {
			out[a.Comment] = true
		}
	})
	return out
}
