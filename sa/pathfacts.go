package main

// A tiny path-sensitive fact engine over SSA CFGs: enumerate acyclic paths
// from the entry block to a target block, collect the (dis)equalities implied
// by the branch edges taken, and decide consistency with a union-find. It
// understands only ==/!= between terms (access paths, small constants, nil,
// Len() calls); every other condition is ignored (treated as unknown), which
// keeps the engine sound for "is X known non-nil here" queries: ignoring a
// condition can only make a guard harder to establish, never easier.

import (
	"fmt"
	"go/constant"
	"go/token"
	"go/types"
	"sort"
	"strings"

	"golang.org/x/tools/go/ssa"
)

// accessPath renders pointer/field chains rooted at a parameter, e.g.
// "s.Head.Forward" for the load *(&(&s.Head).Forward). Returns "" when v is
// not such a chain.
func accessPath(v ssa.Value) string {
	switch x := v.(type) {
	case *ssa.Parameter:
		return x.Name()
	case *ssa.FieldAddr:
		p := accessPath(x.X)
		if p == "" {
			return ""
		}
		st := derefStruct(x.X.Type())
		if st == nil {
			return ""
		}
		return p + "." + st.Field(x.Field).Name()
	case *ssa.Field:
		p := accessPath(x.X)
		if p == "" {
			return ""
		}
		st, _ := x.X.Type().Underlying().(*types.Struct)
		if st == nil {
			return ""
		}
		return p + "." + st.Field(x.Field).Name()
	case *ssa.UnOp:
		if x.Op == token.MUL {
			// load through an address chain: same path (the chain names the cell)
			if _, ok := x.X.(*ssa.FieldAddr); ok {
				return accessPath(x.X)
			}
			// a parameter spilled to a cell because closures capture it
			if al, ok := x.X.(*ssa.Alloc); ok {
				var p *ssa.Parameter
				n := 0
				for _, ref := range *al.Referrers() {
					if st, ok := ref.(*ssa.Store); ok && st.Addr == ssa.Value(al) {
						n++
						p, _ = st.Val.(*ssa.Parameter)
					}
				}
				if n == 1 && p != nil {
					return p.Name()
				}
			}
		}
	}
	return ""
}

// term gives a canonical name to an SSA value for the fact engine.
func term(v ssa.Value) string {
	switch x := v.(type) {
	case *ssa.Const:
		if x.IsNil() {
			return "nil"
		}
		if x.Value != nil && x.Value.Kind() == constant.Int {
			return "#" + x.Value.ExactString()
		}
		if x.Value != nil {
			return "#" + x.Value.String()
		}
	case *ssa.Call:
		if f := x.Call.StaticCallee(); f != nil && len(x.Call.Args) == 1 && f.Signature.Recv() != nil {
			if p := accessPath(x.Call.Args[0]); p != "" {
				return f.Name() + "(" + p + ")"
			}
		}
	}
	if p := accessPath(v); p != "" {
		if _, isAddr := v.(*ssa.FieldAddr); isAddr {
			return "&" + p
		}
		return p
	}
	return "%" + v.Name()
}

type fact struct {
	eq   bool
	a, b string
}

func (f fact) String() string {
	if f.eq {
		return f.a + "==" + f.b
	}
	return f.a + "!=" + f.b
}

// edgeFacts returns the facts implied by taking successor index si of block b.
func edgeFacts(b *ssa.BasicBlock, si int, path []*ssa.BasicBlock) []fact {
	if len(b.Instrs) == 0 {
		return nil
	}
	iff, ok := b.Instrs[len(b.Instrs)-1].(*ssa.If)
	if !ok {
		return nil
	}
	return condFacts(iff.Cond, si == 0, path)
}

// phiOnPath resolves a phi to the operand selected by the (acyclic) path.
func phiOnPath(v ssa.Value, path []*ssa.BasicBlock) ssa.Value {
	for depth := 0; depth < 8; depth++ {
		phi, ok := v.(*ssa.Phi)
		if !ok {
			return v
		}
		blk := phi.Block()
		found := false
		for i, b := range path {
			if b == blk && i > 0 {
				for pi, pred := range blk.Preds {
					if pred == path[i-1] {
						v = phi.Edges[pi]
						found = true
					}
				}
			}
		}
		if !found {
			return v
		}
	}
	return v
}

func condFacts(cond ssa.Value, truth bool, path []*ssa.BasicBlock) []fact {
	switch x := cond.(type) {
	case *ssa.BinOp:
		if x.Op == token.EQL || x.Op == token.NEQ {
			eq := (x.Op == token.EQL) == truth
			return []fact{{eq, term(phiOnPath(x.X, path)), term(phiOnPath(x.Y, path))}}
		}
	case *ssa.UnOp:
		if x.Op == token.NOT {
			return condFacts(x.X, !truth, path)
		}
	}
	return nil
}

// consistent decides satisfiability of a conjunction of ==/!= facts over
// uninterpreted terms plus distinct constants (#k, nil).
func consistent(fs []fact) bool {
	parent := map[string]string{}
	var find func(string) string
	find = func(x string) string {
		if _, ok := parent[x]; !ok {
			parent[x] = x
		}
		if parent[x] != x {
			parent[x] = find(parent[x])
		}
		return parent[x]
	}
	for _, f := range fs {
		if f.eq {
			parent[find(f.a)] = find(f.b)
		}
	}
	// distinct constants in one class?
	classConst := map[string]string{}
	for t := range parent {
		if strings.HasPrefix(t, "#") || t == "nil" {
			r := find(t)
			if c, ok := classConst[r]; ok && c != t {
				return false
			}
			classConst[r] = t
		}
	}
	for _, f := range fs {
		if !f.eq && find(f.a) == find(f.b) {
			return false
		}
	}
	return true
}

// cfgPath is one acyclic path with the facts collected along it.
type cfgPath struct {
	Blocks []*ssa.BasicBlock
	Facts  []fact
}

func (p cfgPath) String() string {
	var bs []string
	for _, b := range p.Blocks {
		bs = append(bs, fmt.Sprintf("b%d", b.Index))
	}
	var fs []string
	for _, f := range p.Facts {
		fs = append(fs, f.String())
	}
	sort.Strings(fs)
	return strings.Join(bs, "→") + " {" + strings.Join(fs, ", ") + "}"
}

// pathsTo enumerates acyclic paths from the entry block to target (bounded).
func pathsTo(fn *ssa.Function, target *ssa.BasicBlock, limit int) (out []cfgPath, truncated bool) {
	if len(fn.Blocks) == 0 {
		return nil, false
	}
	// prune: only blocks from which target is reachable
	canReach := map[*ssa.BasicBlock]bool{target: true}
	for changed := true; changed; {
		changed = false
		for _, b := range fn.Blocks {
			if canReach[b] {
				continue
			}
			for _, s := range b.Succs {
				if canReach[s] {
					canReach[b] = true
					changed = true
					break
				}
			}
		}
	}
	onPath := map[*ssa.BasicBlock]bool{}
	var blocks []*ssa.BasicBlock
	var facts []fact
	var dfs func(b *ssa.BasicBlock)
	dfs = func(b *ssa.BasicBlock) {
		if truncated || onPath[b] || !canReach[b] {
			return
		}
		blocks = append(blocks, b)
		onPath[b] = true
		defer func() { blocks = blocks[:len(blocks)-1]; onPath[b] = false }()
		if b == target {
			if len(out) >= limit {
				truncated = true
				return
			}
			out = append(out, cfgPath{append([]*ssa.BasicBlock(nil), blocks...), append([]fact(nil), facts...)})
			return
		}
		for si, s := range b.Succs {
			ef := edgeFacts(b, si, blocks)
			facts = append(facts, ef...)
			if consistent(facts) { // infeasible prefixes are dropped
				dfs(s)
			}
			facts = facts[:len(facts)-len(ef)]
		}
	}
	dfs(fn.Blocks[0])
	return out, truncated
}
