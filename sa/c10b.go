package main

// C10, second part: imports keep their path and alias (R-import-alias,
// R-import-routing) and actions are brace-balanced (R-action-braces).

import (
	"fmt"
	"go/ast"
	"go/token"
	"go/types"
	"sort"
	"strconv"
	"strings"
)

// formatImportExpr finds the expression stored under "formatImport" in the
// template function map of package tree: a function literal, a function name or
// a method expression.
func formatImportExpr(r *Repo) ast.Expr {
	var e ast.Expr
	for _, f := range r.pkg("tree").Syntax {
		ast.Inspect(f, func(n ast.Node) bool {
			kv, ok := n.(*ast.KeyValueExpr)
			if !ok {
				return true
			}
			if bl, ok := kv.Key.(*ast.BasicLit); ok && bl.Kind == token.STRING {
				if s, err := strconv.Unquote(bl.Value); err == nil && s == "formatImport" {
					e = kv.Value
				}
			}
			return true
		})
	}
	return e
}

// formatImportApply makes the registered function applicable to one element of
// t.Imports, whatever the element's representation.
func formatImportApply(it *Interp, e ast.Expr) func(Value) (string, error) {
	one := func(res []Value) (string, error) {
		if len(res) != 1 {
			return "", fmt.Errorf("formatImport did not return one value")
		}
		line, ok := res[0].(string)
		if !ok {
			return "", fmt.Errorf("formatImport returned %s", describe(res[0]))
		}
		return line, nil
	}
	switch x := ast.Unparen(e).(type) {
	case *ast.FuncLit:
		fn := it.eval(x, newEnv(nil))
		return func(v Value) (string, error) { return one(it.callValue(x, fn, []Value{v})) }
	case *ast.Ident:
		if f, ok := it.info.Uses[x].(*types.Func); ok {
			if fd := it.decls[f]; fd != nil {
				return func(v Value) (string, error) { return one(it.callDecl(fd, nil, v)) }
			}
		}
	case *ast.SelectorExpr:
		if sel := it.info.Selections[x]; sel != nil && sel.Kind() == types.MethodExpr {
			if f, ok := sel.Obj().(*types.Func); ok {
				if fd := it.decls[f]; fd != nil {
					return func(v Value) (string, error) { return one(it.callDecl(fd, v)) }
				}
			}
		}
	}
	return nil
}

// printedImports: the import specs the template prints for the tree's import
// list, in order, each split into name and path.
func printedImports(r *Repo, it *Interp, tree *Obj) (specs [][2]string, err error) {
	e := formatImportExpr(r)
	if e == nil {
		return nil, fmt.Errorf("the function registered as formatImport was not found")
	}
	apply := formatImportApply(it, e)
	if apply == nil {
		return nil, fmt.Errorf("the function registered as formatImport is neither a literal, a function nor a method expression of the package")
	}
	s, ok := tree.field("Imports").v.(*SliceV)
	if !ok || s == nil {
		return nil, nil
	}
	for _, el := range s.elems {
		line, err := apply(el)
		if err != nil {
			return nil, err
		}
		line = strings.TrimSpace(line)
		name, path := "", line
		if i := strings.Index(line, " "); i >= 0 && !strings.HasPrefix(line, "\"") {
			name, path = line[:i], strings.TrimSpace(line[i+1:])
		}
		if p, err := strconv.Unquote(path); err == nil {
			path = p
		} else {
			return nil, fmt.Errorf("formatImport printed %q, which is not an import spec", line)
		}
		specs = append(specs, [2]string{name, path})
	}
	return specs, nil
}

// runtimeImportPaths: the string literals Compile passes to AddImport itself.
func runtimeImportPaths(r *Repo) map[string]bool {
	out := map[string]bool{}
	fd, _ := r.funcDecl("tree", "Tree.Compile")
	if fd == nil {
		return out
	}
	ast.Inspect(fd, func(n ast.Node) bool {
		ce, ok := n.(*ast.CallExpr)
		if !ok || len(ce.Args) != 1 {
			return true
		}
		if se, ok := ce.Fun.(*ast.SelectorExpr); ok && se.Sel.Name == "AddImport" {
			if bl, ok := ce.Args[0].(*ast.BasicLit); ok && bl.Kind == token.STRING {
				if s, err := strconv.Unquote(bl.Value); err == nil {
					out[s] = true
				}
			}
		}
		return true
	})
	// … or hands to AddImport from a list
	for _, a := range []bool{true, false} {
		for _, p := range compileImports(a) {
			out[p] = true
		}
	}
	return out
}

// importAlias: R-import-alias — for a family of import lists (aliased and
// not, in every relative order, repeating a runtime import) the builder calls
// the grammar makes, the first pass of Compile and the template's
// formatImport (the repository's own function literal, evaluated) together
// print one import spec per distinct user import carrying exactly its alias
// and path, and nothing else but the runtime's own imports.
func importAlias(c *Check, r *Repo) {
	rg := findRegion(r)
	if len(rg.problems) > 0 {
		c.Und("R-import-alias", "Compile/region", "", strings.Join(rg.problems, "; "))
		return
	}
	lit := formatImportExpr(r)
	if lit == nil {
		c.Und("R-import-alias", "templateFuncs/formatImport", "", "the function registered as formatImport was not found")
		return
	}
	rt := runtimeImportPaths(r)
	type imp struct{ alias, path string }
	cases := [][]imp{
		{{"", "os"}},
		{{"o", "os"}},
		{{"o", "os"}, {"", "os/exec"}},
		{{"", "os"}, {"x", "os/exec"}},
		{{"a", "x/y"}, {"", "z"}, {"b", "w"}},
		{{"", "z"}, {"a", "x/y"}, {"b", "w"}, {"", "v"}},
		{{"f", "fmt"}},
		{{"", "fmt"}, {"", "strconv"}},
		{{"s", "strconv"}, {"s2", "strconv"}},
		{{"", "a"}, {"a", "a"}},
		{{"_", "embed"}, {"", "unicode/utf8"}},
		{{"", "b"}, {"", "a"}, {"", "b"}},
		{{"fmt", "fmt"}},
		{{"strconv", "strconv"}, {"f", "fmt"}, {"fmt", "fmt"}},
	}
	var bad []string
	und := ""
	n := 0
	for _, cs := range cases {
		func() {
			defer func() {
				if p := recover(); p != nil {
					if u, ok := p.(undecided); ok {
						und = u.msg
						return
					}
					und = fmt.Sprint(p)
				}
			}()
			fm := newFrontModel(r)
			var desc []string
			want := map[string]bool{}
			for _, i := range cs {
				if i.alias != "" {
					fm.call("AddImportAlias", i.alias)
					want[fmt.Sprintf("%s %q", i.alias, i.path)] = true
					desc = append(desc, i.alias+" "+strconv.Quote(i.path))
				} else {
					want[strconv.Quote(i.path)] = true
					desc = append(desc, strconv.Quote(i.path))
				}
				fm.call("AddImport", i.path)
			}
			fm.call("AddRule", "S")
			fm.call("AddDot")
			fm.call("AddExpression")
			em := fm.m.runFull(rg)
			if em.Err != "" {
				und = em.Err
				return
			}
			got := map[string]int{}
			specs, err := printedImports(r, fm.it, fm.tree)
			if err != nil {
				und = err.Error()
				return
			}
			for _, sp := range specs {
				if sp[0] != "" {
					got[fmt.Sprintf("%s %q", sp[0], sp[1])]++
				} else {
					got[strconv.Quote(sp[1])]++
				}
			}
			n++
			where := "import (" + strings.Join(desc, "; ") + ")"
			for w := range want {
				switch got[w] {
				case 1:
				case 0:
					var g []string
					for k := range got {
						g = append(g, k)
					}
					sort.Strings(g)
					bad = append(bad, fmt.Sprintf("%s: the import spec %s is not printed (printed: %s)", where, w, strings.Join(g, "; ")))
				default:
					bad = append(bad, fmt.Sprintf("%s: the import spec %s is printed %d times", where, w, got[w]))
				}
			}
			for g, k := range got {
				if want[g] {
					continue
				}
				p, err := strconv.Unquote(g)
				if err != nil || !rt[p] {
					bad = append(bad, fmt.Sprintf("%s: an import spec %s is printed that the grammar did not ask for", where, g))
				} else if k != 1 {
					bad = append(bad, fmt.Sprintf("%s: the runtime import %s is printed %d times", where, g, k))
				}
			}
		}()
	}
	if und != "" {
		c.Und("R-import-alias", "Compile+formatImport/imports keep path and alias", "", und)
		return
	}
	sort.Strings(bad)
	c.Decide(len(bad) == 0 && n == len(cases), "R-import-alias", "Compile+formatImport/imports keep path and alias", r.pos(lit.Pos()),
		fmt.Sprintf("%d import lists (aliases before/after plain imports, blank alias, an alias for a package the runtime imports, repeated imports): each distinct user import is printed once with exactly its alias and path; all other specs are the runtime's own", n),
		strings.Join(uniq(bad), "; "))
}

// importRouting: R-import-routing — in peg.peg the rule that calls AddImport
// passes it the text captured between the two double quotes, and the optional
// alias (an identifier passed to AddImportAlias) belongs to the same rule and
// precedes the path, so that each alias is followed by its own path.
func importRouting(c *Check, g *pgrammar) {
	rl := findRule(g, func(r *prule) bool { return hasCallShallow(r.Expr, "AddImport") })
	if rl == nil {
		c.Bad("R-import-routing", "peg.peg/import rule", "", "no rule calls AddImport: imports written in a grammar are dropped")
		return
	}
	pos := fmt.Sprintf("peg.peg:%d", rl.Line)
	e := rl.Expr
	if e.Op != "seq" {
		c.Bad("R-import-routing", "peg.peg/import rule", pos, "the rule calling AddImport is not a sequence")
		return
	}
	var bad []string
	iImport, iCapture, iAlias := -1, -1, -1
	for i, k := range e.Kids {
		switch {
		case k.Op == "action" && hasCallShallow(k, "AddImport"):
			if iImport < 0 {
				iImport = i
			}
		case k.Op == "capture":
			iCapture = i
		case hasCallShallow(k, "AddImportAlias") || hasCall(k, "AddImportAlias"):
			iAlias = i
		}
	}
	if iImport < 0 {
		bad = append(bad, "AddImport is not called at the top level of the import rule's sequence")
	}
	if iCapture < 0 || iCapture > iImport {
		bad = append(bad, "no capture precedes the AddImport action: text is not the import path")
	} else {
		// the capture is enclosed in quotes
		q := func(x *pexpr) bool {
			if x.Op == "lit" && x.S == `"` {
				return true
			}
			return x.Op == "class" && !x.Neg && len(x.Ranges) == 1 && x.Ranges[0] == [2]rune{'"', '"'}
		}
		if iCapture == 0 || iCapture+1 >= len(e.Kids) || !q(e.Kids[iCapture-1]) || !q(e.Kids[iCapture+1]) {
			bad = append(bad, "the captured import path is not delimited by double quotes on both sides")
		}
		// the captured path admits '/', '.', '-', '_' and alphanumerics
		var cls *pexpr
		var find func(x *pexpr)
		find = func(x *pexpr) {
			if x.Op == "class" && cls == nil {
				cls = x
			}
			for _, k := range x.Kids {
				find(k)
			}
		}
		find(e.Kids[iCapture])
		if cls != nil && !cls.Neg {
			for _, ch := range "azAZ09_/.-" {
				in := false
				for _, rg := range cls.Ranges {
					if ch >= rg[0] && ch <= rg[1] {
						in = true
					}
				}
				if !in {
					bad = append(bad, fmt.Sprintf("the import path class does not admit %q", ch))
				}
			}
		}
		for j := iCapture + 1; j < iImport; j++ {
			if e.Kids[j].Op == "capture" || hasCall(e.Kids[j], "AddImportAlias") {
				bad = append(bad, "another capture or the alias action lies between the path capture and AddImport")
			}
		}
		if a := e.Kids[iImport]; a.Op == "action" {
			for _, cs := range actionCalls(a.S) {
				if cs.Method == "AddImport" && (len(cs.Args) != 1 || strings.TrimSpace(cs.Args[0]) != "text") {
					bad = append(bad, "AddImport is not passed the captured text")
				}
			}
		}
	}
	if iAlias >= 0 {
		if iAlias > iCapture {
			bad = append(bad, "the alias follows the path it belongs to")
		}
		a := e.Kids[iAlias]
		if a.Op != "query" {
			bad = append(bad, "the alias is not optional")
		} else {
			in := a.Kids[0]
			okAlias := false
			if in.Op == "seq" && len(in.Kids) == 2 && in.Kids[0].Op == "name" && in.Kids[1].Op == "action" {
				// the name must be a capturing identifier rule
				if irl, ok := g.ByName[in.Kids[0].S]; ok && containsOp(irl.Expr, "capture") {
					for _, cs := range actionCalls(in.Kids[1].S) {
						if cs.Method == "AddImportAlias" && len(cs.Args) == 1 && strings.TrimSpace(cs.Args[0]) == "text" {
							okAlias = true
						}
					}
				}
			}
			if !okAlias {
				bad = append(bad, "the alias part is not (Identifier { AddImportAlias(text) })?")
			}
		}
	} else {
		bad = append(bad, "the import rule has no alias part calling AddImportAlias: aliases are not accepted or are dropped")
	}
	c.Decide(len(bad) == 0, "R-import-routing", "peg.peg/"+rl.Name+" passes alias then quoted path", pos,
		"(Identifier {AddImportAlias(text)})? '\"' <path> '\"' {AddImport(text)}: the alias is pushed immediately before its own path, the path is the text between the quotes", strings.Join(bad, "; "))
}

func containsOp(e *pexpr, op string) bool {
	if e.Op == op {
		return true
	}
	for _, k := range e.Kids {
		if containsOp(k, op) {
			return true
		}
	}
	return false
}

// hasCallShallow: e is itself an action calling method, or a sequence whose
// direct elements include one.
func hasCallShallow(e *pexpr, method string) bool {
	if e.Op == "action" {
		for _, cs := range actionCalls(e.S) {
			if cs.Method == method {
				return true
			}
		}
		return false
	}
	if e.Op == "seq" {
		for _, k := range e.Kids {
			if k.Op == "action" && hasCallShallow(k, method) {
				return true
			}
		}
	}
	return false
}

// actionBraces: R-action-braces — the rule for { … } is '{' < B* > '}' where
// every alternative of B either consumes one character that is neither brace
// or is '{' B* '}'. The alternatives have disjoint first characters, so
// ordered choice coincides with the context-free reading B → c | { B* }, the
// balanced-brace language.
func actionBraces(c *Check, g *pgrammar) {
	isLit := func(x *pexpr, s string) bool {
		if x.Op == "lit" && x.S == s {
			return true
		}
		rs := []rune(s)
		return x.Op == "class" && !x.Neg && len(rs) == 1 && len(x.Ranges) == 1 && x.Ranges[0] == [2]rune{rs[0], rs[0]}
	}
	// the action rule: a sequence starting with '{' whose second element is a capture
	var act *prule
	for _, rl := range g.Rules {
		e := rl.Expr
		if e.Op == "seq" && len(e.Kids) >= 3 && isLit(e.Kids[0], "{") && e.Kids[1].Op == "capture" {
			act = rl
			break
		}
	}
	if act == nil {
		c.Bad("R-action-braces", "peg.peg/action rule", "", "no rule of the form '{' < … > '}' was found")
		return
	}
	pos := fmt.Sprintf("peg.peg:%d", act.Line)
	var bad []string
	e := act.Expr
	if !isLit(e.Kids[2], "}") {
		bad = append(bad, "the capture is not followed by '}'")
	}
	body := e.Kids[1].Kids[0]
	// body must be B* (or B* spelled (B)* …)
	starOf := func(x *pexpr) (string, bool) {
		if x.Op == "star" && x.Kids[0].Op == "name" {
			return x.Kids[0].S, true
		}
		return "", false
	}
	bname, ok := starOf(body)
	if !ok {
		bad = append(bad, "the captured action text is not a repetition of a body rule")
	}
	if brl, ok2 := g.ByName[bname]; ok && ok2 {
		var alts []*pexpr
		var flat func(x *pexpr)
		flat = func(x *pexpr) {
			if x.Op == "alt" {
				for _, k := range x.Kids {
					flat(k)
				}
				return
			}
			alts = append(alts, x)
		}
		flat(brl.Expr)
		nested, plain := 0, 0
		excludesBraces := func(x *pexpr) bool {
			in := func(ch rune) bool {
				for _, rg := range x.Ranges {
					if ch >= rg[0] && ch <= rg[1] {
						return true
					}
				}
				return false
			}
			if x.Neg {
				return in('{') && in('}')
			}
			return !in('{') && !in('}')
		}
		for _, a := range alts {
			switch {
			case a.Op == "class" && excludesBraces(a):
				plain++
			case a.Op == "lit" && !strings.ContainsAny(a.S, "{}") && a.S != "":
				plain++
			case a.Op == "seq" && len(a.Kids) == 3 && isLit(a.Kids[0], "{") && isLit(a.Kids[2], "}"):
				if n2, ok := starOf(a.Kids[1]); ok && n2 == bname {
					nested++
				} else {
					bad = append(bad, fmt.Sprintf("peg.peg:%d: the nested alternative of %s does not repeat %s between its braces", a.Pos, bname, bname))
				}
			case a.Op == "seq" && len(a.Kids) == 2 && a.Kids[0].Op == "not" && a.Kids[1].Op == "dot":
				// !X . : X must cover both braces
				x := a.Kids[0].Kids[0]
				if x.Op == "class" && !x.Neg && !excludesBraces(x) {
					in := func(ch rune) bool {
						for _, rg := range x.Ranges {
							if ch >= rg[0] && ch <= rg[1] {
								return true
							}
						}
						return false
					}
					if in('{') && in('}') {
						plain++
						continue
					}
				}
				bad = append(bad, fmt.Sprintf("peg.peg:%d: an alternative of %s may consume a brace on its own", a.Pos, bname))
			default:
				bad = append(bad, fmt.Sprintf("peg.peg:%d: an alternative of %s is neither a non-brace character nor '{' %s* '}': braces inside actions need not balance", a.Pos, bname, bname))
			}
		}
		if nested == 0 {
			bad = append(bad, "the body rule has no '{' "+bname+"* '}' alternative: nested braces are not accepted")
		}
		if plain == 0 {
			bad = append(bad, "the body rule has no non-brace character alternative")
		}
	} else if ok {
		bad = append(bad, "the body rule "+bname+" is not defined")
	}
	c.Decide(len(bad) == 0, "R-action-braces", "peg.peg/"+act.Name+" is '{' <B*> '}' with B → non-brace | '{' B* '}'", pos,
		"alternatives of the body rule start with disjoint characters, so the rule denotes exactly the brace-balanced texts; the action text is what lies between the outer braces", strings.Join(bad, "; "))
}

// pmatch: PEG matching of a name-free fragment of the grammar on a short
// string (used for the capture patterns of the numeric escapes only).
func pmatch(e *pexpr, s []rune, pos int) (int, bool) {
	switch e.Op {
	case "lit":
		rs := []rune(e.S)
		if pos+len(rs) > len(s) {
			return pos, false
		}
		for i, r := range rs {
			c := s[pos+i]
			if e.Insens {
				if unicodeLower(c) != unicodeLower(r) {
					return pos, false
				}
			} else if c != r {
				return pos, false
			}
		}
		return pos + len(rs), true
	case "class":
		if pos >= len(s) {
			return pos, false
		}
		in := false
		for _, rg := range e.Ranges {
			c := s[pos]
			if c >= rg[0] && c <= rg[1] {
				in = true
			}
			if e.Insens && (unicodeLower(c) >= unicodeLower(rg[0]) && unicodeLower(c) <= unicodeLower(rg[1])) {
				in = true
			}
		}
		if in != e.Neg {
			return pos + 1, true
		}
		return pos, false
	case "dot":
		if pos < len(s) {
			return pos + 1, true
		}
		return pos, false
	case "seq":
		p := pos
		for _, k := range e.Kids {
			np, ok := pmatch(k, s, p)
			if !ok {
				return pos, false
			}
			p = np
		}
		return p, true
	case "alt":
		for _, k := range e.Kids {
			if np, ok := pmatch(k, s, pos); ok {
				return np, true
			}
		}
		return pos, false
	case "query":
		if np, ok := pmatch(e.Kids[0], s, pos); ok {
			return np, true
		}
		return pos, true
	case "star", "plus":
		p, n := pos, 0
		for {
			np, ok := pmatch(e.Kids[0], s, p)
			if !ok || np == p {
				break
			}
			p = np
			n++
		}
		return p, e.Op == "star" || n > 0
	case "capture":
		return pmatch(e.Kids[0], s, pos)
	case "and":
		_, ok := pmatch(e.Kids[0], s, pos)
		return pos, ok
	case "not":
		_, ok := pmatch(e.Kids[0], s, pos)
		return pos, !ok
	case "action", "nil":
		return pos, true
	}
	panic(undecided{"grammar fragment with " + e.Op + " is not evaluated here"})
}

func unicodeLower(r rune) rune {
	if r >= 'A' && r <= 'Z' {
		return r + 32
	}
	return r
}

// escapeCaptures: R-escape-capture — what the numeric escape alternatives
// capture: after \0x the longest run of hex digits in either case (at least
// one); after \ up to three octal digits with a value of at most 0377.
func escapeCaptures(c *Check, r *Repo, g *pgrammar) {
	// the escape rule: the one that calls the numeric decoders, or — when the decoding is done in the
	// actions themselves — the one that reads \0x41 and \101 completely
	esc := findRule(g, func(rl *prule) bool { return hasCall(rl.Expr, "AddHexaCharacter") })
	if esc == nil {
		reads := func(rl *prule) bool {
			e1, ok1, _, u1 := runRule(g, rl.Name, `\0x41`)
			e2, ok2, _, u2 := runRule(g, rl.Name, `\101`)
			return u1 == "" && u2 == "" && ok1 && ok2 && e1 == 5 && e2 == 4
		}
		cands := map[string]bool{}
		for _, rl := range g.Rules {
			if reads(rl) {
				cands[rl.Name] = true
			}
		}
		// the innermost one: it refers to no other rule that reads them too
		esc = findRule(g, func(rl *prule) bool {
			if !cands[rl.Name] {
				return false
			}
			inner := false
			var walk func(e *pexpr)
			walk = func(e *pexpr) {
				if e.Op == "name" && cands[e.S] && e.S != rl.Name {
					inner = true
				}
				for _, k := range e.Kids {
					walk(k)
				}
			}
			walk(rl.Expr)
			return !inner
		})
	}
	if esc == nil {
		c.Und("R-escape-capture", "peg.peg/escape rule", "", "no rule reads the numeric escapes \\0x41 and \\101")
		return
	}
	pos := fmt.Sprintf("peg.peg:%d", esc.Line)
	// run: the rule is evaluated as data on the escape s (PEG semantics, actions of the successful
	// derivation): which builder is called with what, consuming how much — whatever the rule's
	// layout (one choice, a factored prefix, helper rules, decoding inside the action)
	run := func(s string) (method, text string, end int, ok bool) {
		e, accepted, tr, u := runRule(g, esc.Name, s)
		if u != "" {
			panic(undecided{u})
		}
		if !accepted {
			return "", "", 0, false
		}
		for _, a := range tr {
			calls, u := concreteCalls(r, g, a.code, a.text)
			if u != "" {
				panic(undecided{u})
			}
			_, plain := plainAction(a.code)
			for _, cs := range calls {
				t := ""
				if len(cs.Args) == 1 {
					t = cs.Args[0]
				}
				if cs.Method == "AddHexaCharacter" || cs.Method == "AddOctalCharacter" {
					return cs.Method, t, e, true
				}
				if cs.Method == "AddCharacter" && !plain {
					return "AddCharacter(computed)", t, e, true
				}
			}
		}
		// accepted as some other escape
		return "", "", e, false
	}
	// agrees: the builder receives the digits (decoded by it: R-escape-range), or the action hands
	// over the character the digits denote
	agrees := func(m, text, decoder, digits string, base int) bool {
		if m == decoder {
			return text == digits
		}
		if m == "AddCharacter(computed)" {
			v, err := strconv.ParseInt(digits, base, 32)
			return err == nil && text == string(rune(v))
		}
		return false
	}
	var bad []string
	und := ""
	func() {
		defer func() {
			if p := recover(); p != nil {
				if u, ok := p.(undecided); ok {
					und = u.msg
					return
				}
				panic(p)
			}
		}()
		n := 0
		// hex: every digit in both cases, alone and in second position, followed by a non-digit
		for _, pre := range []string{`\0x`} {
			for _, d := range "0123456789abcdefABCDEF" {
				for _, d2 := range "0fF9aA" {
					for _, tail := range []string{"", "g", "'", " "} {
						s := pre + string(d) + string(d2) + tail
						m, text, end, ok := run(s)
						n++
						want := string(d) + string(d2)
						if !ok || !agrees(m, text, "AddHexaCharacter", want, 16) || end != len([]rune(pre))+2 {
							bad = append(bad, fmt.Sprintf("the escape %s is read as %s(%q) consuming %d characters (expected AddHexaCharacter(%q))", s, m, text, end, want))
						}
					}
				}
			}
		}
		// octal: all digit strings of length 1..4
		digits := "0123456789"
		var gen func(prefix string, l int)
		gen = func(prefix string, l int) {
			if len(prefix) > 0 {
				s := `\` + prefix
				isOct := func(b byte) bool { return b >= '0' && b <= '7' }
				want := 0
				switch {
				case len(prefix) >= 3 && prefix[0] <= '3' && isOct(prefix[0]) && isOct(prefix[1]) && isOct(prefix[2]):
					want = 3
				case len(prefix) >= 2 && isOct(prefix[0]) && isOct(prefix[1]):
					want = 2
				case isOct(prefix[0]):
					want = 1
				}
				if !strings.HasPrefix(prefix, "0x") {
					m, text, end, ok := run(s)
					n++
					if want == 0 {
						if ok {
							bad = append(bad, fmt.Sprintf("the escape %s is accepted as %s(%q); it is not an octal escape", s, m, text))
						}
					} else if !ok || !agrees(m, text, "AddOctalCharacter", prefix[:want], 8) || end != 1+want {
						bad = append(bad, fmt.Sprintf("the escape %s is read as %s(%q) (expected AddOctalCharacter(%q))", s, m, text, prefix[:want]))
					}
				}
			}
			if l == 0 {
				return
			}
			for _, d := range digits {
				gen(prefix+string(d), l-1)
			}
		}
		gen("", 4)
		if n < 1000 {
			bad = append(bad, "too few escapes evaluated")
		}
	}()
	if und != "" {
		c.Und("R-escape-capture", "peg.peg/"+esc.Name+" numeric escapes", pos, und)
		return
	}
	if len(bad) > 6 {
		bad = append(bad[:6], fmt.Sprintf("… and %d more", len(bad)-6))
	}
	c.Decide(len(bad) == 0, "R-escape-capture", "peg.peg/"+esc.Name+" numeric escapes capture the documented digits", pos,
		"\\0x takes the longest run of hex digits in either case; \\ takes up to three octal digits with value ≤ 0377; the captured text is what the decoder receives", strings.Join(bad, "; "))
}
