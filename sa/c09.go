package main

// C09 — code generation is deterministic and free of data races (DESIGN §4 C09).
// R-forkjoin, R-join, R-no-global-write, R-determinism.

import (
	"fmt"
	"go/constant"
	"go/token"
	"go/types"
	"os"
	"path/filepath"
	"sort"
	"strings"

	"golang.org/x/tools/go/packages"
	"golang.org/x/tools/go/ssa"
	"golang.org/x/tools/go/ssa/ssautil"
)

func checkC09(c *Check) {
	c.Explain = "Decides four structural conditions on the SSA form of tree, set and main.go: R-forkjoin — every concurrency construct reachable from (*Tree).Compile is enumerated and, for each pair of concurrently running closures, the interprocedural write set of one is disjoint from the read∪write set of the other under a field-based, object-insensitive location abstraction (sound for no-race: aliasing is over-approximated); R-join — every path from a spawn to a return of the spawning function passes Wait on the same WaitGroup, and no instruction of the spawner between spawn and Wait touches a location the closures write (or writes one they read); R-no-global-write — no function of tree/set outside package initialisation stores to a package-level variable (independent trees share no mutable state); R-determinism — no function reachable from Compile, the builder API or main.main ranges over a map, selects, reads time/randomness/environment/pid/goroutine count, formats a pointer or uses unsafe. Together with the sequential emitter these make the output and the warning order a function of the grammar, the options and the argument list. Not decided: determinism of the standard library's template engine and printer (trusted)."
	c.Assume = []string{"text/template, go/parser and go/printer are deterministic", "field-based location abstraction: two accesses to the same field of any two objects of a type are treated as the same location (over-approximation)", "library functions outside the listed read-only families may write what they are handed"}
	c.Trusted = []string{"go/ssa of golang.org/x/tools v0.50.0", "the library effect table in effects.go"}
	r := mustRepo(c)
	if r == nil {
		return
	}
	compile := r.ssaFunc("tree", "Tree.Compile")
	if compile == nil {
		c.Und("R-anchor", "tree.(*Tree).Compile", "", "not found")
		return
	}
	ea := newEffAnalysis(r)
	roots := []*ssa.Function{compile}
	for _, f := range r.allFuncs("tree") {
		if f.Parent() == nil {
			roots = append(roots, f)
		}
	}
	for _, f := range r.allFuncs("set") {
		if f.Parent() == nil {
			roots = append(roots, f)
		}
	}
	for _, f := range r.allFuncs("") {
		if strings.HasSuffix(r.Fset.Position(f.Pos()).Filename, "/main.go") && f.Parent() == nil {
			roots = append(roots, f)
		}
	}
	ea.run(roots)

	// functions reachable from Compile (for spawn enumeration)
	reach := reachableFrom(ea, []*ssa.Function{compile})
	forkJoin(c, r, ea, reach)
	noGlobalWrite(c, r, ea)
	determinism(c, r, ea, roots)
	generatorLine(c, r)
	controlsC09(c)
}

// generatorLine: R-generator-line — the text generated for a grammar does not
// depend on how the program was invoked (the spelling of args[0]: ./peg, an
// absolute path, another file name), only on the arguments that follow. The
// emitter's source is evaluated on one model grammar with three spellings of
// the program name; the data handed to the template and the emitted rule text
// must be identical.
func generatorLine(c *Check, r *Repo) {
	rg := findRegion(r)
	if len(rg.problems) > 0 {
		return // reported as R-anchor by the checks that own the region
	}
	construct := "Compile/the generated text does not depend on the spelling of the program name"
	run := func(args []string) (string, string) {
		fm := newFrontModel(r)
		fm.m.args = args
		fm.call("AddRule", "S")
		fm.call("AddDot")
		fm.call("AddExpression")
		em := fm.m.runFull(rg)
		if em.Err != "" {
			return "", em.Err
		}
		var sb strings.Builder
		sb.WriteString(em.Head + "\x00" + em.Text + "\x00")
		// every string field of the tree reaches the template
		for i := 0; i < fm.tree.st.NumFields(); i++ {
			if s, ok := fm.tree.fields[i].v.(string); ok {
				sb.WriteString(fm.tree.st.Field(i).Name() + "=" + s + "\x00")
			}
		}
		return sb.String(), ""
	}
	rest := []string{"-inline", "-switch", "dir/model.peg"}
	var ref string
	var bad []string
	for i, prog := range []string{"peg", "./peg", "/usr/local/bin/peg", "peg-v2", "tools/PEG.exe"} {
		got, err := run(append([]string{prog}, rest...))
		if err != "" {
			c.Und("R-generator-line", construct, "", err)
			return
		}
		if i == 0 {
			ref = got
			if !strings.Contains(got, strings.Join(rest, " ")) {
				// not demanded by the property: the check below only needs the reference
				c.Note("generator line", "the arguments after the program name are not recorded verbatim")
			}
			continue
		}
		if got != ref {
			d := 0
			for d < len(got) && d < len(ref) && got[d] == ref[d] {
				d++
			}
			lo := max(0, d-40)
			bad = append(bad, fmt.Sprintf("invoked as %q the generator produces …%q… where invoked as \"peg\" it produces …%q…", prog, clip(strings.ReplaceAll(got[lo:], "\x00", "|"), 90), clip(strings.ReplaceAll(ref[lo:], "\x00", "|"), 90)))
		}
	}
	c.Decide(len(bad) == 0, "R-generator-line", construct, r.pos(rg.fd.Pos()),
		"the emitter evaluated on one grammar with the argument lists {peg, ./peg, /usr/local/bin/peg, peg-v2, tools/PEG.exe} + the same arguments: the template data and the emitted text are identical", strings.Join(bad, "; "))
}

func reachableFrom(ea *effAnalysis, roots []*ssa.Function) []*ssa.Function {
	seen := map[*ssa.Function]bool{}
	var out []*ssa.Function
	var visit func(f *ssa.Function)
	visit = func(f *ssa.Function) {
		if f == nil || seen[f] || !ea.inScope(f) {
			return
		}
		seen[f] = true
		out = append(out, f)
		instrsOf(f, func(in ssa.Instruction) {
			for _, op := range in.Operands(nil) {
				if op == nil || *op == nil {
					continue
				}
				switch g := (*op).(type) {
				case *ssa.Function:
					visit(g)
				case *ssa.MakeClosure:
					visit(g.Fn.(*ssa.Function))
				}
			}
			if mc, ok := in.(*ssa.MakeClosure); ok {
				visit(mc.Fn.(*ssa.Function))
			}
			if call, ok := in.(ssa.CallInstruction); ok {
				if g := call.Common().StaticCallee(); g != nil {
					visit(g)
				}
			}
		})
	}
	for _, f := range roots {
		visit(f)
	}
	sort.Slice(out, func(i, j int) bool { return fnName(out[i]) < fnName(out[j]) })
	return out
}

func forkJoin(c *Check, r *Repo, ea *effAnalysis, reach []*ssa.Function) {
	nSpawn := 0
	nWrites := 0
	for _, f := range reach {
		sp := ea.spawns[f]
		if len(sp) == 0 {
			continue
		}
		c.Note("spawning functions", fnName(f))
		type root struct {
			s   spawnSite
			eff *effects
			nm  string
		}
		var rs []root
		for i, s := range sp {
			nSpawn++
			nm := fmt.Sprintf("%s/spawn#%d", fnName(f), i+1)
			if s.Fn == nil {
				c.Und("R-forkjoin", nm, r.pos(s.In.Pos()), "spawned function value is not a closure literal or a named function")
				continue
			}
			var stack []*ssa.Function
			{
				seen := map[*ssa.Function]bool{f: true}
				work := []*ssa.Function{f}
				for len(work) > 0 && len(stack) < 50 {
					g := work[0]
					work = work[1:]
					for _, cs := range ea.callSites(g) {
						if p := cs.Parent(); p != nil && !seen[p] {
							seen[p] = true
							stack = append(stack, p)
							work = append(work, p)
						}
					}
				}
			}
			sum := ea.summary(s.Fn)
			if len(s.More) > 0 {
				u := newEffects()
				for _, g := range append([]*ssa.Function{s.Fn}, s.More...) {
					for l, p := range ea.summary(g).R {
						u.R[l] = p
					}
					for l, p := range ea.summary(g).W {
						u.W[l] = p
					}
				}
				sum = u
			}
			eff := activationShared(sum, f, stack...)
			// function values the closure receives from outside: their effects are part of its summary
			// only when every one resolves to known functions (the closures and methods passed at the
			// call sites of a helper that runs what it is given); anything else is unknown
			rootDyn := ""
			allFns := append([]*ssa.Function{s.Fn}, s.More...)
			for _, sf := range allFns {
				instrsOf(sf, func(in ssa.Instruction) {
					if call, ok := in.(ssa.CallInstruction); ok && call.Common().StaticCallee() == nil && !call.Common().IsInvoke() {
						if _, isB := call.Common().Value.(*ssa.Builtin); isB {
							return
						}
						switch call.Common().Value.(type) {
						case *ssa.Parameter, *ssa.FreeVar:
							if len(ea.funcValues(call.Common().Value, map[ssa.Value]bool{})) == 0 {
								rootDyn = r.pos(in.Pos())
							}
						}
					}
				})
			}
			if rootDyn != "" {
				c.Und("R-forkjoin", nm, rootDyn, "the spawned closure calls a function value received from outside that does not resolve to known functions; its effects are not part of the closure's summary")
				continue
			}
			for _, sf := range allFns {
				for _, fv := range sf.FreeVars {
					t := fv.Type()
					if p, ok := t.Underlying().(*types.Pointer); ok {
						t = p.Elem()
					}
					if _, isFn := t.Underlying().(*types.Signature); isFn {
						// the variable must resolve wherever it is loaded
						resolved := true
						instrsOf(sf, func(in ssa.Instruction) {
							if u, ok := in.(*ssa.UnOp); ok && u.Op == token.MUL && u.X == ssa.Value(fv) {
								if len(ea.funcValues(u, map[ssa.Value]bool{})) == 0 {
									resolved = false
								}
							}
						})
						if !resolved {
							c.Und("R-forkjoin", nm, r.pos(s.In.Pos()), "the spawned closure captures the function value "+fv.Name()+" created outside it and it does not resolve to known functions; its effects are not part of the closure's summary")
						}
					}
				}
			}
			var unk []string
			for _, l := range sortedLocs(eff.W) {
				if strings.HasPrefix(l, "U:") {
					unk = append(unk, l+" at "+r.pos(eff.W[l]))
				}
			}
			if len(unk) > 0 {
				c.Und("R-forkjoin", nm, r.pos(s.In.Pos()), "effects not fully resolved: "+strings.Join(unk, "; "))
				continue
			}
			nWrites += len(sharedOnly(eff.W))
			c.OK("R-forkjoin-summary", nm, r.pos(s.In.Pos()), fmt.Sprintf("writes {%s}; reads {%s}", strings.Join(sharedOnly(eff.W), ", "), strings.Join(sharedOnly(eff.R), ", ")))
			rs = append(rs, root{s, eff, nm})
		}
		for i := 0; i < len(rs); i++ {
			for j := i + 1; j < len(rs); j++ {
				a, b := rs[i], rs[j]
				var conf []string
				for _, l := range sharedOnly(a.eff.W) {
					if p, ok := b.eff.W[l]; ok {
						conf = append(conf, fmt.Sprintf("%s written by both (%s and %s)", l, r.pos(a.eff.W[l]), r.pos(p)))
					} else if p, ok := b.eff.R[l]; ok {
						conf = append(conf, fmt.Sprintf("%s written by #%d (%s) and read by #%d (%s)", l, i+1, r.pos(a.eff.W[l]), j+1, r.pos(p)))
					}
				}
				for _, l := range sharedOnly(b.eff.W) {
					if p, ok := a.eff.R[l]; ok {
						if _, both := a.eff.W[l]; !both {
							conf = append(conf, fmt.Sprintf("%s written by #%d (%s) and read by #%d (%s)", l, j+1, r.pos(b.eff.W[l]), i+1, r.pos(p)))
						}
					}
				}
				o := c.Decide(len(conf) == 0, "R-forkjoin", fmt.Sprintf("%s/pair #%d~#%d", fnName(f), i+1, j+1), r.pos(a.s.In.Pos()),
					fmt.Sprintf("W1∩(R2∪W2)=∅ and W2∩(R1∪W1)=∅ over %d+%d written and %d+%d read locations", len(sharedOnly(a.eff.W)), len(sharedOnly(b.eff.W)), len(sharedOnly(a.eff.R)), len(sharedOnly(b.eff.R))),
					"concurrently running closures conflict: "+strings.Join(conf, "; "))
				o.Replay = strings.Join(conf, "\n")
			}
		}
		// R-join
		for i, s := range sp {
			nm := fmt.Sprintf("%s/spawn#%d", fnName(f), i+1)
			if s.Group == nil {
				c.Bad("R-join", nm, r.pos(s.In.Pos()), "bare go statement: no join is visible, the spawner may read results or return (and the tree be reused) while the goroutine runs")
				continue
			}
			between, joined, why := betweenSpawnAndWait(f, s)
			if !joined {
				c.Bad("R-join", nm, r.pos(s.In.Pos()), why)
				continue
			}
			// effects of the spawner between spawn and Wait vs all closures of this function
			var conf []string
			for _, in := range between {
				if in == s.In {
					continue
				}
				isSpawn := false
				for _, s2 := range sp {
					if s2.In == in || (s2.Closure != nil && ssa.Instruction(s2.Closure) == in) {
						isSpawn = true
					}
				}
				if isSpawn {
					continue
				}
				e := newEffects()
				ea.instrEff(f, in, e, false)
				for _, rt := range rs {
					for _, l := range sharedOnly(e.W) {
						if _, ok := rt.eff.W[l]; ok {
							conf = append(conf, fmt.Sprintf("%s writes %s which %s writes", r.pos(in.Pos()), l, rt.nm))
						} else if _, ok := rt.eff.R[l]; ok {
							conf = append(conf, fmt.Sprintf("%s writes %s which %s reads", r.pos(in.Pos()), l, rt.nm))
						}
					}
					for _, l := range sharedOnly(e.R) {
						if _, ok := rt.eff.W[l]; ok {
							conf = append(conf, fmt.Sprintf("%s reads %s which %s writes", r.pos(in.Pos()), l, rt.nm))
						}
					}
				}
			}
			c.Decide(len(conf) == 0, "R-join", nm, r.pos(s.In.Pos()),
				fmt.Sprintf("every path from the spawn to a return passes Wait on the same WaitGroup; %d spawner instruction(s) between spawn and Wait examined, none touches a location the closures write", len(between)),
				"the spawner touches shared state before the join: "+strings.Join(conf, "; "))
		}
	}
	if nSpawn == 0 {
		// no goroutine is started anywhere in what Compile reaches: nothing can race
		// inside one generation; this is not a moved anchor as long as no go
		// statement and no WaitGroup.Go call exists in the analysed functions
		hidden := ""
		for _, f := range reach {
			instrsOf(f, func(in ssa.Instruction) {
				switch x := in.(type) {
				case *ssa.Go:
					hidden = r.pos(x.Pos())
				case *ssa.Call:
					if n := calleeName(x); n == "(*sync.WaitGroup).Go" || strings.HasPrefix(n, "(*golang.org/x/sync/errgroup.Group).Go") {
						hidden = r.pos(x.Pos())
					}
				}
			})
		}
		if hidden == "" {
			c.OK("R-forkjoin", "Compile/no goroutine is started", "", fmt.Sprintf("%d functions reachable from Compile contain neither a go statement nor a WaitGroup.Go call: one generation is sequential", len(reach)))
			return
		}
		c.Und("R-forkjoin", "Compile/spawn sites", hidden, "a goroutine is started here but the effect analysis recorded no spawn site (checker needs maintenance)")
		return
	}
	c.Floor("R-forkjoin", nSpawn, 1)
	if nWrites < 1 {
		c.Und("R-forkjoin", "write-set floor", "", fmt.Sprintf("only %d shared written locations found in the spawned closures (expected ≥1, e.g. Tree.rulesCount, the captured usage counters, Tree.werr); the effect analysis no longer sees the writes", nWrites))
	}
}

// activationShared drops captured-variable locations whose variable is
// allocated by a function that is not the spawner or one of its lexical
// ancestors: such a variable belongs to one activation of a callee (e.g. the
// cursor inside (*node).Iterator) and each goroutine's calls create their own.
func activationShared(e *effects, spawner *ssa.Function, callers ...*ssa.Function) *effects {
	var pre []string
	for q := spawner; q != nil; q = q.Parent() {
		pre = append(pre, "V:"+fnName(q)+".")
	}
	// the activations on the stack when the spawner runs: functions that call it hand it closures
	// over their own variables, and those variables are shared by the goroutines as well
	for _, c := range callers {
		for q := c; q != nil; q = q.Parent() {
			pre = append(pre, "V:"+fnName(q)+".")
		}
	}
	keep := func(l string) bool {
		if !strings.HasPrefix(l, "V:") {
			return true
		}
		for _, p := range pre {
			if strings.HasPrefix(l, p) && !strings.ContainsAny(l[len(p):], ".$") {
				return true
			}
		}
		return false
	}
	out := newEffects()
	for l, p := range e.R {
		if keep(l) {
			out.R[l] = p
		}
	}
	for l, p := range e.W {
		if keep(l) {
			out.W[l] = p
		}
	}
	return out
}

func sharedOnly(s effSet) []string {
	var out []string
	for _, l := range sortedLocs(s) {
		if strings.HasPrefix(l, "DYN:") || strings.HasPrefix(l, "P:") || strings.HasPrefix(l, "RET:") {
			continue
		}
		out = append(out, l)
	}
	return out
}

// betweenSpawnAndWait returns the spawner's instructions that may execute
// after the spawn and before the matching Wait, and whether every path from
// the spawn to a return passes the Wait.
func betweenSpawnAndWait(f *ssa.Function, s spawnSite) (between []ssa.Instruction, joined bool, why string) {
	isWait := func(in ssa.Instruction) bool {
		call, ok := in.(*ssa.Call)
		if !ok || calleeName(call) != "(*sync.WaitGroup).Wait" {
			return false
		}
		return call.Call.Args[0] == s.Group
	}
	sb := s.In.Block()
	seen := map[*ssa.BasicBlock]bool{}
	joined = true
	var walk func(b *ssa.BasicBlock, from int)
	walk = func(b *ssa.BasicBlock, from int) {
		for i := from; i < len(b.Instrs); i++ {
			in := b.Instrs[i]
			if isWait(in) {
				return
			}
			if _, ok := in.(*ssa.Return); ok {
				joined = false
				why = "a return is reachable from the spawn without passing Wait on the same WaitGroup"
				return
			}
			between = append(between, in)
		}
		for _, su := range b.Succs {
			if !seen[su] {
				seen[su] = true
				walk(su, 0)
			}
		}
	}
	idx := 0
	for i, in := range sb.Instrs {
		if in == s.In {
			idx = i + 1
		}
	}
	walk(sb, idx)
	return
}

// ---------------------------------------------------------------------------

func globalStores(fns []*ssa.Function, ea *effAnalysis, r func(token.Pos) string) []string {
	var out []string
	for _, f := range fns {
		if f.Name() == "init" && f.Parent() == nil {
			continue
		}
		instrsOf(f, func(in ssa.Instruction) {
			var tgt ssa.Value
			switch x := in.(type) {
			case *ssa.Store:
				tgt = x.Addr
			case *ssa.MapUpdate:
				tgt = x.Map
			case *ssa.Call:
				if b, ok := x.Call.Value.(*ssa.Builtin); ok && (b.Name() == "append" || b.Name() == "copy" || b.Name() == "delete" || b.Name() == "clear") {
					tgt = x.Call.Args[0]
				}
			}
			if tgt == nil {
				return
			}
			for _, l := range ea.locs(tgt, map[ssa.Value]bool{}) {
				if strings.HasPrefix(l, "G:") {
					out = append(out, fmt.Sprintf("%s in %s writes %s", r(in.Pos()), fnName(f), l))
				}
			}
		})
	}
	return out
}

func noGlobalWrite(c *Check, r *Repo, ea *effAnalysis) {
	for _, sub := range []string{"tree", "set"} {
		fns := r.allFuncs(sub)
		bad := globalStores(fns, ea, r.pos)
		nG := 0
		for _, m := range r.SSA[modPath+"/"+sub].Members {
			if _, ok := m.(*ssa.Global); ok {
				nG++
			}
		}
		c.Decide(len(bad) == 0, "R-no-global-write", "package "+sub, "",
			fmt.Sprintf("%d functions scanned for stores/map updates/append/copy/delete targeting any of the %d package-level variables (outside package initialisation): none", len(fns), nG),
			"package-level state is written at run time, so concurrent generations of independent trees (and repeated generations in one process) share mutable state: "+strings.Join(bad, "; "))
	}
}

// nondetSources scans functions for sources of run-to-run variation.
// sortedCollect: the map ranges of the accepted collect-then-sort form (c09b.go), by the position of their for.
var sortedCollect map[token.Pos]bool

func nondetSources(fns []*ssa.Function, pos func(token.Pos) string) map[string][]string {
	out := map[string][]string{}
	for _, f := range fns {
		instrsOf(f, func(in ssa.Instruction) {
			switch x := in.(type) {
			case *ssa.Range:
				if _, ok := x.X.Type().Underlying().(*types.Map); ok && !sortedCollect[x.Pos()] {
					out["map-range"] = append(out["map-range"], fmt.Sprintf("%s in %s ranges over a map (%s): iteration order varies between runs", pos(x.Pos()), fnName(f), x.X.Type()))
				}
			case *ssa.Select:
				out["select"] = append(out["select"], fmt.Sprintf("%s in %s: select", pos(x.Pos()), fnName(f)))
			case *ssa.Convert:
				if b, ok := x.X.Type().Underlying().(*types.Basic); ok && b.Kind() == types.UnsafePointer {
					out["unsafe"] = append(out["unsafe"], fmt.Sprintf("%s in %s: conversion from unsafe.Pointer", pos(x.Pos()), fnName(f)))
				}
				if b, ok := x.Type().Underlying().(*types.Basic); ok && b.Kind() == types.UnsafePointer {
					out["unsafe"] = append(out["unsafe"], fmt.Sprintf("%s in %s: conversion to unsafe.Pointer", pos(x.Pos()), fnName(f)))
				}
			case ssa.CallInstruction:
				n := calleeName(x)
				for _, pre := range []string{"time.", "math/rand", "crypto/rand", "os.Getenv", "os.LookupEnv", "os.Environ", "os.Getpid", "os.Getppid", "os.Hostname", "os.Getwd",
					"os.UserHomeDir", "os.TempDir", "os.Executable", "runtime.NumGoroutine", "runtime.NumCPU", "runtime.GOMAXPROCS", "runtime.Stack", "runtime.Caller",
					"maps.Keys", "maps.Values", "maps.All", "(reflect.Value).Pointer", "(reflect.Value).UnsafePointer", "(reflect.Value).MapKeys", "(reflect.Value).MapRange"} {
					if strings.HasPrefix(n, pre) {
						out["nondeterministic-call"] = append(out["nondeterministic-call"], fmt.Sprintf("%s in %s calls %s", pos(in.Pos()), fnName(f), n))
					}
				}
				if strings.HasPrefix(n, "fmt.") || strings.HasPrefix(n, "log.") {
					for _, a := range x.Common().Args {
						if k, ok := a.(*ssa.Const); ok && k.Value != nil && k.Value.Kind() == constant.String && strings.Contains(constant.StringVal(k.Value), "%p") {
							out["pointer-format"] = append(out["pointer-format"], fmt.Sprintf("%s in %s formats a pointer (%%p)", pos(in.Pos()), fnName(f)))
						}
					}
				}
				if _, isGo := in.(*ssa.Go); isGo {
					out["go-statement"] = append(out["go-statement"], fmt.Sprintf("%s in %s: go statement", pos(in.Pos()), fnName(f)))
				}
			}
		})
	}
	return out
}

var nondetCats = []string{"map-range", "select", "nondeterministic-call", "pointer-format", "unsafe"}

func determinism(c *Check, r *Repo, ea *effAnalysis, roots []*ssa.Function) {
	reach := reachableFrom(ea, roots)
	// generated runtime (peg.peg.go) is judged by C14/C12; here: tree, set, main.go
	var fns []*ssa.Function
	for _, f := range reach {
		file := r.Fset.Position(f.Pos()).Filename
		if strings.HasSuffix(file, "peg.peg.go") {
			continue
		}
		fns = append(fns, f)
		c.Note("functions scanned for nondeterminism sources", fnName(f))
	}
	sortedCollect = sortedCollectRanges(r, ea)
	got := nondetSources(fns, r.pos)
	sortedCollect = nil
	ni := 0
	for _, f := range fns {
		instrsOf(f, func(ssa.Instruction) { ni++ })
	}
	for _, cat := range nondetCats {
		c.Decide(len(got[cat]) == 0, "R-determinism", cat, "",
			fmt.Sprintf("%d functions / %d SSA instructions reachable from Compile, the builder API and main.main scanned: no %s", len(fns), ni, cat),
			strings.Join(got[cat], "; "))
	}
	c.Floor("R-determinism", len(fns), 60)
}

// controlsC09: the zero-expected rules must fire on a tiny positive example.
func controlsC09(c *Check) {
	dir := filepath.Join(c.verifRoot, "sa", "testdata", "c09ctl")
	cfg := &packages.Config{Mode: packages.LoadAllSyntax, Dir: dir, Env: append(os.Environ(), "GOWORK=off", "GOFLAGS=-mod=mod")}
	pkgs, err := packages.Load(cfg, ".")
	if err != nil || len(pkgs) != 1 || len(pkgs[0].Errors) > 0 {
		c.Und("R-control", "c09ctl", "", fmt.Sprintf("cannot load positive-control package: %v %v", err, pkgs))
		return
	}
	prog, sp := ssautil.AllPackages(pkgs, ssa.InstantiateGenerics)
	prog.Build()
	var fns []*ssa.Function
	for fn := range ssautil.AllFunctions(prog) {
		if fn.Pkg == sp[0] || (fn.Parent() != nil && fn.Parent().Pkg == sp[0]) {
			fns = append(fns, fn)
		}
	}
	pos := func(p token.Pos) string { return prog.Fset.Position(p).String() }
	ea := &effAnalysis{sum: map[*ssa.Function]*effects{}, spawns: map[*ssa.Function][]spawnSite{}, inScope: func(f *ssa.Function) bool { return true }}
	gs := globalStores(fns, ea, pos)
	c.Decide(len(gs) >= 2, "R-control", "global-write detector fires on testdata/c09ctl", "", fmt.Sprintf("%d stores to package-level variables reported on the positive example", len(gs)), "the global-write detector no longer matches its positive example")
	got := nondetSources(fns, pos)
	for _, cat := range nondetCats {
		c.Decide(len(got[cat]) >= 1, "R-control", cat+" detector fires on testdata/c09ctl", "", fmt.Sprintf("%d report(s) on the positive example", len(got[cat])), "detector no longer matches its positive example")
	}
}
