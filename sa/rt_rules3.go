package main

// Runtime rules, part 3: R-cursor on translatePositions (C11).

import (
	"fmt"
	"go/token"
	"go/types"
	"strings"

	"golang.org/x/tools/go/ssa"
)

// termX extends term() with loads of <param>[idx].
func termX(v ssa.Value) string {
	if u, ok := v.(*ssa.UnOp); ok && u.Op == token.MUL {
		if ia, ok := u.X.(*ssa.IndexAddr); ok {
			if p, ok := ia.X.(*ssa.Parameter); ok {
				return p.Name() + "[" + termX(ia.Index) + "]"
			}
		}
	}
	if _, ok := v.(*ssa.Const); ok {
		return term(v)
	}
	return "%" + v.Name()
}

func rtCursor(a *aggregator, v *rtView) {
	cfg := v.in.Name
	f := v.in.SSA.Func("translatePositions")
	construct := "translatePositions translates every requested offset"
	if f == nil || len(f.Params) != 2 {
		a.Und("R-cursor", construct, cfg, "", "func translatePositions(buffer, positions) not found")
		return
	}
	positions := f.Params[1]
	// translations map: the returned value
	var trans ssa.Value
	instrsOf(f, func(in ssa.Instruction) {
		if r, ok := in.(*ssa.Return); ok && trans == nil {
			trans = r.Results[0]
		}
	})
	// cursor increments: BinOp ADD (c, 1) where c is used as an index into positions
	isCursorVal := map[ssa.Value]bool{}
	instrsOf(f, func(in ssa.Instruction) {
		if ia, ok := in.(*ssa.IndexAddr); ok && ia.X == ssa.Value(positions) {
			if _, isConst := ia.Index.(*ssa.Const); !isConst {
				isCursorVal[ia.Index] = true
			}
		}
	})
	if len(isCursorVal) == 0 {
		// range-over-positions rewrite: accept when a MapUpdate keyed by the ranged element sits in the loop body
		okRange := false
		instrsOf(f, func(in ssa.Instruction) {
			if mu, ok := in.(*ssa.MapUpdate); ok && mu.Map == trans {
				okRange = true
			}
		})
		if okRange {
			// another algorithm (e.g. a membership map): the cursor invariant is not the
			// proof obligation of this shape; what the function returns is decided by
			// R-linecol-semantics on every short text
			a.OK("R-cursor", construct, cfg, v.in.srcPos(f.Pos()), "translatePositions does not walk the positions with a cursor: the cursor invariant does not apply to this shape (its results are compared with the definition by R-linecol-semantics)")
		} else {
			a.Bad("R-cursor", construct, cfg, v.in.srcPos(f.Pos()), "translatePositions never stores a translation")
		}
		return
	}
	// the cursor algorithm sorts the offsets first; without that the function is written another way
	// (a line table with a search per offset, …) and the cursor invariant is not its proof obligation
	hasSort := false
	instrsOf(f, func(in ssa.Instruction) {
		if cl, ok := in.(*ssa.Call); ok && strings.HasPrefix(calleeName(cl), "slices.Sort") {
			hasSort = true
		}
		if cl, ok := in.(*ssa.Call); ok && strings.HasPrefix(calleeName(cl), "sort.") {
			hasSort = true
		}
	})
	if !hasSort {
		a.OK("R-cursor", construct, cfg, v.in.srcPos(f.Pos()), "translatePositions does not sort the offsets and walk them with a cursor: the cursor invariant does not apply to this shape (its results are compared with the definition by R-linecol-semantics)")
		return
	}
	// positions must not be modified after the initial sort
	mod := ""
	instrsOf(f, func(in ssa.Instruction) {
		switch x := in.(type) {
		case *ssa.Store:
			if ia, ok := x.Addr.(*ssa.IndexAddr); ok && ia.X == ssa.Value(positions) {
				mod = v.in.srcPos(x.Pos())
			}
		case *ssa.Call:
			for _, arg := range x.Call.Args {
				if arg == ssa.Value(positions) && x.Block().Index != 0 && calleeName(x) != "builtin.len" {
					mod = v.in.srcPos(x.Pos())
				}
			}
		}
	})
	if mod != "" {
		a.Und("R-cursor", construct, cfg, mod, "positions is modified inside the translation loop; the analysis assumes it is only sorted up front")
		return
	}
	sorted := false
	instrsOf(f, func(in ssa.Instruction) {
		if cl, ok := in.(*ssa.Call); ok && strings.HasPrefix(calleeName(cl), "slices.Sort") && cl.Call.Args[0] == ssa.Value(positions) && cl.Block().Index == 0 {
			sorted = true
		}
	})
	var bad []string
	if !sorted {
		bad = append(bad, "positions is not sorted before the single left-to-right sweep")
	}
	// dominating MapUpdates and edge facts per block
	domFacts := func(b *ssa.BasicBlock) (fs []fact, keys []string) {
		for _, cf := range dominatingEdgeFacts(b) {
			if bo, ok := cf.Cond.(*ssa.BinOp); ok && (bo.Op == token.EQL || bo.Op == token.NEQ) {
				fs = append(fs, fact{(bo.Op == token.EQL) == cf.Truth, termX(bo.X), termX(bo.Y)})
			}
		}
		for d := b; d != nil; d = d.Idom() {
			for _, in := range d.Instrs {
				if mu, ok := in.(*ssa.MapUpdate); ok && mu.Map == trans {
					keys = append(keys, termX(mu.Key))
				}
			}
		}
		return
	}
	nInc := 0
	instrsOf(f, func(in ssa.Instruction) {
		bo, ok := in.(*ssa.BinOp)
		if !ok || bo.Op != token.ADD || !isCursorVal[bo.X] {
			return
		}
		if k, ok := bo.Y.(*ssa.Const); !ok || k.Value.String() != "1" {
			return
		}
		// is the result fed back into the cursor web?
		feeds := false
		for _, r := range *bo.Referrers() {
			if phi, ok := r.(*ssa.Phi); ok && (isCursorVal[phi] || phiFeedsCursor(phi, isCursorVal, 0)) {
				feeds = true
			}
		}
		if !feeds {
			return
		}
		nInc++
		fs, keys := domFacts(bo.Block())
		cur := positions.Name() + "[" + termX(bo.X) + "]"
		guarded := false
		for _, k := range keys {
			if !consistent(append(append([]fact{}, fs...), fact{false, cur, k})) {
				guarded = true
			}
		}
		if !guarded {
			var fstr []string
			for _, x := range fs {
				fstr = append(fstr, x.String())
			}
			bad = append(bad, fmt.Sprintf("%s: the cursor moves past %s although on this path it is neither the key just stored nor known equal to it (stored keys: {%s}; path facts: {%s}) — that offset is never translated and reads as line 0 symbol 0",
				v.in.srcPos(bo.Pos()), cur, strings.Join(keys, ", "), strings.Join(fstr, ", ")))
		}
	})
	if nInc == 0 {
		// positions is only read element by element (a range over it): not a cursor walk
		a.OK("R-cursor", construct, cfg, v.in.srcPos(f.Pos()), "translatePositions does not walk the positions with a cursor: the cursor invariant does not apply to this shape (its results are compared with the definition by R-linecol-semantics)")
		return
	}
	// returns: only when the buffer is exhausted or the cursor reached the end
	lenPos := map[ssa.Value]bool{}
	lenBuf := map[ssa.Value]bool{}
	instrsOf(f, func(in ssa.Instruction) {
		if cl, ok := in.(*ssa.Call); ok && calleeName(cl) == "builtin.len" {
			if cl.Call.Args[0] == ssa.Value(positions) {
				lenPos[cl] = true
			}
			if cl.Call.Args[0] == ssa.Value(f.Params[0]) {
				lenBuf[cl] = true
			}
		}
	})
	instrsOf(f, func(in ssa.Instruction) {
		ret, ok := in.(*ssa.Return)
		if !ok {
			return
		}
		for _, p := range ret.Block().Preds {
			iff, ok := p.Instrs[len(p.Instrs)-1].(*ssa.If)
			okEdge := false
			if ok {
				truth := p.Succs[0] == ret.Block()
				if bo, ok := iff.Cond.(*ssa.BinOp); ok {
					switch {
					case lenPos[bo.Y] && ((bo.Op == token.GEQ && truth) || (bo.Op == token.LSS && !truth)):
						okEdge = true // cursor reached the end
					case lenBuf[bo.Y] && bo.Op == token.LSS && !truth:
						okEdge = true // buffer exhausted
					}
				}
			}
			if !okEdge {
				bad = append(bad, fmt.Sprintf("%s: translatePositions returns before the buffer is exhausted or all offsets were handled", v.in.srcPos(ret.Pos())))
			}
		}
	})
	o := "every cursor increment is dominated by the store of translations[positions[cursor]] or by equality of positions[cursor] with the key just stored; returns only after the sweep or when all offsets are done"
	a.Decide(len(bad) == 0, "R-cursor", construct, cfg, v.in.srcPos(f.Pos()), fmt.Sprintf("%d cursor increment(s): %s", nInc, o), strings.Join(uniq(bad), "; "))
}

func phiFeedsCursor(phi *ssa.Phi, cur map[ssa.Value]bool, depth int) bool {
	if depth > 4 {
		return false
	}
	for _, r := range *phi.Referrers() {
		if p2, ok := r.(*ssa.Phi); ok {
			if cur[p2] || phiFeedsCursor(p2, cur, depth+1) {
				return true
			}
		}
	}
	return false
}

// R-linecol-order (C11): the (line, column) recorded for offset i is that of
// the character *at* i, i.e. it is determined by the characters before i: the
// values stored must be defined before this iteration's newline test, not
// merged after it (otherwise an offset that sits on a '\n' is attributed to
// the next line, column 0).
func rtLineCol(a *aggregator, v *rtView) {
	cfg := v.in.Name
	f := v.in.SSA.Func("translatePositions")
	construct := "translatePositions records the position of the character at the offset"
	if f == nil || len(f.Params) != 2 {
		a.Und("R-linecol-order", construct, cfg, "", "func translatePositions(buffer, positions) not found")
		return
	}
	buf := f.Params[0]
	// the newline test: If on  buffer[i] == '\n'
	var test *ssa.BasicBlock
	instrsOf(f, func(in ssa.Instruction) {
		iff, ok := in.(*ssa.If)
		if !ok {
			return
		}
		bo, ok := iff.Cond.(*ssa.BinOp)
		if !ok || (bo.Op != token.EQL && bo.Op != token.NEQ) {
			return
		}
		k, ok := bo.Y.(*ssa.Const)
		if !ok || k.Value == nil || k.Value.String() != "10" {
			return
		}
		if u, ok := bo.X.(*ssa.UnOp); ok {
			if ia, ok := u.X.(*ssa.IndexAddr); ok && ia.X == ssa.Value(buf) {
				test = iff.Block()
			}
		}
	})
	if test == nil {
		a.OK("R-linecol-order", construct, cfg, v.in.srcPos(f.Pos()), "translatePositions is not written as one sweep with a newline test on the element just read: this shape rule does not apply (results are compared with the definition by R-linecol-semantics)")
		return
	}
	var bad []string
	n := 0
	instrsOf(f, func(in ssa.Instruction) {
		mu, ok := in.(*ssa.MapUpdate)
		if !ok {
			return
		}
		for name, val := range memoFieldStores(mu.Value) {
			n++
			var leaves func(x ssa.Value, depth int)
			leaves = func(x ssa.Value, depth int) {
				if depth > 4 {
					return
				}
				switch y := x.(type) {
				case *ssa.Const:
					return
				case *ssa.BinOp:
					leaves(y.X, depth+1)
					leaves(y.Y, depth+1)
					return
				}
				in, ok := x.(ssa.Instruction)
				if !ok {
					return
				}
				db := in.Block()
				if db == test {
					// defined in the test block itself: fine if it is not the tested character
					return
				}
				if !db.Dominates(test) {
					bad = append(bad, fmt.Sprintf("%s: the %s stored for an offset is %s, defined after this iteration's newline test: an offset that sits on a newline is reported on the following line", v.in.srcPos(mu.Pos()), name, x.Name()))
				}
			}
			leaves(val, 0)
		}
	})
	a.Decide(len(bad) == 0 && n >= 2, "R-linecol-order", construct, cfg, v.in.srcPos(f.Pos()),
		"the line and column stored for offset i are computed from values defined before the newline test of iteration i", strings.Join(uniq(bad), "; "))
}

// R-adopt-condition (C05): in AST(), a token on the stack is adopted as a child
// of the token being placed exactly when its span lies within that token's
// span. The condition only compares four offsets, so it is decided over the
// finite set of their orderings (all small valuations): equal spans and
// strictly nested spans must be adopted, spans that end at or before the new
// token's begin must not.
func rtAdopt(a *aggregator, v *rtView) {
	cfg := v.in.Name
	if !v.in.Cfg.Bools["Ast"] {
		return
	}
	f := v.in.method("tokens", "AST")
	construct := "tokens.AST adopts exactly the tokens nested in the new token"
	if f == nil {
		a.Und("R-adopt-condition", construct, cfg, "", "method AST not found")
		return
	}
	// the adoption body: the block that stores into a field named up (node.up = stack.node)
	var body *ssa.BasicBlock
	instrsOf(f, func(in ssa.Instruction) {
		if st, ok := in.(*ssa.Store); ok {
			if fa, ok := st.Addr.(*ssa.FieldAddr); ok {
				if s := derefStruct(fa.X.Type()); s != nil && s.Field(fa.Field).Name() == "up" {
					body = st.Block()
				}
			}
		}
	})
	if body == nil {
		a.Und("R-adopt-condition", construct, cfg, v.in.srcPos(f.Pos()), "the adoption step (node.up = …) was not found")
		return
	}
	// loop header: the block that dominates body and is the target of body's back edge
	var header *ssa.BasicBlock
	for _, s := range body.Succs {
		if s.Dominates(body) {
			header = s
		}
	}
	if header == nil {
		// the stack is kept another way (a slice cut at an index, say): what AST() returns is decided by
		// R-ast-semantics, which evaluates it on small, wide and deep derivations
		a.OK("R-adopt-condition", construct, cfg, v.in.srcPos(f.Pos()), "the adoption step is not inside a loop over the stack: this shape rule does not apply (AST() is compared with the derivation tree by R-ast-semantics)")
		return
	}
	// classify leaves: field begin/end of the stacked node (reached through the stack element) or of the new token
	var classify func(x ssa.Value, depth int) string
	classify = func(x ssa.Value, depth int) string {
		if depth > 8 {
			return ""
		}
		switch y := x.(type) {
		case *ssa.UnOp:
			if y.Op == token.MUL {
				return classify(y.X, depth+1)
			}
		case *ssa.FieldAddr:
			s := derefStruct(y.X.Type())
			if s == nil {
				return ""
			}
			name := s.Field(y.Field).Name()
			base := classify(y.X, depth+1)
			if name == "begin" || name == "end" {
				if base == "" {
					base = "T"
				}
				return base + "." + name
			}
			if name == "node" && strings.Contains(y.X.Type().String(), "element") {
				return "S"
			}
			return base
		case *ssa.Field:
			s, _ := y.X.Type().Underlying().(*types.Struct)
			if s == nil {
				return ""
			}
			name := s.Field(y.Field).Name()
			base := classify(y.X, depth+1)
			if name == "begin" || name == "end" {
				if base == "" {
					base = "T"
				}
				return base + "." + name
			}
			return base
		case *ssa.Phi:
			if strings.Contains(y.Type().String(), "element") {
				return "S"
			}
		}
		return ""
	}
	type val struct {
		known bool
		i     int
		b     bool
		isB   bool
	}
	var eval func(x ssa.Value, env map[string]int, depth int) val
	eval = func(x ssa.Value, env map[string]int, depth int) val {
		if depth > 10 {
			return val{}
		}
		if c := classify(x, 0); c != "" {
			if n, ok := env[c]; ok {
				return val{known: true, i: n}
			}
		}
		switch y := x.(type) {
		case *ssa.Const:
			if y.Value != nil {
				if n, ok := constValue(types.TypeAndValue{Value: y.Value}); ok {
					if i, ok := n.(int64); ok {
						return val{known: true, i: int(i)}
					}
				}
			}
			if y.IsNil() {
				return val{}
			}
		case *ssa.BinOp:
			l, r := eval(y.X, env, depth+1), eval(y.Y, env, depth+1)
			if !l.known || !r.known {
				// stack != nil and the like: assume the stack is not empty
				if y.Op == token.NEQ {
					return val{known: true, isB: true, b: true}
				}
				if y.Op == token.EQL {
					return val{known: true, isB: true, b: false}
				}
				return val{}
			}
			switch y.Op {
			case token.ADD:
				return val{known: true, i: l.i + r.i}
			case token.SUB:
				return val{known: true, i: l.i - r.i}
			case token.LSS:
				return val{known: true, isB: true, b: l.i < r.i}
			case token.LEQ:
				return val{known: true, isB: true, b: l.i <= r.i}
			case token.GTR:
				return val{known: true, isB: true, b: l.i > r.i}
			case token.GEQ:
				return val{known: true, isB: true, b: l.i >= r.i}
			case token.EQL:
				return val{known: true, isB: true, b: l.i == r.i}
			case token.NEQ:
				return val{known: true, isB: true, b: l.i != r.i}
			}
		case *ssa.Convert:
			return eval(y.X, env, depth+1)
		case *ssa.UnOp:
			if y.Op == token.NOT {
				r := eval(y.X, env, depth+1)
				if r.known && r.isB {
					r.b = !r.b
					return r
				}
			}
		}
		return val{}
	}
	// blocks from which the adoption step is still reachable without going round the loop
	canReach := map[*ssa.BasicBlock]bool{body: true}
	for changed := true; changed; {
		changed = false
		for _, b := range f.Blocks {
			if canReach[b] {
				continue
			}
			for _, su := range b.Succs {
				if canReach[su] && su != header {
					canReach[b] = true
					changed = true
				}
			}
		}
	}
	adopts := func(env map[string]int) (bool, bool) {
		b := header
		for steps := 0; steps < 12; steps++ {
			if b == body {
				return true, true
			}
			if !canReach[b] {
				return false, true // left the loop without adopting
			}
			if len(b.Instrs) == 0 {
				return false, false
			}
			iff, ok := b.Instrs[len(b.Instrs)-1].(*ssa.If)
			if !ok {
				if len(b.Succs) == 1 {
					b = b.Succs[0]
					continue
				}
				return false, true
			}
			r := eval(iff.Cond, env, 0)
			if !r.known || !r.isB {
				return false, false
			}
			if r.b {
				b = b.Succs[0]
			} else {
				b = b.Succs[1]
			}
			if !header.Dominates(b) || b == header {
				return false, true
			}
		}
		return false, false
	}
	var bad []string
	n := 0
	for bs := 0; bs < 4; bs++ {
		for es := bs + 1; es < 5; es++ {
			for bt := 0; bt < 4; bt++ {
				for et := bt + 1; et < 5; et++ {
					inside := bt <= bs && es <= et
					before := es <= bt
					if !inside && !before {
						continue // not a possible stack/token pair in a post-order list
					}
					n++
					got, ok := adopts(map[string]int{"S.begin": bs, "S.end": es, "T.begin": bt, "T.end": et})
					if !ok {
						// another way of writing the stack loop: what AST() returns is decided by R-ast-semantics
						a.OK("R-adopt-condition", construct, cfg, v.in.srcPos(f.Pos()), "the stack loop is not written as one conjunction over the four offsets: this shape rule does not apply (AST() is compared with the derivation tree by R-ast-semantics)")
						return
					}
					if got != inside {
						what := "is not adopted although it lies within"
						if got {
							what = "is adopted although it lies before"
						}
						bad = append(bad, fmt.Sprintf("a stacked token [%d,%d) %s the new token [%d,%d)", bs, es, what, bt, et))
					}
				}
			}
		}
	}
	if len(bad) > 4 {
		bad = append(bad[:4], fmt.Sprintf("(+%d more)", len(bad)-4))
	}
	a.Decide(len(bad) == 0, "R-adopt-condition", construct, cfg, v.in.srcPos(f.Pos()),
		fmt.Sprintf("%d orderings of (stacked begin/end, new begin/end) that can occur in a post-order list: adopted exactly when nested (equal spans included)", n), strings.Join(bad, "; "))
}

// rtTranslateDomain: R-translate-domain — translatePositions records a
// translation only for offsets its loop visits, i.e. indices of the slice it
// is given. Token offsets range over 0..len(input) inclusive, and the only
// slice that has the index len(input) is the parser's sentinel-terminated
// rune buffer. So every caller must pass that buffer whole, and the loop
// must range over the parameter whole.
func rtTranslateDomain(a *aggregator, v *rtView) {
	cfg := v.in.Name
	f := v.in.SSA.Func("translatePositions")
	construct := "translatePositions is given, and walks, the whole sentinel-terminated buffer"
	if f == nil || len(f.Params) != 2 {
		a.Und("R-translate-domain", construct, cfg, "", "func translatePositions(buffer, positions) not found")
		return
	}
	var bad []string
	// inside: no re-slicing of the buffer parameter, and a len(buffer) bound
	buf := f.Params[0]
	hasLen := false
	for _, ref := range *buf.Referrers() {
		switch x := ref.(type) {
		case *ssa.Slice:
			// another algorithm may scan the buffer piecewise; whether every offset gets
			// its translation is then decided by R-linecol-semantics, not by this shape
			_ = x
			hasLen = true
		case *ssa.Call:
			if calleeName(x) == "builtin.len" {
				hasLen = true
			}
		}
	}
	if !hasLen {
		// `for range buffer` always takes len(buffer); without it the loop is of another shape
		instrsOf(f, func(in ssa.Instruction) {
			if r, ok := in.(*ssa.Range); ok && r.X == ssa.Value(buf) {
				hasLen = true
			}
		})
	}
	if !hasLen {
		bad = append(bad, v.in.srcPos(f.Pos())+": no loop over the buffer parameter bounded by len(buffer) was found")
	}
	// callers
	n := 0
	for _, g := range v.all {
		instrsOf(g, func(in ssa.Instruction) {
			cl, ok := in.(*ssa.Call)
			if !ok || cl.Call.StaticCallee() == nil || originFn(cl.Call.StaticCallee()) != originFn(f) {
				return
			}
			n++
			arg := cl.Call.Args[0]
			if sl, ok := arg.(*ssa.Slice); ok {
				if sl.Low == nil && sl.High == nil {
					arg = sl.X
				} else {
					bad = append(bad, v.in.srcPos(cl.Pos())+": "+fnName(g)+" passes a sub-slice of the buffer to translatePositions: an offset at the end of the input (a token ending at end of input, or the empty input) is never translated and is reported as line 0 symbol 0")
					return
				}
			}
			u, ok := arg.(*ssa.UnOp)
			if !ok || u.Op != token.MUL {
				bad = append(bad, v.in.srcPos(cl.Pos())+": "+fnName(g)+" passes "+arg.Name()+", not the parser's buffer field")
				return
			}
			fa, ok := u.X.(*ssa.FieldAddr)
			if !ok {
				bad = append(bad, v.in.srcPos(cl.Pos())+": "+fnName(g)+" passes a value that is not a field of the parser")
				return
			}
			st := derefStruct(fa.X.Type())
			if st == nil || st.Field(fa.Field).Name() != "buffer" {
				name := "?"
				if st != nil {
					name = st.Field(fa.Field).Name()
				}
				bad = append(bad, v.in.srcPos(cl.Pos())+": "+fnName(g)+" passes the field "+name+"; only the rune buffer with the end symbol appended has an index for every token offset")
			}
		})
	}
	if n == 0 {
		a.Und("R-translate-domain", construct, cfg, v.in.srcPos(f.Pos()), "translatePositions has no caller in this instantiation")
		return
	}
	a.Decide(len(bad) == 0, "R-translate-domain", construct, cfg, v.in.srcPos(f.Pos()),
		fmt.Sprintf("%d call site(s) pass p.buffer (input runes + end symbol) whole; the loop ranges over the parameter whole: offsets 0..len(input) are all visited", n), strings.Join(bad, "; "))
}
