package main

// C16 — set package: the structural clauses only (DESIGN §4 C16):
// R-sentinel-guard (no nil dereference of the two sentinel links on the empty
// set) and R-operand-pure (read-only operations never store through a pointer
// derived from an operand).

import (
	"fmt"
	"go/token"
	"go/types"
	"sort"
	"strings"

	"golang.org/x/tools/go/ssa"
)

var setReadOnly = []string{"Has", "Len", "Copy", "Union", "Intersects", "Complement", "Equal", "String"}

func checkC16(c *Check) {
	c.Explain = "Three groups of rules on set/set.go. (1) R-set-semantics + R-order-invariant: the source of the set package is evaluated (E1 interpreter, nil dereference = panic) on every history of at most 3 Add/AddRange calls over the universe [0,4] (thorough: [0,6]) and on every pair of histories of at most 2 calls; Has on every point, Len, String, Copy (equal and independent), Complement(limit) for every limit covering the set (contents, Has, Len, double complement, receiver unchanged), Union, Intersects, Equal are compared with the corresponding set of integers. R-order-invariant is the structural condition that makes the small universe representative: outside Len/String the code only compares code points with each other or with 0, copies them and steps them by one, so behaviour depends only on the order-and-adjacency pattern of the values and every pattern for these history sizes occurs in the universe. (2) R-sentinel-guard — every dereference of a value loaded from <operand>.Head.Forward or <operand>.Tail.Backward (nil exactly on the empty set) in the read-only methods lies only on feasible CFG paths whose branch facts imply the link is non-nil (directly or through Len()≠0 with Len's summary derived from its body): this part holds for sets of any size. (3) R-operand-pure — every store in the read-only methods goes through a pointer whose origin is an allocation of the same call, mutating methods are only called on fresh receivers, returned sets are fresh: any size. NOT decided: histories with more than 3 insertions (list-walk induction over arbitrarily many intervals), arithmetic overflow at the int32 boundary (the interpreter computes in int64). Inverted ranges (they denote nothing) and Complement limits below the largest element are part of the evaluation; a call that gives no result within 20000 statements on these tiny sets is reported as non-termination."
	c.Assume = []string{"NewSet leaves Head.Forward and Tail.Backward nil and they are non-nil after the first insertion (checked: R-newset-shape)", "a non-tail list node has a non-nil Forward link (list-shape invariant of AddRange; holds on every evaluated history, not decided beyond them)"}
	c.Trusted = []string{"go/ssa of golang.org/x/tools v0.50.0", "interp.go (the Go-subset interpreter)"}
	r := mustRepo(c)
	if r == nil {
		return
	}
	sp := r.pkg("set")
	setObj := sp.Types.Scope().Lookup("Set")
	if setObj == nil {
		c.Und("R-anchor", "set.Set", "", "type not found")
		return
	}
	methods := map[string]*ssa.Function{}
	ms := r.Prog.MethodSets.MethodSet(types.NewPointer(setObj.Type()))
	for i := 0; i < ms.Len(); i++ {
		if f := r.Prog.MethodValue(ms.At(i)); f != nil {
			methods[f.Name()] = f
		}
	}
	newSet := r.ssaFunc("set", "NewSet")
	if newSet == nil {
		c.Und("R-anchor", "set.NewSet", "", "not found")
		return
	}
	// R-newset-shape: NewSet stores nothing into Head.Forward / Tail.Backward
	{
		bad := ""
		instrsOf(newSet, func(in ssa.Instruction) {
			if st, ok := in.(*ssa.Store); ok {
				p := accessPathLocal(st.Addr)
				if strings.HasSuffix(p, ".Head.Forward") || strings.HasSuffix(p, ".Tail.Backward") {
					if k, ok := st.Val.(*ssa.Const); !ok || !k.IsNil() {
						bad = p
					}
				}
			}
		})
		c.Decide(bad == "", "R-newset-shape", "set.NewSet", r.pos(newSet.Pos()), "NewSet writes neither Head.Forward nor Tail.Backward: both links are nil on the empty set", "NewSet initialises "+bad+"; the sentinel model of this check no longer holds")
	}

	// Len summary: on every feasible path where s.Head.Forward == nil, Len returns the constant 0
	lenOK := false
	if lf := methods["Len"]; lf != nil {
		lenOK = true
		recv := lf.Params[0].Name()
		link := recv + ".Head.Forward"
		instrsOf(lf, func(in ssa.Instruction) {
			ret, ok := in.(*ssa.Return)
			if !ok {
				return
			}
			paths, trunc := pathsTo(lf, ret.Block(), 2000)
			if trunc {
				lenOK = false
			}
			for _, p := range paths {
				if consistent(append(append([]fact{}, p.Facts...), fact{true, link, "nil"})) {
					for _, v := range returnValues(ret, 0) {
						if t := term(resolvePhiOnPath(v, p)); t != "#0" {
							lenOK = false
						}
					}
				}
			}
		})
		c.Decide(lenOK, "R-len-summary", "set.(*Set).Len", r.pos(lf.Pos()), "every path consistent with Head.Forward==nil returns the constant 0, so Len()!=0 implies Head.Forward!=nil", "Len may return non-zero while Head.Forward is nil: the Len()!=0 guard idiom is not a nil guard any more")
	}

	nDeref := 0
	var names []string
	for _, n := range setReadOnly {
		names = append(names, n)
	}
	sort.Strings(names)
	for _, name := range names {
		f := methods[name]
		if f == nil {
			c.Und("R-anchor", "set.(*Set)."+name, "", "read-only method named by the property not found")
			continue
		}
		c.Note("functions", fnName(f))
		nDeref += sentinelGuard(c, r, f, lenOK)
		operandPure(c, r, f, methods, newSet)
	}
	c.Floor("R-sentinel-guard", nDeref, 1)
	setValueRules(c, r)
}

func accessPathLocal(v ssa.Value) string {
	switch x := v.(type) {
	case *ssa.Alloc:
		return "new"
	case *ssa.FieldAddr:
		p := accessPathLocal(x.X)
		st := derefStruct(x.X.Type())
		if p == "" || st == nil {
			return ""
		}
		return p + "." + st.Field(x.Field).Name()
	}
	return ""
}

// resolvePhiOnPath picks the phi edge that corresponds to the path taken.
func resolvePhiOnPath(v ssa.Value, p cfgPath) ssa.Value {
	phi, ok := v.(*ssa.Phi)
	if !ok {
		return v
	}
	blk := phi.Block()
	for i, b := range p.Blocks {
		if b == blk && i > 0 {
			for pi, pred := range blk.Preds {
				if pred == p.Blocks[i-1] {
					return resolvePhiOnPath(phi.Edges[pi], p)
				}
			}
		}
	}
	return v
}

// sentinelGuard checks every dereference of a sentinel-link load in f.
func sentinelGuard(c *Check, r *Repo, f *ssa.Function, lenOK bool) int {
	type site struct {
		in   ssa.Instruction
		link string // access path of the link that was loaded
		root string
	}
	var sites []site
	// sentinel loads
	loads := map[ssa.Value]string{}
	instrsOf(f, func(in ssa.Instruction) {
		u, ok := in.(*ssa.UnOp)
		if !ok || u.Op != token.MUL {
			return
		}
		p := accessPath(u)
		if p == "" {
			return
		}
		parts := strings.Split(p, ".")
		if len(parts) == 3 && ((parts[1] == "Head" && parts[2] == "Forward") || (parts[1] == "Tail" && parts[2] == "Backward")) {
			loads[u] = p
		}
	})
	// values that may carry a sentinel load (through phis)
	carries := map[ssa.Value]string{}
	for v, p := range loads {
		carries[v] = p
	}
	for changed := true; changed; {
		changed = false
		instrsOf(f, func(in ssa.Instruction) {
			if phi, ok := in.(*ssa.Phi); ok && carries[phi] == "" {
				for _, e := range phi.Edges {
					if p := carries[e]; p != "" {
						carries[phi] = p
						changed = true
					}
				}
			}
		})
	}
	instrsOf(f, func(in ssa.Instruction) {
		var x ssa.Value
		switch d := in.(type) {
		case *ssa.FieldAddr:
			x = d.X
		case *ssa.Field:
			x = d.X
		case *ssa.UnOp:
			if d.Op == token.MUL {
				x = d.X
			}
		}
		if x == nil {
			return
		}
		if p := carries[x]; p != "" {
			sites = append(sites, site{in, p, strings.Split(p, ".")[0]})
		}
	})
	n := len(sites)
	type agg struct {
		total, paths int
		bad          []string
		pos          string
	}
	byLink := map[string]*agg{}
	var order []string
	for _, s := range sites {
		a := byLink[s.link]
		if a == nil {
			a = &agg{pos: r.pos(s.in.Pos())}
			byLink[s.link] = a
			order = append(order, s.link)
		}
		a.total++
		paths, trunc := pathsTo(f, s.in.Block(), 5000)
		if trunc {
			c.Und("R-sentinel-guard", fnName(f)+"/derefs of "+s.link, r.pos(s.in.Pos()), "too many paths")
			continue
		}
		a.paths += len(paths)
		for i := range paths {
			p := paths[i]
			g1 := !consistent(append(append([]fact{}, p.Facts...), fact{true, s.link, "nil"}))
			g2 := lenOK && !consistent(append(append([]fact{}, p.Facts...), fact{true, "Len(" + s.root + ")", "#0"}))
			if !g1 && !g2 {
				a.bad = append(a.bad, fmt.Sprintf("%s via path %s", r.pos(s.in.Pos()), p.String()))
				break
			}
		}
	}
	sort.Strings(order)
	for _, link := range order {
		a := byLink[link]
		construct := fmt.Sprintf("%s/derefs of %s", fnName(f), link)
		if len(a.bad) == 0 {
			c.OK("R-sentinel-guard", construct, a.pos, fmt.Sprintf("%d dereference site(s), %d feasible acyclic path(s) in total, each implies %s != nil (directly or via Len(%s) != 0)", a.total, a.paths, link, strings.Split(link, ".")[0]))
		} else {
			o := c.Bad("R-sentinel-guard", construct, a.pos,
				fmt.Sprintf("%s is nil on the empty set and is dereferenced without a dominating nil test or Len()!=0 test (nil-pointer panic on the empty set) at: %s", link, strings.Join(a.bad, "; ")))
			o.Replay = strings.Join(a.bad, "\n")
		}
	}
	return n
}

// ---------------------------------------------------------------------------
// R-operand-pure

type origin int

const (
	oNone origin = iota // nil / non-pointer / constant
	oFresh
	oParam
	oUnknown
)

// originOf builds the pointer-origin function for one function body: fresh
// (allocated by this call), operand (derived from the receiver or a
// parameter), unknown. A local variable that holds a pointer (an Alloc of
// pointer type, also when captured by a range-over-func body) has the join of
// the origins stored into it.
func originOf(methods map[string]*ssa.Function, newSet *ssa.Function) func(v ssa.Value) origin {
	memo := map[ssa.Value]origin{}
	inprog := map[ssa.Value]bool{}
	var org func(v ssa.Value) origin
	join := func(a, b origin) origin {
		if a > b {
			return a
		}
		return b
	}
	isPtrVar := func(a *ssa.Alloc) bool {
		_, ok := a.Type().(*types.Pointer).Elem().Underlying().(*types.Pointer)
		return ok
	}
	varOrigin := func(a *ssa.Alloc) origin {
		var o origin
		var scan func(refs []ssa.Instruction)
		scan = func(refs []ssa.Instruction) {
			for _, ref := range refs {
				switch y := ref.(type) {
				case *ssa.Store:
					if y.Addr == ssa.Value(a) {
						o = join(o, org(y.Val))
					}
				case *ssa.MakeClosure:
					// the variable is captured: stores in the closure count too
					fn := y.Fn.(*ssa.Function)
					for bi, b := range y.Bindings {
						if b == ssa.Value(a) && bi < len(fn.FreeVars) {
							instrsOf(fn, func(in ssa.Instruction) {
								if st, ok := in.(*ssa.Store); ok && st.Addr == ssa.Value(fn.FreeVars[bi]) {
									o = join(o, org(st.Val))
								}
							})
						}
					}
				}
			}
		}
		scan(*a.Referrers())
		return o
	}
	org = func(v ssa.Value) origin {
		if o, ok := memo[v]; ok {
			return o
		}
		if inprog[v] {
			return oNone
		}
		inprog[v] = true
		defer func() { inprog[v] = false }()
		var o origin
		switch x := v.(type) {
		case *ssa.Const:
			o = oNone
		case *ssa.Alloc:
			o = oFresh
		case *ssa.Parameter:
			if _, isPtr := x.Type().Underlying().(*types.Pointer); isPtr {
				o = oParam
			} else {
				o = oNone
			}
		case *ssa.FieldAddr:
			o = org(x.X)
		case *ssa.IndexAddr:
			o = org(x.X)
		case *ssa.UnOp:
			if x.Op == token.MUL {
				if a, ok := x.X.(*ssa.Alloc); ok && isPtrVar(a) {
					o = varOrigin(a) // a pointer variable: what was stored into it
				} else if fv, ok := x.X.(*ssa.FreeVar); ok {
					o = oUnknown
					// the captured variable of the enclosing function
					if par := fv.Parent().Parent(); par != nil {
						instrsOf(par, func(in ssa.Instruction) {
							if mc, ok := in.(*ssa.MakeClosure); ok && mc.Fn == ssa.Value(fv.Parent()) {
								for bi, b := range mc.Bindings {
									if bi < len(fv.Parent().FreeVars) && fv.Parent().FreeVars[bi] == fv {
										if a, ok := b.(*ssa.Alloc); ok && isPtrVar(a) {
											o = varOrigin(a)
										} else if a, ok := b.(*ssa.Alloc); ok {
											_ = a
											o = oNone
										}
									}
								}
							}
						})
					}
				} else {
					// pointer read out of an object: as fresh as the object, provided the fresh
					// region is closed (checked separately: only fresh pointers are stored into it)
					o = org(x.X)
				}
			} else {
				o = oNone
			}
		case *ssa.FreeVar:
			o = oFresh // the address of a captured local variable (its content is judged when loaded)
		case *ssa.Phi:
			for _, e := range x.Edges {
				o = join(o, org(e))
			}
		case *ssa.Call:
			callee := x.Call.StaticCallee()
			switch {
			case callee == newSet:
				o = oFresh
			case callee != nil && callee == methods["Copy"]:
				o = oFresh
			default:
				if _, isPtr := x.Type().Underlying().(*types.Pointer); isPtr {
					o = oUnknown
				}
			}
		case *ssa.BinOp, *ssa.Convert:
			o = oNone
		default:
			if _, isPtr := v.Type().Underlying().(*types.Pointer); isPtr {
				o = oUnknown
			}
		}
		memo[v] = o
		return o
	}
	return org
}

// mutatesOperand: does g (or a function of the package it hands operand
// pointers to) store through a pointer that is not fresh? Computed from the
// bodies, so a new helper is classified by what it does, not by its name.
func mutatesOperand(g *ssa.Function, methods map[string]*ssa.Function, newSet *ssa.Function, memo map[*ssa.Function]int) bool {
	switch memo[g] {
	case 1:
		return true
	case 2, 3:
		return false
	}
	memo[g] = 3
	org := originOf(methods, newSet)
	mut := false
	var scan func(h *ssa.Function)
	scan = func(h *ssa.Function) {
		instrsOf(h, func(in ssa.Instruction) {
			switch x := in.(type) {
			case *ssa.Store:
				if a, ok := x.Addr.(*ssa.Alloc); ok {
					_ = a
					return
				}
				if _, ok := x.Addr.(*ssa.FreeVar); ok {
					return
				}
				if ao := org(x.Addr); ao != oFresh {
					mut = true
				}
			case ssa.CallInstruction:
				callee := x.Common().StaticCallee()
				if callee == nil || callee.Pkg != g.Pkg || callee == newSet {
					return
				}
				for _, a := range x.Common().Args {
					if _, isPtr := a.Type().Underlying().(*types.Pointer); isPtr && org(a) != oFresh {
						if mutatesOperand(callee, methods, newSet, memo) {
							mut = true
						}
					}
				}
			}
		})
		for _, af := range h.AnonFuncs {
			scan(af)
		}
	}
	scan(g)
	if mut {
		memo[g] = 1
	} else {
		memo[g] = 2
	}
	return mut
}

func operandPure(c *Check, r *Repo, f *ssa.Function, methods map[string]*ssa.Function, newSet *ssa.Function) {
	org := originOf(methods, newSet)
	mutMemo := map[*ssa.Function]int{}
	name := fnName(f)
	nStores, nCalls := 0, 0
	var bad []string
	var bodies []*ssa.Function
	var collect func(h *ssa.Function)
	collect = func(h *ssa.Function) {
		bodies = append(bodies, h)
		for _, af := range h.AnonFuncs {
			collect(af)
		}
	}
	collect(f)
	for _, body := range bodies {
		instrsOf(body, func(in ssa.Instruction) {
			switch x := in.(type) {
			case *ssa.Store:
				nStores++
				if a, ok := x.Addr.(*ssa.Alloc); ok && func() bool { _, p := a.Type().(*types.Pointer).Elem().Underlying().(*types.Pointer); return p }() {
					return // a local pointer variable: judged where it is read
				}
				if _, ok := x.Addr.(*ssa.FreeVar); ok {
					return // a captured local variable
				}
				if ao := org(x.Addr); ao != oFresh {
					bad = append(bad, fmt.Sprintf("%s: store through a pointer of origin %s", r.pos(x.Pos()), originName(ao)))
				}
				if _, isPtr := x.Val.Type().Underlying().(*types.Pointer); isPtr {
					if vo := org(x.Val); vo == oParam || vo == oUnknown {
						bad = append(bad, fmt.Sprintf("%s: a pointer of origin %s is stored into the result (operand storage becomes reachable from, and writable through, the result)", r.pos(x.Pos()), originName(vo)))
					}
				}
			case ssa.CallInstruction:
				callee := x.Common().StaticCallee()
				if callee == nil || callee.Pkg != f.Pkg || callee == newSet {
					return
				}
				if mutatesOperand(callee, methods, newSet, mutMemo) {
					nCalls++
					for _, a := range x.Common().Args {
						if _, isPtr := a.Type().Underlying().(*types.Pointer); !isPtr {
							continue
						}
						if ro := org(a); ro != oFresh {
							bad = append(bad, fmt.Sprintf("%s: %s, which writes through its pointer arguments, is given a pointer of origin %s", r.pos(in.Pos()), callee.Name(), originName(ro)))
						}
					}
				}
			}
		})
	}
	// a returned *Set must be fresh too: handing back an operand (or something reachable
	// from one) lets a later Add on the result change the operand
	instrsOf(f, func(in ssa.Instruction) {
		ret, ok := in.(*ssa.Return)
		if !ok {
			return
		}
		for _, rv := range ret.Results {
			if _, isPtr := rv.Type().Underlying().(*types.Pointer); !isPtr {
				continue
			}
			if ro := org(rv); ro != oFresh {
				bad = append(bad, fmt.Sprintf("%s: the result returned here has origin %s, not a set allocated by this call: the caller can modify an operand through it", r.pos(retPos(ret.Block())), originName(ro)))
			}
		}
	})
	c.Decide(len(bad) == 0, "R-operand-pure", name, r.pos(f.Pos()),
		fmt.Sprintf("%d store(s) and %d mutator call(s) examined: all go through pointers allocated in this call", nStores, nCalls),
		strings.Join(bad, "; "))
}

func originName(o origin) string {
	return [...]string{"none", "fresh", "an operand (receiver/parameter)", "unknown"}[o]
}
