package main

// E3 — runtime-template instantiation (DESIGN §2 E3). tree/peg.go.tmpl is
// parsed with text/template/parse and its parse tree is walked under a
// valuation of the booleans it tests, with representative range elements.
// The result (plus a rule-table tail supplied by the caller) is type-checked
// and converted to SSA in-process. Nothing of peg is executed.

import (
	"fmt"
	"go/ast"
	"go/parser"
	"go/token"
	"go/types"
	"os"
	"path/filepath"
	"regexp"
	"slices"
	"sort"
	"strconv"
	"strings"
	"sync"
	"text/template/parse"

	"golang.org/x/tools/go/ssa"
	"golang.org/x/tools/go/ssa/ssautil"
)

// tmplConfig is one valuation of the template's booleans plus the model data.
type tmplConfig struct {
	Bools map[string]bool // Ast, HasActions, HasPush, HasDot, HasString, …
	// model data (only names, never shapes, depend on these)
	RuleNames []string
	Actions   []tmplAction
	RuleType  string
	Imports   []string
	Struct    string
	StructVar string
	Package   string
	Comments  string
}

type tmplAction struct {
	ID   int
	Code string
}

func (c tmplConfig) name() string {
	var on []string
	for k, v := range c.Bools {
		if v {
			on = append(on, k)
		}
	}
	sort.Strings(on)
	if len(on) == 0 {
		return "tmpl[]"
	}
	return "tmpl[" + strings.Join(on, ",") + "]"
}

type tmplInfo struct {
	Path     string
	Text     string
	Tree     *parse.Tree
	Trees    map[string]*parse.Tree // the main template and its {{define}}d sub-templates
	Fields   map[string]bool        // every .Field referenced at top level (dot = Tree)
	BoolVars []string               // fields used as {{if}} conditions
	Err      error
}

func loadTemplate(r *Repo) *tmplInfo {
	ti := &tmplInfo{Path: filepath.Join(r.Root, "tree", "peg.go.tmpl"), Fields: map[string]bool{}}
	b, err := os.ReadFile(ti.Path)
	if err != nil {
		ti.Err = err
		return ti
	}
	ti.Text = string(b)
	funcs := map[string]any{"formatImport": func(string) string { return "" }, "not": func(bool) bool { return false }, "and": 0, "or": 0, "eq": 0, "ne": 0, "len": 0, "index": 0, "print": 0, "printf": 0}
	trees, err := parse.Parse("peg", ti.Text, "{{", "}}", funcs)
	if err != nil {
		ti.Err = err
		return ti
	}
	ti.Tree = trees["peg"]
	ti.Trees = trees
	bools := map[string]bool{}
	var walk func(n parse.Node, dotIsTree bool)
	var pipeFields func(p *parse.PipeNode, dotIsTree bool, isCond bool)
	pipeFields = func(p *parse.PipeNode, dotIsTree bool, isCond bool) {
		if p == nil {
			return
		}
		for _, cmd := range p.Cmds {
			for _, a := range cmd.Args {
				if f, ok := a.(*parse.FieldNode); ok && dotIsTree {
					ti.Fields[f.Ident[0]] = true
					if isCond {
						bools[f.Ident[0]] = true
					}
				}
				if sub, ok := a.(*parse.PipeNode); ok {
					pipeFields(sub, dotIsTree, isCond)
				}
			}
		}
	}
	walk = func(n parse.Node, dotIsTree bool) {
		switch x := n.(type) {
		case *parse.ListNode:
			if x == nil {
				return
			}
			for _, c := range x.Nodes {
				walk(c, dotIsTree)
			}
		case *parse.ActionNode:
			pipeFields(x.Pipe, dotIsTree, false)
		case *parse.IfNode:
			pipeFields(x.Pipe, dotIsTree, true)
			walk(x.List, dotIsTree)
			if x.ElseList != nil {
				walk(x.ElseList, dotIsTree)
			}
		case *parse.RangeNode:
			pipeFields(x.Pipe, dotIsTree, false)
			walk(x.List, false)
			if x.ElseList != nil {
				walk(x.ElseList, dotIsTree)
			}
		case *parse.WithNode:
			pipeFields(x.Pipe, dotIsTree, false)
			walk(x.List, false)
		}
	}
	walk(ti.Tree.Root, true)
	// sub-templates ({{define}}): executed with the tree as their dot
	var names []string
	for nm := range trees {
		names = append(names, nm)
	}
	sort.Strings(names)
	for _, nm := range names {
		if t := trees[nm]; t != nil && t != ti.Tree && t.Root != nil {
			walk(t.Root, true)
		}
	}
	for b := range bools {
		ti.BoolVars = append(ti.BoolVars, b)
	}
	sort.Strings(ti.BoolVars)
	return ti
}

// instantiate walks the parse tree under cfg. It returns the produced text
// and, for every output line, the template line it came from.
// instantiate returns the instantiation with the runtime's names rewritten to
// their role names (vocab.go); instantiateRaw is the text as the template
// spells it.
func (ti *tmplInfo) instantiate(cfg tmplConfig) (string, []int, error) {
	head, lm, err := ti.instantiateRaw(cfg)
	if err != nil {
		return head, lm, err
	}
	v, problem := runtimeVocab(head)
	if problem != "" {
		return head, lm, fmt.Errorf("%s", problem)
	}
	return applyVocab(head, v), lm, nil
}

// vocabFor: the renaming instantiate applied (nil when the names are the role names).
func (ti *tmplInfo) vocabFor(cfg tmplConfig) map[string]string {
	head, _, err := ti.instantiateRaw(cfg)
	if err != nil {
		return nil
	}
	v, _ := runtimeVocab(head)
	return v
}

func (ti *tmplInfo) instantiateRaw(cfg tmplConfig) (string, []int, error) {
	var sb strings.Builder
	var lineMap []int
	curLine := func(pos parse.Pos) int { return 1 + strings.Count(ti.Text[:int(pos)], "\n") }
	emit := func(s string, tl int) {
		for _, ch := range s {
			if ch == '\n' {
				lineMap = append(lineMap, tl)
				tl0 := tl
				_ = tl0
			}
		}
		sb.WriteString(s)
	}
	emitText := func(s string, pos parse.Pos) {
		// text nodes span template lines: map each output line to its own template line
		tl := curLine(pos)
		for _, ch := range s {
			if ch == '\n' {
				lineMap = append(lineMap, tl)
				tl++
			}
		}
		sb.WriteString(s)
	}
	type elem map[string]string
	lookup := func(name string) (any, error) {
		switch name {
		case "Generator":
			return "peg", nil
		case "Comments":
			return cfg.Comments, nil
		case "PackageName":
			return cfg.Package, nil
		case "Imports":
			var out []any
			for _, i := range cfg.Imports {
				out = append(out, i)
			}
			return out, nil
		case "EndSymbol":
			return "1114112", nil
		case "PegRuleType":
			return cfg.RuleType, nil
		case "RuleNames":
			var out []any
			for _, n := range cfg.RuleNames {
				out = append(out, elem{"String": n})
			}
			return out, nil
		case "StructName":
			return cfg.Struct, nil
		case "StructVariables":
			return cfg.StructVar, nil
		case "RulesCount":
			return fmt.Sprint(len(cfg.RuleNames) + 1), nil
		case "Actions":
			var out []any
			for _, a := range cfg.Actions {
				out = append(out, elem{"GetID": fmt.Sprint(a.ID), "String": a.Code})
			}
			return out, nil
		}
		if v, ok := cfg.Bools[name]; ok {
			return v, nil
		}
		return nil, fmt.Errorf("template references .%s which the instantiator does not model", name)
	}
	var evalPipeRec func(p *parse.PipeNode, dot any) (any, error)
	var evalArg func(a parse.Node, dot any) (any, error)
	evalArg = func(a parse.Node, dot any) (any, error) {
		switch x := a.(type) {
		case *parse.FieldNode:
			if len(x.Ident) != 1 {
				return nil, fmt.Errorf("field chain %v not modelled", x.Ident)
			}
			if e, ok := dot.(elem); ok {
				v, ok := e[x.Ident[0]]
				if !ok {
					return nil, fmt.Errorf("element has no .%s", x.Ident[0])
				}
				return v, nil
			}
			if dot == nil {
				return lookup(x.Ident[0])
			}
			return nil, fmt.Errorf(".%s on a non-struct element", x.Ident[0])
		case *parse.DotNode:
			return dot, nil
		case *parse.NumberNode:
			if x.IsInt {
				return int(x.Int64), nil
			}
			return x.Text, nil
		case *parse.StringNode:
			return x.Text, nil
		case *parse.BoolNode:
			return x.True, nil
		case *parse.PipeNode:
			if evalPipeRec != nil {
				return evalPipeRec(x, dot)
			}
			return nil, fmt.Errorf("nested pipeline not modelled")
		}
		return nil, fmt.Errorf("argument %T not modelled", a)
	}
	evalPipe := func(p *parse.PipeNode, dot any) (any, error) {
		if len(p.Decl) > 0 || len(p.Cmds) != 1 {
			return nil, fmt.Errorf("pipeline %s not modelled", p)
		}
		cmd := p.Cmds[0]
		if id, ok := cmd.Args[0].(*parse.IdentifierNode); ok && (id.Ident == "and" || id.Ident == "or") {
			// boolean connectives over fields (and parenthesised sub-pipelines)
			res := id.Ident == "and"
			for _, an := range cmd.Args[1:] {
				var v any
				var err error
				if pn, isPipe := an.(*parse.PipeNode); isPipe {
					v, err = evalPipeRec(pn, dot)
				} else {
					v, err = evalArg(an, dot)
				}
				if err != nil {
					return nil, err
				}
				b, ok := v.(bool)
				if !ok {
					return nil, fmt.Errorf("%s of a non-boolean", id.Ident)
				}
				if id.Ident == "and" {
					res = res && b
				} else {
					res = res || b
				}
			}
			return res, nil
		}
		if id, ok := cmd.Args[0].(*parse.IdentifierNode); ok {
			if len(cmd.Args) != 2 {
				return nil, fmt.Errorf("call %s not modelled", cmd)
			}
			arg, err := evalArg(cmd.Args[1], dot)
			if err != nil {
				return nil, err
			}
			switch id.Ident {
			case "not":
				b, ok := arg.(bool)
				if !ok {
					return nil, fmt.Errorf("not of non-bool")
				}
				return !b, nil
			case "len":
				switch x := arg.(type) {
				case []any:
					return len(x), nil
				case string:
					return len(x), nil
				}
				return nil, fmt.Errorf("len of %T", arg)
			case "print", "html", "js", "urlquery":
				return fmt.Sprint(arg), nil
			case "formatImport":
				s, _ := arg.(string)
				imp, alias, with := strings.Cut(s, "=")
				if with {
					return fmt.Sprintf(`%s "%s"`, alias, imp), nil
				}
				return fmt.Sprintf(`"%s"`, imp), nil
			}
			return nil, fmt.Errorf("function %s not modelled", id.Ident)
		}
		if len(cmd.Args) != 1 {
			return nil, fmt.Errorf("command %s not modelled", cmd)
		}
		return evalArg(cmd.Args[0], dot)
	}
	evalPipeRec = evalPipe
	depth := 0
	var walk func(n parse.Node, dot any) error
	walk = func(n parse.Node, dot any) error {
		switch x := n.(type) {
		case *parse.ListNode:
			if x == nil {
				return nil
			}
			for _, c := range x.Nodes {
				if err := walk(c, dot); err != nil {
					return err
				}
			}
		case *parse.TextNode:
			emitText(string(x.Text), x.Pos)
		case *parse.ActionNode:
			v, err := evalPipe(x.Pipe, dot)
			if err != nil {
				return err
			}
			emit(fmt.Sprint(v), curLine(x.Pos))
		case *parse.IfNode:
			v, err := evalPipe(x.Pipe, dot)
			if err != nil {
				return err
			}
			b, ok := v.(bool)
			if !ok {
				return fmt.Errorf("if on non-bool %v", x.Pipe)
			}
			if b {
				return walk(x.List, dot)
			} else if x.ElseList != nil {
				return walk(x.ElseList, dot)
			}
		case *parse.RangeNode:
			v, err := evalPipe(x.Pipe, dot)
			if err != nil {
				return err
			}
			lst, _ := v.([]any)
			for _, e := range lst {
				if err := walk(x.List, e); err != nil {
					return err
				}
			}
		case *parse.CommentNode:
		case *parse.TemplateNode:
			sub := ti.Trees[x.Name]
			if sub == nil || sub.Root == nil {
				return fmt.Errorf("template %q is not defined", x.Name)
			}
			nd := dot
			if x.Pipe != nil {
				v, err := evalPipe(x.Pipe, dot)
				if err != nil {
					return err
				}
				nd = v
			}
			depth++
			if depth > 20 {
				return fmt.Errorf("templates nested too deeply (recursion?)")
			}
			err := walk(sub.Root, nd)
			depth--
			return err
		case *parse.WithNode:
			v, err := evalPipe(x.Pipe, dot)
			if err != nil {
				return err
			}
			truthy := v != nil && v != false && v != "" && v != 0
			if l, ok := v.([]any); ok {
				truthy = len(l) > 0
			}
			if truthy {
				return walk(x.List, v)
			} else if x.ElseList != nil {
				return walk(x.ElseList, dot)
			}
		default:
			return fmt.Errorf("template node %T not modelled", n)
		}
		return nil
	}
	if err := walk(ti.Tree.Root, nil); err != nil {
		return "", nil, err
	}
	return sb.String(), lineMap, nil
}

// defaultImports: the imports Compile adds itself, read from Compile's own
// AddImport("…") calls (those under `if t.Ast` only for Ast). C08 R-imports and
// R-import-order check separately how the list is treated; here it only has to
// be the list the real generator would hand to the template, so that a runtime
// that starts using another package (and imports it) still type-checks.
func defaultImports(ast bool) []string {
	imps := compileImports(ast)
	if len(imps) == 0 {
		imps = []string{"fmt", "slices", "strconv"}
		if ast {
			imps = append(imps, "io", "os", "bytes")
		}
	}
	sort.Strings(imps)
	return slices.Compact(imps)
}

var (
	compileImportsOnce                                           sync.Once
	compileImportsAlways, compileImportsAst, compileImportsNoAst []string
)

func compileImports(withAst bool) []string {
	compileImportsOnce.Do(func() {
		r := theRepo
		if r == nil {
			return
		}
		pkg := r.Pkgs[modPath+"/tree"]
		if pkg == nil {
			return
		}
		for _, f := range pkg.Syntax {
			for _, d := range f.Decls {
				fd, ok := d.(*ast.FuncDecl)
				if !ok || fd.Name.Name != "Compile" || fd.Body == nil {
					continue
				}
				var walk func(n ast.Node, cond int)
				mentionsAst := func(e ast.Expr) (bool, bool) { // (mentions .Ast, negated)
					found, neg := false, false
					ast.Inspect(e, func(n ast.Node) bool {
						switch x := n.(type) {
						case *ast.UnaryExpr:
							if x.Op == token.NOT {
								if se, ok := x.X.(*ast.SelectorExpr); ok && se.Sel.Name == "Ast" {
									found, neg = true, true
									return false
								}
							}
						case *ast.SelectorExpr:
							if x.Sel.Name == "Ast" {
								found = true
							}
						}
						return true
					})
					return found, neg
				}
				walk = func(n ast.Node, cond int) { // cond: 0 always, 1 only with Ast, 2 only without
					ast.Inspect(n, func(m ast.Node) bool {
						switch x := m.(type) {
						case *ast.FuncLit:
							return false
						case *ast.IfStmt:
							if x == n {
								return true
							}
							if is, neg := mentionsAst(x.Cond); is {
								a, b := 1, 2
								if neg {
									a, b = 2, 1
								}
								if cond == 0 {
									walk(x.Body, a)
									if x.Else != nil {
										walk(x.Else, b)
									}
									return false
								}
							}
						case *ast.CallExpr:
							if se, ok := x.Fun.(*ast.SelectorExpr); ok && se.Sel.Name == "AddImport" && len(x.Args) == 1 {
								if lit, ok := x.Args[0].(*ast.BasicLit); ok && lit.Kind == token.STRING {
									if v, err := strconv.Unquote(lit.Value); err == nil {
										switch cond {
										case 0:
											compileImportsAlways = append(compileImportsAlways, v)
										case 1:
											compileImportsAst = append(compileImportsAst, v)
										default:
											compileImportsNoAst = append(compileImportsNoAst, v)
										}
									}
								}
							}
						}
						return true
					})
				}
				walk(fd.Body, 0)
			}
		}
	})
	out := append([]string{}, compileImportsAlways...)
	if withAst {
		out = append(out, compileImportsAst...)
	} else {
		out = append(out, compileImportsNoAst...)
	}
	return out
}

// modelConfig builds the representative data for a boolean valuation.
func modelConfig(bools map[string]bool) tmplConfig {
	cfg := tmplConfig{Bools: bools, RuleType: "uint8", Struct: "P", Package: "p", Imports: defaultImports(bools["Ast"])}
	cfg.RuleNames = []string{"S", "A"}
	if bools["HasPush"] {
		cfg.RuleNames = append(cfg.RuleNames, "PegText")
	}
	if bools["HasActions"] {
		cfg.RuleNames = append(cfg.RuleNames, "Action0")
		cfg.Actions = []tmplAction{{0, "_ = text"}}
	}
	return cfg
}

// syntheticTail closes the rules table with one rule function that uses every
// closure the configuration declares (so that the instantiation type-checks
// for the runtime-only rules). E1/E2 replace this tail by what the emitter
// itself produces.
func syntheticTail(cfg tmplConfig) string {
	var sb strings.Builder
	ast := cfg.Bools["Ast"]
	sb.WriteString("\n  /* 0 S <- synthetic */\n  func() bool {")
	if ast {
		sb.WriteString("\n   if memoized, ok := memoization[memoKey[U]{1, position}]; ok {\n       return memoizedResult(memoized)\n   }")
	}
	sb.WriteString("\n   position0, tokenIndex0 := position, tokenIndex")
	sb.WriteString("\n   {\n   position1 := position")
	if cfg.Bools["HasDot"] {
		sb.WriteString("\n   if !matchDot() {\n goto l0}")
	}
	if cfg.Bools["HasString"] {
		sb.WriteString("\n   if !matchString(\"ab\") {\n goto l0}")
	}
	sb.WriteString("\n   if buffer[position] != 'a' {\n goto l0}\nposition++")
	sb.WriteString("\n   if !_rules[ruleA]() {\n goto l0}")
	if cfg.Bools["HasPush"] && !ast {
		sb.WriteString("\n{\nposition2 := position\nbegin := position2\nend := position\ntext = string(buffer[begin:end])\n}")
		if !cfg.Bools["HasActions"] {
			sb.WriteString("\n_ = text")
		}
	}
	if cfg.Bools["HasPush"] && ast {
		sb.WriteString("\n{\nposition2 := position\nadd(rulePegText, position2)\n}")
	}
	if cfg.Bools["HasActions"] {
		if ast {
			sb.WriteString("\n{\nadd(ruleAction0, position)\n}")
		} else if cfg.Bools["HasPush"] {
			sb.WriteString("\n{\n_ = text\n}")
		}
	}
	sb.WriteString("\n   add(ruleS, position1)\n   }")
	if ast {
		sb.WriteString("\n   memoize(1, position0, tokenIndex0, true)")
	}
	sb.WriteString("\n   return true\n   l0:\t")
	if ast {
		sb.WriteString("\n   memoize(1, position0, tokenIndex0, false)")
	}
	sb.WriteString("\n   position, tokenIndex = position0, tokenIndex0\n   return false\n  },")
	sb.WriteString("\n  nil,")
	for i := 2; i < len(cfg.RuleNames); i++ {
		sb.WriteString("\n  nil,")
	}
	sb.WriteString("\n }\n p.rules = _rules\n return nil\n}\n")
	return sb.String()
}

// inst is one type-checked, SSA-built instantiation.
type inst struct {
	Cfg     tmplConfig
	Name    string
	Src     string
	LineMap []int // output line (0-based) -> template line, for the head part
	Fset    *token.FileSet
	File    *ast.File
	Pkg     *types.Package
	Info    *types.Info
	SSA     *ssa.Package
	Errs    []string
	ti      *tmplInfo
	repo    *Repo // set for peg.peg.go
	canonOf *Repo // set when peg.peg.go was re-read with its runtime names rewritten
	E1Tail  bool  // the rule table was printed by the emitter (E1), not the stand-in
}

type mapImporter map[string]*types.Package

func (m mapImporter) Import(path string) (*types.Package, error) {
	if p, ok := m[path]; ok {
		return p, nil
	}
	return nil, fmt.Errorf("package %q not loaded", path)
}

// buildInst parses, type-checks and SSA-builds src.
func buildInst(r *Repo, name, src string) *inst { return buildInstWith(mapImporter(r.Std), name, src) }

func buildInstWith(imp mapImporter, name, src string) *inst {
	in := &inst{Name: name, Src: src, Fset: token.NewFileSet()}
	f, err := parser.ParseFile(in.Fset, name+".go", src, parser.ParseComments|parser.SkipObjectResolution)
	if err != nil {
		in.Errs = append(in.Errs, "parse: "+err.Error())
		return in
	}
	in.File = f
	in.Info = &types.Info{Types: map[ast.Expr]types.TypeAndValue{}, Defs: map[*ast.Ident]types.Object{}, Uses: map[*ast.Ident]types.Object{},
		Implicits: map[ast.Node]types.Object{}, Selections: map[*ast.SelectorExpr]*types.Selection{}, Scopes: map[ast.Node]*types.Scope{},
		Instances: map[*ast.Ident]types.Instance{}, FileVersions: map[*ast.File]string{}}
	tc := &types.Config{Importer: imp, Error: func(err error) { in.Errs = append(in.Errs, err.Error()) }}
	pkg, _ := tc.Check("p", in.Fset, []*ast.File{f}, in.Info)
	in.Pkg = pkg
	if len(in.Errs) > 0 {
		return in
	}
	prog := ssa.NewProgram(in.Fset, ssa.BuilderMode(0))
	created := map[*types.Package]bool{}
	var createAll func(p *types.Package)
	createAll = func(p *types.Package) {
		if created[p] {
			return
		}
		created[p] = true
		for _, imp := range p.Imports() {
			createAll(imp)
		}
		if p != pkg {
			prog.CreatePackage(p, nil, nil, true)
		}
	}
	createAll(pkg)
	sp := prog.CreatePackage(pkg, []*ast.File{f}, in.Info, false)
	sp.Build()
	in.SSA = sp
	_ = ssautil.AllFunctions
	return in
}

// srcPos renders a position of an instantiation as template file:line when it
// lies in the head, else as "<name>:line" (emitted tail).
func (in *inst) srcPos(p token.Pos) string {
	if !p.IsValid() {
		return ""
	}
	if in.repo != nil {
		return in.repo.pos(p)
	}
	line := in.Fset.Position(p).Line
	if in.canonOf != nil {
		return fmt.Sprintf("peg.peg.go:%d", line)
	}
	if in.LineMap != nil && line-1 < len(in.LineMap) {
		return fmt.Sprintf("tree/peg.go.tmpl:%d", in.LineMap[line-1])
	}
	return fmt.Sprintf("%s(generated):%d", in.Name, line)
}

// allValuations enumerates 2^n valuations of the template's boolean fields.
func allValuations(vars []string) []map[string]bool {
	var out []map[string]bool
	for m := 0; m < 1<<len(vars); m++ {
		v := map[string]bool{}
		for i, name := range vars {
			v[name] = m&(1<<i) != 0
		}
		out = append(out, v)
	}
	return out
}

// feasible: valuations the generator can actually produce. HasActions/HasPush
// etc. are usage counters, Ast is an option: all combinations are reachable
// (a grammar may have captures without actions, etc.).
func feasibleValuation(v map[string]bool) bool { return true }

// findFuncDecl / closures by the name they are bound to inside Init.
func (in *inst) method(recv, name string) *ssa.Function {
	obj := in.Pkg.Scope().Lookup(recv)
	if obj == nil {
		return nil
	}
	named, ok := obj.Type().(*types.Named)
	if !ok {
		return nil
	}
	for i := 0; i < named.NumMethods(); i++ {
		m := named.Method(i)
		if m.Name() == name {
			return in.SSA.Prog.FuncValue(m)
		}
	}
	return nil
}

// initClosures maps the local name (or p.field) a closure is bound to inside
// Init to its SSA function.
func (in *inst) initClosures() (initFn *ssa.Function, byName map[string]*ssa.Function) {
	initFn = in.method(in.Cfg.Struct, "Init")
	byName = map[string]*ssa.Function{}
	if initFn == nil {
		return
	}
	lits := map[*ast.FuncLit]string{}
	var fd *ast.FuncDecl
	for _, d := range in.File.Decls {
		if x, ok := d.(*ast.FuncDecl); ok && x.Name.Name == "Init" && x.Recv != nil {
			fd = x
		}
	}
	if fd == nil {
		return
	}
	for _, st := range fd.Body.List {
		as, ok := st.(*ast.AssignStmt)
		if !ok || len(as.Lhs) != 1 || len(as.Rhs) != 1 {
			continue
		}
		lit, ok := as.Rhs[0].(*ast.FuncLit)
		if !ok {
			continue
		}
		switch l := as.Lhs[0].(type) {
		case *ast.Ident:
			lits[lit] = l.Name
		case *ast.SelectorExpr:
			if id, ok := l.X.(*ast.Ident); ok {
				lits[lit] = id.Name + "." + l.Sel.Name
			}
		}
	}
	for _, af := range initFn.AnonFuncs {
		if lit, ok := af.Syntax().(*ast.FuncLit); ok {
			if n, ok := lits[lit]; ok {
				byName[n] = af
			}
		}
	}
	return
}

// runtimeInstances builds every template valuation (with the synthetic tail)
// plus the checked-in peg.peg.go as an extra, independent instance.
func runtimeInstances(c *Check, r *Repo) []*inst {
	ti := loadTemplate(r)
	if ti.Err != nil {
		c.Und("R-template", "tree/peg.go.tmpl", "", "cannot parse template: "+ti.Err.Error())
		return nil
	}
	// every field the template reads must exist on tree.Tree
	treeObj := r.pkg("tree").Types.Scope().Lookup("Tree")
	if treeObj != nil {
		for f := range ti.Fields {
			obj, _, _ := types.LookupFieldOrMethod(types.NewPointer(treeObj.Type()), true, r.pkg("tree").Types, f)
			if obj == nil {
				c.Bad("R-template-fields", "tree/peg.go.tmpl/."+f, "tree/peg.go.tmpl", "the template reads ."+f+" which is not a field or method of tree.Tree: template execution fails for every grammar")
			}
		}
	}
	if len(ti.BoolVars) > 8 {
		c.Und("R-template", "tree/peg.go.tmpl", "", fmt.Sprintf("%d boolean conditions: too many valuations", len(ti.BoolVars)))
		return nil
	}
	vals := allValuations(ti.BoolVars)
	out := make([]*inst, len(vals))
	var wg sync.WaitGroup
	for i, v := range vals {
		wg.Add(1)
		go func(i int, v map[string]bool) {
			defer wg.Done()
			cfg := modelConfig(v)
			head, lm, err := ti.instantiate(cfg)
			if err != nil {
				out[i] = &inst{Cfg: cfg, Name: cfg.name(), Errs: []string{"instantiate: " + err.Error()}}
				return
			}
			tail := syntheticTail(cfg)
			e1 := false
			if t2, imps, ok := emittedTail(r, ti, v); ok {
				e1 = true
				if len(imps) > 0 {
					// the import list the evaluated generator hands to the template for such a grammar
					cfg.Imports = imps
				}
				// the rule table as the emitter itself prints it for a grammar using these features
				tail = applyVocab(t2, ti.vocabFor(cfg))
				cfg.RuleNames = []string{"S", "A"}
				if v["HasPush"] {
					cfg.RuleNames = append(cfg.RuleNames, "PegText")
				}
				if v["HasActions"] {
					cfg.RuleNames = append(cfg.RuleNames, "Action0")
				}
				head, lm, err = ti.instantiate(cfg)
				if err != nil {
					out[i] = &inst{Cfg: cfg, Name: cfg.name(), Errs: []string{"instantiate: " + err.Error()}}
					return
				}
			}
			in := buildInst(r, cfg.name(), head+tail)
			if !e1 {
				// a valuation the generator cannot produce has no import list of its own: the one
				// used here is a guess, corrected like goimports would (whether the generator imports
				// exactly what is needed is decided on the producible configurations, C08 R-frag-typecheck)
				for round := 0; round < 4 && len(in.Errs) > 0; round++ {
					imps, changed := adjustImports(r, cfg.Imports, in.Errs)
					if !changed {
						break
					}
					cfg.Imports = imps
					head, lm, err = ti.instantiate(cfg)
					if err != nil {
						break
					}
					in = buildInst(r, cfg.name(), head+tail)
				}
			}
			in.E1Tail = e1
			in.Cfg = cfg
			in.LineMap = lm
			in.ti = ti
			out[i] = in
		}(i, v)
	}
	wg.Wait()
	var good []*inst
	for _, in := range out {
		if len(in.Errs) > 0 {
			o := c.Bad("R-runtime-typecheck", in.Name, "tree/peg.go.tmpl", "this valuation of the template's booleans does not produce a Go file that parses and type-checks: "+strings.Join(in.Errs, "; "))
			o.Replay = in.Src
			continue
		}
		if in.E1Tail {
			c.Note("template configurations", in.Name+" + rule table printed by the emitter (E1)")
		} else {
			c.Note("template configurations", in.Name+" + stand-in rule table (valuation not producible by the generator)")
		}
		good = append(good, in)
	}
	// peg.peg.go
	mp := r.pkg("")
	if mp != nil {
		for _, f := range mp.Syntax {
			if strings.HasSuffix(r.Fset.Position(f.Pos()).Filename, "/peg.peg.go") {
				in := &inst{Name: "peg.peg.go", Fset: r.Fset, File: f, Pkg: mp.Types, Info: mp.TypesInfo, SSA: r.SSA[modPath]}
				in.Cfg = tmplConfig{Struct: "Peg", Bools: map[string]bool{"Ast": true, "HasActions": true, "HasPush": true, "HasDot": true, "HasString": true}}
				in.repo = r
				// when the runtime's names are not the role names the file is re-read with
				// the names rewritten (type-checked on its own, against the repository's packages)
				if src, err := os.ReadFile(r.Fset.Position(f.Pos()).Filename); err == nil {
					if v, problem := runtimeVocab(string(src)); problem != "" {
						c.Und("R-anchor", "peg.peg.go/runtime names", "peg.peg.go", problem)
						continue
					} else if len(v) > 0 {
						imp := mapImporter{}
						for k, p := range r.Std {
							imp[k] = p
						}
						for k, p := range r.Pkgs {
							imp[k] = p.Types
						}
						in2 := buildInstWith(imp, "peg.peg", applyVocab(string(src), v))
						if len(in2.Errs) > 0 {
							c.Und("R-anchor", "peg.peg.go/runtime names", "peg.peg.go", "after rewriting the runtime's names to their roles the file no longer type-checks on its own: "+in2.Errs[0])
							continue
						}
						in2.Name, in2.Cfg = "peg.peg.go", in.Cfg
						in2.canonOf = r
						in = in2
					}
				}
				good = append(good, in)
				c.Note("template configurations", "peg.peg.go (checked-in instance)")
			}
		}
	}
	return good
}

// emittedTail evaluates the emitter (E1) on a small grammar that uses exactly
// the features of a template valuation and returns the rule-table text it
// prints, so that the runtime rules see real rule functions instead of the
// hand-written stand-in. Valuations the generator cannot produce (HasString:
// string nodes are never constructed) fall back to the stand-in.
func emittedTail(r *Repo, ti *tmplInfo, v map[string]bool) (string, []string, bool) {
	return emittedTailN(r, ti, v, 1)
}

// emittedTailN: the same with nActions actions (Action0 … ActionN-1) when the valuation has actions.
func emittedTailN(r *Repo, ti *tmplInfo, v map[string]bool, nActions int) (string, []string, bool) {
	rg := findRegion(r)
	if len(rg.problems) > 0 {
		return "", nil, false
	}
	var text string
	var imports []string
	ok := false
	func() {
		defer func() { recover() }()
		it := newInterp(r)
		m := newModel(it, modelOpts{Ast: v["Ast"]})
		parts := []*Obj{m.char("a")}
		if v["HasDot"] {
			parts = append(parts, m.query(m.dot()))
		}
		if v["HasString"] {
			// the front end never builds string nodes, the builder API and the emitter know them
			parts = append(parts, m.query(m.str("xy")))
		}
		if v["HasPush"] {
			parts = append(parts, m.push(m.char("b")))
		}
		if v["HasActions"] {
			code := "_ = 0"
			if v["HasPush"] {
				code = "_ = text"
			}
			for k := 0; k < nActions; k++ {
				parts = append(parts, m.action(code))
			}
		}
		parts = append(parts, m.name("A"))
		m.addRule("S", m.seq(parts...), 1)
		m.addRule("A", m.alt(m.seq(m.char("c"), m.star(m.char("d"))), m.peekNot(m.char("e"))), 2)
		m.finish()
		em := m.run(rg)
		if em.Err != "" || em.Tmpl == nil {
			return
		}
		got, err := m.tmplConfigFromTree(em.Tmpl, ti.BoolVars)
		if err != nil {
			return
		}
		for _, b := range ti.BoolVars {
			if got.Bools[b] != v[b] {
				return
			}
		}
		text, imports, ok = em.Text, got.Imports, true
	}()
	return text, imports, ok
}

var reUndefinedPkg = regexp.MustCompile(`undefined: (\w+)$`)
var reUnusedImport = regexp.MustCompile(`"([^"]+)" imported and not used`)

// adjustImports repairs an import list from type errors that are only about
// imports: a missing standard package is added, an unused one dropped. Any
// other error leaves the list alone.
func adjustImports(r *Repo, imps []string, errs []string) ([]string, bool) {
	out := append([]string{}, imps...)
	changed := false
	for _, e := range errs {
		if m := reUnusedImport.FindStringSubmatch(e); m != nil {
			for i, p := range out {
				if p == m[1] {
					out = append(out[:i], out[i+1:]...)
					changed = true
					break
				}
			}
			continue
		}
		if m := reUndefinedPkg.FindStringSubmatch(e); m != nil {
			var cands []string
			for path := range r.Std {
				if path == m[1] || strings.HasSuffix(path, "/"+m[1]) {
					if !strings.Contains(path, "internal") && !strings.Contains(path, "vendor") {
						cands = append(cands, path)
					}
				}
			}
			sort.Strings(cands)
			if len(cands) > 0 && !slices.Contains(out, cands[0]) {
				out = append(out, cands[0])
				changed = true
			}
			continue
		}
		return imps, false
	}
	sort.Strings(out)
	return out, changed
}
