package main

// E5, second part: the closures of Init (reset, add, memoize,
// memoizedResult, parse, matchDot, matchString) evaluated on small parser
// states. Init's body is executed statement by statement in an environment
// the checker keeps, so the closure variables can be read and set.

import (
	"fmt"
	"go/ast"
	"go/constant"
	"go/types"
	"sort"
	"strings"
)

type initEnv struct {
	it   *Interp
	env  *Env
	p    *Obj
	vars map[string]*Cell
}

// findInit: the Init method of the parser struct (the type parseError.p points to).
func findInit(it *Interp) (*ast.FuncDecl, types.Type) {
	peT := it.namedType("parseError")
	if peT == nil {
		return nil, nil
	}
	var parserT types.Type
	if st, ok := peT.Underlying().(*types.Struct); ok {
		for i := 0; i < st.NumFields(); i++ {
			if st.Field(i).Name() == "p" {
				if pt, ok := st.Field(i).Type().(*types.Pointer); ok {
					parserT = pt.Elem()
				}
			}
		}
	}
	if parserT == nil {
		return nil, nil
	}
	name := ""
	if n, ok := parserT.(*types.Named); ok {
		name = n.Obj().Name()
	}
	return it.declOf(name + ".Init"), parserT
}

// newInitEnv runs Init on a fresh parser whose Buffer is text.
func newInitEnv(in *inst, text string, disableMemo bool) (*initEnv, error) {
	return newInitEnvSize(in, text, disableMemo, -1)
}

// newInitEnvSize: as newInitEnv, with the Size(size) option when size ≥ 0 and
// the DisableMemoize() option (rather than the field) when disableMemo.
func newInitEnvSize(in *inst, text string, disableMemo bool, size int) (*initEnv, error) {
	return initOn(in, nil, nil, text, disableMemo, size)
}

// initOn runs Init on a fresh parser, or — when prev is given — once more on
// the parser of an earlier Init (a second Init on a long-lived instance).
func initOn(in *inst, prevIt *Interp, prev *Obj, text string, disableMemo bool, size int) (*initEnv, error) {
	it := prevIt
	if it == nil {
		it = newInstInterp(in)
	}
	fd, parserT := findInit(it)
	if fd == nil {
		return nil, fmt.Errorf("Init not found")
	}
	if prev == nil {
		it.globalInit(instFiles(in), "rul3s")
	}
	p := prev
	if p == nil {
		p = it.newObj(parserT)
	}
	p.field("Buffer").v = text
	if c := p.field("disableMemoize"); c != nil {
		c.v = disableMemo
	}
	env := newEnv(nil)
	if fd.Recv != nil && len(fd.Recv.List[0].Names) == 1 {
		env.define(it.info.Defs[fd.Recv.List[0].Names[0]], p)
	}
	opts := &SliceV{elems: []Value{}}
	if size >= 0 {
		if sd := it.declOf("Size"); sd != nil {
			res := it.callDecl(sd, nil, int64(size))
			opts.elems = append(opts.elems, res[0])
		}
	}
	for _, fld := range fd.Type.Params.List {
		for _, n := range fld.Names {
			env.define(it.info.Defs[n], opts)
		}
	}
	it.steps = 0
	it.execBlock(fd.Body.List, env)
	ie := &initEnv{it: it, env: env, p: p, vars: map[string]*Cell{}}
	for o, c := range env.vars {
		if o != nil {
			ie.vars[o.Name()] = c
		}
	}
	return ie, nil
}

func (ie *initEnv) call(name string, args ...Value) []Value {
	c := ie.vars[name]
	if c == nil {
		panic(undecided{"Init declares no variable named " + name})
	}
	ie.it.steps = 0
	return ie.it.callValue(nil, c.v, args)
}

func (ie *initEnv) int(name string) int64 {
	c := ie.vars[name]
	if c == nil {
		panic(undecided{"Init declares no variable named " + name})
	}
	v, _ := c.v.(int64)
	return v
}

func (ie *initEnv) set(name string, v Value) {
	c := ie.vars[name]
	if c == nil {
		panic(undecided{"Init declares no variable named " + name})
	}
	c.v = v
}

func tokStr(v Value) string {
	o, _ := v.(*Obj)
	if o == nil {
		return "<nil>"
	}
	return fmt.Sprintf("%v[%v,%v]", o.field("pegRule").v, o.field("begin").v, o.field("end").v)
}

// state: what a later observer can see — position, tokenIndex, the live
// prefix of the token buffer, the furthest token.
func (ie *initEnv) state() string {
	ti := ie.int("tokenIndex")
	var toks []string
	if tc := ie.vars["tree"]; tc != nil {
		if to, ok := tc.v.(*Obj); ok {
			if s, ok := to.field("tree").v.(*SliceV); ok && s != nil {
				for i := int64(0); i < ti && int(i) < len(s.elems); i++ {
					toks = append(toks, tokStr(s.elems[i]))
				}
				if int(ti) > len(s.elems) {
					toks = append(toks, fmt.Sprintf("<tokenIndex %d beyond the %d tokens held>", ti, len(s.elems)))
				}
			}
		}
	}
	return fmt.Sprintf("position=%d tokenIndex=%d tokens=[%s] furthest=%s", ie.int("position"), ti, strings.Join(toks, " "), tokStr(ie.furthest()))
}

// furthest: the token Init keeps for the error report — the variable of the
// token type, or the token inside a small tracker struct.
func (ie *initEnv) furthest() Value {
	if c := ie.vars["maxToken"]; c != nil {
		return c.v
	}
	isToken := func(v Value) bool {
		o, ok := v.(*Obj)
		if !ok || o == nil {
			return false
		}
		n, ok := o.t.(*types.Named)
		return ok && n.Obj().Name() == "token"
	}
	var names []string
	for n := range ie.vars {
		names = append(names, n)
	}
	sort.Strings(names)
	for _, n := range names {
		v := ie.vars[n].v
		if isToken(v) {
			return v
		}
		if o, ok := v.(*Obj); ok && o != nil && len(o.fields) <= 2 {
			for _, f := range o.fields {
				if isToken(f.v) {
					return f.v
				}
			}
		}
	}
	panic(undecided{"Init keeps no furthest token (no variable of the token type, plain or inside a tracker)"})
}

// a scripted rule body: advance to absolute positions and add tokens
type step struct {
	pos   int64 // position to move to before the add
	rule  int64
	begin int64
}

func (ie *initEnv) runSteps(steps []step) {
	for _, s := range steps {
		ie.set("position", s.pos)
		ie.call("add", s.rule, s.begin)
	}
}

// rtMemoSemantics: R-memo-semantics — replaying a memoised success leaves
// exactly the state a re-run of the rule would, whatever another branch did
// to the token buffer in between; a memoised failure changes nothing.
func rtMemoSemantics(a *aggregator, v *rtView) {
	cfg := v.in.Name
	construct := "Init/memoize + memoizedResult reproduce the state a re-run would leave"
	if !v.in.Cfg.Bools["Ast"] {
		return
	}
	pos := ""
	if f := v.cl["memoizedResult"]; f != nil {
		pos = v.in.srcPos(f.Pos())
	}
	var bad []string
	und := ""
	n := 0
	const text = "abcdef"
	// rule bodies: starting at p0 with t0 tokens before, k inner tokens, final position p1
	type body struct {
		name  string
		steps func(p0 int64) []step
		end   func(p0 int64) int64
	}
	bodies := []body{
		{"empty match, own token only", func(p0 int64) []step { return []step{{p0, 3, p0}} }, func(p0 int64) int64 { return p0 }},
		{"one rune, own token only", func(p0 int64) []step { return []step{{p0 + 1, 3, p0}} }, func(p0 int64) int64 { return p0 + 1 }},
		{"inner token with the same span", func(p0 int64) []step { return []step{{p0 + 2, 4, p0}, {p0 + 2, 3, p0}} }, func(p0 int64) int64 { return p0 + 2 }},
		{"two inner tokens, the second empty", func(p0 int64) []step { return []step{{p0 + 1, 4, p0}, {p0 + 1, 5, p0 + 1}, {p0 + 2, 3, p0}} }, func(p0 int64) int64 { return p0 + 2 }},
		{"inner token then an empty own suffix", func(p0 int64) []step { return []step{{p0 + 1, 4, p0}, {p0 + 1, 3, p0}} }, func(p0 int64) int64 { return p0 + 1 }},
	}
	garbages := [][]step{
		nil,
		{{1, 7, 0}},
		{{3, 7, 1}, {3, 8, 1}, {4, 9, 1}},
		{{5, 7, 0}, {5, 8, 0}, {5, 9, 0}, {6, 7, 0}},
	}
	prefixes := [][]step{nil, {{0, 6, 0}}, {{1, 6, 0}, {1, 2, 0}}}
	run := func(p0 int64, pre []step, b body, garbage []step, matched bool, replay bool, pregarbage bool) (st string, ret Value) {
		ie, err := newInitEnv(v.in, text, false)
		if err != nil {
			panic(undecided{err.Error()})
		}
		ie.runSteps(pre)
		t0 := ie.int("tokenIndex")
		if pregarbage {
			// an earlier, longer branch from the same point wrote tokens and failed:
			// the token buffer holds a stale tail beyond tokenIndex
			ie.set("position", p0)
			ie.runSteps([]step{{p0 + 1, 7, p0}, {p0 + 2, 8, p0}, {p0 + 3, 9, p0}, {p0 + 3, 7, p0 + 1}})
			ie.set("tokenIndex", t0)
		}
		ie.set("position", p0)
		// first run of the rule
		ie.runSteps(b.steps(p0))
		if !matched {
			// the rule fails after having added tokens: restore, remember the failure
			ie.set("position", p0)
			ie.set("tokenIndex", t0)
		}
		ie.call("memoize", int64(3), p0, t0, matched)
		// the caller backtracks, another branch writes tokens, backtracks again
		ie.set("position", p0)
		ie.set("tokenIndex", t0)
		ie.runSteps(garbage)
		ie.set("position", p0)
		ie.set("tokenIndex", t0)
		if replay {
			// what the rule wrapper does on a memo hit
			mc := ie.vars["memoization"]
			if mc == nil {
				panic(undecided{"Init declares no memoization table"})
			}
			m := memoMapOf(mc.v)
			var entry Value
			if m != nil {
				for _, e := range m.m {
					entry = e
				}
				if len(m.m) != 1 {
					panic(undecided{fmt.Sprintf("the memo table holds %d entries after one memoize call", len(m.m))})
				}
			}
			res := ie.call("memoizedResult", ie.it.copyStruct(entry))
			if len(res) == 1 {
				ret = res[0]
			}
		} else {
			ie.runSteps(b.steps(p0))
			ret = matched
			if !matched {
				ie.set("position", p0)
				ie.set("tokenIndex", t0)
			}
		}
		return ie.state(), ret
	}
	for _, p0 := range []int64{0, 1, 2} {
		for pi, pre := range prefixes {
			if pi > 0 && p0 < pre[len(pre)-1].pos {
				continue
			}
			for _, b := range bodies {
				for gi, g := range garbages {
					for mi, matched := range []bool{true, false, true} {
						pregarbage := mi == 2
						if und != "" {
							break
						}
						func() {
							defer func() {
								if p := recover(); p != nil {
									switch x := p.(type) {
									case nilDeref:
										bad = append(bad, fmt.Sprintf("nil dereference at %s (rule at %d: %s; other branch #%d)", x.pos, p0, b.name, gi))
									case goPanic:
										bad = append(bad, fmt.Sprintf("panic: %s at %s (rule at %d: %s; other branch #%d; matched=%v)", x.msg, x.pos, p0, b.name, gi, matched))
									case undecided:
										und = x.msg
									default:
										panic(p)
									}
								}
							}()
							sReplay, rReplay := run(p0, pre, b, g, matched, true, pregarbage)
							sRerun, rRerun := run(p0, pre, b, g, matched, false, pregarbage)
							n++
							if sReplay != sRerun || rReplay != rRerun {
								bad = append(bad, fmt.Sprintf("rule at offset %d (%s, matched=%v) after %d earlier token(s), other branch #%d in between: a memo hit returns %v leaving {%s}; re-running the rule returns %v leaving {%s}%s", p0, b.name, matched, len(pre), gi, rReplay, sReplay, rRerun, sRerun, map[bool]string{true: " (an earlier longer branch had left stale tokens beyond tokenIndex)", false: ""}[pregarbage]))
							}
						}()
					}
				}
			}
		}
	}
	if und != "" {
		a.Und("R-memo-semantics", construct, cfg, pos, und)
		return
	}
	sort.Slice(bad, func(i, j int) bool { return len(bad[i]) < len(bad[j]) })
	bad = uniq(bad)
	if len(bad) > 3 {
		bad = append(bad[:3], fmt.Sprintf("… %d more", len(bad)-3))
	}
	a.Decide(len(bad) == 0 && n >= 100, "R-memo-semantics", construct, cfg, pos,
		fmt.Sprintf("%d scenarios (rule start 0..2, 0–2 earlier tokens, 5 rule bodies incl. empty matches and inner tokens reaching the end first, 4 intervening branches that overwrite and extend the token buffer, success and failure, with and without a stale tail left by an earlier longer branch): position, tokenIndex, the live token prefix and the furthest token after a memo hit equal those after re-running the rule", n), strings.Join(bad, "; "))
}

// fullState: every closure variable of Init that carries parse state, plus the
// parser's rune buffer (the token buffer is compared up to tokenIndex only).
func (ie *initEnv) fullState() string {
	var extra []string
	if c := ie.vars["memoization"]; c != nil {
		if m := memoMapOf(c.v); m != nil {
			extra = append(extra, fmt.Sprintf("memo entries=%d", len(m.m)))
		} else {
			// a table that is allocated by its first entry holds none
			extra = append(extra, "memo entries=0")
		}
	}
	if c := ie.vars["text"]; c != nil {
		extra = append(extra, fmt.Sprintf("text=%q", c.v))
	}
	runes := func(v Value) string {
		s, ok := v.(*SliceV)
		if !ok || s == nil {
			return "<nil>"
		}
		var sb strings.Builder
		for _, e := range s.elems {
			if r, ok := e.(int64); ok && r == 0x110000 {
				sb.WriteString("<END>")
			} else if ok {
				sb.WriteRune(rune(r))
			}
		}
		return sb.String()
	}
	extra = append(extra, "p.buffer="+runes(ie.p.field("buffer").v))
	if c := ie.vars["buffer"]; c != nil {
		extra = append(extra, "buffer="+runes(c.v))
	}
	return ie.state() + " " + strings.Join(extra, " ")
}

func (ie *initEnv) publishedTokens() string {
	var toks []string
	if tc := ie.p.field("tokens"); tc != nil {
		if to, ok := tc.v.(*Obj); ok {
			if s, ok := to.field("tree").v.(*SliceV); ok && s != nil {
				for _, e := range s.elems {
					toks = append(toks, tokStr(e))
				}
			}
		}
	}
	return "[" + strings.Join(toks, " ") + "]"
}

// astOf calls AST() on the parser's published tokens and renders the result.
func (ie *initEnv) astOf() string {
	tc := ie.p.field("tokens")
	if tc == nil {
		return ""
	}
	// the tree as a user of the parser gets it: the parser's own AST method where it has one
	// (a wrapper, a cache), otherwise the method promoted from the embedded token list
	var fd *ast.FuncDecl
	var recv Value = tc.v
	if n, ok := ie.p.t.(*types.Named); ok {
		if own := ie.it.declOf(n.Obj().Name() + ".AST"); own != nil {
			fd, recv = own, ie.p
		}
	}
	if fd == nil {
		fd = ie.it.declOf("tokens.AST")
	}
	if fd == nil {
		return ""
	}
	ie.it.steps = 0
	res := ie.it.callDecl(fd, recv)
	if len(res) != 1 {
		return ""
	}
	return renderNode(res[0], map[*Obj]bool{}, 0)
}

// setRule installs a scripted entry rule.
func (ie *initEnv) setRule(idx int, branches [][]step, verdict bool) {
	rules, _ := ie.p.field("rules").v.(*SliceV)
	if rules == nil || idx >= len(rules.elems) {
		panic(undecided{"the parser's rule table has no entry " + fmt.Sprint(idx)})
	}
	rules.elems[idx] = &Native{"scripted rule", func(it *Interp, _ []Value) []Value {
		for i, b := range branches {
			if i > 0 {
				// backtrack to the start
				ie.set("position", int64(0))
				ie.set("tokenIndex", int64(0))
			}
			ie.runSteps(b)
		}
		if !verdict {
			ie.set("position", int64(0))
			ie.set("tokenIndex", int64(0))
		}
		return []Value{verdict}
	}}
}

func (ie *initEnv) parse() Value { return ie.parseRule() }

// parseRule calls the parser's public Parse method (with the given rule
// arguments), whatever the plumbing between it and the closure Init installs.
func (ie *initEnv) parseRule(rule ...int64) Value {
	ie.it.steps = 0
	name := ""
	if n, ok := ie.p.t.(*types.Named); ok {
		name = n.Obj().Name()
	}
	fd := ie.it.declOf(name + ".Parse")
	if fd == nil {
		panic(undecided{"the parser has no Parse method"})
	}
	args := &SliceV{elems: []Value{}}
	for _, r := range rule {
		args.elems = append(args.elems, r)
	}
	res := ie.it.callDecl(fd, ie.p, &variadic{args})
	if len(res) == 1 {
		return res[0]
	}
	return nil
}

// entrySemantics: Parse() starts at the first grammar rule (constant 1),
// Parse(k, …) at rule k.
func entrySemantics(v *rtView) (bad []string, und string, n int) {
	defer func() {
		if p := recover(); p != nil {
			switch x := p.(type) {
			case undecided:
				und = x.msg
			case nilDeref:
				bad = append(bad, "nil dereference at "+x.pos)
			case goPanic:
				bad = append(bad, "panic: "+x.msg+" at "+x.pos)
			default:
				panic(p)
			}
		}
	}()
	// the table's size in this instantiation: every rule constant from 1 to the last is a valid start
	last := int64(3)
	if ie0, err := newInitEnv(v.in, "ab", false); err == nil {
		if rules, _ := ie0.p.field("rules").v.(*SliceV); rules != nil && len(rules.elems) > 1 {
			last = int64(len(rules.elems) - 1)
		}
	}
	for _, tc := range []struct {
		args []int64
		want int
	}{{nil, 1}, {[]int64{1}, 1}, {[]int64{2}, 2}, {[]int64{2, 1}, 2}, {[]int64{3}, 3}, {[]int64{last}, int(last)}, {[]int64{last - 1}, int(last - 1)}} {
		if tc.want < 1 {
			continue
		}
		ie, err := newInitEnv(v.in, "ab", false)
		if err != nil {
			return nil, err.Error(), n
		}
		rules, _ := ie.p.field("rules").v.(*SliceV)
		if rules == nil || len(rules.elems) < 3 {
			return nil, "the parser's rule table has fewer than 3 entries", n
		}
		if tc.want >= len(rules.elems) {
			n++ // this grammar has no such rule
			continue
		}
		ran := []int{}
		for i := 1; i < len(rules.elems); i++ {
			i := i
			rules.elems[i] = &Native{"recording rule", func(it *Interp, _ []Value) []Value {
				ran = append(ran, i)
				return []Value{true}
			}}
		}
		ie.parseRule(tc.args...)
		n++
		if len(ran) != 1 || ran[0] != tc.want {
			bad = append(bad, fmt.Sprintf("Parse(%v) runs the rule functions %v, expected exactly rule %d", tc.args, ran, tc.want))
		}
	}
	return bad, "", n
}

// rtReuseSemantics: R-reuse-semantics — Buffer assignment + Reset + Parse on a
// used instance leaves the state, the published tokens and the error a fresh
// instance has.
func rtReuseSemantics(a *aggregator, v *rtView, rule, construct string) {
	cfg := v.in.Name
	pos := ""
	if f := v.cl["p.reset"]; f != nil {
		pos = v.in.srcPos(f.Pos())
	}
	ast := v.in.Cfg.Bools["Ast"]
	var bad []string
	und := ""
	n := 0
	type run struct {
		text     string
		branches [][]step
		verdict  bool
	}
	long := run{"abcdef", [][]step{{{2, 4, 0}, {4, 5, 2}, {6, 6, 4}, {6, 1, 0}}}, true}
	longBack := run{"abcdef", [][]step{{{2, 4, 0}, {4, 5, 2}, {5, 6, 4}}, {{1, 7, 0}, {1, 1, 0}}}, true}
	longFail := run{"abcdef", [][]step{{{2, 4, 0}, {5, 5, 2}}}, false}
	short := run{"ab", [][]step{{{1, 4, 0}, {1, 1, 0}}}, true}
	sameCount := run{"xyz", [][]step{{{3, 4, 0}, {3, 1, 0}}}, true} // as many tokens as short, other spans
	shortFail := run{"ab", [][]step{{{1, 4, 0}}}, false}
	empty := run{"", [][]step{{{0, 1, 0}}}, true}
	emptyFail := run{"", nil, false}
	seqs := [][]run{
		{long, short}, {long, shortFail}, {longBack, short}, {longFail, short}, {longFail, shortFail},
		{short, long}, {short, sameCount}, {long, empty}, {long, emptyFail}, {empty, long}, {longBack, longFail}, {long, longBack},
	}
	do := func(ie *initEnv, r run, first bool) (string, string) {
		if !first {
			ie.p.field("Buffer").v = r.text
			ie.it.steps = 0
			ie.it.callValue(nil, ie.p.field("reset").v, nil)
		}
		afterReset := ie.fullState()
		ie.setRule(1, r.branches, r.verdict)
		res := ie.parse()
		out := "returns nil"
		if o, ok := res.(*Obj); ok && o != nil {
			same := "its own parser"
			if po, _ := o.field("p").v.(*Obj); po != ie.p {
				same = "ANOTHER parser"
			}
			var tokOfErr Value
			for i, f := range o.fields {
				if fo, ok := f.v.(*Obj); ok && fo != nil {
					if n, ok := fo.t.(*types.Named); ok && n.Obj().Name() == "token" {
						tokOfErr = o.fields[i].v
					}
				}
			}
			out = "returns an error for " + tokStr(tokOfErr) + " of " + same
		} else if _, isNil := res.(Nil); !isNil {
			out = "returns " + describe(res)
		}
		if ast {
			if r.verdict {
				out += " tokens=" + ie.publishedTokens() + " AST=" + ie.astOf()
			}
		}
		return afterReset, out + " | " + ie.state()
	}
	for _, sq := range seqs {
		if und != "" {
			break
		}
		func() {
			defer func() {
				if p := recover(); p != nil {
					switch x := p.(type) {
					case nilDeref:
						bad = append(bad, fmt.Sprintf("nil dereference at %s when %q is parsed after %q", x.pos, sq[1].text, sq[0].text))
					case goPanic:
						bad = append(bad, fmt.Sprintf("panic (%s at %s) when %q is parsed after %q", x.msg, x.pos, sq[1].text, sq[0].text))
					case undecided:
						und = x.msg
					default:
						panic(p)
					}
				}
			}()
			size := -1
			if ast {
				size = []int{-1, 0, 1, 2, 64}[n%5]
			}
			used, err := newInitEnvSize(v.in, sq[0].text, false, size)
			if err != nil {
				panic(undecided{err.Error()})
			}
			do(used, sq[0], true)
			gotReset, gotParse := do(used, sq[1], false)
			fresh, _ := newInitEnv(v.in, sq[1].text, false)
			wantReset, wantParse := do(fresh, sq[1], true)
			n++
			// the fresh instance against the definition
			{
				r := sq[1]
				var furthest *step
				fEnd := int64(0)
				for _, b := range r.branches {
					for i := range b {
						st := b[i]
						if st.begin != st.pos && st.pos > fEnd {
							furthest, fEnd = &b[i], st.pos
						}
					}
				}
				def := ""
				if r.verdict {
					def = "returns nil"
					if ast {
						var ts []string
						if len(r.branches) > 0 {
							for _, st := range r.branches[len(r.branches)-1] {
								ts = append(ts, fmt.Sprintf("%d[%d,%d]", st.rule, st.begin, st.pos))
							}
						}
						def += " tokens=[" + strings.Join(ts, " ") + "]"
					}
				} else {
					ft := "0[0,0]"
					if furthest != nil {
						ft = fmt.Sprintf("%d[%d,%d]", furthest.rule, furthest.begin, furthest.pos)
					}
					def = "returns an error for " + ft + " of its own parser"
				}
				plain := wantParse
				if i := strings.Index(plain, " AST="); i >= 0 {
					if j := strings.Index(plain[i:], " | "); j >= 0 {
						plain = plain[:i] + plain[i+j:]
					}
				}
				if !strings.HasPrefix(plain, def+" | ") {
					bad = append(bad, fmt.Sprintf("a fresh parser on %q whose entry rule %s: Parse %s; by definition it %s", r.text, map[bool]string{true: "matches", false: "fails"}[r.verdict], wantParse, def))
				}
			}
			// a second Init on the used instance instead of Reset
			{
				again, err := newInitEnvSize(v.in, sq[0].text, false, size)
				if err == nil {
					do(again, sq[0], true)
					re, err2 := initOn(v.in, again.it, again.p, sq[1].text, false, -1)
					if err2 == nil {
						_, gotAgain := do(re, sq[1], true)
						if gotAgain != wantParse {
							bad = append(bad, fmt.Sprintf("after parsing %q (and building its tree), a second Init and Parse of %q: %s; a fresh parser: %s", sq[0].text, sq[1].text, gotAgain, wantParse))
						}
					}
				}
			}
			if gotReset != wantReset {
				bad = append(bad, fmt.Sprintf("after parsing %q, Buffer=%q and Reset leave {%s}; a fresh parser starts from {%s}", sq[0].text, sq[1].text, gotReset, wantReset))
			} else if gotParse != wantParse {
				bad = append(bad, fmt.Sprintf("after parsing %q, Reset and Parse of %q: %s; a fresh parser: %s", sq[0].text, sq[1].text, gotParse, wantParse))
			}
		}()
	}
	if und != "" {
		a.Und(rule, construct, cfg, pos, und)
		return
	}
	sort.Slice(bad, func(i, j int) bool { return len(bad[i]) < len(bad[j]) })
	bad = uniq(bad)
	if len(bad) > 3 {
		bad = append(bad[:3], fmt.Sprintf("… %d more", len(bad)-3))
	}
	a.Decide(len(bad) == 0 && n >= 10, rule, construct, cfg, pos,
		fmt.Sprintf("%d input pairs (long then short, success/failure in either place, a backtracked branch that wrote more tokens than the final one, the empty input): with the Size option absent, 0, 1, 2 and 64 on the used instance: every closure variable and the rune buffer after Reset, and the verdict, published tokens, error token and state after Parse, equal a fresh instance's", n), strings.Join(bad, "; "))
}

// executeSemantics: R-execute-semantics (C04) — a dedicated instantiation of
// the template whose two actions record what they see; Execute() is evaluated
// on every short token list over a text with multi-byte runes and compared
// with the definition: the actions of the list, once each, in order, with
// text/begin/end of the most recent capture token before them.
func executeSemantics(c *Check, r *Repo) {
	construct := "Execute runs the actions of the token list in order with the latest capture's text"
	ti := loadTemplate(r)
	if ti.Err != nil {
		c.Und("R-execute-semantics", construct, "", "template: "+ti.Err.Error())
		return
	}
	bools := map[string]bool{}
	for _, b := range ti.BoolVars {
		bools[b] = true
	}
	cfg := modelConfig(bools)
	cfg.RuleNames = []string{"S", "A", "PegText", "Action0", "Action1"}
	cfg.StructVar = "trace []string"
	rec := func(id int) string {
		return fmt.Sprintf(`p.trace = append(p.trace, fmt.Sprintf("A%d text=%%q begin=%%d end=%%d buffer=%%q", text, begin, end, buffer))`, id)
	}
	cfg.Actions = []tmplAction{{0, rec(0)}, {1, rec(1)}}
	head, lm, err := ti.instantiate(cfg)
	if err != nil {
		c.Und("R-execute-semantics", construct, "", "instantiate: "+err.Error())
		return
	}
	// the rule table as the emitter prints it for a grammar with these features and two actions
	// (the hand-written stand-in only when the emitter cannot be evaluated)
	tail := syntheticTail(cfg)
	if t2, imps, ok := emittedTailN(r, ti, bools, 2); ok {
		tail = applyVocab(t2, ti.vocabFor(cfg))
		if len(imps) > 0 {
			cfg.Imports = imps
			if head, lm, err = ti.instantiate(cfg); err != nil {
				c.Und("R-execute-semantics", construct, "", "instantiate: "+err.Error())
				return
			}
		}
	}
	in := buildInst(r, "tmpl[execute model]", head+tail)
	for round := 0; round < 4 && len(in.Errs) > 0; round++ {
		// all flags set is a valuation the generator cannot produce: its import list is a guess (see runtimeInstances)
		imps, changed := adjustImports(r, cfg.Imports, in.Errs)
		if !changed {
			break
		}
		cfg.Imports = imps
		if head, lm, err = ti.instantiate(cfg); err != nil {
			break
		}
		in = buildInst(r, "tmpl[execute model]", head+tail)
	}
	in.Cfg, in.LineMap, in.ti = cfg, lm, ti
	if len(in.Errs) > 0 {
		c.Und("R-execute-semantics", construct, "", "the recording instantiation does not type-check: "+in.Errs[0])
		return
	}
	it := newInstInterp(in)
	fd, parserT := findInit(it)
	exe := it.declOf("P.Execute")
	tokenT, tokensT := it.namedType("token"), it.namedType("tokens")
	if fd == nil || exe == nil || tokenT == nil || tokensT == nil {
		c.Und("R-execute-semantics", construct, "", "Execute / Init / token types not found")
		return
	}
	pos := in.srcPos(exe.Pos())
	// rule numbers from the const block: by name in rul3s order (Unknown=0, then RuleNames)
	ruleNo := map[string]int64{}
	for i, n := range cfg.RuleNames {
		ruleNo[n] = int64(i + 1)
	}
	text := []rune("aé世b")
	type tk struct {
		kind string
		b, e int
	}
	var kinds []tk
	for b := 0; b <= len(text); b++ {
		for e := b; e <= len(text) && e <= b+2; e++ {
			kinds = append(kinds, tk{"PegText", b, e})
		}
	}
	kinds = append(kinds, tk{"Action0", 1, 1}, tk{"Action1", 2, 2}, tk{"S", 0, 3}, tk{"A", 1, 2})
	var bad []string
	und := ""
	n := 0
	var lists [][]tk
	var gen func(prefix []tk, l int)
	gen = func(prefix []tk, l int) {
		lists = append(lists, append([]tk{}, prefix...))
		if l == 0 {
			return
		}
		for _, k := range kinds {
			// keep the enumeration small: at most two captures per list
			if k.kind == "PegText" {
				cnt := 0
				for _, p := range prefix {
					if p.kind == "PegText" {
						cnt++
					}
				}
				if cnt >= 2 || (k.b+k.e)%2 == 1 && l < 3 {
					continue
				}
			}
			gen(append(prefix, k), l-1)
		}
	}
	gen(nil, 4)
	for _, list := range lists {
		if und != "" {
			break
		}
		func() {
			defer func() {
				if p := recover(); p != nil {
					switch x := p.(type) {
					case nilDeref:
						bad = append(bad, fmt.Sprintf("Execute dereferences nil at %s on %v", x.pos, list))
					case goPanic:
						bad = append(bad, fmt.Sprintf("Execute panics (%s at %s) on %v", x.msg, x.pos, list))
					case undecided:
						und = x.msg
					default:
						panic(p)
					}
				}
			}()
			p := it.newObj(parserT)
			p.field("Buffer").v = string(text)
			bv := &SliceV{}
			for _, r := range text {
				bv.elems = append(bv.elems, int64(r))
			}
			bv.elems = append(bv.elems, int64(0x110000))
			p.field("buffer").v = bv
			p.field("trace").v = &SliceV{elems: []Value{}}
			ts := it.newObj(tokensT)
			tl := &SliceV{elems: []Value{}}
			var want []string
			wt, wb, we := "", 0, 0
			for _, t := range list {
				to := it.newObj(tokenT)
				to.field("pegRule").v = ruleNo[t.kind]
				to.field("begin").v = int64(t.b)
				to.field("end").v = int64(t.e)
				tl.elems = append(tl.elems, to)
				switch t.kind {
				case "PegText":
					wt, wb, we = string(text[t.b:t.e]), t.b, t.e
				case "Action0", "Action1":
					want = append(want, fmt.Sprintf("A%s text=%q begin=%d end=%d buffer=%q", t.kind[6:], wt, wb, we, string(text)))
				}
			}
			ts.field("tree").v = tl
			p.field("tokens").v = ts
			it.callDecl(exe, p)
			n++
			var got []string
			if s, ok := p.field("trace").v.(*SliceV); ok && s != nil {
				for _, e := range s.elems {
					g, _ := e.(string)
					got = append(got, g)
				}
			}
			if strings.Join(got, " ; ") != strings.Join(want, " ; ") {
				var ls []string
				for _, t := range list {
					ls = append(ls, fmt.Sprintf("%s[%d,%d]", t.kind, t.b, t.e))
				}
				bad = append(bad, fmt.Sprintf("tokens %s over %q: the actions see [%s], by definition [%s]", strings.Join(ls, " "), string(text), strings.Join(got, " ; "), strings.Join(want, " ; ")))
			}
		}()
	}
	if und != "" {
		c.Und("R-execute-semantics", construct, pos, und)
		return
	}
	sort.Slice(bad, func(i, j int) bool { return len(bad[i]) < len(bad[j]) })
	if len(bad) > 3 {
		bad = append(bad[:3], fmt.Sprintf("… %d more", len(bad)-3))
	}
	c.Decide(len(bad) == 0 && n > 500, "R-execute-semantics", construct, pos,
		fmt.Sprintf("%d token lists of at most 4 tokens (captures of 0–2 runes anywhere in a text with 2- and 3-byte runes, two actions, rule tokens) on an instantiation whose actions record text, begin, end and buffer: the recorded trace equals the definition", n), strings.Join(bad, "; "))
}

// rtMatcherSemantics: R-matcher-semantics — matchDot and matchString evaluated
// at every position of short buffers: they succeed exactly when a rune other
// than the end symbol / the literal is there, advance by what they matched,
// leave the position alone otherwise, and never index outside the buffer.
func rtMatcherSemantics(a *aggregator, v *rtView) {
	cfg := v.in.Name
	construct := "Init/matchDot and matchString match, advance and stay in bounds"
	if v.cl["matchDot"] == nil && v.cl["matchString"] == nil {
		return
	}
	pos := ""
	for _, k := range []string{"matchDot", "matchString"} {
		if f := v.cl[k]; f != nil && pos == "" {
			pos = v.in.srcPos(f.Pos())
		}
	}
	bad, und, n := matcherSemantics(v)
	if und != "" {
		a.Und("R-matcher-semantics", construct, cfg, pos, und)
		return
	}
	a.Decide(len(bad) == 0 && n > 10, "R-matcher-semantics", construct, cfg, pos,
		fmt.Sprintf("%d calls: every position (the end symbol's included) of 6 inputs, literals shorter than, equal to and longer than the rest of the input: verdict, new position and no out-of-range index as defined", n), strings.Join(bad, "; "))
}

// matcherSemantics evaluates matchDot and matchString at every position of short inputs.
func matcherSemantics(v *rtView) (bad []string, und string, n int) {
	texts := []string{"", "a", "ab", "aab", "世a", "ab世"}
	lits := []string{"a", "ab", "b", "世", "aa", "abc", "a世", "ab世x"}
	for _, text := range texts {
		if und != "" {
			break
		}
		L := int64(len([]rune(text)))
		for p0 := int64(0); p0 <= L; p0++ {
			func() {
				defer func() {
					if p := recover(); p != nil {
						switch x := p.(type) {
						case nilDeref:
							bad = append(bad, fmt.Sprintf("nil dereference at %s (input %q, position %d)", x.pos, text, p0))
						case goPanic:
							bad = append(bad, fmt.Sprintf("panic: %s at %s (input %q, position %d)", x.msg, x.pos, text, p0))
						case undecided:
							und = x.msg
						default:
							panic(p)
						}
					}
				}()
				ie, err := newInitEnv(v.in, text, false)
				if err != nil {
					panic(undecided{err.Error()})
				}
				rs := []rune(text)
				if ie.vars["matchDot"] != nil {
					ie.set("position", p0)
					res := ie.call("matchDot")
					n++
					got, _ := res[0].(bool)
					want := p0 < L
					wp := p0
					if want {
						wp++
					}
					if got != want || ie.int("position") != wp {
						bad = append(bad, fmt.Sprintf("input %q position %d: matchDot returns %v and leaves position %d (expected %v, %d)", text, p0, got, ie.int("position"), want, wp))
					}
				}
				if ie.vars["matchString"] != nil {
					for _, lit := range lits {
						ie.set("position", p0)
						res := ie.call("matchString", lit)
						n++
						got, _ := res[0].(bool)
						lr := []rune(lit)
						want := int(p0)+len(lr) <= len(rs) && string(rs[p0:int(p0)+len(lr)]) == lit
						wp := p0
						if want {
							wp += int64(len(lr))
						}
						if got != want || ie.int("position") != wp {
							bad = append(bad, fmt.Sprintf("input %q position %d: matchString(%q) returns %v and leaves position %d (expected %v, %d)", text, p0, lit, got, ie.int("position"), want, wp))
						}
					}
				}
			}()
		}
	}
	if und != "" {
		return nil, und, n
	}
	sort.Slice(bad, func(i, j int) bool { return len(bad[i]) < len(bad[j]) })
	bad = uniq(bad)
	if len(bad) > 3 {
		bad = append(bad[:3], fmt.Sprintf("… %d more", len(bad)-3))
	}
	return bad, "", n
}

// bufferSemantics evaluates Init (and then reset with another Buffer on the
// same instance) on inputs that include NUL, the last code point, truncated
// and adjacent invalid UTF-8 bytes: in both places the runes live in (the
// parser's field and the variable captured by the rule functions) the result
// must be []rune(Buffer) followed by the end symbol — one symbol per rune of
// the string, one U+FFFD per invalid byte.
func bufferSemantics(v *rtView) (bad []string, und string, n int) {
	endObj, _ := v.in.Pkg.Scope().Lookup("endSymbol").(*types.Const)
	if endObj == nil {
		return nil, "constant endSymbol not found", 0
	}
	end, _ := constant.Int64Val(endObj.Val())
	texts := []string{"", "a", "ab\x00c", "世界", "\U0010FFFF!", "\xff", "a\xffb", "ab\xff\xfecd", "\xe4\xb8", "x\xf0\x9f\x98", "\xc0\x80", "\xed\xa0\x80", "�\xff�", string(rune(0x10FFFF)) + "\xfe\xfe\xfe",
		"\ufeffab", "a\ufeff", "\ufffe\uffff", " \t\r\n", "\r\nx", "\u0085\u2028\u00a0", "e\u0301", "\U0001F600\u200d\U0001F600"}
	want := func(s string) string {
		rs := append([]rune(s), rune(end))
		out := make([]string, len(rs))
		for i, r := range rs {
			out[i] = fmt.Sprintf("%x", r)
		}
		return strings.Join(out, " ")
	}
	show := func(x Value) string {
		s, ok := x.(*SliceV)
		if !ok || s == nil {
			return "<" + describe(x) + ">"
		}
		out := make([]string, len(s.elems))
		for i, e := range s.elems {
			if r, ok := e.(int64); ok {
				out[i] = fmt.Sprintf("%x", r)
			} else {
				out[i] = "?"
			}
		}
		return strings.Join(out, " ")
	}
	for i, text := range texts {
		if und != "" {
			break
		}
		func() {
			defer func() {
				if p := recover(); p != nil {
					switch x := p.(type) {
					case nilDeref:
						bad = append(bad, fmt.Sprintf("nil dereference at %s (Buffer %q)", x.pos, text))
					case goPanic:
						bad = append(bad, fmt.Sprintf("panic: %s at %s (Buffer %q)", x.msg, x.pos, text))
					case undecided:
						und = x.msg
					default:
						panic(p)
					}
				}
			}()
			ie, err := newInitEnv(v.in, text, false)
			if err != nil {
				panic(undecided{err.Error()})
			}
			check := func(when, buf string) {
				n++
				w := want(buf)
				if c := ie.vars["buffer"]; c == nil {
					panic(undecided{"Init declares no variable named buffer"})
				} else if g := show(c.v); g != w {
					bad = append(bad, fmt.Sprintf("%s with Buffer %q the rule functions read the symbols [%s], the string's runes and the end symbol are [%s]", when, buf, g, w))
				}
				if f := ie.p.field("buffer"); f != nil {
					if g := show(f.v); g != w {
						bad = append(bad, fmt.Sprintf("%s with Buffer %q the parser's rune buffer is [%s], the string's runes and the end symbol are [%s]", when, buf, g, w))
					}
				}
			}
			check("after Init", text)
			// the same instance, another input (Reset's path), twice: the second reset sees a buffer that already ends in the sentinel
			next := texts[(i+5)%len(texts)]
			for k := 0; k < 2; k++ {
				ie.p.field("Buffer").v = next
				ie.it.steps = 0
				ie.it.callValue(nil, ie.p.field("reset").v, nil)
				check("after reset", next)
			}
			ie.it.steps = 0
			ie.it.callValue(nil, ie.p.field("reset").v, nil)
			check("after a reset without a new Buffer", next)
		}()
	}
	sort.Slice(bad, func(i, j int) bool { return len(bad[i]) < len(bad[j]) })
	bad = uniq(bad)
	if len(bad) > 3 {
		bad = append(bad[:3], fmt.Sprintf("… %d more", len(bad)-3))
	}
	return bad, und, n
}

func rtBufferSemantics(a *aggregator, v *rtView) {
	construct := "Init/reset: the symbols read are the runes of Buffer followed by the end symbol"
	pos := ""
	if f := v.cl["p.reset"]; f != nil {
		pos = v.in.srcPos(f.Pos())
	}
	bad, und, n := bufferSemantics(v)
	if und != "" {
		a.Und("R-buffer-semantics", construct, v.in.Name, pos, und)
		return
	}
	a.Decide(len(bad) == 0 && n > 10, "R-buffer-semantics", construct, v.in.Name, pos,
		fmt.Sprintf("%d states: Init and repeated reset on 22 inputs (empty, NUL, astral, truncated sequences, adjacent invalid bytes, surrogates, overlong forms, byte order mark, non-characters, white space and line separators, combining marks): field and captured buffer equal []rune(Buffer)+endSymbol", n), strings.Join(bad, "; "))
}

// memoMapOf: the map behind the memo table, which may be the variable itself
// or sit inside a wrapper struct (of wrapper structs).
func memoMapOf(v Value) *MapV {
	switch x := v.(type) {
	case *MapV:
		return x
	case *Ptr:
		if x != nil && x.cell != nil {
			return memoMapOf(x.cell.v)
		}
	case *Obj:
		if x == nil {
			return nil
		}
		for _, f := range x.fields {
			if m := memoMapOf(f.v); m != nil {
				return m
			}
		}
	}
	return nil
}

// rtEntrySemantics: R-entry-semantics — Parse() starts at rule 1, Parse(k, …) at rule k, for
// every k up to the last rule constant.
func rtEntrySemantics(a *aggregator, v *rtView) {
	construct := "Parse starts at the first rule by default and at the rule asked for otherwise"
	pos := ""
	if f := v.cl["p.parse"]; f != nil {
		pos = v.in.srcPos(f.Pos())
	}
	bad, und, n := entrySemantics(v)
	if und != "" {
		a.Und("R-entry-semantics", construct, v.in.Name, pos, und)
		return
	}
	a.Decide(len(bad) == 0 && n >= 5, "R-entry-semantics", construct, v.in.Name, pos,
		fmt.Sprintf("%d calls of Parse with no, one and two rule arguments, the last rule constant included: exactly the rule asked for runs (rule 1 by default)", n), strings.Join(bad, "; "))
}

// rtErrorStable: R-error-stable — an error returned by Parse is a value the
// caller may keep: its message is the same whenever it is asked for, also after
// the parser that produced it went on to another input (Buffer, Reset, Parse),
// and producing it never panics. Init's closures and parseError.Error are
// evaluated on a failing parse followed by shorter, longer and empty inputs.
func rtErrorStable(a *aggregator, v *rtView) {
	cfg := v.in.Name
	construct := "parseError.Error gives the same message after its parser went on to another input"
	pos := ""
	if f := v.cl["p.parse"]; f != nil {
		pos = v.in.srcPos(f.Pos())
	}
	type run struct {
		text     string
		branches [][]step
		verdict  bool
	}
	firsts := []run{
		{"abcdef", [][]step{{{2, 2, 0}, {5, 1, 2}}}, false},
		{"ab\ncd\nef", [][]step{{{3, 2, 0}, {8, 1, 4}}}, false},
	}
	seconds := []run{
		{"ab", [][]step{{{1, 2, 0}, {1, 1, 0}}}, true},
		{"ab", [][]step{{{1, 2, 0}}}, false},
		{"", nil, false},
		{"", [][]step{{{0, 1, 0}}}, true},
		{"xyzxyzxyzxyz", [][]step{{{7, 2, 0}, {12, 1, 0}}}, true},
		{"x\n\n\nyzxyzxyz", [][]step{{{7, 2, 0}}}, false},
	}
	var bad []string
	und := ""
	n := 0
	for _, f := range firsts {
		for _, s := range seconds {
			if und != "" {
				break
			}
			func() {
				stage := "right after the failed parse"
				defer func() {
					if p := recover(); p != nil {
						switch x := p.(type) {
						case nilDeref:
							bad = append(bad, fmt.Sprintf("Error() of the error for %q dereferences nil at %s %s", f.text, x.pos, stage))
						case goPanic:
							bad = append(bad, fmt.Sprintf("Error() of the error for %q panics (%s at %s) %s", f.text, x.msg, x.pos, stage))
						case undecided:
							und = x.msg
						default:
							panic(p)
						}
					}
				}()
				ie, err := newInitEnvSize(v.in, f.text, false, -1)
				if err != nil {
					panic(undecided{err.Error()})
				}
				fd := ie.it.declOf("parseError.Error")
				if fd == nil {
					panic(undecided{"parseError.Error not found"})
				}
				if !ie.it.globalInit(instFiles(v.in), "rul3s") {
					panic(undecided{"the rule-name table rul3s was not found"})
				}
				ie.setRule(1, f.branches, f.verdict)
				res := ie.parse()
				eo, ok := res.(*Obj)
				if !ok || eo == nil {
					panic(undecided{"Parse of a failing entry rule did not return an error value"})
				}
				m1, _ := ie.it.callDecl(fd, eo)[0].(string)
				stage = fmt.Sprintf("after Buffer = %q, Reset and Parse", s.text)
				ie.p.field("Buffer").v = s.text
				ie.it.steps = 0
				ie.it.callValue(nil, ie.p.field("reset").v, nil)
				ie.setRule(1, s.branches, s.verdict)
				ie.parse()
				m2, _ := ie.it.callDecl(fd, eo)[0].(string)
				n++
				if m1 != m2 {
					bad = append(bad, fmt.Sprintf("the error of the failed parse of %q reads %q; %s the same value reads %q", f.text, m1, stage, m2))
				}
			}()
		}
	}
	if und != "" {
		a.Und("R-error-stable", construct, cfg, pos, und)
		return
	}
	sort.Slice(bad, func(i, j int) bool { return len(bad[i]) < len(bad[j]) })
	bad = uniq(bad)
	if len(bad) > 3 {
		bad = append(bad[:3], fmt.Sprintf("… %d more", len(bad)-3))
	}
	a.Decide(len(bad) == 0 && n >= 12, "R-error-stable", construct, cfg, pos,
		fmt.Sprintf("%d histories (a failed parse, then a shorter, longer or empty input on the same parser, succeeding or failing): the kept error value gives the same message before and after, without a panic", n),
		strings.Join(bad, "; "))
}

// addSemantics: tokens.Add evaluated on token lists of length 0..3 (with and
// without spare capacity) and every index 0..length: below the length the slot
// is overwritten and nothing else changes, at the length the token is appended.
// That is what restores after backtracking rely on.
func addSemantics(v *rtView) (bad []string, und string, n int) {
	it := newInstInterp(v.in)
	fd := it.declOf("tokens.Add")
	tokensT, tokenT := it.namedType("tokens"), it.namedType("token")
	if fd == nil || tokensT == nil || tokenT == nil {
		return nil, "tokens.Add / its types not found", 0
	}
	mk := func(rule, b, e int64) *Obj {
		t := it.newObj(tokenT)
		t.field("pegRule").v, t.field("begin").v, t.field("end").v = rule, b, e
		return t
	}
	show := func(s *SliceV) string {
		var out []string
		if s != nil {
			for _, e := range s.elems {
				out = append(out, tokStr(e))
			}
		}
		return "[" + strings.Join(out, " ") + "]"
	}
	for length := 0; length <= 3; length++ {
		for spare := 0; spare <= 2; spare++ {
			for idx := 0; idx <= length; idx++ {
				func() {
					defer func() {
						if p := recover(); p != nil {
							switch x := p.(type) {
							case nilDeref:
								bad = append(bad, fmt.Sprintf("Add at index %d of %d tokens dereferences nil at %s", idx, length, x.pos))
							case goPanic:
								bad = append(bad, fmt.Sprintf("Add at index %d of %d tokens panics (%s at %s)", idx, length, x.msg, x.pos))
							case undecided:
								und = x.msg
							default:
								panic(p)
							}
						}
					}()
					elems := make([]Value, 0, length+spare)
					var want []string
					for i := 0; i < length; i++ {
						elems = append(elems, mk(int64(i+1), int64(i), int64(i+1)))
						want = append(want, fmt.Sprintf("%d[%d,%d]", i+1, i, i+1))
					}
					tk := it.newObj(tokensT)
					tk.field("tree").v = &SliceV{elems: elems}
					it.callDecl(fd, tk, int64(9), int64(7), int64(8), int64(idx))
					n++
					if idx < length {
						want[idx] = "9[7,8]"
					} else {
						want = append(want, "9[7,8]")
					}
					got, _ := tk.field("tree").v.(*SliceV)
					if g := show(got); g != "["+strings.Join(want, " ")+"]" {
						bad = append(bad, fmt.Sprintf("Add(9, 7, 8, %d) on %d tokens (capacity %d) leaves %s, expected [%s]", idx, length, length+spare, g, strings.Join(want, " ")))
					}
				}()
				if und != "" {
					return nil, und, n
				}
			}
		}
	}
	return uniq(bad), "", n
}
