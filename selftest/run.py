#!/usr/bin/env python3
"""Checker self-test (not a registered command): applies each one-edit variant
from variants.json to a scratch copy of /repo (outside /repo and /verif), runs
the named property check against it, requires it to fail mentioning the
expected text, and removes the copy. Also requires the checks to be silent on
the unchanged tree when --clean is given."""
import json, os, shutil, subprocess, sys, tempfile

ROOT = os.path.dirname(os.path.dirname(os.path.abspath(__file__)))
variants = json.load(open(os.path.join(ROOT, "selftest", "variants.json")))
only = [a for a in sys.argv[1:] if not a.startswith("--")]
fails = 0
for v in variants:
    if only and not any(o in v["name"] or o == v["property"] for o in only):
        continue
    d = tempfile.mkdtemp(prefix="pegsa-selftest-")
    try:
        repo = os.path.join(d, "repo")
        shutil.copytree("/repo", repo, ignore=shutil.ignore_patterns(".git"))
        ok_apply = True
        for e in v["edits"]:
            p = os.path.join(repo, e["file"])
            s = open(p).read()
            if e["old"] not in s:
                print(f"SKIP  {v['name']}: edit no longer applies to {e['file']}")
                ok_apply = False
                break
            s = s.replace(e["old"], e["new"], e.get("count", 1))
            open(p, "w").write(s)
        if not ok_apply:
            continue
        env = dict(os.environ, PEGSA_REPO=repo, PEGSA_EVIDENCE=os.path.join(d, "ev"))
        for prop in v["property"].split(","):
            r = subprocess.run([os.path.join(ROOT, "check"), prop], env=env, capture_output=True, text=True, errors='replace')
            out = r.stdout + r.stderr
            if v.get("silent"):
                hit = r.returncode == 0 and "VIOLATION" not in out
                print(("quiet " if hit else "ALARM ") + f"{prop} {v['name']}")
            else:
                # expected rule names / texts must occur in the report of a failing obligation, not on an "ok" line
                failing, keep = [], False
                for l in out.splitlines():
                    if l.startswith("  FAIL") or l.startswith("  UNDEC"):
                        keep = True
                    elif l.startswith("  ok") or l.startswith("  known"):
                        keep = False
                    if keep:
                        failing.append(l)
                ftxt = "\n".join(failing)
                hit = r.returncode == 1 and "VIOLATION property=" + prop in out and all(x in ftxt for x in v.get("expect", []))
                print(("ok    " if hit else "MISS  ") + f"{prop} {v['name']}")
            if not hit:
                fails += 1
                lines = [l for l in out.splitlines() if "FAIL" in l or "UNDEC" in l or l.startswith("        ")]
                print("\n".join(l[:300] for l in lines[:6]))
    finally:
        shutil.rmtree(d, ignore_errors=True)
sys.exit(1 if fails else 0)
